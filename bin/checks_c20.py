"""C20 — verifier arithmetic gadgets equal their native counterparts.

Plug-in for bin/check (see bin/checks.py). One harness run (`p3r-harness gadgets`) builds every
gadget alone in a circuit, runs it with the real builder/runner, compares the output targets
with the p3 native computation (implementation oracle) and writes the case lines; the Lean
driver `p3r_driver_c20` evaluates the model `P3R.Model.Gadgets` on the same lines; the two
answer streams are compared line by line.
"""
import json, os

PROPERTY = "C20"

CORRESPONDENCE = ("gadgets (recursion/src/verifier/{quotient,periodic}.rs, pcs/fri/targets.rs selectors, "
                  "pcs/fri/verifier.rs evaluate_polynomial / circuit_exp_by_constant / query points, "
                  "builder exp_power_of_2 / mul_many / inner_product / select / div folding; "
                  "p3-dft TwoAdicSubgroupDft::coset_idft as called by periodic.rs::evaluate_one) "
                  "vs lean/P3R/Model/Gadgets.lean, lean/P3R/Model/Idft.lean")


def _read(p):
    with open(p) as fh:
        return [l.rstrip("\n") for l in fh]


def run(ctx):
    tier, seed, work = ctx["tier"], ctx["seed"], ctx["work"]
    out = f"{work}/run0"
    violations = []
    if ctx.get("replay"):
        rp = json.load(open(ctx["replay"]))
        os.makedirs(f"{work}/replay_corpus", exist_ok=True)
        json.dump(rp.get("replay", rp), open(f"{work}/replay_corpus/r.json", "w"))
        corpus, generate, scale = f"{work}/replay_corpus", 0, 1
    else:
        corpus, generate = f"{ctx['root']}/corpus/c20", 1
        scale = 6 if tier == "quick" else 150
    cmd = [ctx["harness"], "gadgets", "--seed", str(seed), "--scale", str(scale), "--out", out,
           "--corpus", corpus, "--generate", str(generate)]
    rc, o = ctx["sh"](cmd, timeout=7200)
    empty = {"evaluations": 0, "distinct_nontrivial": 0, "rule": "", "samples": [], "input_distribution": {},
             "traces_validated_against_impl": 0, "disagreements_checked": 0}
    if rc != 0 or not os.path.exists(f"{out}/c20.report.json"):
        violations.append({"class": "harness-crash", "what": f"harness gadgets exited {rc}: {o[-300:]}",
                           "replay": {"cmd": cmd}, "no_input": True})
        return violations, empty
    rep = json.load(open(f"{out}/c20.report.json"))
    for v in rep["violations"]:
        if v["class"] == "extract-failed":
            violations.append({"class": "model-disagreement",
                               "what": f"correspondence {CORRESPONDENCE} no longer checks: {v['detail']} "
                                       "(private gadget source could not be extracted)",
                               "replay": {"correspondence": CORRESPONDENCE, "detail": v["detail"]},
                               "no_input": True})
            continue
        violations.append({"class": v["class"],
                           "what": f"{v['kind']} {v['class']} {json.dumps(v.get('detail', {}))[:160]} case: {v['line'][:120]}",
                           "replay": v["replay"]})
    # model side
    driver = os.path.join(ctx["driver_dir"], "p3r_driver_c20")
    with open(f"{out}/c20.cases") as fin:
        rc, mo = ctx["sh"]([driver], stdin=fin, timeout=3600)
    with open(f"{out}/c20.model", "w") as fh:
        fh.write(mo)
    impl, model, cases = _read(f"{out}/c20.impl"), _read(f"{out}/c20.model"), _read(f"{out}/c20.cases")
    while model and model[-1] == "":
        model.pop()
    disagreements = 0
    oracle_lines = {v.get("line") for v in rep["violations"]}
    for k in range(max(len(impl), len(model))):
        a = impl[k] if k < len(impl) else None
        b = model[k] if k < len(model) else None
        if a != b:
            disagreements += 1
            if disagreements <= 3:
                case = cases[k] if k < len(cases) else ""
                violations.append({"class": "model-disagreement",
                                   "what": f"correspondence {CORRESPONDENCE} no longer checks: impl={a!r} model={b!r}",
                                   "replay": {"correspondence": CORRESPONDENCE, "case_line": case,
                                              "first_difference": [a, b],
                                              "native_oracle_also_failed": case in oracle_lines},
                                   "no_input": True})
    hist = rep["hist"]
    nontrivial = rep["distinct"]
    # `idft` lines: the model recomputes the build-time coefficient vector from the column; the leading
    # word of the model's answer says whether the theorem's hypotheses hold for the constants the Rust used
    idft_idx = [k for k, c in enumerate(cases) if c.startswith("idft ")]
    idft_agree = sum(1 for k in idft_idx if k < len(impl) and k < len(model) and impl[k] == model[k])
    idft_hyp_fail = sum(1 for k in idft_idx if k < len(model) and model[k].startswith("idft hyp-fail"))
    cov = {"evaluations": rep["evaluations"], "distinct_nontrivial": nontrivial,
           "rule": "one gadget instance per case (exp_power_of_2, exp-by-constant, vanishing polynomial, selectors, "
                   "quotient recomposition, periodic column, polynomial evaluation, final query point, per-height "
                   "evaluation points) over BabyBear^4 and KoalaBear^4; sizes 2^0..2^20(+), shifts {1, GENERATOR, random}, "
                   "chunk counts 1,2,4,8 (x2 with ZK), periods 1..64, polynomial lengths 0..33(+), exponents 0..2^31(+), "
                   "all indices for small sizes; every valid periodic case also carries an `idft` line (column, "
                   "two_adic_generator(log m), m^-1, sub-coset shift and its inverse as the Rust computed them) on which the "
                   "model recomputes the coefficient vector (P3R.Idft.cosetIdftLoop) and is compared with "
                   "Radix2Dit::coset_idft's output; points are random extension elements, small constants, and the special "
                   "points of the domains (first/last/any coset point, 0); distinct = distinct case lines (every case "
                   "builds and runs a real circuit, so none is trivial); each is compared with p3 natively and with the model",
           "samples": rep["samples"][:6], "input_distribution": hist,
           "traces_validated_against_impl": len(impl), "disagreements_checked": disagreements,
           "idft_coefficient_vectors_recomputed_by_model": len(idft_idx),
           "idft_coefficient_vectors_equal_to_rust": idft_agree,
           "idft_theorem_hypotheses_failed_on_rust_constants": idft_hyp_fail,
           "corpus_witnesses_reproduced": rep.get("corpus_witnesses_reproduced", []),
           "extracted_private_functions_from": rep.get("extracted_from"),
           "known_not_reproduced": []}
    return violations, cov


CHECK = {
    "lean_modules": ["P3R.Props.C20", "P3R.Witness.C20", "P3R.Props.C20Idft", "P3R.Witness.C20Idft"],
    "lean_exes": ["p3r_driver_c20"],
    "theorems": [
        "P3R.C20.exp_pow2_eq", "P3R.C20.exp_by_constant_eq", "P3R.C20.exp_by_constant_zero",
        "P3R.C20.vanishing_eq", "P3R.C20.selectors_eq", "P3R.C20.selectors_spec",
        "P3R.C20.lagrange_native_spec", "P3R.C20.quotient_recompose_eq_partial",
        "P3R.C20.quotient_recompose_single",
        "P3R.C20.periodic_eq", "P3R.C20.periodic_interpolates", "P3R.C20.periodic_eq_interpolant", "P3R.C20.horner_poly_eq",
        "P3R.C20.domain_point_eq", "P3R.C20.eval_point_eq",
        "P3R.Witness.C20.quotient_recompose_full_false", "P3R.Witness.C20.witness_falsifies_hz",
        # build-time inverse coset DFT (P3R.Props.C20Idft): discharges `hidft`
        "P3R.C20.orthogonality", "P3R.C20.swapLoop_eq_reverseRows", "P3R.C20.cosetIdftLoop_eq",
        "P3R.C20.cosetIdft_interpolates", "P3R.C20.cosetIdftLoop_interpolates", "P3R.C20.cosetPoints_injective",
        "P3R.C20.periodic_interpolates_total", "P3R.C20.periodic_eq_interpolant_total",
        "P3R.C20.periodic_eq_interpolant_total'", "P3R.C20.periodic_on_trace_domain",
        "P3R.Witness.C20Idft.omega_primitive", "P3R.Witness.C20Idft.coeffs_value",
        "P3R.Witness.C20Idft.interpolates_instance", "P3R.Witness.C20Idft.interpolant_instance",
        "P3R.Witness.C20Idft.trace_domain_instance", "P3R.Witness.C20Idft.swapLoop_odd_differs",
    ],
    "run": run,
    "trusted_base": [
        "executable extension fields Ext p W D of the C20 driver (lean/P3R/Model/ExtField.lean; validated against "
        "p3-field BinomialExtensionField by every correspondence case)",
        "harness/build.rs: textual extraction of the private gadget functions from the p3-recursion tree the harness is built against",
        "value-level gadget models: an expression built by the gadget has the value of the corresponding field "
        "operations (that compilation preserves values is property C02, not re-proved here)",
    ],
    "assumptions": [
        "quotient recomposition: theorem hypothesis hz (zeta is not a root of a chunk domain's vanishing polynomial when "
        "there are >= 2 chunks); violated with probability about N*|D|/|EF| for a Fiat-Shamir zeta; known finding F12",
        "periodic columns: the inverse coset DFT (p3-dft default coset_idft: DFT, divide_by_height, row-swap loop, "
        "coset_shift_cols) is modelled in P3R.Model.Idft and its postcondition (coefficients reproduce the column on the "
        "sub-coset; the former hypothesis hidft) is PROVED for every period m >= 1 invertible in the field, every primitive "
        "m-th root and every invertible shift (cosetIdft_interpolates; periodic_*_total have no hidft/hinj hypothesis); "
        "what is still taken as given: Radix2Dit::dft_batch (bit reversal + DIT butterflies) computes the DFT it is "
        "specified to compute (model = the defining sum) -- validated per periodic case by the `idft` correspondence line "
        "(model-recomputed coefficient vector == Rust's) and by the harness's per-case postcondition check, which is kept; "
        "the constants are a primitive 2^k-th root / inverses (checked per case by the driver, `idft ok`); "
        "two_adic_generator(logN)^(2^folds) = two_adic_generator(log period) (p3; hypothesis of periodic_on_trace_domain "
        "is stated with w = g^(2^folds)); that p3's barycentric interpolate_coset returns the unique interpolant's value "
        "is p3's specification (compared numerically per case)",
        "index-dependent points: index bits are boolean (enforced by the decomposition that produces them); "
        "g_h = g_hMax^(2^(hMax-h)) for p3's two-adic generators (checked numerically by every case)",
        "shapes: chunks.length = domains.length, chunk length = extension degree (proof-shape validation); exponent n >= 1 "
        "and polynomial length >= 1 (guarded by the callers)",
    ],
}

MANIFEST_ENTRY = {
    "property_id": "C20",
    "quick_cmd": "bin/check C20 --tier quick",
    "thorough_cmd": "bin/check C20 --tier thorough",
    "evidence_file": "evidence/C20.json",
    "replay_cmd_template": "bin/check C20 --replay {path}",
    "engine": "lean-models",
    "technique": "Lean 4 theorems over straight-line gadget models for an arbitrary field + differential correspondence "
                 "(real circuit vs model vs p3 native) per gadget",
    "level_claimed": {
        "category": "proof",
        "text": "each gadget model = native model / closed form for every field, size, shift, chunk count, period, "
                "length, exponent, point and index (selectors: unconditional incl. definedness; quotient: under Z_i(zeta) != 0, "
                "negation of the unconditional statement proved on a witness and replayed on the real code); models tied to "
                "the Rust by line-exact comparison of real circuit outputs on generated and edge inputs, private gadgets "
                "compiled from their current source text",
        "design_ref": "4/C20",
    },
    "level_note": "Lean kernel + 3 standard axioms; value-level models (C02 bridges expressions to values); executable "
                  "extension-field instances unverified; the build-time inverse coset DFT is modelled step by step (scale, "
                  "row-swap loop, coset un-shift) and its interpolation postcondition proved for all m, roots, shifts "
                  "(P3R.Props.C20Idft); only the FFT butterfly network = DFT sum is taken as given, and the model's "
                  "coefficient vector is compared with Radix2Dit::coset_idft's on every periodic case",
}
