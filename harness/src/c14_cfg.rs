// Included once per configuration module of `c14.rs`. The including module provides:
//   F, Challenge, D, DIGEST_ELEMS, Dft, Challenger (from p3_test_utils::*_params),
//   ValMmcs, ChMmcs, ThePcs, RecVal, MmcsProof, Opening, OpeningT, CFG, HIDING,
//   mk_mmcs, salts_mut, mk_opening, split_mut, split_t.
// Everything here is concrete in those types: two independent field-by-field walks (proof
// structures: `walk_*`; target structures: `tw_*`) that share nothing with `Recursive::new` /
// `get_values` / `get_private_values` but the naming scheme of `P3R.Model.Packing`.

use p3_field::PrimeField64 as _;
use p3_recursion::pcs::fri::MmcsProofTargets as _;

pub type EF = Challenge;
pub type SC = StarkConfig<ThePcs, Challenge, Challenger>;
pub type Com = p3_symmetric::MerkleCap<F, [F; DIGEST_ELEMS]>;
pub type CapT = p3_recursion::pcs::fri::MerkleCapTargets<F, DIGEST_ELEMS>;
pub type RecExt = p3_recursion::pcs::fri::RecExtensionValMmcs<F, Challenge, DIGEST_ELEMS, RecVal>;
pub type InputT = p3_recursion::pcs::fri::InputProofTargets<F, Challenge, RecVal>;
pub type InnerFriT = p3_recursion::pcs::fri::FriProofTargets<F, Challenge, RecExt, InputT, p3_recursion::pcs::fri::Witness<F>>;
pub type Fri = p3_fri::FriProof<Challenge, ChMmcs, F, Vec<p3_commit::BatchOpening<F, ValMmcs>>>;
pub type UniBuilder = p3_recursion::StarkVerifierInputsBuilder<SC, CapT, OpeningT>;
pub type BatchBuilder = p3_recursion::BatchStarkVerifierInputsBuilder<SC, CapT, OpeningT>;
type Target = p3_recursion::Target;
type Labelled = Vec<(String, Target)>;

// ------------------------------------------------------------------------------- proof-side walk

pub trait Vis {
    /// a base-field element, carried by its circuit input as `EF::from(x)`
    fn base(&mut self, label: String, x: &mut F);
    /// an extension element carried as is
    fn ext(&mut self, label: String, x: &mut EF);
    /// an extension element whose `D` basis coefficients are `D` separate inputs `pre.{start+c}`
    fn coeffs(&mut self, pre: &str, start: usize, x: &mut EF);
}

pub fn key_of(x: EF) -> Vec<u64> {
    let cs: &[F] = x.as_basis_coefficients_slice();
    cs.iter().map(|c| c.as_canonical_u64()).collect()
}

/// Pairwise distinct sentinels; base-typed and extension-typed elements can never coincide
/// (second coefficient 0 vs 7).
pub struct Fill {
    pub next: u32,
}
impl Vis for Fill {
    fn base(&mut self, _l: String, x: &mut F) {
        *x = F::from_u32(self.next);
        self.next += 1;
    }
    fn ext(&mut self, _l: String, x: &mut EF) {
        let n = self.next;
        self.next += 1;
        *x = EF::from_basis_coefficients_fn(|i| if i == 0 { F::from_u32(n) } else if i == 1 { F::from_u32(7) } else { F::ZERO });
    }
    fn coeffs(&mut self, _p: &str, _s: usize, x: &mut EF) {
        let n = self.next;
        self.next += D as u32;
        *x = EF::from_basis_coefficients_fn(|i| F::from_u32(n + i as u32));
    }
}

/// label → value the circuit input of that name must carry
pub struct Collect {
    pub items: Vec<(String, EF)>,
}
impl Vis for Collect {
    fn base(&mut self, l: String, x: &mut F) {
        self.items.push((l, EF::from(*x)));
    }
    fn ext(&mut self, l: String, x: &mut EF) {
        self.items.push((l, *x));
    }
    fn coeffs(&mut self, pre: &str, start: usize, x: &mut EF) {
        let cs: Vec<F> = { let s: &[F] = x.as_basis_coefficients_slice(); s.to_vec() };
        for (c, v) in cs.iter().enumerate() {
            self.items.push((format!("{pre}.{}", start + c), EF::from(*v)));
        }
    }
}

/// add `delta` to the element (or coefficient) called `label`
pub struct Mutate {
    pub label: String,
    pub delta: F,
    pub hit: bool,
}
impl Vis for Mutate {
    fn base(&mut self, l: String, x: &mut F) {
        if l == self.label {
            *x += self.delta;
            self.hit = true;
        }
    }
    fn ext(&mut self, l: String, x: &mut EF) {
        if l == self.label {
            *x += EF::from(self.delta);
            self.hit = true;
        }
    }
    fn coeffs(&mut self, pre: &str, start: usize, x: &mut EF) {
        if !self.label.starts_with(pre) {
            return;
        }
        let cs: Vec<F> = { let s: &[F] = x.as_basis_coefficients_slice(); s.to_vec() };
        for c in 0..cs.len() {
            if format!("{pre}.{}", start + c) == self.label {
                let d = self.delta;
                *x = EF::from_basis_coefficients_fn(|i| if i == c { cs[i] + d } else { cs[i] });
                self.hit = true;
            }
        }
    }
}

pub fn walk_cap(pre: &str, cap: &mut Com, v: &mut dyn Vis) {
    let mut roots: Vec<[F; DIGEST_ELEMS]> = cap.roots().to_vec();
    for (r, d) in roots.iter_mut().enumerate() {
        for (i, x) in d.iter_mut().enumerate() {
            v.base(format!("{pre}.r{r}.{i}"), x);
        }
    }
    *cap = p3_symmetric::MerkleCap::new(roots);
}

fn walk_vec(pre: &str, xs: &mut [EF], v: &mut dyn Vis) {
    for (i, x) in xs.iter_mut().enumerate() {
        v.ext(format!("{pre}.{i}"), x);
    }
}

pub fn walk_ov(pre: &str, o: &mut p3_uni_stark::OpenedValues<EF>, v: &mut dyn Vis) {
    walk_vec(&format!("{pre}.tl"), &mut o.trace_local, v);
    if let Some(t) = &mut o.trace_next {
        walk_vec(&format!("{pre}.tn"), t, v);
    }
    if let Some(t) = &mut o.preprocessed_local {
        walk_vec(&format!("{pre}.pl"), t, v);
    }
    if let Some(t) = &mut o.preprocessed_next {
        walk_vec(&format!("{pre}.pn"), t, v);
    }
    for (j, c) in o.quotient_chunks.iter_mut().enumerate() {
        walk_vec(&format!("{pre}.q{j}"), c, v);
    }
    if let Some(t) = &mut o.random {
        walk_vec(&format!("{pre}.rnd"), t, v);
    }
}

fn walk_mmcs(pre: &str, p: &mut MmcsProof, v: &mut dyn Vis) {
    if let Some(s) = salts_mut(p) {
        for (m, sv) in s.iter_mut().enumerate() {
            for (i, x) in sv.iter_mut().enumerate() {
                v.base(format!("{pre}.salt{m}.{i}"), x);
            }
        }
    }
}

pub fn walk_fri(f: &mut Fri, v: &mut dyn Vis) {
    for (k, c) in f.commit_phase_commits.iter_mut().enumerate() {
        walk_cap(&format!("fri.cpc{k}"), c, v);
    }
    for (k, w) in f.commit_pow_witnesses.iter_mut().enumerate() {
        v.base(format!("fri.cpow.{k}"), w);
    }
    for (q, qp) in f.query_proofs.iter_mut().enumerate() {
        for (b, bo) in qp.input_proof.iter_mut().enumerate() {
            let pre = format!("fri.q{q}.in{b}");
            for (m, row) in bo.opened_values.iter_mut().enumerate() {
                for (i, x) in row.iter_mut().enumerate() {
                    v.base(format!("{pre}.m{m}.{i}"), x);
                }
            }
            walk_mmcs(&pre, &mut bo.opening_proof, v);
        }
        for (k, st) in qp.commit_phase_openings.iter_mut().enumerate() {
            let pre = format!("fri.q{q}.ph{k}");
            for (j, s) in st.sibling_values.iter_mut().enumerate() {
                v.coeffs(&format!("{pre}.sib"), j * D, s);
            }
            walk_mmcs(&pre, &mut st.opening_proof, v);
        }
    }
    walk_vec("fri.final", &mut f.final_poly, v);
    v.base("fri.qpow.0".to_string(), &mut f.query_pow_witness);
}

pub fn walk_opening(o: &mut Opening, v: &mut dyn Vis) {
    let (hid, fri) = split_mut(o);
    if let Some(h) = hid {
        for (r, round) in h.iter_mut().enumerate() {
            for (m, mat) in round.iter_mut().enumerate() {
                for (p, pt) in mat.iter_mut().enumerate() {
                    walk_vec(&format!("hid.r{r}.m{m}.p{p}"), pt, v);
                }
            }
        }
    }
    walk_fri(fri, v);
}

pub fn walk_uni(pis: &mut [F], proof: &mut p3_uni_stark::Proof<SC>, prep: &mut Option<Com>, v: &mut dyn Vis) {
    for (i, x) in pis.iter_mut().enumerate() {
        v.base(format!("air0.{i}"), x);
    }
    walk_cap("com.main", &mut proof.commitments.trace, v);
    walk_cap("com.quot", &mut proof.commitments.quotient_chunks, v);
    if let Some(c) = &mut proof.commitments.random {
        walk_cap("com.rand", c, v);
    }
    walk_ov("ov0", &mut proof.opened_values, v);
    walk_opening(&mut proof.opening_proof, v);
    if let Some(c) = prep {
        walk_cap("prep", c, v);
    }
}

pub fn walk_batch(pis: &mut [Vec<F>], proof: &mut p3_batch_stark::BatchProof<SC>, prep: &mut Option<Com>, v: &mut dyn Vis) {
    for (i, p) in pis.iter_mut().enumerate() {
        for (j, x) in p.iter_mut().enumerate() {
            v.base(format!("air{i}.{j}"), x);
        }
    }
    walk_cap("com.main", &mut proof.commitments.main, v);
    if let Some(c) = &mut proof.commitments.permutation {
        walk_cap("com.perm", c, v);
    }
    walk_cap("com.quot", &mut proof.commitments.quotient_chunks, v);
    if let Some(c) = &mut proof.commitments.random {
        walk_cap("com.rand", c, v);
    }
    for (i, inst) in proof.opened_values.instances.iter_mut().enumerate() {
        let pre = format!("ov{i}");
        walk_ov(&pre, &mut inst.base_opened_values, v);
        walk_vec(&format!("{pre}.prl"), &mut inst.permutation_local, v);
        walk_vec(&format!("{pre}.prn"), &mut inst.permutation_next, v);
    }
    walk_opening(&mut proof.opening_proof, v);
    for (i, t) in proof.lookup_terminals.iter_mut().enumerate() {
        if let Some(t) = t {
            v.ext(format!("term.{i}"), &mut t.0);
        }
    }
    if let Some(c) = prep {
        walk_cap("prep", c, v);
    }
}

// ------------------------------------------------------------------------------ target-side walk

fn tw_cap(pre: &str, t: &CapT, out: &mut Labelled) {
    for (r, d) in t.cap_targets.iter().enumerate() {
        for (i, x) in d.iter().enumerate() {
            out.push((format!("{pre}.r{r}.{i}"), *x));
        }
    }
}
fn tw_vec(pre: &str, t: &[Target], out: &mut Labelled) {
    for (i, x) in t.iter().enumerate() {
        out.push((format!("{pre}.{i}"), *x));
    }
}
fn tw_ov(pre: &str, t: &p3_recursion::OpenedValuesTargets<SC>, out: &mut Labelled) {
    tw_vec(&format!("{pre}.tl"), &t.trace_local_targets, out);
    tw_vec(&format!("{pre}.tn"), &t.trace_next_targets, out);
    if let Some(x) = &t.preprocessed_local_targets {
        tw_vec(&format!("{pre}.pl"), x, out);
    }
    if let Some(x) = &t.preprocessed_next_targets {
        tw_vec(&format!("{pre}.pn"), x, out);
    }
    for (j, c) in t.quotient_chunks_targets.iter().enumerate() {
        tw_vec(&format!("{pre}.q{j}"), c, out);
    }
    if let Some(x) = &t.random_targets {
        tw_vec(&format!("{pre}.rnd"), x, out);
    }
}
fn tw_salts(pre: &str, s: &[Vec<Target>], out: &mut Labelled) {
    for (m, sv) in s.iter().enumerate() {
        tw_vec(&format!("{pre}.salt{m}"), sv, out);
    }
}
fn tw_fri(t: &InnerFriT, out: &mut Labelled) {
    for (k, c) in t.commit_phase_commits.iter().enumerate() {
        tw_cap(&format!("fri.cpc{k}"), c, out);
    }
    for (k, w) in t.commit_pow_witnesses.iter().enumerate() {
        out.push((format!("fri.cpow.{k}"), w.witness));
    }
    for (q, qp) in t.query_proofs.iter().enumerate() {
        for (b, bo) in qp.input_proof.iter().enumerate() {
            let pre = format!("fri.q{q}.in{b}");
            for (m, row) in bo.opened_values.iter().enumerate() {
                tw_vec(&format!("{pre}.m{m}"), row, out);
            }
            tw_salts(&pre, bo.opening_proof.salt_targets(), out);
        }
        for (k, st) in qp.commit_phase_openings.iter().enumerate() {
            let pre = format!("fri.q{q}.ph{k}");
            tw_vec(&format!("{pre}.sib"), &st.sibling_coefficients, out);
            tw_salts(&pre, st.opening_proof.salt_targets(), out);
        }
    }
    tw_vec("fri.final", &t.final_poly, out);
    out.push(("fri.qpow.0".to_string(), t.pow_witness.witness));
}
fn tw_opening(t: &OpeningT, out: &mut Labelled) {
    let (hid, fri) = split_t(t);
    if let Some(h) = hid {
        for (r, round) in h.iter().enumerate() {
            for (m, mat) in round.iter().enumerate() {
                for (p, pt) in mat.iter().enumerate() {
                    tw_vec(&format!("hid.r{r}.m{m}.p{p}"), pt, out);
                }
            }
        }
    }
    tw_fri(fri, out);
}
fn tw_coms(t: &p3_recursion::CommitmentTargets<EF, CapT>, out: &mut Labelled) {
    tw_cap("com.main", &t.trace_targets, out);
    if let Some(c) = &t.permutation_targets {
        tw_cap("com.perm", c, out);
    }
    tw_cap("com.quot", &t.quotient_chunks_targets, out);
    if let Some(c) = &t.random_commit {
        tw_cap("com.rand", c, out);
    }
}
pub fn tw_uni(b: &UniBuilder) -> Labelled {
    let mut out = vec![];
    tw_vec("air0", &b.air_public_targets, &mut out);
    tw_coms(&b.proof_targets.commitments_targets, &mut out);
    tw_ov("ov0", &b.proof_targets.opened_values_targets, &mut out);
    tw_opening(&b.proof_targets.opening_proof, &mut out);
    if let Some(c) = &b.preprocessed_commit {
        tw_cap("prep", c, &mut out);
    }
    out
}

fn take<'a>(v: &'a [Target], off: &mut usize, n: usize) -> &'a [Target] {
    let s = v.get(*off..*off + n).unwrap_or(&[]);
    *off += n;
    s
}

/// `BatchProofTargets::opened_values_targets` (per instance) and `CommonDataTargets::preprocessed`
/// are crate-private; the public `flattened_opened_values_targets` holds the same targets
/// aggregated per kind in instance order, which is split back here with the per-instance lengths
/// of the proof. The preprocessed commitment's targets are identified by elimination in `finish`.
pub fn tw_batch(b: &BatchBuilder, proof: &p3_batch_stark::BatchProof<SC>) -> Labelled {
    let mut out = vec![];
    for (i, p) in b.air_public_targets.iter().enumerate() {
        tw_vec(&format!("air{i}"), p, &mut out);
    }
    tw_coms(&b.proof_targets.commitments_targets, &mut out);
    let fl = &b.proof_targets.flattened_opened_values_targets;
    let base = &fl.opened_values_no_lookups;
    let empty: Vec<Target> = vec![];
    let pl_all = base.preprocessed_local_targets.as_ref().unwrap_or(&empty);
    let pn_all = base.preprocessed_next_targets.as_ref().unwrap_or(&empty);
    let rnd_all = base.random_targets.as_ref().unwrap_or(&empty);
    let (mut o_tl, mut o_tn, mut o_pl, mut o_pn, mut o_q, mut o_rnd, mut o_prl, mut o_prn) = (0, 0, 0, 0, 0, 0, 0, 0);
    for (i, inst) in proof.opened_values.instances.iter().enumerate() {
        let pre = format!("ov{i}");
        let bo = &inst.base_opened_values;
        tw_vec(&format!("{pre}.tl"), take(&base.trace_local_targets, &mut o_tl, bo.trace_local.len()), &mut out);
        tw_vec(&format!("{pre}.tn"), take(&base.trace_next_targets, &mut o_tn, bo.trace_next.as_ref().map_or(0, |v| v.len())), &mut out);
        tw_vec(&format!("{pre}.pl"), take(pl_all, &mut o_pl, bo.preprocessed_local.as_ref().map_or(0, |v| v.len())), &mut out);
        tw_vec(&format!("{pre}.pn"), take(pn_all, &mut o_pn, bo.preprocessed_next.as_ref().map_or(0, |v| v.len())), &mut out);
        for j in 0..bo.quotient_chunks.len() {
            if let Some(c) = base.quotient_chunks_targets.get(o_q) {
                tw_vec(&format!("{pre}.q{j}"), c, &mut out);
            }
            o_q += 1;
        }
        tw_vec(&format!("{pre}.rnd"), take(rnd_all, &mut o_rnd, bo.random.as_ref().map_or(0, |v| v.len())), &mut out);
        tw_vec(&format!("{pre}.prl"), take(&fl.permutation_local_targets, &mut o_prl, inst.permutation_local.len()), &mut out);
        tw_vec(&format!("{pre}.prn"), take(&fl.permutation_next_targets, &mut o_prn, inst.permutation_next.len()), &mut out);
    }
    tw_opening(&b.proof_targets.opening_proof, &mut out);
    for (i, t) in b.proof_targets.lookup_terminals.iter().enumerate() {
        if let Some(t) = t {
            out.push((format!("term.{i}"), *t));
        }
    }
    out
}

// --------------------------------------------------------------------- zero proofs from a shape

fn z_cap(roots: usize) -> Com {
    p3_symmetric::MerkleCap::new(vec![[F::ZERO; DIGEST_ELEMS]; roots])
}
fn z_ov(o: &super::OV) -> p3_uni_stark::OpenedValues<EF> {
    let z = |n: usize| vec![EF::ZERO; n];
    p3_uni_stark::OpenedValues {
        trace_local: z(o.tl),
        trace_next: o.tn.map(z),
        preprocessed_local: o.pl.map(z),
        preprocessed_next: o.pn.map(z),
        quotient_chunks: o.chunks.iter().map(|&n| z(n)).collect(),
        random: o.rnd.map(z),
    }
}
fn z_mmcs(salts: &[usize]) -> MmcsProof {
    mk_mmcs(salts.iter().map(|&n| vec![F::ZERO; n]).collect())
}
fn z_pcs(p: &super::Pcs) -> Opening {
    let f = &p.fri;
    let fri = Fri {
        commit_phase_commits: f.commits.iter().map(|&r| z_cap(r)).collect(),
        commit_pow_witnesses: vec![F::ZERO; f.commit_pow],
        query_proofs: f
            .queries
            .iter()
            .map(|q| p3_fri::QueryProof {
                input_proof: q
                    .input
                    .iter()
                    .map(|b| p3_commit::BatchOpening { opened_values: b.opened.iter().map(|&n| vec![F::ZERO; n]).collect(), opening_proof: z_mmcs(&b.salts) })
                    .collect(),
                commit_phase_openings: q
                    .steps
                    .iter()
                    .map(|s| p3_fri::CommitPhaseProofStep { log_arity: s.log_arity as u8, sibling_values: vec![EF::ZERO; s.siblings], opening_proof: z_mmcs(&s.salts) })
                    .collect(),
            })
            .collect(),
        final_poly: vec![EF::ZERO; f.final_poly],
        query_pow_witness: F::ZERO,
    };
    let hid = p.hid.as_ref().map(|h| h.iter().map(|r| r.iter().map(|m| m.iter().map(|&n| vec![EF::ZERO; n]).collect()).collect()).collect());
    mk_opening(hid, fri)
}

// -------------------------------------------------------------------------------------- sentinel

pub fn sentinel(case: &super::Case) -> super::SentinelRes {
    match &case.shape {
        super::Shape::Uni(u) => sentinel_uni(case, u),
        super::Shape::Batch(b) => sentinel_batch(case, b),
    }
}

fn sentinel_uni(case: &super::Case, u: &super::Uni) -> super::SentinelRes {
    let mut pis = vec![F::ZERO; u.air_pub];
    let mut proof = p3_uni_stark::Proof::<SC> {
        commitments: p3_uni_stark::Commitments { trace: z_cap(u.coms.main), quotient_chunks: z_cap(u.coms.quot), random: u.coms.rand.map(z_cap) },
        opened_values: z_ov(&u.ov),
        opening_proof: z_pcs(&u.pcs),
        degree_bits: 3,
    };
    let mut prep = u.prep.map(z_cap);
    walk_uni(&mut pis, &mut proof, &mut prep, &mut Fill { next: 1000 });
    let mut col = Collect { items: vec![] };
    walk_uni(&mut pis, &mut proof, &mut prep, &mut col);
    let mut cb = p3_circuit::CircuitBuilder::<EF>::new();
    let vi = UniBuilder::allocate(&mut cb, &proof, prep.as_ref(), pis.len());
    let targets = tw_uni(&vi);
    let (pubv, privv) = vi.pack_values(&pis, &proof, &prep);
    finish(case, cb, targets, col.items, pubv, privv, None)
}

pub fn common_with(prep: Option<Com>, n: usize) -> p3_batch_stark::CommonData<SC> {
    p3_batch_stark::CommonData::new(
        prep.map(|c| p3_batch_stark::common::GlobalPreprocessed { commitment: c, instances: vec![None; n], matrix_to_instance: vec![] }),
        vec![Lookups::default(); n],
    )
}

fn sentinel_batch(case: &super::Case, b: &super::Batch) -> super::SentinelRes {
    let n = b.ovs.len();
    let mut pis: Vec<Vec<F>> = b.air_pub.iter().map(|&k| vec![F::ZERO; k]).collect();
    pis.resize(n, vec![]);
    let mut proof = p3_batch_stark::BatchProof::<SC> {
        commitments: p3_batch_stark::BatchCommitments {
            main: z_cap(b.coms.main),
            permutation: b.coms.perm.map(z_cap),
            quotient_chunks: z_cap(b.coms.quot),
            random: b.coms.rand.map(z_cap),
        },
        opened_values: p3_batch_stark::BatchOpenedValues {
            instances: b
                .ovs
                .iter()
                .map(|o| p3_batch_stark::proof::OpenedValuesWithLookups {
                    base_opened_values: z_ov(&o.base),
                    permutation_local: vec![EF::ZERO; o.prl],
                    permutation_next: vec![EF::ZERO; o.prn],
                })
                .collect(),
        },
        opening_proof: z_pcs(&b.pcs),
        lookup_terminals: b.terminals.iter().map(|&t| if t { Some(p3_lookup::LookupTerminal(EF::ZERO)) } else { None }).collect(),
        degree_bits: vec![3; n],
    };
    let mut prep = b.prep.map(z_cap);
    walk_batch(&mut pis, &mut proof, &mut prep, &mut Fill { next: 1000 });
    let mut col = Collect { items: vec![] };
    walk_batch(&mut pis, &mut proof, &mut prep, &mut col);
    let common = common_with(prep.clone(), n);
    let counts: Vec<usize> = pis.iter().map(|p| p.len()).collect();
    let mut cb = p3_circuit::CircuitBuilder::<EF>::new();
    let vi = BatchBuilder::allocate(&mut cb, &proof, &common, &counts);
    let targets = tw_batch(&vi, &proof);
    let (pubv, privv) = vi.pack_values(&pis, &proof, &common);
    finish(case, cb, targets, col.items, pubv, privv, b.prep)
}

/// Build and run the allocation-only circuit, read every input back, print the implementation's
/// answer lines, judge the oracle conditions.
fn finish(
    case: &super::Case,
    cb: p3_circuit::CircuitBuilder<EF>,
    targets: Labelled,
    elements: Vec<(String, EF)>,
    pubv: Vec<EF>,
    privv: Vec<EF>,
    elim_prep: Option<usize>,
) -> super::SentinelRes {
    use serde_json::json;
    use std::collections::HashMap;
    let mut viol: Vec<(String, serde_json::Value)> = vec![];
    let mut notes: Vec<String> = vec![];
    let wf = case.shape.pcs().wf();
    let circuit = match cb.build() {
        Ok(c) => c,
        Err(e) => {
            viol.push(("alloc-circuit-build-failed".into(), json!(format!("{e:?}"))));
            return super::SentinelRes { lines: vec!["build-failed".into()], violations: viol, notes, n_inputs: 0 };
        }
    };
    let pub_rows: HashMap<u32, usize> = circuit.public_rows.iter().enumerate().map(|(i, w)| (w.0, i)).collect();
    let priv_rows: HashMap<u32, usize> = circuit.private_input_rows.iter().enumerate().map(|(i, w)| (w.0, i)).collect();
    // every input expression, in allocation (= ExprId) order
    let mut inputs: Vec<(Target, char, usize)> = circuit
        .expr_to_widx
        .iter()
        .filter_map(|(e, w)| pub_rows.get(&w.0).map(|p| (*e, 'P', *p)).or_else(|| priv_rows.get(&w.0).map(|p| (*e, 'S', *p))))
        .collect();
    inputs.sort();
    let mut label_of: HashMap<Target, String> = HashMap::new();
    let mut dup_target = false;
    for (l, t) in &targets {
        if label_of.insert(*t, l.clone()).is_some() {
            dup_target = true;
        }
    }
    // batch: the preprocessed commitment's targets are not reachable from outside the crate
    if let Some(roots) = elim_prep {
        let unl: Vec<Target> = inputs.iter().filter(|(e, v, _)| *v == 'P' && !label_of.contains_key(e)).map(|x| x.0).collect();
        if unl.len() == roots * DIGEST_ELEMS {
            for (k, e) in unl.iter().enumerate() {
                label_of.insert(*e, format!("prep.r{}.{}", k / DIGEST_ELEMS, k % DIGEST_ELEMS));
            }
            notes.push("prep-targets-by-elimination".into());
        }
    }
    let elem: HashMap<String, EF> = elements.iter().cloned().collect();
    let by_val: HashMap<Vec<u64>, String> = elements.iter().map(|(l, v)| (key_of(*v), l.clone())).collect();
    let distinct = !dup_target && elem.len() == elements.len() && by_val.len() == elements.len();
    let lab = |e: &Target| label_of.get(e).cloned().unwrap_or_else(|| "?".into());
    let name = |v: &EF| by_val.get(&key_of(*v)).cloned().unwrap_or_else(|| "?".into());
    let mut lines = vec![];
    lines.push(format!("alloc {} {}", inputs.len(), inputs.iter().map(|(e, v, _)| format!("{v}:{}", lab(e))).collect::<Vec<_>>().join(" ")));
    lines.push(format!("pub {} {}", pubv.len(), pubv.iter().map(name).collect::<Vec<_>>().join(" ")));
    lines.push(format!("priv {} {}", privv.len(), privv.iter().map(name).collect::<Vec<_>>().join(" ")));
    lines.push(format!("flat {} {}", circuit.public_flat_len, circuit.private_flat_len));
    lines.push(format!("meta wf={} distinct={}", wf as u8, distinct as u8));

    // ---- oracle
    if pubv.len() != circuit.public_flat_len {
        viol.push(("length-mismatch:public".into(), json!({"packed": pubv.len(), "public_flat_len": circuit.public_flat_len})));
    }
    // (since /repo fc0321f also for malformed sibling counts: allocation and packing both read
    // `sibling_values.len()`)
    if privv.len() != circuit.private_flat_len {
        viol.push(("length-mismatch:private".into(), json!({"packed": privv.len(), "private_flat_len": circuit.private_flat_len, "wf": wf})));
    }
    for (e, v, _) in &inputs {
        if !label_of.contains_key(e) {
            viol.push((format!("unlabelled-input:{v}"), json!({"expr": e.0})));
            break;
        }
    }
    let mut runner = circuit.runner();
    let r1 = runner.set_public_inputs(&pubv);
    let r2 = runner.set_private_inputs(&privv);
    let refused = r1.is_err() || r2.is_err();
    if refused {
        let msg = format!("{:?} {:?}", r1.err(), r2.err()).chars().take(160).collect::<String>();
        // a malformed sibling count is the verifier-circuit builder's business (`sibcheck` leg), not
        // the runner's: the packed vectors have the allocated lengths
        viol.push((if wf { "packed-vectors-refused" } else { "packed-vectors-refused:malformed-siblings" }.into(), json!(msg)));
    } else if !wf {
        notes.push("malformed-siblings.vectors-accepted".into());
    }
    if !refused {
        match runner.run() {
            Err(e) => viol.push(("alloc-circuit-run-failed".into(), json!(format!("{e:?}").chars().take(160).collect::<String>()))),
            Ok(traces) => {
                let mut seen = std::collections::HashSet::new();
                for (e, _v, _pos) in &inputs {
                    let Some(l) = label_of.get(e) else { continue };
                    seen.insert(l.clone());
                    let w = circuit.expr_to_widx[e];
                    let got = traces.witness_trace.get_value(w).copied();
                    match (elem.get(l), got) {
                        (None, _) => viol.push((format!("target-without-element:{}", super::kind_of(l)), json!({"target": l}))),
                        (Some(want), Some(g)) if *want == g => {}
                        (Some(_), g) => viol.push((
                            format!("target-carries-wrong-element:{}", super::kind_of(l)),
                            json!({"target": l, "carries": g.map(|g| name(&g)).unwrap_or_else(|| "unset".into())}),
                        )),
                    }
                }
                for (l, _) in &elements {
                    if !seen.contains(l) {
                        viol.push((format!("element-without-target:{}", super::kind_of(l)), json!({"element": l})));
                        break;
                    }
                }
            }
        }
    }
    super::SentinelRes { lines, violations: viol, notes, n_inputs: inputs.len() }
}
