/-
C11 (Poseidon circuit tables, control part) — rows the table accepts although the operation does not allow
them, on concrete windows of the model `P3R.Model.PoseidonCtl` (the same functions the driver evaluates
against the real `Poseidon2CircuitAir::eval` on every run). Each witness is replayed on the real AIR by
`harness/src/c11p_chain.rs` (`replay_witnesses` and the tamper oracle) on every run.

Toy instance: generic layout, `D = 1`, `WIDTH_EXT = 2`, `RATE_EXT = 1` (arity 2), field ℤ/101; the
"permutation" is arbitrary (the control constraints never relate a row's outputs to its inputs).

* `acc_start_free` (known finding F-C08-5c): a Merkle chain `start, bit 1, bit 0` whose index is exposed on the
  last row. The start row carries accumulator 5 (the op's value is 0); every control constraint of every
  window of the table vanishes and the table sends `(30, 22)` on the bus, while the bits say 2.
* `exposed_index_is_bits_false`: the negation of "on every accepted run the exposed accumulator is the bits
  read as a binary number".
* `new_start_limb_free` (finding F-C11-P1): generic layout, sponge chain start whose capacity limb is not fed
  from a witness (`in_ctl = 0`; `add_hash_slice`, `add_hash_base_coeffs_overwrite` build such rows for D ≥ 2):
  the op's fresh state is 0, the table accepts every value, and the limb is sent with multiplicity 0.
* `compact_start_rejects`: the compact `D = 1` layout does reject that (its explicit start constraint).
-/
import Mathlib.Data.ZMod.Basic
import Mathlib.Algebra.Field.ZMod
import Mathlib.Tactic.NormNum.Prime
import P3R.Props.C11P

namespace P3R.Witness.C11P
open P3R P3R.C11P

abbrev Q := ZMod 101

instance : Fact (Nat.Prime 101) := ⟨by norm_num⟩

/-- generic layout, arity 2: `D = 1`, `WIDTH_EXT = 2`, `RATE_EXT = 1`, `CAPACITY_EXT = 1`, bus width 1 -/
def L2 : PosLayout := ⟨1, 2, 1, 1, 1⟩

-- preprocessed rows (14 columns): limb0 (idx, in_ctl, normal_sel, merkle_sel), limb1 (…), out0 (idx, out_ctl),
-- tail (sum_idx, merkle_flag, new_start, merkle_path)
/-- Merkle chain start: leaf digest limb fed from witness 10 -/
def prepStart : List Q := [10, 1, 0, 0,  0, 0, 0, 0,  0, 0,  0, 0, 1, 1]
/-- Merkle continuation row, digest limb chained -/
def prepMid : List Q := [0, 0, 0, 1,  0, 0, 0, 0,  0, 0,  0, 0, 0, 1]
/-- last Merkle row: root exposed at 20, accumulator exposed at 30 -/
def prepLast : List Q := [0, 0, 0, 1,  0, 0, 0, 0,  20, 1,  30, 1, 0, 1]
/-- first padding row: chain boundary -/
def prepPad : List Q := [0, 0, 0, 0,  0, 0, 0, 0,  0, 0,  0, 0, 1, 0]

def r0 : PosRow Q := ⟨[3, 4], [50, 51], 0, 0, 0, 5⟩      -- accumulator 5 on the start row
def r1 : PosRow Q := ⟨[9, 50], [60, 61], 1, 0, 0, 11⟩    -- bit 1: digest on the right, 2·5 + 1
def r2 : PosRow Q := ⟨[60, 8], [70, 71], 0, 0, 0, 22⟩    -- bit 0: digest on the left, 2·11 + 0
def pad : PosRow Q := ⟨[0, 0], [1, 2], 0, 0, 0, 0⟩

/-- **F-C08-5c on the model.** All windows of the 4-row table accept; the bus carries index 22 for bits `10`. -/
theorem acc_start_free :
    (∀ c ∈ poseidonCtlConstraints L2 (1 : Q) r0 r1 prepMid, c = 0) ∧
    (∀ c ∈ poseidonCtlConstraints L2 (1 : Q) r1 r2 prepLast, c = 0) ∧
    (∀ c ∈ poseidonCtlConstraints L2 (1 : Q) r2 pad prepPad, c = 0) ∧
    (∀ c ∈ poseidonCtlConstraints L2 (0 : Q) pad r0 prepStart, c = 0) ∧
    (poseidonCtlInteractions L2 r2 prepLast prepPad).getLast? = some ([30, 22], -1) ∧
    natOfBits [true, false] = 2 ∧ (22 : Q) ≠ ((natOfBits [true, false] : Nat) : Q) := by
  decide

/-- the same run with the op's start value 0 exposes 2 -/
theorem acc_start_honest :
    (∀ c ∈ poseidonCtlConstraints L2 (1 : Q) { r0 with idxSum := 0 } { r1 with idxSum := 1 } prepMid, c = 0) ∧
    (∀ c ∈ poseidonCtlConstraints L2 (1 : Q) { r1 with idxSum := 1 } { r2 with idxSum := 2 } prepLast, c = 0) ∧
    (poseidonCtlInteractions L2 { r2 with idxSum := 2 } prepLast prepPad).getLast? = some ([30, 2], -1) := by
  decide

/-- ¬ (every accepted run of continuation rows exposes the bits read as a binary number) -/
theorem exposed_index_is_bits_false :
    ¬ ∀ (s0 : Q) (bits : List Bool) (sums : List Q),
        accChain2Ok s0 ((bits.map fun b => if b then (1 : Q) else 0).zip sums) →
        (s0 :: sums).getLast (List.cons_ne_nil _ _) = ((natOfBits bits : Nat) : Q) := by
  intro h
  have h1 := h 5 [true, false] [11, 22] (by simp only [List.map, List.zip, List.zipWith, accChain2Ok, accCons2]; decide)
  have h2 : (22 : Q) = 2 := by simpa [natOfBits] using h1
  exact absurd h2 (by decide)

/-- sponge chain start: rate limb fed from witness 10, capacity limb *not* fed, output exposed at 20 -/
def prepSpongeStart : List Q := [10, 1, 0, 0,  0, 0, 0, 0,  20, 1,  0, 0, 1, 0]

/-- **F-C11-P1 on the model.** Whatever the capacity cell of a generic-layout sponge chain start holds, the
window is accepted (instance of `C11P.generic_chain_start_free`) … -/
theorem new_start_limb_free (x : Q) (tr : Q) :
    ∀ c ∈ poseidonCtlConstraints L2 tr pad ⟨[3, x], [50, 51], 0, 0, 0, 0⟩ prepSpongeStart, c = 0 := by
  have : poseidonCtlConstraints L2 tr pad ⟨[3, x], [50, 51], 0, 0, 0, 0⟩ prepSpongeStart
      = genericConstraints L2 tr pad ⟨[3, x], [50, 51], 0, 0, 0, 0⟩ prepSpongeStart := by
    simp [poseidonCtlConstraints, L2, PosLayout.arity4, PosLayout.compact]
  rw [this]
  apply generic_chain_start_free
  · left; rfl
  · intro limb hl
    have h : limb = 0 ∨ limb = 1 := by simp [L2] at hl; omega
    rcases h with rfl | rfl <;> decide
  · intro i hi
    have h : i = 0 := by simp [L2] at hi; omega
    subst h; decide
  · decide

/-- … and the forged cell (77 where the op's fresh state is 0) is sent with multiplicity 0, the row after it
is accepted too, and the exposed output is whatever the permutation makes of the forged state. -/
theorem new_start_limb_free_bus :
    (∀ c ∈ poseidonCtlConstraints L2 (1 : Q) ⟨[3, 77], [50, 51], 0, 0, 0, 0⟩ pad prepPad, c = 0) ∧
    ((poseidonCtlInteractions L2 ⟨[3, 77], [50, 51], 0, 0, 0, 0⟩ prepSpongeStart prepPad)
      = [([10, 3], -1), ([0, 77], 0), ([20, 50], 1), ([0, 0], 0)]) := by
  decide

/-- compact `D = 1` width-16 layout -/
def L16 : PosLayout := ⟨1, 16, 8, 8, 1⟩

/-- compact preprocessed row of a sponge chain start (62 columns): all rate limbs fed, tag 0,
`cap_chain_enable = 0`, tail `(0, 0, new_start = 1, merkle_path = 0)` -/
def prepCompactStart : List Q :=
  List.replicate 8 1 ++ [0, 0] ++ List.replicate 16 0 ++ List.replicate 32 0 ++ [0, 0, 1, 0]

def zrow : PosRow Q := ⟨List.replicate 16 0, List.replicate 16 0, 0, 0, 0, 0⟩

/-- the compact layout rejects a non-zero capacity cell on a sponge chain start, and accepts zero capacity -/
theorem compact_start_rejects :
    (¬ ∀ c ∈ poseidonCtlConstraints L16 (1 : Q) zrow
        ⟨List.replicate 9 0 ++ [77] ++ List.replicate 6 0, List.replicate 16 0, 0, 0, 0, 0⟩ prepCompactStart, c = 0) ∧
    (∀ c ∈ poseidonCtlConstraints L16 (1 : Q) zrow
        ⟨[1, 2, 3, 4, 5, 6, 7, 8] ++ List.replicate 8 0, List.replicate 16 0, 0, 0, 0, 0⟩ prepCompactStart, c = 0) := by
  decide

/-! ### arity 4: the booleanity check of the high direction cell is needed (seed C11-d)

Toy arity-4 layout `D = 1`, `WIDTH_EXT = 4`, `RATE_EXT = 3`, `CAPACITY_EXT = 1` (four one-limb chunks), generic
preprocessed rows of `4·4 + 2·3 + 4 = 26` columns. The coordinated forgery of `harness/src/c11p_chain.rs`
(`forge_selector`, cell `mmcs_bit2`, `t = 2`): continuation row with `mmcs_bit = 0`, `mmcs_bit2 = 2`, helper 0, the
digest 50 in chunk 0 AND chunk 2, accumulator `4·0 + 2·2 = 4`. -/

def L4 : PosLayout := ⟨1, 4, 3, 1, 1⟩

/-- Merkle continuation row, every slot chained (`merkle_chain_sel = 1`), bit lookups at witnesses 30 / 31 -/
def prep4Mid : List Q := [0, 0, 0, 1,  0, 0, 0, 1,  0, 0, 0, 1,  0, 0, 0, 1,  0, 0,  0, 0,  0, 0,  30, 31, 0, 1]
/-- chain boundary (padding) -/
def prep4Pad : List Q := [0, 0, 0, 0,  0, 0, 0, 0,  0, 0, 0, 0,  0, 0, 0, 0,  0, 0,  0, 0,  0, 0,  0, 0, 1, 0]

/-- chain start: digest 50 -/
def q0 : PosRow Q := ⟨[3, 4, 5, 6], [50, 51, 52, 53], 0, 0, 0, 0⟩
/-- the forged continuation row: `b0 = 0`, `b1 = 2`, helper `0 = 0·2`, digest in chunks 0 and 2, accumulator 4 -/
def qF : PosRow Q := ⟨[50, 9, 50, 8], [60, 61, 62, 63], 0, 2, 0, 4⟩
def pad4 : PosRow Q := ⟨[0, 0, 0, 0], [1, 2, 3, 4], 0, 0, 0, 0⟩

/-- **Every constraint but `assert_bool(mmcs_bit2)` accepts the forged row.** (a) the window in which the forged row is
the *next* row (placement, accumulator) is accepted outright; (b) in the window in which it is the *local* row exactly
one constraint is non-zero: #1, the booleanity of the high direction cell; (c) with the booleanity asserted on the product
helper instead (seed C11-d) that window is accepted too; (d) the row is no Merkle step: weights `(−1, 0, 2, 0)`, claimed
position `b0 + 2·b1 = 4`, and the table sends `(31, 2)` as the high direction bit. -/
theorem arity4_bit2_check_needed :
    (∀ c ∈ poseidonCtlConstraints L4 (1 : Q) q0 qF prep4Mid, c = 0) ∧
    (∀ c ∈ (poseidonCtlConstraints L4 (1 : Q) qF pad4 prep4Pad).eraseIdx 1, c = 0) ∧
    (poseidonCtlConstraints L4 (1 : Q) qF pad4 prep4Pad)[1]? = some (boolCons qF.bit2) ∧ boolCons qF.bit2 ≠ 0 ∧
    (∀ c ∈ (poseidonCtlConstraints L4 (1 : Q) qF pad4 prep4Pad).set 1 (boolCons qF.bitProd), c = 0) ∧
    ((List.range 4).map (arity4Hot qF) = [-1, 0, 2, 0]) ∧ qF.bit + 2 * qF.bit2 = 4 ∧
    (poseidonCtlInteractions L4 qF prep4Mid prep4Pad).getLast? = some ([31, 2], -1) := by
  decide

/-- the real constraint list does reject the forged row, and accepts the honest position-0 row with the same cells -/
theorem arity4_bit2_forgery_rejected :
    (¬ ∀ c ∈ poseidonCtlConstraints L4 (1 : Q) qF pad4 prep4Pad, c = 0) ∧
    (∀ c ∈ poseidonCtlConstraints L4 (1 : Q) q0 { qF with bit2 := 0, idxSum := 0 } prep4Mid, c = 0) ∧
    (∀ c ∈ poseidonCtlConstraints L4 (1 : Q) { qF with bit2 := 0, idxSum := 0 } pad4 prep4Pad, c = 0) := by
  decide

/-- instance of `C11P.arity4Hot_onehot_iff`: the forged row has no one-hot position -/
theorem arity4_forged_not_onehot :
    ¬ ∃ pos < 4, ∀ k < 4, arity4Hot qF k = if k = pos then 1 else 0 :=
  arity4Hot_bit2_free_not_onehot (2 : Q) 4 [50, 9, 50, 8] [60, 61, 62, 63] (by decide) (by decide)

end P3R.Witness.C11P
