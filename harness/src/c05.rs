//! C05 — in-circuit Fiat–Shamir transcript equals the native transcript.
//!
//! For every generated challenger history the harness
//!  * drives the real `p3_challenger::DuplexChallenger` (native side, the oracle of the property),
//!  * builds a circuit with the real `CircuitChallenger` in which every observed value is a
//!    *public input* (so nothing is constant-folded) or a *derived target* (`Op::ObsDer`: an
//!    expression over earlier sampled / observed targets of the same history built with the real
//!    `add` / `mul` / `mul_add` / `select` / `recompose_base_coeffs_to_ext`, as the verifier does
//!    before `observe_ext`; the native side computes the value from ITS OWN samples), runs it with
//!    `CircuitRunner::run` and reads the sampled targets back through `tag`/`probe`,
//!  * records every (input → output) pair the real permutation produced on either side
//!    (a recording wrapper around the real Poseidon1/Poseidon2 instance).
//!
//! Output: `<out>/transcript.cases` (history + recorded permutation table, input of the Lean
//! driver `p3r_driver_c05`), `<out>/transcript.impl` (what the two real implementations
//! answered, in the driver's output format) and `<out>/transcript.report.json`.
//! A *violation* is reported when the real circuit and the real native challenger differ
//! (the property fails on the code). Model ≠ implementation is found by `bin/check` diffing
//! the `.impl` stream against the driver's output.

use std::collections::BTreeMap;
use std::fmt::Write as _;
use std::io::Write as _;
use std::panic::{AssertUnwindSafe, catch_unwind};
use std::sync::atomic::{AtomicBool, Ordering};
use std::sync::{Arc, Mutex};

use p3_baby_bear::BabyBear;
use p3_challenger::{CanObserve, CanSample, CanSampleBits, DuplexChallenger, FieldChallenger};
use p3_circuit::{CircuitBuilder, ExprId};
use p3_circuit::ops::{
    Poseidon1Config, Poseidon2Config, generate_poseidon1_trace, generate_poseidon2_trace,
    generate_recompose_trace,
};
use p3_field::extension::BinomialExtensionField;
use p3_field::{BasedVectorSpace, ExtensionField, PrimeField64};
use p3_goldilocks::Goldilocks;
use p3_koala_bear::KoalaBear;
use p3_recursion::challenger::CircuitChallenger;
use p3_recursion::challenger_perm::ChallengerPermConfig;
use p3_recursion::traits::RecursiveChallenger;
use p3_symmetric::{CryptographicPermutation, Permutation};
use serde_json::{Value, json};

use crate::rng::Rng;

// ---------------------------------------------------------------- recording permutation

type Log = Arc<Mutex<Vec<(Vec<u64>, Vec<u64>)>>>;

#[derive(Clone)]
pub struct Rec<P, F, const W: usize> {
    inner: P,
    log: Log,
    on: Arc<AtomicBool>,
    _f: core::marker::PhantomData<F>,
}

impl<P, F, const W: usize> Rec<P, F, W> {
    fn new(inner: P) -> Self {
        Self {
            inner,
            log: Arc::new(Mutex::new(Vec::new())),
            on: Arc::new(AtomicBool::new(true)),
            _f: core::marker::PhantomData,
        }
    }
}

impl<P, F, const W: usize> Permutation<[F; W]> for Rec<P, F, W>
where
    P: Permutation<[F; W]>,
    F: PrimeField64,
{
    fn permute_mut(&self, input: &mut [F; W]) {
        let i: Vec<u64> = input.iter().map(|x| x.as_canonical_u64()).collect();
        self.inner.permute_mut(input);
        if self.on.load(Ordering::Relaxed) {
            let o: Vec<u64> = input.iter().map(|x| x.as_canonical_u64()).collect();
            self.log.lock().unwrap().push((i, o));
        }
    }
}
impl<P, F, const W: usize> CryptographicPermutation<[F; W]> for Rec<P, F, W>
where
    P: Permutation<[F; W]>,
    F: PrimeField64,
{
}

// ---------------------------------------------------------------- histories

#[derive(Clone, Debug, PartialEq)]
pub enum Op {
    Obs(u64),
    ObsExt(Vec<u64>),
    Sample,
    SampleExt,
    Bits(usize),
    Pow(usize, u64),
    Clear,
    /// `observe_ext` of a DERIVED target (an expression over earlier sampled / observed values,
    /// built with the real `CircuitBuilder` arithmetic / `select` / recompose, the way the verifier
    /// does); natively the value is computed from the native challenger's own samples.
    ObsDer(Ex),
}

/// Expression over values of earlier ops of the same history (referenced by op index).
#[derive(Clone, Debug, PartialEq)]
pub enum Ex {
    /// the value sampled / observed at op `k` (`s`, `se`, `o`, `oe`, `od`): in the circuit the SAME target
    Ref(usize),
    Add(Box<Ex>, Box<Ex>),
    Mul(Box<Ex>, Box<Ex>),
    /// `mul_add(a, b, c) = a * b + c`
    MulAdd(Box<Ex>, Box<Ex>, Box<Ex>),
    /// `select(bit j of the sample_bits at op k, t, s)`
    Sel(usize, usize, Box<Ex>, Box<Ex>),
    /// `recompose_base_coeffs_to_ext` of the base values at these ops (`s` / `o`), D of them
    Recomp(Vec<usize>),
}

impl Ex {
    fn text(&self) -> String {
        match self {
            Ex::Ref(k) => format!("#{k}"),
            Ex::Add(a, b) => format!("add({},{})", a.text(), b.text()),
            Ex::Mul(a, b) => format!("mul({},{})", a.text(), b.text()),
            Ex::MulAdd(a, b, c) => format!("mad({},{},{})", a.text(), b.text(), c.text()),
            Ex::Sel(k, j, t, s) => format!("sel(#{k}.{j},{},{})", t.text(), s.text()),
            Ex::Recomp(ks) => format!("rc({})", ks.iter().map(|k| format!("#{k}")).collect::<Vec<_>>().join(",")),
        }
    }
    fn to_json(&self) -> Value {
        match self {
            Ex::Ref(k) => json!(["r", k]),
            Ex::Add(a, b) => json!(["add", a.to_json(), b.to_json()]),
            Ex::Mul(a, b) => json!(["mul", a.to_json(), b.to_json()]),
            Ex::MulAdd(a, b, c) => json!(["mad", a.to_json(), b.to_json(), c.to_json()]),
            Ex::Sel(k, j, t, s) => json!(["sel", k, j, t.to_json(), s.to_json()]),
            Ex::Recomp(ks) => json!(["rc", ks]),
        }
    }
    fn from_json(v: &Value) -> Option<Ex> {
        let a = v.as_array()?;
        let sub = |i: usize| -> Option<Box<Ex>> { Some(Box::new(Ex::from_json(a.get(i)?)?)) };
        Some(match a.first()?.as_str()? {
            "r" => Ex::Ref(a.get(1)?.as_u64()? as usize),
            "add" => Ex::Add(sub(1)?, sub(2)?),
            "mul" => Ex::Mul(sub(1)?, sub(2)?),
            "mad" => Ex::MulAdd(sub(1)?, sub(2)?, sub(3)?),
            "sel" => Ex::Sel(a.get(1)?.as_u64()? as usize, a.get(2)?.as_u64()? as usize, sub(3)?, sub(4)?),
            "rc" => Ex::Recomp(a.get(1)?.as_array()?.iter().filter_map(|x| x.as_u64().map(|y| y as usize)).collect()),
            _ => return None,
        })
    }
    /// The expression after op `removed` was deleted from the history (None if it refers to that op).
    fn without(&self, removed: usize) -> Option<Ex> {
        let ix = |k: usize| -> Option<usize> {
            if k == removed { None } else if k > removed { Some(k - 1) } else { Some(k) }
        };
        Some(match self {
            Ex::Ref(k) => Ex::Ref(ix(*k)?),
            Ex::Add(a, b) => Ex::Add(Box::new(a.without(removed)?), Box::new(b.without(removed)?)),
            Ex::Mul(a, b) => Ex::Mul(Box::new(a.without(removed)?), Box::new(b.without(removed)?)),
            Ex::MulAdd(a, b, c) => Ex::MulAdd(Box::new(a.without(removed)?), Box::new(b.without(removed)?), Box::new(c.without(removed)?)),
            Ex::Sel(k, j, t, s) => Ex::Sel(ix(*k)?, *j, Box::new(t.without(removed)?), Box::new(s.without(removed)?)),
            Ex::Recomp(ks) => Ex::Recomp(ks.iter().map(|k| ix(*k)).collect::<Option<Vec<_>>>()?),
        })
    }
    /// shape label for the coverage histogram
    fn shape(&self) -> &'static str {
        match self {
            Ex::Ref(_) => "ref",
            Ex::Add(..) => "add",
            Ex::Mul(..) => "mul",
            Ex::MulAdd(..) => "mad",
            Ex::Sel(..) => "sel",
            Ex::Recomp(_) => "rc",
        }
    }
}

/// History without op `i`, references re-indexed (None if a later op refers to op `i`).
fn remove_op(ops: &[Op], i: usize) -> Option<Vec<Op>> {
    let mut out = Vec::with_capacity(ops.len() - 1);
    for (k, op) in ops.iter().enumerate() {
        if k == i {
            continue;
        }
        out.push(match op {
            Op::ObsDer(e) if k > i => Op::ObsDer(e.without(i)?),
            o => o.clone(),
        });
    }
    Some(out)
}

impl Op {
    fn line(&self) -> String {
        match self {
            Op::Obs(x) => format!("op o {x}"),
            Op::ObsExt(c) => format!("op oe {}", join(c)),
            Op::Sample => "op s".into(),
            Op::SampleExt => "op se".into(),
            Op::Bits(n) => format!("op sb {n}"),
            Op::Pow(n, w) => format!("op pow {n} {w}"),
            Op::Clear => "op clr".into(),
            Op::ObsDer(e) => format!("op od {}", e.text()),
        }
    }
    fn kind(&self) -> &'static str {
        match self {
            Op::Obs(_) => "o",
            Op::ObsExt(_) => "oe",
            Op::Sample => "s",
            Op::SampleExt => "se",
            Op::Bits(_) => "sb",
            Op::Pow(..) => "pow",
            Op::Clear => "clr",
            Op::ObsDer(_) => "od",
        }
    }
    fn to_json(&self) -> Value {
        match self {
            Op::Obs(x) => json!(["o", x]),
            Op::ObsExt(c) => json!(["oe", c]),
            Op::Sample => json!(["s"]),
            Op::SampleExt => json!(["se"]),
            Op::Bits(n) => json!(["sb", n]),
            Op::Pow(n, w) => json!(["pow", n, w]),
            Op::Clear => json!(["clr"]),
            Op::ObsDer(e) => json!(["od", e.to_json()]),
        }
    }
    fn from_json(v: &Value) -> Option<Op> {
        let a = v.as_array()?;
        Some(match a.first()?.as_str()? {
            "o" => Op::Obs(a.get(1)?.as_u64()?),
            "oe" => Op::ObsExt(a.get(1)?.as_array()?.iter().filter_map(|x| x.as_u64()).collect()),
            "s" => Op::Sample,
            "se" => Op::SampleExt,
            "sb" => Op::Bits(a.get(1)?.as_u64()? as usize),
            "pow" => Op::Pow(a.get(1)?.as_u64()? as usize, a.get(2)?.as_u64()?),
            "clr" => Op::Clear,
            "od" => Op::ObsDer(Ex::from_json(a.get(1)?)?),
            _ => return None,
        })
    }
}

fn join(v: &[u64]) -> String {
    v.iter().map(|x| x.to_string()).collect::<Vec<_>>().join(" ")
}

/// Native answers per op (None for ops without output).
#[derive(Clone, Debug, PartialEq)]
enum NOut {
    S(u64),
    SE(Vec<u64>),
    SB(u64),
    Pow(bool),
}

/// Circuit answers per op.
#[derive(Clone, Debug, PartialEq)]
enum COut {
    S(Vec<u64>),
    SE(Vec<u64>),
    SB(Vec<Vec<u64>>),
}

#[derive(Clone, Debug)]
enum CStatus {
    Ok,
    BuildErr(String),
    BuildPanic,
    RunErr(String),
    RunPanic,
}

struct CaseResult {
    perm_calls_native: usize,
    perm_calls_circuit: usize,
    native: Vec<(usize, NOut)>,
    native_panic: bool,
    cstatus: CStatus,
    circuit: Vec<(usize, COut)>,
    table: Vec<(Vec<u64>, Vec<u64>)>,
    /// op index -> coefficients of the value the NATIVE side computed (from its own samples) for a derived observe
    resolved: BTreeMap<usize, Vec<u64>>,
}

#[derive(Clone, Copy)]
pub struct CfgInfo {
    name: &'static str,
    p: u64,
    w: usize,
    r: usize,
    d: usize,
    base: bool,
    /// binomial constant of the circuit field over the base field (X^D = wconst); 0 for D = 1
    wconst: u64,
    bf_bits: usize,
}

const CFGS: &[CfgInfo] = &[
    CfgInfo { name: "bb-d4-p2", p: 2013265921, w: 16, r: 8, d: 4, base: false, wconst: 11, bf_bits: 31 },
    CfgInfo { name: "bb-d1-p2", p: 2013265921, w: 16, r: 8, d: 1, base: true, wconst: 0, bf_bits: 31 },
    CfgInfo { name: "kb-d4-p2", p: 2130706433, w: 16, r: 8, d: 4, base: false, wconst: 3, bf_bits: 31 },
    CfgInfo { name: "kb-d1-p2", p: 2130706433, w: 16, r: 8, d: 1, base: true, wconst: 0, bf_bits: 31 },
    CfgInfo { name: "gl-d2-p2", p: 18446744069414584321, w: 8, r: 4, d: 2, base: false, wconst: 7, bf_bits: 64 },
    CfgInfo { name: "bb-d1-p1", p: 2013265921, w: 16, r: 8, d: 1, base: true, wconst: 0, bf_bits: 31 },
    CfgInfo { name: "kb-d1-p1", p: 2130706433, w: 16, r: 8, d: 1, base: true, wconst: 0, bf_bits: 31 },
    CfgInfo { name: "gl-d2-p1", p: 18446744069414584321, w: 8, r: 4, d: 2, base: false, wconst: 7, bf_bits: 64 },
    CfgInfo { name: "bb-d4-p1", p: 2013265921, w: 16, r: 8, d: 4, base: false, wconst: 11, bf_bits: 31 },
    CfgInfo { name: "kb-d4-p1", p: 2130706433, w: 16, r: 8, d: 4, base: false, wconst: 3, bf_bits: 31 },
    // D=1 permutation (compact path) inside a degree-4 circuit: the permutation is lifted lane-wise
    CfgInfo { name: "bb-d1in4-p2", p: 2013265921, w: 16, r: 8, d: 4, base: true, wconst: 11, bf_bits: 31 },
    CfgInfo { name: "kb-d1in4-p1", p: 2130706433, w: 16, r: 8, d: 4, base: true, wconst: 3, bf_bits: 31 },
];

/// A base-field permutation lifted to the circuit field lane by lane (coefficient 0 in, embedded out),
/// as `p3_test_utils::LiftPermToQuintic` does for the quintic field.
#[derive(Clone)]
pub struct Lift<P, BF, EF>(P, core::marker::PhantomData<(BF, EF)>);

impl<P, BF, EF> Permutation<[EF; 16]> for Lift<P, BF, EF>
where
    P: Permutation<[BF; 16]>,
    BF: PrimeField64,
    EF: ExtensionField<BF>,
{
    fn permute_mut(&self, input: &mut [EF; 16]) {
        let mut b: [BF; 16] =
            core::array::from_fn(|i| <EF as BasedVectorSpace<BF>>::as_basis_coefficients_slice(&input[i])[0]);
        self.0.permute_mut(&mut b);
        for i in 0..16 {
            input[i] = EF::from(b[i]);
        }
    }
}

fn cfg_by_name(n: &str) -> Option<CfgInfo> {
    CFGS.iter().copied().find(|c| c.name == n)
}

/// Largest `bits` the native `sample_bits` accepts: `(1 << bits) < ORDER`.
fn max_bits(c: &CfgInfo) -> usize {
    if c.bf_bits == 64 { 63 } else { 30 }
}

fn coeffs<BF: PrimeField64, EF: ExtensionField<BF>>(x: &EF) -> Vec<u64> {
    <EF as BasedVectorSpace<BF>>::as_basis_coefficients_slice(x).iter().map(|c| c.as_canonical_u64()).collect()
}

fn ef_from<BF: PrimeField64, EF: ExtensionField<BF>>(c: &[u64]) -> EF {
    let v: Vec<BF> = c.iter().map(|x| BF::from_u64(*x)).collect();
    <EF as BasedVectorSpace<BF>>::from_basis_coefficients_slice(&v).expect("D coefficients")
}

// ---------------------------------------------------------------- running one history on the real code

/// Native value of a derived expression, from the native challenger's own samples.
fn eval_native<BF: PrimeField64, EF: ExtensionField<BF>>(
    e: &Ex,
    vals: &[Option<EF>],
    bits: &BTreeMap<usize, (u64, usize)>,
) -> Option<EF> {
    let at = |k: usize| -> Option<EF> { vals.get(k).copied().flatten() };
    Some(match e {
        Ex::Ref(k) => at(*k)?,
        Ex::Add(a, b) => eval_native::<BF, EF>(a, vals, bits)? + eval_native::<BF, EF>(b, vals, bits)?,
        Ex::Mul(a, b) => eval_native::<BF, EF>(a, vals, bits)? * eval_native::<BF, EF>(b, vals, bits)?,
        Ex::MulAdd(a, b, c) => {
            eval_native::<BF, EF>(a, vals, bits)? * eval_native::<BF, EF>(b, vals, bits)? + eval_native::<BF, EF>(c, vals, bits)?
        }
        Ex::Sel(k, j, t, s) => {
            let (v, n) = *bits.get(k)?;
            if *j >= n {
                return None;
            }
            let tv = eval_native::<BF, EF>(t, vals, bits)?;
            let sv = eval_native::<BF, EF>(s, vals, bits)?;
            if (v >> j) & 1 == 1 { tv } else { sv }
        }
        Ex::Recomp(ks) => {
            if ks.len() != EF::DIMENSION {
                return None;
            }
            let mut cs = Vec::new();
            for k in ks {
                let c = coeffs::<BF, EF>(&at(*k)?);
                if c[1..].iter().any(|x| *x != 0) {
                    return None; // only base values are recomposed
                }
                cs.push(c[0]);
            }
            ef_from::<BF, EF>(&cs)
        }
    })
}

/// Circuit target of a derived expression, built with the real builder calls.
fn eval_circuit<BF: PrimeField64, EF: ExtensionField<BF>>(
    cb: &mut CircuitBuilder<EF>,
    e: &Ex,
    tg: &[Option<ExprId>],
    bits: &BTreeMap<usize, Vec<ExprId>>,
) -> Result<ExprId, String> {
    let at = |k: usize| -> Result<ExprId, String> { tg.get(k).copied().flatten().ok_or(format!("bad reference #{k}")) };
    Ok(match e {
        Ex::Ref(k) => at(*k)?,
        Ex::Add(a, b) => {
            let (x, y) = (eval_circuit::<BF, EF>(cb, a, tg, bits)?, eval_circuit::<BF, EF>(cb, b, tg, bits)?);
            cb.add(x, y)
        }
        Ex::Mul(a, b) => {
            let (x, y) = (eval_circuit::<BF, EF>(cb, a, tg, bits)?, eval_circuit::<BF, EF>(cb, b, tg, bits)?);
            cb.mul(x, y)
        }
        Ex::MulAdd(a, b, c) => {
            let x = eval_circuit::<BF, EF>(cb, a, tg, bits)?;
            let y = eval_circuit::<BF, EF>(cb, b, tg, bits)?;
            let z = eval_circuit::<BF, EF>(cb, c, tg, bits)?;
            cb.mul_add(x, y, z)
        }
        Ex::Sel(k, j, t, s) => {
            let b = *bits.get(k).and_then(|v| v.get(*j)).ok_or(format!("bad bit reference #{k}.{j}"))?;
            let tv = eval_circuit::<BF, EF>(cb, t, tg, bits)?;
            let sv = eval_circuit::<BF, EF>(cb, s, tg, bits)?;
            cb.select(b, tv, sv)
        }
        Ex::Recomp(ks) => {
            let cs: Vec<ExprId> = ks.iter().map(|k| at(*k)).collect::<Result<_, _>>()?;
            cb.recompose_base_coeffs_to_ext::<BF>(&cs).map_err(|e| format!("{e:?}"))?
        }
    })
}

#[allow(clippy::type_complexity)]
fn run_native<BF, EF, P, const W: usize, const R: usize>(
    perm: &Rec<P, BF, W>,
    ops: &[Op],
) -> (Vec<(usize, NOut)>, bool, BTreeMap<usize, Vec<u64>>)
where
    BF: PrimeField64,
    EF: ExtensionField<BF>,
    P: Permutation<[BF; W]> + Clone,
{
    let mut out = Vec::new();
    let mut resolved: BTreeMap<usize, Vec<u64>> = BTreeMap::new();
    // values the native side saw per op (for derived observes) and sampled bit words
    let mut vals: Vec<Option<EF>> = vec![None; ops.len()];
    let mut bitw: BTreeMap<usize, (u64, usize)> = BTreeMap::new();
    let res = catch_unwind(AssertUnwindSafe(|| {
        let mut ch = DuplexChallenger::<BF, Rec<P, BF, W>, W, R>::new(perm.clone());
        for (k, op) in ops.iter().enumerate() {
            match op {
                Op::Obs(x) => {
                    ch.observe(BF::from_u64(*x));
                    vals[k] = Some(EF::from(BF::from_u64(*x)));
                }
                Op::ObsExt(c) => {
                    let v = ef_from::<BF, EF>(c);
                    ch.observe_algebra_element(v);
                    vals[k] = Some(v);
                }
                Op::ObsDer(e) => {
                    // outside the domain (dangling reference in a hand-written corpus file): nothing promised
                    let v = eval_native::<BF, EF>(e, &vals, &bitw).expect("derived observe: bad reference");
                    ch.observe_algebra_element(v);
                    resolved.insert(k, coeffs::<BF, EF>(&v));
                    vals[k] = Some(v);
                }
                Op::Sample => {
                    let v: BF = ch.sample();
                    vals[k] = Some(EF::from(v));
                    out.push((k, NOut::S(v.as_canonical_u64())));
                }
                Op::SampleExt => {
                    let v: EF = ch.sample_algebra_element();
                    vals[k] = Some(v);
                    out.push((k, NOut::SE(coeffs::<BF, EF>(&v))));
                }
                Op::Bits(n) => {
                    let v: usize = ch.sample_bits(*n);
                    bitw.insert(k, (v as u64, *n));
                    out.push((k, NOut::SB(v as u64)));
                }
                Op::Pow(n, w) => {
                    // body of `GrindingChallenger::check_witness` (the trait additionally demands a
                    // packed permutation, which the recording wrapper does not provide)
                    let ok = if *n == 0 {
                        true
                    } else {
                        ch.observe(BF::from_u64(*w));
                        ch.sample_bits(*n) == 0
                    };
                    out.push((k, NOut::Pow(ok)));
                }
                // the native challenger has no `clear`; a cleared transcript is a fresh challenger
                Op::Clear => ch = DuplexChallenger::<BF, Rec<P, BF, W>, W, R>::new(perm.clone()),
            }
        }
    }));
    (out, res.is_err(), resolved)
}

#[allow(clippy::type_complexity)]
fn run_circuit<BF, EF, C, const W: usize, const R: usize>(
    enable: &dyn Fn(&mut CircuitBuilder<EF>),
    mk: &dyn Fn() -> CircuitChallenger<W, R, C>,
    ops: &[Op],
) -> (CStatus, Vec<(usize, COut)>)
where
    BF: PrimeField64,
    EF: ExtensionField<BF>,
    C: ChallengerPermConfig,
{
    let mut pubs: Vec<EF> = Vec::new();
    // (op index, kind, tags)
    let mut probes: Vec<(usize, &'static str, Vec<String>)> = Vec::new();
    let built = catch_unwind(AssertUnwindSafe(|| -> Result<_, String> {
        let mut cb = CircuitBuilder::<EF>::new();
        enable(&mut cb);
        let mut ch = mk();
        // target per op (for derived observes) and sampled bit targets
        let mut tg: Vec<Option<ExprId>> = vec![None; ops.len()];
        let mut bitt: BTreeMap<usize, Vec<ExprId>> = BTreeMap::new();
        for (k, op) in ops.iter().enumerate() {
            match op {
                Op::Obs(x) => {
                    let t = cb.public_input();
                    pubs.push(EF::from(BF::from_u64(*x)));
                    RecursiveChallenger::<BF, EF>::observe(&mut ch, &mut cb, t);
                    tg[k] = Some(t);
                }
                Op::ObsExt(c) => {
                    let t = cb.public_input();
                    pubs.push(ef_from::<BF, EF>(c));
                    RecursiveChallenger::<BF, EF>::observe_ext(&mut ch, &mut cb, t);
                    tg[k] = Some(t);
                }
                Op::ObsDer(e) => {
                    let t = eval_circuit::<BF, EF>(&mut cb, e, &tg, &bitt)?;
                    RecursiveChallenger::<BF, EF>::observe_ext(&mut ch, &mut cb, t);
                    tg[k] = Some(t);
                }
                Op::Sample => {
                    let t = RecursiveChallenger::<BF, EF>::sample(&mut ch, &mut cb);
                    tg[k] = Some(t);
                    let tag = format!("t{k}");
                    cb.tag(t, tag.clone()).map_err(|e| format!("{e:?}"))?;
                    probes.push((k, "s", vec![tag]));
                }
                Op::SampleExt => {
                    let t = RecursiveChallenger::<BF, EF>::sample_ext(&mut ch, &mut cb);
                    tg[k] = Some(t);
                    let tag = format!("t{k}");
                    cb.tag(t, tag.clone()).map_err(|e| format!("{e:?}"))?;
                    probes.push((k, "se", vec![tag]));
                }
                Op::Bits(n) => {
                    let bits = RecursiveChallenger::<BF, EF>::sample_bits(&mut ch, &mut cb, *n)
                        .map_err(|e| format!("{e:?}"))?;
                    bitt.insert(k, bits.clone());
                    let mut tags = Vec::new();
                    for (j, b) in bits.iter().enumerate() {
                        let tag = format!("t{k}_{j}");
                        cb.tag(*b, tag.clone()).map_err(|e| format!("{e:?}"))?;
                        tags.push(tag);
                    }
                    probes.push((k, "sb", tags));
                }
                Op::Pow(n, w) => {
                    let t = cb.public_input();
                    pubs.push(EF::from(BF::from_u64(*w)));
                    RecursiveChallenger::<BF, EF>::check_pow_witness(&mut ch, &mut cb, *n, t)
                        .map_err(|e| format!("{e:?}"))?;
                }
                Op::Clear => RecursiveChallenger::<BF, EF>::clear(&mut ch, &mut cb),
            }
        }
        cb.build().map_err(|e| format!("{e:?}"))
    }));
    let circuit = match built {
        Err(_) => return (CStatus::BuildPanic, vec![]),
        Ok(Err(e)) => return (CStatus::BuildErr(e), vec![]),
        Ok(Ok(c)) => c,
    };
    let ran = catch_unwind(AssertUnwindSafe(|| {
        let mut runner = circuit.runner();
        runner.set_public_inputs(&pubs)?;
        runner.run()
    }));
    let traces = match ran {
        Err(_) => return (CStatus::RunPanic, vec![]),
        Ok(Err(e)) => {
            let s = format!("{e:?}");
            let name = s.split(|c: char| !c.is_alphanumeric()).next().unwrap_or("").to_string();
            return (CStatus::RunErr(name), vec![]);
        }
        Ok(Ok(t)) => t,
    };
    let mut outs = Vec::new();
    for (k, kind, tags) in probes {
        let vals: Vec<Vec<u64>> = tags
            .iter()
            .map(|t| traces.probe(t).map(|v| coeffs::<BF, EF>(v)).unwrap_or_default())
            .collect();
        outs.push((
            k,
            match kind {
                "s" => COut::S(vals.into_iter().next().unwrap_or_default()),
                "se" => COut::SE(vals.into_iter().next().unwrap_or_default()),
                _ => COut::SB(vals),
            },
        ));
    }
    (CStatus::Ok, outs)
}

fn dedup_table(log: &Log) -> Vec<(Vec<u64>, Vec<u64>)> {
    let mut m: BTreeMap<Vec<u64>, Vec<u64>> = BTreeMap::new();
    let mut order = Vec::new();
    for (i, o) in log.lock().unwrap().iter() {
        if !m.contains_key(i) {
            m.insert(i.clone(), o.clone());
            order.push(i.clone());
        }
    }
    order.into_iter().map(|i| { let o = m[&i].clone(); (i, o) }).collect()
}

/// A function that can run a history on one configuration (native + circuit) and grind PoW witnesses.
pub trait Backend {
    fn info(&self) -> CfgInfo;
    fn run(&self, ops: &[Op], alu: bool) -> CaseResult;
    /// smallest witness >= start accepted by the native challenger after `prefix` (None if not found quickly)
    fn grind(&self, prefix: &[Op], bits: usize, start: u64, want_accept: bool) -> Option<u64>;
}

macro_rules! backend {
    ($name:ident, $cfgname:expr, $BF:ty, $EF:ty, $W:expr, $R:expr, $C:ty, $perm:expr, $P:ty,
     |$cb:ident, $rp:ident| $enable:block, $mk:expr, $recomp:expr) => {
        pub struct $name;
        impl Backend for $name {
            fn info(&self) -> CfgInfo {
                cfg_by_name($cfgname).unwrap()
            }
            fn run(&self, ops: &[Op], alu: bool) -> CaseResult {
                let rec: Rec<$P, $BF, $W> = Rec::new($perm);
                let (native, native_panic, resolved) = run_native::<$BF, $EF, $P, $W, $R>(&rec, ops);
                let perm_calls_native = rec.log.lock().unwrap().len();
                let rec_c = rec.clone();
                let enable = move |$cb: &mut CircuitBuilder<$EF>| {
                    let $rp = rec_c.clone();
                    $enable
                    if !alu {
                        $cb.enable_recompose::<$BF>($recomp);
                    }
                };
                let mk = || -> CircuitChallenger<$W, $R, $C> { $mk };
                let (cstatus, circuit) = run_circuit::<$BF, $EF, $C, $W, $R>(&enable, &mk, ops);
                let perm_calls_circuit = rec.log.lock().unwrap().len() - perm_calls_native;
                CaseResult { perm_calls_native, perm_calls_circuit, native, native_panic, cstatus, circuit, table: dedup_table(&rec.log), resolved }
            }
            fn grind(&self, prefix: &[Op], bits: usize, start: u64, want_accept: bool) -> Option<u64> {
                let rec: Rec<$P, $BF, $W> = Rec::new($perm);
                rec.on.store(false, Ordering::Relaxed);
                let p = self.info().p;
                for t in 0..(64u64 << bits.min(8)) {
                    let w = (start + t) % p;
                    let mut ops = prefix.to_vec();
                    ops.push(Op::Pow(bits, w));
                    let (outs, panicked, _) = run_native::<$BF, $EF, $P, $W, $R>(&rec, &ops);
                    if panicked {
                        return None;
                    }
                    if let Some((_, NOut::Pow(ok))) = outs.last() {
                        if *ok == want_accept {
                            return Some(w);
                        }
                    }
                }
                None
            }
        }
    };
}

type BB = BabyBear;
type KB = KoalaBear;
type GL = Goldilocks;
type BB4 = BinomialExtensionField<BB, 4>;
type KB4 = BinomialExtensionField<KB, 4>;
type GL2 = BinomialExtensionField<GL, 2>;

fn gl_p2() -> p3_goldilocks::Poseidon2Goldilocks<8> {
    p3_goldilocks::default_goldilocks_poseidon2_8()
}

backend!(BbD4P2, "bb-d4-p2", BB, BB4, 16, 8, Poseidon2Config,
    p3_baby_bear::default_babybear_poseidon2_16(), p3_baby_bear::Poseidon2BabyBear<16>,
    |cb, rp| { cb.enable_poseidon2_perm::<p3_poseidon2_circuit_air::BabyBearD4Width16, _>(
        generate_poseidon2_trace::<BB4, p3_poseidon2_circuit_air::BabyBearD4Width16>, rp); },
    CircuitChallenger::new_babybear(), generate_recompose_trace::<BB, BB4>);
backend!(BbD1P2, "bb-d1-p2", BB, BB, 16, 8, Poseidon2Config,
    p3_baby_bear::default_babybear_poseidon2_16(), p3_baby_bear::Poseidon2BabyBear<16>,
    |cb, rp| { cb.enable_poseidon2_perm_base::<p3_circuit::ops::BabyBearD1Width16, _>(
        generate_poseidon2_trace::<BB, p3_circuit::ops::BabyBearD1Width16>, rp); },
    CircuitChallenger::new_babybear_base(), generate_recompose_trace::<BB, BB>);
backend!(KbD4P2, "kb-d4-p2", KB, KB4, 16, 8, Poseidon2Config,
    p3_koala_bear::default_koalabear_poseidon2_16(), p3_koala_bear::Poseidon2KoalaBear<16>,
    |cb, rp| { cb.enable_poseidon2_perm::<p3_poseidon2_circuit_air::KoalaBearD4Width16, _>(
        generate_poseidon2_trace::<KB4, p3_poseidon2_circuit_air::KoalaBearD4Width16>, rp); },
    CircuitChallenger::new_koalabear(), generate_recompose_trace::<KB, KB4>);
backend!(KbD1P2, "kb-d1-p2", KB, KB, 16, 8, Poseidon2Config,
    p3_koala_bear::default_koalabear_poseidon2_16(), p3_koala_bear::Poseidon2KoalaBear<16>,
    |cb, rp| { cb.enable_poseidon2_perm_base::<p3_circuit::ops::KoalaBearD1Width16, _>(
        generate_poseidon2_trace::<KB, p3_circuit::ops::KoalaBearD1Width16>, rp); },
    CircuitChallenger::new_koalabear_base(), generate_recompose_trace::<KB, KB>);
backend!(GlD2P2, "gl-d2-p2", GL, GL2, 8, 4, Poseidon2Config,
    gl_p2(), p3_goldilocks::Poseidon2Goldilocks<8>,
    |cb, rp| { cb.enable_poseidon2_perm_width_8::<p3_circuit::ops::GoldilocksD2Width8, _>(
        generate_poseidon2_trace::<GL2, p3_circuit::ops::GoldilocksD2Width8>, rp); },
    CircuitChallenger::new_goldilocks(), generate_recompose_trace::<GL, GL2>);
backend!(BbD1P1, "bb-d1-p1", BB, BB, 16, 8, Poseidon1Config,
    p3_baby_bear::default_babybear_poseidon1_16(), p3_baby_bear::Poseidon1BabyBear<16>,
    |cb, rp| { cb.enable_poseidon1_perm_base::<p3_circuit::ops::poseidon1_perm::BabyBearD1Width16, _>(
        generate_poseidon1_trace::<BB, p3_circuit::ops::poseidon1_perm::BabyBearD1Width16>, rp); },
    CircuitChallenger::new_babybear_poseidon1_base(), generate_recompose_trace::<BB, BB>);
backend!(KbD1P1, "kb-d1-p1", KB, KB, 16, 8, Poseidon1Config,
    p3_koala_bear::default_koalabear_poseidon1_16(), p3_koala_bear::Poseidon1KoalaBear<16>,
    |cb, rp| { cb.enable_poseidon1_perm_base::<p3_circuit::ops::poseidon1_perm::KoalaBearD1Width16, _>(
        generate_poseidon1_trace::<KB, p3_circuit::ops::poseidon1_perm::KoalaBearD1Width16>, rp); },
    CircuitChallenger::new_koalabear_poseidon1_base(), generate_recompose_trace::<KB, KB>);
backend!(GlD2P1, "gl-d2-p1", GL, GL2, 8, 4, Poseidon1Config,
    p3_goldilocks::poseidon1::default_goldilocks_poseidon1_8(), p3_goldilocks::poseidon1::Poseidon1Goldilocks<8>,
    |cb, rp| { cb.enable_poseidon1_perm_width_8::<p3_circuit::ops::poseidon1_perm::GoldilocksD2Width8, _>(
        generate_poseidon1_trace::<GL2, p3_circuit::ops::poseidon1_perm::GoldilocksD2Width8>, rp); },
    CircuitChallenger::new_goldilocks_poseidon1(), generate_recompose_trace::<GL, GL2>);
backend!(BbD4P1, "bb-d4-p1", BB, BB4, 16, 8, Poseidon1Config,
    p3_baby_bear::default_babybear_poseidon1_16(), p3_baby_bear::Poseidon1BabyBear<16>,
    |cb, rp| { cb.enable_poseidon1_perm::<p3_circuit::ops::poseidon1_perm::BabyBearD4Width16, _>(
        generate_poseidon1_trace::<BB4, p3_circuit::ops::poseidon1_perm::BabyBearD4Width16>, rp); },
    CircuitChallenger::new(Poseidon1Config::BABY_BEAR_D4_W16), generate_recompose_trace::<BB, BB4>);
backend!(KbD4P1, "kb-d4-p1", KB, KB4, 16, 8, Poseidon1Config,
    p3_koala_bear::default_koalabear_poseidon1_16(), p3_koala_bear::Poseidon1KoalaBear<16>,
    |cb, rp| { cb.enable_poseidon1_perm::<p3_circuit::ops::poseidon1_perm::KoalaBearD4Width16, _>(
        generate_poseidon1_trace::<KB4, p3_circuit::ops::poseidon1_perm::KoalaBearD4Width16>, rp); },
    CircuitChallenger::new(Poseidon1Config::KOALA_BEAR_D4_W16), generate_recompose_trace::<KB, KB4>);

backend!(BbD1in4P2, "bb-d1in4-p2", BB, BB4, 16, 8, Poseidon2Config,
    p3_baby_bear::default_babybear_poseidon2_16(), p3_baby_bear::Poseidon2BabyBear<16>,
    |cb, rp| { cb.enable_poseidon2_perm_base::<p3_circuit::ops::BabyBearD1Width16, _>(
        generate_poseidon2_trace::<BB4, p3_circuit::ops::BabyBearD1Width16>,
        Lift::<_, BB, BB4>(rp, core::marker::PhantomData)); },
    CircuitChallenger::new_babybear_base(), generate_recompose_trace::<BB, BB4>);
backend!(KbD1in4P1, "kb-d1in4-p1", KB, KB4, 16, 8, Poseidon1Config,
    p3_koala_bear::default_koalabear_poseidon1_16(), p3_koala_bear::Poseidon1KoalaBear<16>,
    |cb, rp| { cb.enable_poseidon1_perm_base::<p3_circuit::ops::poseidon1_perm::KoalaBearD1Width16, _>(
        generate_poseidon1_trace::<KB4, p3_circuit::ops::poseidon1_perm::KoalaBearD1Width16>,
        Lift::<_, KB, KB4>(rp, core::marker::PhantomData)); },
    CircuitChallenger::new_koalabear_poseidon1_base(), generate_recompose_trace::<KB, KB4>);

fn backends() -> Vec<Box<dyn Backend>> {
    vec![
        Box::new(BbD4P2), Box::new(BbD1P2), Box::new(KbD4P2), Box::new(KbD1P2), Box::new(GlD2P2),
        Box::new(BbD1P1), Box::new(KbD1P1), Box::new(GlD2P1), Box::new(BbD4P1), Box::new(KbD4P1),
        Box::new(BbD1in4P2), Box::new(KbD1in4P1),
    ]
}

// ---------------------------------------------------------------- oracle: circuit == native

fn embed(x: u64, d: usize) -> Vec<u64> {
    let mut v = vec![0; d];
    v[0] = x;
    v
}

/// Returns `(class, detail)` of the first way in which the real circuit departs from the real
/// native challenger on this history, if any.
fn judge(info: &CfgInfo, alu: bool, ops: &[Op], r: &CaseResult) -> Option<(String, Value)> {
    let path = format!("{}:{}", if info.base { "base" } else { "ext" }, if alu { "alu" } else { "npo" });
    if r.native_panic {
        // outside the native challenger's domain: nothing is promised (the generator avoids it)
        return None;
    }
    let all_pow_ok = r.native.iter().all(|(_, o)| !matches!(o, NOut::Pow(false)));
    match &r.cstatus {
        CStatus::BuildPanic => return Some((format!("circuit-build-panic:{path}"), json!({}))),
        CStatus::BuildErr(e) => return Some((format!("circuit-build-error:{path}"), json!({"error": e}))),
        CStatus::RunPanic => return Some((format!("circuit-run-panic:{path}"), json!({}))),
        CStatus::RunErr(e) => {
            if all_pow_ok {
                return Some((format!("circuit-rejects-native-transcript:{path}"), json!({"error": e})));
            }
            return None; // a rejected proof-of-work witness must make the circuit unsatisfiable
        }
        CStatus::Ok => {
            if !all_pow_ok {
                return Some((format!("circuit-accepts-rejected-pow:{path}"), json!({})));
            }
        }
    }
    let cm: BTreeMap<usize, &COut> = r.circuit.iter().map(|(k, o)| (*k, o)).collect();
    for (k, n) in &r.native {
        let kind = ops[*k].kind();
        let bad = |what: &str, nv: Value, cv: Value| {
            Some((format!("{what}:{kind}:{path}"), json!({"op_index": k, "native": nv, "circuit": cv})))
        };
        match (n, cm.get(k)) {
            (NOut::Pow(_), _) => {}
            (NOut::S(x), Some(COut::S(v))) => {
                if *v != embed(*x, info.d) {
                    return bad("sample-differs", json!(x), json!(v));
                }
            }
            (NOut::SE(x), Some(COut::SE(v))) => {
                if x != v {
                    return bad("sample-differs", json!(x), json!(v));
                }
            }
            (NOut::SB(x), Some(COut::SB(bits))) => {
                let mut acc: u128 = 0;
                for (j, b) in bits.iter().enumerate() {
                    if *b != embed(0, info.d) && *b != embed(1, info.d) {
                        return bad("sampled-bit-not-boolean", json!(x), json!(bits));
                    }
                    acc += (b[0] as u128) << j;
                }
                let Op::Bits(nb) = &ops[*k] else { unreachable!() };
                if bits.len() != *nb || acc != *x as u128 {
                    return bad("sample-differs", json!(x), json!(bits));
                }
            }
            (_, c) => return bad("missing-circuit-output", json!(format!("{n:?}")), json!(format!("{c:?}"))),
        }
    }
    None
}

// ---------------------------------------------------------------- canonical streams

fn write_case(cases: &mut impl std::io::Write, id: &str, info: &CfgInfo, alu: bool, ops: &[Op], r: &CaseResult) {
    writeln!(
        cases,
        "case {id} cfg={} p={} w={} r={} d={} base={} alu={} wc={} bits={}",
        info.name, info.p, info.w, info.r, info.d, info.base as u8, alu as u8, info.wconst, info.bf_bits
    )
    .unwrap();
    for (i, o) in &r.table {
        writeln!(cases, "perm {} : {}", join(i), join(o)).unwrap();
    }
    for (k, op) in ops.iter().enumerate() {
        match op {
            // the Lean models are value-level: a derived observe is an `observe_ext` of the value the
            // native side computed from its own samples
            Op::ObsDer(_) => {
                let v = r.resolved.get(&k).cloned().unwrap_or_else(|| vec![0; info.d]);
                writeln!(cases, "{}", Op::ObsExt(v).line()).unwrap()
            }
            _ => writeln!(cases, "{}", op.line()).unwrap(),
        }
    }
    writeln!(cases, "end").unwrap();
}

fn impl_lines(id: &str, ops: &[Op], r: &CaseResult) -> String {
    let mut s = String::new();
    writeln!(s, "case {id}").unwrap();
    if r.native_panic {
        writeln!(s, "N panic").unwrap();
    } else {
        for (k, o) in &r.native {
            match o {
                NOut::S(x) => writeln!(s, "N {k} s {x}").unwrap(),
                NOut::SE(v) => writeln!(s, "N {k} se {}", join(v)).unwrap(),
                NOut::SB(x) => writeln!(s, "N {k} sb {x}").unwrap(),
                NOut::Pow(b) => writeln!(s, "N {k} pow {}", *b as u8).unwrap(),
            }
        }
    }
    match &r.cstatus {
        CStatus::Ok => {
            writeln!(s, "C ok").unwrap();
            for (k, o) in &r.circuit {
                match o {
                    COut::S(v) => writeln!(s, "C {k} s {}", join(v)).unwrap(),
                    COut::SE(v) => writeln!(s, "C {k} se {}", join(v)).unwrap(),
                    COut::SB(bits) => {
                        let b: Vec<String> =
                            bits.iter().map(|v| v.iter().map(|x| x.to_string()).collect::<Vec<_>>().join(",")).collect();
                        writeln!(s, "{}", format!("C {k} sb {}", b.join(" ")).trim_end()).unwrap()
                    }
                }
            }
        }
        // every way of not producing a witness is one outcome for the model: unsatisfiable
        CStatus::RunErr(_) => writeln!(s, "C err").unwrap(),
        CStatus::BuildErr(_) => writeln!(s, "C build-err").unwrap(),
        CStatus::BuildPanic => writeln!(s, "C build-panic").unwrap(),
        CStatus::RunPanic => writeln!(s, "C run-panic").unwrap(),
    }
    let _ = ops;
    writeln!(s, "end").unwrap();
    s
}

// ---------------------------------------------------------------- generator

fn gen_val(rng: &mut Rng, p: u64) -> u64 {
    match rng.below(10) {
        0 => 0,
        1 => 1,
        2 => p - 1,
        3 => rng.below(256),
        _ => rng.below(p),
    }
}

/// A burst length biased to the rate boundary.
fn burst(rng: &mut Rng, rate: usize) -> usize {
    match rng.below(8) {
        0 => rate,
        1 => rate - 1,
        2 => rate + 1,
        3 => 2 * rate,
        4 => 1,
        _ => 1 + rng.usize(rate + 2),
    }
}

/// Indices of earlier ops a derived expression can refer to.
#[derive(Default)]
struct Avail {
    se: Vec<usize>,
    s: Vec<usize>,
    o: Vec<usize>,
    oe: Vec<usize>,
    od: Vec<usize>,
    /// (op index, number of bits >= 1)
    sb: Vec<(usize, usize)>,
}

impl Avail {
    fn of(ops: &[Op]) -> Self {
        let mut a = Avail::default();
        for (k, op) in ops.iter().enumerate() {
            match op {
                Op::SampleExt => a.se.push(k),
                Op::Sample => a.s.push(k),
                Op::Obs(_) => a.o.push(k),
                Op::ObsExt(_) => a.oe.push(k),
                Op::ObsDer(_) => a.od.push(k),
                Op::Bits(n) if *n >= 1 => a.sb.push((k, *n)),
                _ => {}
            }
        }
        a
    }
    /// recent ops are preferred (the verifier combines the challenges it has just drawn)
    fn pick(rng: &mut Rng, v: &[usize]) -> usize {
        if v.len() > 3 && rng.chance(1, 2) { v[v.len() - 1 - rng.usize(3)] } else { *rng.pick(v) }
    }
    /// any earlier value: sampled ext / base, observed public input, earlier derived target
    fn leaf(&self, rng: &mut Rng) -> Ex {
        let pools: Vec<&Vec<usize>> = [&self.se, &self.se, &self.s, &self.o, &self.oe, &self.od].into_iter().filter(|v| !v.is_empty()).collect();
        let pool = *rng.pick(&pools);
        Ex::Ref(Self::pick(rng, pool))
    }
    /// D base values recomposed (base samples, sometimes an observed base value)
    fn recomp(&self, rng: &mut Rng, d: usize) -> Option<Ex> {
        let mut pool = self.s.clone();
        if rng.chance(1, 3) {
            pool.extend(&self.o);
        }
        if pool.is_empty() {
            return None;
        }
        Some(Ex::Recomp((0..d).map(|_| *rng.pick(&pool)).collect()))
    }
    /// product / sum / mul_add of earlier values: a target WITHOUT coefficient provenance
    fn arith(&self, rng: &mut Rng) -> Ex {
        let (a, b) = (Box::new(self.leaf(rng)), Box::new(self.leaf(rng)));
        match rng.below(4) {
            0 => Ex::Add(a, b),
            1 => Ex::MulAdd(a, b, Box::new(self.leaf(rng))),
            _ => Ex::Mul(a, b),
        }
    }
    /// a target whose base coefficients the builder already knows (sampled ext, recomposed, observed before)
    fn known(&self, rng: &mut Rng, d: usize) -> Ex {
        match rng.below(5) {
            0 if !self.od.is_empty() => Ex::Ref(Self::pick(rng, &self.od)),
            1 if !self.oe.is_empty() => Ex::Ref(Self::pick(rng, &self.oe)),
            2 => self.recomp(rng, d).unwrap_or_else(|| Ex::Ref(Self::pick(rng, &self.se))),
            _ => Ex::Ref(Self::pick(rng, &self.se)),
        }
    }
    /// a target whose coefficients the builder does not know yet
    fn unknown(&self, rng: &mut Rng) -> Ex {
        self.arith(rng)
    }
}

/// One derived observe (needs at least one earlier `se`; `sel` needs an earlier `sb n>=1`).
fn gen_derived(rng: &mut Rng, a: &Avail, d: usize) -> Ex {
    match rng.below(12) {
        // (a) an earlier sampled extension challenge
        0 => Ex::Ref(Avail::pick(rng, &a.se)),
        // (b) product / sum / mul_add
        1..=2 => a.arith(rng),
        // (c) select on a sampled bit, all four known/unknown-coefficient shapes
        3..=7 if !a.sb.is_empty() => {
            let (k, n) = if rng.chance(2, 3) { *a.sb.last().unwrap() } else { *rng.pick(&a.sb) };
            let j = rng.usize(n);
            let (t, s) = match rng.below(6) {
                0 | 1 => (a.unknown(rng), a.known(rng, d)),
                2 | 3 => (a.known(rng, d), a.unknown(rng)),
                4 => (a.known(rng, d), a.known(rng, d)),
                _ => (a.unknown(rng), a.unknown(rng)),
            };
            Ex::Sel(k, j, Box::new(t), Box::new(s))
        }
        // (d) recomposed from earlier base samples
        8..=9 => a.recomp(rng, d).unwrap_or_else(|| a.arith(rng)),
        // (e) a target that was observed before (coefficient cache hit)
        _ => {
            if !a.od.is_empty() && rng.chance(2, 3) {
                Ex::Ref(Avail::pick(rng, &a.od))
            } else if !a.oe.is_empty() {
                Ex::Ref(Avail::pick(rng, &a.oe))
            } else {
                a.arith(rng)
            }
        }
    }
}

fn gen_history(rng: &mut Rng, be: &dyn Backend, max_ops: usize, hist: &mut BTreeMap<String, u64>) -> Vec<Op> {
    let info = be.info();
    let target = 1 + rng.usize(max_ops);
    let mut ops: Vec<Op> = Vec::new();
    while ops.len() < target {
        let room = target - ops.len();
        match rng.below(23) {
            0..=5 => {
                for _ in 0..burst(rng, info.r).min(room) {
                    ops.push(Op::Obs(gen_val(rng, info.p)));
                }
            }
            6..=8 => {
                let n = (burst(rng, info.r).div_ceil(info.d)).min(room);
                for _ in 0..n {
                    let c = (0..info.d).map(|_| gen_val(rng, info.p)).collect();
                    ops.push(Op::ObsExt(c));
                }
            }
            9..=12 => {
                for _ in 0..burst(rng, info.r).min(room) {
                    ops.push(Op::Sample);
                }
            }
            13..=14 => {
                let n = (burst(rng, info.r).div_ceil(info.d)).min(room);
                for _ in 0..n {
                    ops.push(Op::SampleExt);
                }
            }
            15..=16 => {
                let mb = max_bits(&info);
                let n = match rng.below(5) {
                    0 => 0,
                    1 => mb,
                    2 => 1,
                    _ => rng.usize(mb + 1),
                };
                ops.push(Op::Bits(n));
            }
            17..=18 => {
                let bits = match rng.below(6) {
                    0 => 0,
                    _ => 1 + rng.usize(4),
                };
                let want = !rng.chance(1, 8);
                let start = gen_val(rng, info.p);
                let w = if bits == 0 { start } else { be.grind(&ops, bits, start, want).unwrap_or(start) };
                ops.push(Op::Pow(bits, w));
            }
            19 => ops.push(Op::Clear),
            // derived observes, the way the verifier does (alpha^i, folded / selected values):
            // make sure the sources exist, then observe 1..3 derived targets
            _ => {
                if !ops.iter().any(|o| matches!(o, Op::SampleExt)) || rng.chance(1, 3) {
                    for _ in 0..1 + rng.usize(2) {
                        ops.push(Op::SampleExt);
                    }
                }
                if rng.chance(1, 3) {
                    for _ in 0..info.d.min(1 + rng.usize(info.d)) {
                        ops.push(Op::Sample);
                    }
                }
                if !ops.iter().any(|o| matches!(o, Op::Bits(n) if *n >= 1)) || rng.chance(1, 2) {
                    ops.push(Op::Bits(if rng.chance(3, 4) { 1 } else { 1 + rng.usize(4) }));
                }
                for _ in 0..1 + rng.usize(3) {
                    let e = gen_derived(rng, &Avail::of(&ops), info.d);
                    ops.push(Op::ObsDer(e));
                }
            }
        }
    }
    for o in &ops {
        *hist.entry(format!("op.{}", o.kind())).or_default() += 1;
        if let Op::ObsDer(e) = o {
            *hist.entry(format!("derived.{}", e.shape())).or_default() += 1;
            if let Ex::Sel(_, _, t, s) = e {
                // does the builder already hold base coefficients of the branch? (k = known, u = unknown)
                let ku = |x: &Ex| match x {
                    Ex::Recomp(_) => 'k',
                    Ex::Ref(k) if matches!(ops[*k], Op::SampleExt | Op::ObsDer(_) | Op::ObsExt(_)) => 'k',
                    _ => 'u',
                };
                *hist.entry(format!("derived.sel.t={}.s={}", ku(t), ku(s))).or_default() += 1;
            }
        }
    }
    ops
}

/// Remove ops one at a time while the same class of violation persists.
fn shrink(be: &dyn Backend, alu: bool, ops: &[Op], class: &str) -> Vec<Op> {
    let info = be.info();
    let mut cur = ops.to_vec();
    let mut progress = true;
    let mut budget = 400;
    while progress && budget > 0 {
        progress = false;
        let mut i = 0;
        while i < cur.len() && budget > 0 {
            budget -= 1;
            let Some(cand) = remove_op(&cur, i) else {
                i += 1; // a later derived observe refers to this op
                continue;
            };
            let r = be.run(&cand, alu);
            let same = judge(&info, alu, &cand, &r).map(|(c, _)| class_family(&c) == class_family(class)).unwrap_or(false);
            if same {
                cur = cand;
                progress = true;
            } else {
                i += 1;
            }
        }
    }
    cur
}

/// class without the op kind (shrinking may change which op exhibits the difference first)
fn class_family(c: &str) -> String {
    let parts: Vec<&str> = c.split(':').collect();
    if parts.len() == 4 { format!("{}:{}:{}", parts[0], parts[2], parts[3]) } else { c.to_string() }
}

// ---------------------------------------------------------------- main

pub fn main(args: &crate::Args) {
    let seed = args.u64("seed", 1);
    let n_cases = args.u64("cases", 100) as usize;
    let max_ops = args.u64("max-ops", 40) as usize;
    let out = args.str("out", "/tmp/c05_out");
    let only = args.opt("cfg");
    std::fs::create_dir_all(&out).unwrap();
    let mut cases = std::io::BufWriter::new(std::fs::File::create(format!("{out}/transcript.cases")).unwrap());
    let mut implo = std::io::BufWriter::new(std::fs::File::create(format!("{out}/transcript.impl")).unwrap());

    let bes = backends();
    let mut hist: BTreeMap<String, u64> = BTreeMap::new();
    let mut hist2: BTreeMap<String, u64> = BTreeMap::new();
    let mut class_seen: BTreeMap<String, u64> = BTreeMap::new();
    let mut violations: Vec<Value> = Vec::new();
    let mut samples: Vec<Value> = Vec::new();
    let mut distinct = std::collections::BTreeSet::new();
    let mut evaluations = 0u64;
    let mut perms_recorded = 0u64;
    let mut outputs_compared = 0u64;

    let mut do_case = |id: String, be: &dyn Backend, alu: bool, ops: Vec<Op>, from_corpus: bool,
                       cases: &mut std::io::BufWriter<std::fs::File>, implo: &mut std::io::BufWriter<std::fs::File>| {
        let info = be.info();
        let r = be.run(&ops, alu);
        evaluations += 1;
        perms_recorded += r.table.len() as u64;
        *hist.entry("permcalls.native".into()).or_default() += r.perm_calls_native as u64;
        *hist.entry("permcalls.circuit".into()).or_default() += r.perm_calls_circuit as u64;
        outputs_compared += r.native.len() as u64;
        write_case(cases, &id, &info, alu, &ops, &r);
        implo.write_all(impl_lines(&id, &ops, &r).as_bytes()).unwrap();
        let text = format!("{} {} {}", info.name, alu, ops.iter().map(|o| o.line()).collect::<Vec<_>>().join(";"));
        let nontrivial = r.table.len() >= 1 && !r.native.is_empty();
        if nontrivial {
            distinct.insert(text);
        }
        *hist.entry(format!("cfg.{}.{}", info.name, if alu { "alu" } else { "npo" })).or_default() += 1;
        *hist.entry(format!("perms.{}", (r.table.len() / 4) * 4)).or_default() += 1;
        *hist.entry(format!("len.{}", (ops.len() / 10) * 10)).or_default() += 1;
        *hist.entry(format!("circuit.{}", match &r.cstatus {
            CStatus::Ok => "ok", CStatus::RunErr(_) => "run-err", CStatus::BuildErr(_) => "build-err",
            CStatus::BuildPanic => "build-panic", CStatus::RunPanic => "run-panic" })).or_default() += 1;
        if r.native_panic {
            *hist.entry("native.panic".into()).or_default() += 1;
        }
        if samples.len() < 3 && nontrivial && !from_corpus {
            samples.push(json!({"id": id, "cfg": info.name, "alu": alu,
                "ops": ops.iter().map(|o| o.line()).collect::<Vec<_>>(),
                "native": r.native.iter().map(|(k, o)| format!("{k}:{o:?}")).collect::<Vec<_>>(),
                "permutations": r.table.len()}));
        }
        if let Some((class, detail)) = judge(&info, alu, &ops, &r) {
            *hist.entry("violations.total".into()).or_default() += 1;
            let seen = class_seen.entry(class_family(&class)).or_insert(0u64);
            *seen += 1;
            // shrink and keep the first few of every class; the rest is only counted
            if *seen <= 2 {
                let small = shrink(be, alu, &ops, &class);
                let rs = be.run(&small, alu);
                let (class2, detail2) = judge(&info, alu, &small, &rs).unwrap_or((class.clone(), detail.clone()));
                violations.push(json!({"property": "C05", "kind": "circuit-transcript-differs-from-native",
                    "class": class2, "detail": detail2, "original_class": class,
                    "replay": {"cfg": info.name, "alu": alu, "ops": small.iter().map(|o| o.to_json()).collect::<Vec<_>>(), "id": id}}));
            }
        }
    };

    // corpus first
    if let Some(dir) = args.opt("corpus") {
        let mut files: Vec<_> = std::fs::read_dir(&dir).map(|d| d.filter_map(|e| e.ok()).map(|e| e.path()).collect()).unwrap_or_default();
        files.sort();
        for f in files {
            if f.extension().and_then(|e| e.to_str()) != Some("json") {
                continue;
            }
            let Ok(txt) = std::fs::read_to_string(&f) else { continue };
            let Ok(v) = serde_json::from_str::<Value>(&txt) else { continue };
            let v = v.get("replay").cloned().unwrap_or(v);
            let Some(cfgname) = v.get("cfg").and_then(|x| x.as_str()) else { continue };
            let Some(be) = bes.iter().find(|b| b.info().name == cfgname) else { continue };
            let ops: Vec<Op> = v.get("ops").and_then(|o| o.as_array()).map(|a| a.iter().filter_map(Op::from_json).collect()).unwrap_or_default();
            let alus: Vec<bool> = match v.get("alu").and_then(|x| x.as_bool()) {
                Some(b) => vec![b],
                None => vec![false, true],
            };
            let stem = f.file_stem().and_then(|s| s.to_str()).unwrap_or("corpus").to_string();
            for alu in alus {
                do_case(format!("corpus/{stem}/{}", alu as u8), be.as_ref(), alu, ops.clone(), true, &mut cases, &mut implo);
            }
            *hist2.entry("corpus.files".into()).or_default() += 1;
        }
    }

    let mut rng = Rng::new(seed);
    for i in 0..n_cases {
        let mut crng = rng.fork();
        let bi = match &only {
            Some(n) => bes.iter().position(|b| b.info().name == n.as_str()).unwrap_or(0),
            None => i % bes.len(),
        };
        let be = bes[bi].as_ref();
        let alu = (i / bes.len()) % 2 == 1;
        let mo = if crng.chance(1, 2) { max_ops } else { 1 + max_ops / 2 };
        let mut h = BTreeMap::new();
        let ops = gen_history(&mut crng, be, mo, &mut h);
        for (k, v) in h {
            *hist2.entry(k).or_default() += v;
        }
        do_case(format!("g{seed}/{i}"), be, alu, ops, false, &mut cases, &mut implo);
    }
    drop(do_case);
    for (k, v) in hist2 {
        *hist.entry(k).or_default() += v;
    }
    cases.flush().unwrap();
    implo.flush().unwrap();

    let report = json!({
        "evaluations": evaluations,
        "distinct": distinct.len(),
        "perms_recorded": perms_recorded,
        "outputs_compared": outputs_compared,
        "hist": hist,
        "samples": samples,
        "violations": violations,
    });
    std::fs::write(format!("{out}/transcript.report.json"), serde_json::to_string_pretty(&report).unwrap()).unwrap();
    println!("c05: cases={} distinct={} violations={}", evaluations, distinct.len(), report["violations"].as_array().unwrap().len());
}
