// Included by the `bb_*` configuration modules of `c14.rs` after `c14_cfg.rs`: the perturbation
// campaign on real proofs. Additionally expects: make_config, enable_perm, perm_config,
// set_mmcs_private, and (bb_plain only) `tables`.

use p3_air::{Air, AirBuilder, BaseAir, WindowAccess};
use p3_matrix::dense::RowMajorMatrix;

/// Two small AIRs behind one type (`prove_batch` wants a single AIR type):
/// `Fib`: Fibonacci with 3 public values, reads the next row;
/// `Add(rows)`: `a + b = c` and `a = preprocessed index column`, reads no next row of the main
/// trace (so `trace_next` is absent from its openings). (The in-circuit batch verifier insists on
/// `preprocessed_next` of full width, so the preprocessed column keeps its default next-row opening.)
#[derive(Clone, Copy)]
pub enum CAir {
    Fib,
    Add(usize),
}

impl<V: Field> BaseAir<V> for CAir {
    fn width(&self) -> usize {
        match self {
            CAir::Fib => 2,
            CAir::Add(_) => 3,
        }
    }
    fn num_public_values(&self) -> usize {
        match self {
            CAir::Fib => 3,
            CAir::Add(_) => 0,
        }
    }
    fn main_next_row_columns(&self) -> Vec<usize> {
        match self {
            CAir::Fib => vec![0, 1],
            CAir::Add(_) => vec![],
        }
    }
    fn preprocessed_width(&self) -> usize {
        match self {
            CAir::Fib => 0,
            CAir::Add(_) => 1,
        }
    }
    fn preprocessed_trace(&self) -> Option<RowMajorMatrix<V>> {
        match self {
            CAir::Fib => None,
            CAir::Add(rows) => Some(RowMajorMatrix::new((0..*rows).map(V::from_usize).collect(), 1)),
        }
    }
}

impl<AB: AirBuilder> Air<AB> for CAir
where
    AB::F: Field,
{
    fn eval(&self, builder: &mut AB) {
        match self {
            CAir::Fib => {
                let main = builder.main();
                let pis = builder.public_values();
                let (a, b, x) = (pis[0], pis[1], pis[2]);
                let (local, next) = (main.current_slice(), main.next_slice());
                let (l0, l1, n0, n1) = (local[0], local[1], next[0], next[1]);
                builder.when_first_row().assert_eq(l0, a);
                builder.when_first_row().assert_eq(l1, b);
                builder.when_transition().assert_eq(l1, n0);
                builder.when_transition().assert_eq(l0 + l1, n1);
                builder.when_last_row().assert_eq(l1, x);
            }
            CAir::Add(_) => {
                let main = builder.main();
                let row = main.current_slice();
                let (a, b, c) = (row[0], row[1], row[2]);
                let prep = builder.preprocessed().clone();
                let p0 = prep.current_slice()[0];
                builder.assert_zero(a + b - c);
                builder.assert_zero(a - p0);
            }
        }
    }
}

fn fib_trace(n: usize) -> (RowMajorMatrix<F>, Vec<F>) {
    let mut v = Vec::with_capacity(2 * n);
    let (mut a, mut b) = (F::ZERO, F::ONE);
    for _ in 0..n {
        v.push(a);
        v.push(b);
        let c = a + b;
        a = b;
        b = c;
    }
    let last = v[2 * n - 1];
    (RowMajorMatrix::new(v, 2), vec![F::ZERO, F::ONE, last])
}

fn add_trace(n: usize) -> RowMajorMatrix<F> {
    let mut v = Vec::with_capacity(3 * n);
    for i in 0..n {
        let a = F::from_usize(i);
        let b = F::from_usize(3 * i + 1);
        v.extend([a, b, a + b]);
    }
    RowMajorMatrix::new(v, 3)
}

pub fn fri_verifier_params() -> p3_recursion::pcs::fri::FriVerifierParams {
    let s = p3_test_utils::test_fri_scalars();
    p3_recursion::pcs::fri::FriVerifierParams::with_mmcs(s.log_blowup, s.log_final_poly_len, s.commit_pow_bits, s.query_pow_bits, perm_config())
}

pub enum Op<'a> {
    Walk(&'a mut dyn Vis),
    Native,
    Run,
}
pub enum Resp {
    Unit,
    Bool(bool),
    Res(Result<(), String>),
}

fn short<E: core::fmt::Debug>(e: E) -> String {
    let s = format!("{e:?}");
    s.chars().take_while(|c| c.is_alphanumeric() || *c == '_').take(40).collect()
}

/// Alter one element per chosen label; judge natively; pack and run.
pub fn drive(name: &str, seed: u64, per_kind: usize, positions: usize, f: &mut dyn FnMut(Op) -> Resp) -> super::CampaignRes {
    use std::panic::{AssertUnwindSafe, catch_unwind};
    let t0 = std::time::Instant::now();
    let mut col = Collect { items: vec![] };
    f(Op::Walk(&mut col));
    let labels: Vec<String> = col.items.iter().map(|x| x.0.clone()).collect();
    let mut native = |f: &mut dyn FnMut(Op) -> Resp| -> bool { matches!(catch_unwind(AssertUnwindSafe(|| f(Op::Native))), Ok(Resp::Bool(true))) };
    let mut run = |f: &mut dyn FnMut(Op) -> Resp| -> Result<(), String> {
        match catch_unwind(AssertUnwindSafe(|| f(Op::Run))) {
            Ok(Resp::Res(r)) => r,
            Ok(_) => Err("bad-op".into()),
            Err(p) => Err(format!("panic:{}", super::panic_msg(p).chars().take(60).collect::<String>())),
        }
    };
    let n0 = native(f);
    let c0 = run(f);
    let baseline_ok = n0 && c0.is_ok();
    let baseline_note = format!("native={} circuit={:?} elements={} packed_positions={}", n0, c0, labels.len(), positions);
    let mut perts = vec![];
    if baseline_ok {
        // per kind: the first element, the last, and (per_kind - 2) seeded picks; per_kind = 0 means every element
        let mut by_kind: std::collections::BTreeMap<String, Vec<String>> = Default::default();
        for l in &labels {
            by_kind.entry(super::kind_of(l)).or_default().push(l.clone());
        }
        let mut rng = crate::rng::Rng::new(seed ^ 0xC14);
        let mut chosen: Vec<String> = vec![];
        if let Some(l) = super::ONLY_LABEL.get() {
            chosen.push(l.clone());
            by_kind.clear();
        }
        for (_k, ls) in by_kind {
            if per_kind == 0 || ls.len() <= per_kind {
                chosen.extend(ls);
                continue;
            }
            let mut pick = std::collections::BTreeSet::new();
            pick.insert(0usize);
            if per_kind >= 2 {
                pick.insert(ls.len() - 1);
            }
            while pick.len() < per_kind {
                pick.insert(rng.usize(ls.len()));
            }
            chosen.extend(pick.into_iter().map(|i| ls[i].clone()));
        }
        for label in chosen {
            let mut m = Mutate { label: label.clone(), delta: F::ONE, hit: false };
            f(Op::Walk(&mut m));
            if !m.hit {
                continue;
            }
            let native_ok = native(f);
            let c = run(f);
            let mut back = Mutate { label: label.clone(), delta: -F::ONE, hit: false };
            f(Op::Walk(&mut back));
            perts.push(super::Pert { setup: name.to_string(), label, native_ok, circuit_ok: c.is_ok(), circuit_err: c.err().unwrap_or_default() });
        }
        // the proof must be back to the honest one
        if !(native(f) && run(f).is_ok()) {
            perts.push(super::Pert { setup: name.to_string(), label: "restore".into(), native_ok: true, circuit_ok: false, circuit_err: "proof not restored after perturbation".into() });
        }
    }
    super::CampaignRes { setup: name.to_string(), positions, baseline_ok, baseline_note, perts, secs: t0.elapsed().as_secs_f64() }
}

fn run_circuit(
    circuit: &p3_circuit::Circuit<EF>,
    pubv: &[EF],
    privv: &[EF],
    op_ids: &[p3_circuit::NonPrimitiveOpId],
    opening: &Opening,
) -> Result<(), String> {
    let mut runner = circuit.runner();
    runner.set_public_inputs(pubv).map_err(short)?;
    runner.set_private_inputs(privv).map_err(short)?;
    set_mmcs_private(&mut runner, op_ids, opening).map_err(|e| format!("mmcs-private:{e}"))?;
    runner.run().map(|_| ()).map_err(short)
}

fn campaign_uni(seed: u64, per_kind: usize) -> Vec<super::CampaignRes> {
    let name = format!("{CFG}.uni");
    let config = make_config(seed);
    let air = CAir::Fib;
    let (trace, mut pis) = fib_trace(8);
    let mut proof = p3_uni_stark::prove(&config, &air, trace, &pis);
    let mut prep: Option<Com> = None;
    let mut cb = p3_circuit::CircuitBuilder::<EF>::new();
    enable_perm(&mut cb);
    let vi = UniBuilder::allocate(&mut cb, &proof, None, pis.len());
    let params = fri_verifier_params();
    let op_ids = p3_recursion::verify_p3_uni_proof_circuit::<CAir, SC, CapT, InputT, OpeningT, _, WIDTH, RATE>(
        &config,
        &air,
        &mut cb,
        &vi.proof_targets,
        &vi.air_public_targets,
        &None,
        &params,
        perm_config(),
    )
    .unwrap_or_else(|e| panic!("verifier circuit: {e:?}"));
    let circuit = cb.build().unwrap_or_else(|e| panic!("build: {e:?}"));
    let positions = circuit.public_flat_len + circuit.private_flat_len;
    let mut f = |op: Op| -> Resp {
        match op {
            Op::Walk(v) => {
                walk_uni(&mut pis, &mut proof, &mut prep, v);
                Resp::Unit
            }
            Op::Native => Resp::Bool(p3_uni_stark::verify(&config, &air, &proof, &pis).is_ok()),
            Op::Run => {
                let (pv, sv) = vi.pack_values(&pis, &proof, &prep);
                Resp::Res(run_circuit(&circuit, &pv, &sv, &op_ids, &proof.opening_proof))
            }
        }
    };
    vec![drive(&name, seed, per_kind, positions, &mut f)]
}

fn campaign_batch(seed: u64, per_kind: usize) -> Vec<super::CampaignRes> {
    let name = format!("{CFG}.batch");
    let config = make_config(seed);
    let airs = vec![CAir::Fib, CAir::Add(16)];
    let (t0, pv0) = fib_trace(16);
    let traces = vec![t0, add_trace(16)];
    let mut pvs: Vec<Vec<F>> = vec![pv0, vec![]];
    let instances: Vec<p3_batch_stark::StarkInstance<'_, SC, CAir>> = (0..2)
        .map(|i| p3_batch_stark::StarkInstance { air: &airs[i], trace: &traces[i], public_values: pvs[i].clone() })
        .collect();
    let prover_data = p3_batch_stark::ProverData::from_instances(&config, &instances);
    let mut proof = p3_batch_stark::prove_batch(&config, &instances, &prover_data);
    let base_common = &prover_data.common;
    let gp = base_common.preprocessed.as_ref();
    let mut prep: Option<Com> = gp.map(|g| g.commitment.clone());
    let mk_common = |prep: &Option<Com>| -> p3_batch_stark::CommonData<SC> {
        p3_batch_stark::CommonData::new(
            gp.map(|g| p3_batch_stark::common::GlobalPreprocessed {
                commitment: prep.clone().unwrap(),
                instances: g.instances.clone(),
                matrix_to_instance: g.matrix_to_instance.clone(),
            }),
            base_common.lookups.clone(),
        )
    };
    let mut cb = p3_circuit::CircuitBuilder::<EF>::new();
    enable_perm(&mut cb);
    let counts: Vec<usize> = pvs.iter().map(|p| p.len()).collect();
    let common0 = mk_common(&prep);
    let vi = BatchBuilder::allocate(&mut cb, &proof, &common0, &counts);
    let params = fri_verifier_params();
    let lookup_gadget = p3_lookup::logup::LogUpGadget::new();
    let op_ids = p3_recursion::verify_batch_circuit::<CAir, SC, CapT, InputT, OpeningT, p3_lookup::logup::LogUpGadget, _, WIDTH, RATE>(
        &config,
        &airs,
        &mut cb,
        &vi.proof_targets,
        &vi.air_public_targets,
        &params,
        &vi.common_data,
        &lookup_gadget,
        perm_config(),
    )
    .unwrap_or_else(|e| panic!("verifier circuit: {e:?}"));
    let circuit = cb.build().unwrap_or_else(|e| panic!("build: {e:?}"));
    let positions = circuit.public_flat_len + circuit.private_flat_len;
    let mut f = |op: Op| -> Resp {
        match op {
            Op::Walk(v) => {
                walk_batch(&mut pvs, &mut proof, &mut prep, v);
                Resp::Unit
            }
            Op::Native => {
                let common = mk_common(&prep);
                Resp::Bool(p3_batch_stark::verify_batch(&config, &airs, &proof, &pvs, &common).is_ok())
            }
            Op::Run => {
                let common = mk_common(&prep);
                let (pv, sv) = vi.pack_values(&pvs, &proof, &common);
                Resp::Res(run_circuit(&circuit, &pv, &sv, &op_ids, &proof.opening_proof))
            }
        }
    };
    vec![drive(&name, seed, per_kind, positions, &mut f)]
}

pub fn campaign(seed: u64, per_kind: usize, which: &str) -> Vec<super::CampaignRes> {
    let r = std::panic::catch_unwind(std::panic::AssertUnwindSafe(|| match which {
        "uni" => campaign_uni(seed, per_kind),
        "batch" => campaign_batch(seed, per_kind),
        "tables" => tables(seed, per_kind),
        _ => vec![],
    }));
    r.unwrap_or_else(|p| {
        vec![super::CampaignRes {
            setup: format!("{CFG}.{which}"),
            positions: 0,
            baseline_ok: false,
            baseline_note: format!("setup panicked: {}", super::panic_msg(p).chars().take(200).collect::<String>()),
            perts: vec![],
            secs: 0.0,
        }]
    })
}
