/-
C17 — the non-primitive table lists of a recursion backend and the chaining condition.

`recursion/src/backend/fri.rs` has one `impl PcsRecursionBackend<SC, A, D>` per extension degree
(D = 2, 4, 5). Each hands out three lists: `non_primitive_provers(D)` (table provers, each with
an `op_type`), `non_primitive_preprocessors()` and `non_primitive_air_builders()`. The real code
uses them in three places, modelled here on table names only (`α` = `NpoTypeId`):

* `prove_all_tables` (circuit-prover/src/batch_stark_prover.rs): walks the prover list in order
  and keeps a prover iff `batch_instance_d{D}` finds a non-empty trace of its op type; the kept
  list, in that order, becomes `proof.non_primitives`                       — `carried`;
* `get_airs_and_degrees_with_prep` (circuit-prover/src/common.rs): walks the air builders in order;
  each takes the first key (sorted) of the preprocessors' map it accepts      — `airList`;
* `verify_p3_batch_proof_circuit` (recursion/src/verifier/batch_stark.rs), called by
  `build_verifier_circuit` with `non_primitive_provers(proof.ext_degree)`: `InvalidProofShape`
  unless `proof.non_primitives.len() == provers.len()` and the op types agree pairwise — `accepts`.

A base proof is over the base field (`ext_degree = 1`): every backend answers
`non_primitive_provers(1) = []`, and the proof has no non-primitive table.

This file is import-free (linked into `p3r_driver_c17`).
-/

namespace P3R.Tables

variable {α : Type} [DecidableEq α]

/-- `prove_all_tables`: the provers that find a trace, in registration order. -/
def carried (provers : List α) (traced : α → Bool) : List α := provers.filter traced

/-- `get_airs_and_degrees_with_prep`: per air builder (given by the sorted list of keys it accepts)
the first accepted key; a builder that accepts none contributes no AIR. -/
def airList (builders : List (List α)) : List α := builders.filterMap List.head?

/-- `verify_p3_batch_proof_circuit`: equal length, pairwise equal op types. -/
def accepts (provers proofTabs : List α) : Bool :=
  proofTabs.length == provers.length && (proofTabs.zip provers).all fun p => p.1 == p.2

/-- A recursion input: a base-field proof, or the output of a layer / aggregation step with its
`non_primitives` op types. -/
inductive Proof (α : Type) where
  | base
  | layer (tabs : List α)
deriving Repr, DecidableEq

/-- `non_primitive_provers(proof.ext_degree)`: empty for a base proof, the backend's list else. -/
def expected (provers : List α) : Proof α → List α
  | .base => []
  | .layer _ => provers

def Proof.tabs : Proof α → List α
  | .base => []
  | .layer t => t

/-- `build_verifier_circuit` does not refuse this input. -/
def buildOk (provers : List α) (pf : Proof α) : Bool := accepts (expected provers pf) pf.tabs

/-- One layer (`inputs = [p]`) or aggregation (`inputs = [l, r]`) step over a verification circuit
whose run leaves a non-empty trace exactly for the op types `traced`: refused at circuit build
(`none`) or a proof carrying `carried provers traced`. -/
def stepLayer (provers : List α) (traced : α → Bool) (inputs : List (Proof α)) : Option (Proof α) :=
  if inputs.all (buildOk provers) then some (.layer (carried provers traced)) else none

/-- `base → layer 1 → layer 2 → …`, step `k` over a circuit with trace predicate `trs[k]`. -/
def runChain (provers : List α) : Proof α → List (α → Bool) → Option (Proof α)
  | pf, [] => some pf
  | pf, tr :: rest =>
    match stepLayer provers tr [pf] with
    | none => none
    | some o => runChain provers o rest

end P3R.Tables
