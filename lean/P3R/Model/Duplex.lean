/-
L8 (native side) — value-level model of `p3_challenger::DuplexChallenger<F, P, WIDTH, RATE>`
(p3-challenger 0.6.3, `duplex_challenger.rs`, `grinding_challenger.rs::check_witness`,
`lib.rs::{observe_algebra_element, sample_algebra_element}`).

The permutation is a parameter (`perm : List K → List K`). Import-free.

Rust → model
* `sponge_state : [F; WIDTH]`, `input_buffer`, `output_buffer : Vec<F>` → three lists;
  `Vec::pop` takes the *last* element (`getLast?` / `dropLast`);
* `duplexing`: overwrite the leading slots with the buffered inputs; on an absorb
  (`num_absorbed > 0`) zero the rest of the rate and add `F::from_u8(num_absorbed as u8)` to
  `sponge_state[RATE]`; permute; refill the output buffer with `state[..RATE]`;
* a failing `expect` / `assert!` is the distinguished outcome `none`.
The closed forms `overwrite` / `zeroFill` / `modAt` coincide with the Rust index loops for
`xs.length ≤ rate < width` (the Rust code would panic otherwise; `RATE < WIDTH` is a const
assertion of `DuplexChallenger::new` and `input_buffer.len() ≤ RATE` is an invariant).
-/
namespace P3R.Duplex

/-- `for (i, v) in xs.enumerate() { s[i] = v }`. -/
def overwrite {α : Type} (s xs : List α) : List α := xs ++ s.drop xs.length

/-- `s[n..rate].fill(z)`. -/
def zeroFill {α : Type} (z : α) (n rate : Nat) (s : List α) : List α :=
  s.take n ++ List.replicate (rate - n) z ++ s.drop rate

/-- `s[i] = f s[i]`. -/
def modAt {α : Type} (f : α → α) : Nat → List α → List α
  | _, [] => []
  | 0, x :: xs => f x :: xs
  | i + 1, x :: xs => x :: modAt f i xs

/-- The rate part of an absorb, without the length tag. -/
def preAbsorb {α : Type} (z : α) (rate : Nat) (s xs : List α) : List α :=
  if xs.length = 0 then overwrite s xs else zeroFill z xs.length rate (overwrite s xs)

/-- The length tag: identity on a squeeze, `s[rate] += tag` on an absorb of `n` elements. -/
def tagAbsorb {α : Type} (addTag : Nat → α → α) (rate n : Nat) (s : List α) : List α :=
  if n = 0 then s else modAt (addTag n) rate s

/-- Little-endian bits of `v`, `B` of them (`val >> i & 1`). -/
def bitsOf : Nat → Nat → List Bool
  | _, 0 => []
  | v, B + 1 => (v % 2 == 1) :: bitsOf (v / 2) B

def fromBits : List Bool → Nat
  | [] => 0
  | b :: bs => (if b then 1 else 0) + 2 * fromBits bs

section
variable {K : Type} [Zero K] [One K] [Add K]

/-- `F::from_u8` / `from_usize` for small arguments (unary). -/
def ofNatK : Nat → K
  | 0 => 0
  | n + 1 => ofNatK n + 1

/-- `F::from_u64(1 << j)`. -/
def pow2K : Nat → K
  | 0 => 1
  | j + 1 => pow2K j + pow2K j

structure St (K : Type) where
  state : List K
  inBuf : List K
  outBuf : List K

/-- `DuplexChallenger::new`. -/
def St.init (width : Nat) : St K := ⟨List.replicate width 0, [], []⟩

/-- `F::from_u8(num_absorbed as u8)` added to the first capacity element. -/
def addTag (n : Nat) (x : K) : K := x + ofNatK (n % 256)

/-- State handed to the permutation by `duplexing`. -/
def absorbed (rate : Nat) (s xs : List K) : List K :=
  tagAbsorb addTag rate xs.length (preAbsorb 0 rate s xs)

def duplexing (perm : List K → List K) (rate : Nat) (st : St K) : St K :=
  let s := perm (absorbed rate st.state st.inBuf)
  ⟨s, [], s.take rate⟩

/-- `CanObserve::observe`. -/
def observe (perm : List K → List K) (rate : Nat) (x : K) (st : St K) : St K :=
  let st1 : St K := ⟨st.state, st.inBuf ++ [x], []⟩
  if st1.inBuf.length = rate then duplexing perm rate st1 else st1

def observeMany (perm : List K → List K) (rate : Nat) : List K → St K → St K
  | [], st => st
  | x :: xs, st => observeMany perm rate xs (observe perm rate x st)

/-- `CanSample::sample` for one base element; `none` = the `expect` on an empty buffer. -/
def sample (perm : List K → List K) (rate : Nat) (st : St K) : Option (K × St K) :=
  let st1 := if !st.inBuf.isEmpty || st.outBuf.isEmpty then duplexing perm rate st else st
  match st1.outBuf.getLast? with
  | none => none
  | some x => some (x, ⟨st1.state, st1.inBuf, st1.outBuf.dropLast⟩)

/-- `from_basis_coefficients_fn(|_| self.sample())` with `k` coefficients. -/
def sampleMany (perm : List K → List K) (rate : Nat) : Nat → St K → Option (List K × St K)
  | 0, st => some ([], st)
  | k + 1, st =>
    match sample perm rate st with
    | none => none
    | some (x, st1) =>
      match sampleMany perm rate k st1 with
      | none => none
      | some (xs, st2) => some (x :: xs, st2)

/-- Challenger operations of the property text. -/
inductive Op (K : Type) where
  | observe (x : K)
  | observeExt (xs : List K)
  | sample
  | sampleExt
  | sampleBits (n : Nat)
  | checkPow (n : Nat) (w : K)
  | clear

/-- What the native challenger returns. -/
inductive NOut (K : Type) where
  | unit
  | val (x : K)
  | ext (xs : List K)
  | bits (n : Nat) (v : Nat)
  | pow (ok : Bool)
deriving DecidableEq

/-- `CanSampleBits::sample_bits`: the two `assert!`s, then `canonical & (2^bits − 1)`. -/
def sampleBits (perm : List K → List K) (rate : Nat) (canon : K → Nat) (order : Nat) (n : Nat)
    (st : St K) : Option (Nat × St K) :=
  if n < 64 ∧ 2 ^ n < order then
    match sample perm rate st with
    | none => none
    | some (x, st1) => some (canon x % 2 ^ n, st1)
  else none

/-- One operation. `D` = number of basis coefficients of the challenge field. -/
def step (perm : List K → List K) (width rate D : Nat) (canon : K → Nat) (order : Nat) :
    Op K → St K → Option (NOut K × St K)
  | .observe x, st => some (.unit, observe perm rate x st)
  | .observeExt xs, st => some (.unit, observeMany perm rate xs st)
  | .sample, st =>
    match sample perm rate st with
    | none => none
    | some (x, st1) => some (.val x, st1)
  | .sampleExt, st =>
    match sampleMany perm rate D st with
    | none => none
    | some (xs, st1) => some (.ext xs, st1)
  | .sampleBits n, st =>
    match sampleBits perm rate canon order n st with
    | none => none
    | some (v, st1) => some (.bits n v, st1)
  | .checkPow n w, st =>
    -- `GrindingChallenger::check_witness`
    if n = 0 then some (.pow true, st)
    else
      match sampleBits perm rate canon order n (observe perm rate w st) with
      | none => none
      | some (v, st1) => some (.pow (v == 0), st1)
  | .clear, _ => some (.unit, St.init width)   -- a cleared transcript is a fresh challenger

def run (perm : List K → List K) (width rate D : Nat) (canon : K → Nat) (order : Nat) :
    List (Op K) → St K → Option (List (NOut K) × St K)
  | [], st => some ([], st)
  | op :: ops, st =>
    match step perm width rate D canon order op st with
    | none => none
    | some (o, st1) =>
      match run perm width rate D canon order ops st1 with
      | none => none
      | some (os, st2) => some (o :: os, st2)

end
end P3R.Duplex
