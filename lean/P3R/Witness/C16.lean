/-
C16 witnesses (concrete metadata; both are replayed
on the real `verify_all_tables` by the harness on every run: `directed:same-alu-main-width`
cases and the `packing.alu_lanes` / `common.width` single alterations).

Setting: base field (`D = 1`), no plug-ins, an honest proof made with `public_lanes = 3`,
`alu_lanes = 3`, `horner_packed_steps = 2`; its `stark_common` declares preprocessed widths
2 (Const), 6 (Public), 46 (ALU: 3·13 + 7).
-/
import P3R.Props.C16

namespace P3R.Witness.C16
open P3R.Metadata P3R.C16

def exp : Expected := ⟨1, none, false⟩

def common : Common :=
  { commitment := [[1, 2, 3, 4, 5, 6, 7, 8]]
    instances := [some ⟨0, 2, 2⟩, some ⟨1, 6, 2⟩, some ⟨2, 46, 2⟩]
    m2i := [0, 1, 2] }

/-- the honest proof's metadata -/
def orig : Meta :=
  { packing := ⟨3, 3, [], 4, 2⟩, rows := (1, 6, 2), aluVariant := 1, d := 1, w := none, quintic := false,
    entries := [], common := some common }

/-- `alu_lanes 3 → 1`, `horner_packed_steps 2 → 5`: same ALU main width (4·3+3 = 4·1+11 = 15),
fewer preprocessed columns read (13 + 28 = 41 ≤ 46 declared). -/
def alt : Meta := { orig with packing := ⟨3, 1, [], 4, 5⟩ }

/-- `alu_lanes 3 → 4`: the rebuilt ALU AIR reads 59 preprocessed columns, 46 are declared. -/
def altWide : Meta := { orig with packing := ⟨3, 4, [], 4, 2⟩ }

def s0 : Sys := ⟨[.const 1, .pub 1 3, .alu 1 3 2 .base], [[], [], []], some common⟩
def s1 : Sys := ⟨[.const 1, .pub 1 3, .alu 1 1 5 .base], [[], [], []], some common⟩
def body : Body := bodyOf s0

theorem sys_orig : sysOf exp [] orig = some s0 := by decide
theorem sys_alt : sysOf exp [] alt = some s1 := by decide

/-- `airs_determined` without the `PrepExact` hypothesis is false of the checks modelled
(metadata checks, instance count, opened main width, declared-vs-opened preprocessed width,
preprocessed metadata): two metadata records pass all of them against the same proof body and
select different ALU AIRs. The real `verify_batch` has one more structural check that the model
does not contain (packed lookup count of the rebuilt AIR vs the opened permutation row); it
rejected this witness and every other same-main-width alteration the harness tried
(`lookup:PermutationWidthMismatch`), so this is a statement about main / preprocessed widths,
not a defect report. The harness reports a violation if such an alteration ever gets past it. -/
theorem widths_alone_do_not_determine_airs :
    ¬ (∀ (exp : Expected) (reg : List Plugin) (body : Body) (m m' : Meta) (s s' : Sys),
        sysOf exp reg m = some s → sysOf exp reg m' = some s' →
        shapeStage s body = none → shapeStage s' body = none → PluginsSeparated reg → s.airs = s'.airs) := by
  intro h
  have hsep : PluginsSeparated [] := by
    intro e e' a a' ha
    simp [npoAir, findPlugin] at ha
  have := h exp [] body orig alt s0 s1 sys_orig sys_alt (by decide) (by decide) hsep
  exact absurd this (by decide)

/-- … and the hypothesis that repairs it is exactly what fails on the witness. -/
theorem alt_not_prep_exact : ¬ PrepExact s1 := by unfold PrepExact; decide
theorem orig_prep_exact : PrepExact s0 := by unfold PrepExact; decide

/-- Whatever the cryptographic layer says, an under-declared preprocessed width makes the
verifier panic (index out of bounds in the symbolic evaluation) instead of returning an error. -/
theorem underdeclared_width_panics (crypto : Sys → Bool) :
    verify crypto body exp [] altWide = .panic := by
  simp only [verify]
  rfl

end P3R.Witness.C16

#print axioms P3R.Witness.C16.widths_alone_do_not_determine_airs
#print axioms P3R.Witness.C16.underdeclared_width_panics
