/-
Witnesses for `P3R.C02.lower_passes_check` (Props/C02LowerTotal.lean).

Necessity of the hypothesis `connectsOk` (both conjuncts), by evaluation of the models:
* `connect_out_of_range_fails` — a `connect` naming an id no expression has: `lower` succeeds,
  the certificate fails (the dangling side is never mapped).
* `connect_two_calls_fails` — a `connect` between the expression ids of two non-primitive *call*
  nodes (`push_non_primitive_op_with_outputs` returns that id to the caller): call nodes carry no
  witness slot, the class never gets a slot, `backfill_connect_mappings` maps neither side;
  `lower` succeeds and the certificate fails. (Semantically void: a call node has no value.)
* `connect_call_with_value_ok` — one value-carrying side is enough (the hypothesis is a
  disjunction).
Non-vacuity:
* `reachable_example` / `lower_example_ok` — a reachable state with constants, inputs,
  arithmetic, a hint call and connects; `lower` returns `.ok` and the theorem applies.
-/
import P3R.Props.C02BuilderOk
open P3R P3R.C02T

namespace P3R.Witness.C02LowerTotal

/-- `new(); connect(e0, ⟨5⟩)` with a fabricated id. -/
def bOut : BState Int := { (BState.init : BState Int) with connects := [(0, 5)] }

theorem connect_out_of_range_fails :
    connectsOk bOut = false ∧
    (match lower bOut with | .ok l => lowerCheck bOut l | .error _ => true) = false := by
  decide +kernel

/-- Two hint calls without outputs; `connect(call_0, call_1)`. -/
def bCalls : BState Int :=
  { (BState.init : BState Int) with
    nodes := #[.const 0, .npCall 0 [0], .npCall 1 [0]],
    npOps := #[{ kind := .hintBits, ins := [[0]], outs := [] },
               { kind := .hintBits, ins := [[0]], outs := [] }],
    connects := [(1, 2)] }

theorem connect_two_calls_fails :
    connectsOk bCalls = false ∧
    (match lower bCalls with | .ok l => lowerCheck bCalls l | .error _ => true) = false := by
  decide +kernel

/-- `connect(call_0, e0)`: one side carries a value. -/
def bCallVal : BState Int := { bCalls with connects := [(1, 0)] }

theorem connect_call_with_value_ok :
    connectsOk bCallVal = true ∧
    (match lower bCallVal with | .ok l => lowerCheck bCallVal l | .error _ => false) = true := by
  decide +kernel

/-! ### Non-vacuity: a reachable program through the builder API -/

def b1 : BState Int := (BState.init : BState Int).allocPublic.1      -- x = e1
def b2 : BState Int := b1.allocPrivate.1                              -- y = e2
def b3 : BState Int := (b2.add 1 2).1                                 -- e3 = x + y
def b4 : BState Int := (b3.mul 3 1).1                                 -- e4 = e3 * x
def b5 : BState Int := (b4.sub 4 2).1                                 -- e5 = e4 - y
def b6 : BState Int := b5.connect 5 1                                 -- e5 == x
def b7 : BState Int := (b6.pushNp .hintBits [[2]] 1).1                -- hint call e6, output e7
def b8 : BState Int := b7.assertBool 7                                -- e8 = bool(e7); e7 == e8
def b9 : BState Int := (b8.select 7 3 4).1                            -- e9, e10
def b10 : BState Int := b9.assertZero 3                               -- e3 == e0
def bEx : BState Int := b10.connect 5 3                               -- merges two classes

theorem reachable_example : Reachable bEx := by
  have h1 : Reachable b1 := Reachable.allocPublic Reachable.init
  have h2 : Reachable b2 := Reachable.allocPrivate h1
  have h3 : Reachable b3 := Reachable.add h2 (by decide +kernel) (by decide +kernel)
  have h4 : Reachable b4 := Reachable.mul h3 (by decide +kernel) (by decide +kernel)
  have h5 : Reachable b5 := Reachable.sub h4 (by decide +kernel) (by decide +kernel)
  have h6 : Reachable b6 := Reachable.connect h5 (by decide +kernel) (by decide +kernel)
  have h7 : Reachable b7 := Reachable.pushNp h6 _ _ _
  have h8 : Reachable b8 := Reachable.assertBool h7 (by decide +kernel)
  have h9 : Reachable b9 := Reachable.select h8 (by decide +kernel) (by decide +kernel)
    (by decide +kernel)
  have h10 : Reachable b10 := Reachable.assertZero h9 (by decide +kernel)
  exact Reachable.connect h10 (by decide +kernel) (by decide +kernel)

/-- The lowering of the example succeeds (so the total theorem is not vacuous on it); the
program has a connect class of four expressions `{e5, e1, e3, e0}` built from three connects,
a second class `{e7, e8}`, a hint call, the `sub`, `mulAdd` and `boolCheck` paths. -/
theorem lower_example_ok :
    ∃ l, lower bEx = .ok l ∧ lowerCheck bEx l = true ∧
      bEx.connects = [(5, 1), (7, 8), (3, 0), (5, 3)] ∧ bEx.npOps.size = 1 ∧
      l.slot 5 = l.slot 0 ∧ l.slot 1 = l.slot 3 := by
  have hok : (match lower bEx with | .ok _ => true | .error _ => false) = true := by
    decide +kernel
  cases h : lower bEx with
  | error e => rw [h] at hok; cases hok
  | ok l =>
    have hchk := lower_passes_check bEx reachable_example.ok.connectsOk l h
    have hc : ∀ ab ∈ bEx.connects, l.slot ab.1 = l.slot ab.2 := by
      intro ab hab
      unfold lowerCheck at hchk
      simp only [Bool.and_eq_true, List.all_eq_true, beq_iff_eq] at hchk
      exact (hchk.2 ab hab).2
    have hconn : bEx.connects = [(5, 1), (7, 8), (3, 0), (5, 3)] := by decide +kernel
    rw [hconn] at hc
    have h51 := hc (5, 1) (by simp)
    have h30 := hc (3, 0) (by simp)
    have h53 := hc (5, 3) (by simp)
    simp only at h51 h30 h53
    exact ⟨l, rfl, hchk, hconn, by decide +kernel, by rw [h53, h30], by rw [← h51, h53]⟩

/-- … and the invariant is decidable: it evaluates to true on the example. -/
theorem ok_example_decide : decide bEx.Ok = true := by decide +kernel

end P3R.Witness.C02LowerTotal
