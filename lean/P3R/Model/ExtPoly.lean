/-
Executable extension `F_p[X]/(X^D - Σ_k red_k X^k)` for the C12 driver (multi-limb bit
decompositions run the gadget models of `P3R.Model.Decomp*` over extension-valued slots).
Import-free apart from `Model.Field` / `Model.DecompGen`.

Like `PF p`, the instance is *not* proved to be a field here; the C12 theorems are stated for an
arbitrary commutative domain, the model functions are polymorphic in the arithmetic instances,
and this arithmetic is validated against p3-field (`BinomialExtensionField`,
`QuinticTrinomialExtensionField`) by the C12 correspondence run (`gerecon`, `mrecon`, `mbits`
lines: every value / verdict goes through `EV` multiplication).
-/
import P3R.Model.Field
import P3R.Model.DecompGen

namespace P3R

structure EV (p D : Nat) (red : List Nat) where
  l : List (PF p)
deriving DecidableEq

namespace EV
variable {p D : Nat} {red : List Nat}

def fn (a : EV p D red) : Nat → PF p := fun j => a.l.getD j 0
def ofFn (f : Nat → PF p) : EV p D red := ⟨(List.range D).map f⟩
def redFn (red : List Nat) : Nat → PF p := fun k => PF.ofNat (red.getD k 0)

instance : Zero (EV p D red) := ⟨ofFn fun _ => 0⟩
instance : One (EV p D red) := ⟨ofFn fun j => if j = 0 then 1 else 0⟩
instance : Add (EV p D red) := ⟨fun a b => ofFn fun j => a.fn j + b.fn j⟩
instance : Sub (EV p D red) := ⟨fun a b => ofFn fun j => a.fn j - b.fn j⟩
instance : Mul (EV p D red) := ⟨fun a b => ofFn (Decomp.extMul (redFn red) D a.fn b.fn)⟩

/-- Basis element `e_i = X^i` (`from_basis_coefficients_slice(unit_i)`). -/
def basis (i : Nat) : EV p D red := ofFn fun j => if j = i then 1 else 0
def ofLimbs (l : List Nat) : EV p D red := ofFn fun j => PF.ofNat (l.getD j 0)
def limbs (a : EV p D red) : List Nat := (List.range D).map fun j => (a.fn j).val

end EV
end P3R
