/-
C02 — `pubsFirst` (the residual hypothesis of `C02O.optKeepsShape_total`) holds for every lowering of a
builder state whose public positions are all allocated (`pubFull`: every position below `pubCount` is the
position of a public node — what `alloc_public_input` constructs; with `pubOk` the positions are exactly
`0 … pubCount-1`). Hence `compile_shape_ok` and `run_total_on_satisfying_inputs` without a per-circuit
hypothesis.

* passes 1–3 of `lower` emit no ALU row, and after pass 2 every entry of `pubRows` written by a public
  node is the `out` of its `Public` row (`PA`; an entry is still the initial `0` only when no public node
  has its position);
* pass 4 only appends rows (`emitNode_pref`; the argument of `C03.emitNode_shape` for "the list keeps its
  prefix") and keeps `pubRows` (`C02S.emit_pub`).
-/
import P3R.Props.C02ShapeOpt

namespace P3R.C02O
open P3R P3R.C02S P3R.C02T P3R.C09C P3R.C03

variable {K : Type}

/-- Every position below `pubCount` is the position of some public-input node. -/
def pubFull (b : BState K) : Bool :=
  (List.range b.pubCount).all fun pos =>
    (List.range b.nodes.size).any fun i =>
      match b.nodes[i]? with
      | some (.pub p) => p == pos
      | _ => false

theorem pubFull_spec {b : BState K} (h : pubFull b = true) {pos : Nat} (hp : pos < b.pubCount) :
    ∃ i : Nat, b.nodes[i]? = some (Expr.pub pos) := by
  unfold pubFull at h
  rw [List.all_eq_true] at h
  have := h pos (List.mem_range.mpr hp)
  rw [List.any_eq_true] at this
  obtain ⟨i, _, hi⟩ := this
  refine ⟨i, ?_⟩
  split at hi
  · rename_i p hn
    have : p = pos := by simpa using hi
    rw [hn, this]
  · cases hi

/-- The op list of the state extends `pre`. -/
def PrefAll (pre : List (Op K)) (s : LState K) : Prop := ∃ rest, s.ops.toList = pre ++ rest

theorem PrefAll.alloc {pre : List (Op K)} {s : LState K} (h : PrefAll pre s) (e : Nat) :
    PrefAll pre (s.allocWitness e).1 := by
  unfold PrefAll; rw [allocWitness_ops]; exact h

theorem PrefAll.setW {pre : List (Op K)} {s : LState K} (h : PrefAll pre s) (e w : Nat) :
    PrefAll pre (s.setW e w) := h

theorem PrefAll.push {pre : List (Op K)} {s : LState K} (h : PrefAll pre s) (op : Op K) :
    PrefAll pre (s.pushOp op) := by
  obtain ⟨rest, hr⟩ := h
  exact ⟨rest ++ [op], by simp [LState.pushOp, hr]⟩

section
variable [Neg K] {pre : List (Op K)}

theorem emitNpCall_pref (s : LState K) (nodes : Array (Expr K)) (npOps : Array NpData) (opId : Nat)
    (s' : LState K) (hs : (PrefAll pre) s) (h : s.emitNpCall nodes npOps opId = .ok s') : (PrefAll pre) s' := by
  unfold LState.emitNpCall at h
  split_ifs at h
  · simp only [Except.ok.injEq] at h; subst h; exact hs
  · split at h
    · simp at h
    · dsimp only at h
      split at h
      · simp at h
      · next outs _ =>
        -- the pre-allocation fold keeps the ops
        have hpre : ∀ (l : List (Nat × Nat)) (st : LState K), (PrefAll pre) st →
            (PrefAll pre) (l.foldl (fun (st : LState K) (o : Nat × Nat) =>
              match st.e2w.getD o.2 none with
              | some _ => st
              | none => let (st', w) := st.allocWitness o.2; st'.setW o.2 w) st) := by
          intro l
          induction l with
          | nil => intro st h; exact h
          | cons o l ih =>
            intro st hst
            simp only [List.foldl_cons]
            apply ih
            split
            · exact hst
            · exact (hst.alloc o.2).setW _ _
        have hs1 := hpre outs _ (show PrefAll pre { s with emitted := s.emitted.setIfInBounds opId true } from hs)
        split at h
        · split at h
          · simp at h
          · simp only [Except.ok.injEq] at h; subst h
            exact hs1.push _
        · split at h
          · split at h
            · simp at h
            · simp only [Except.ok.injEq] at h; subst h
              exact hs1.push _
          · simp at h

theorem emitNode_pref (s : LState K) (nodes : Array (Expr K)) (npOps : Array NpData) (i : Nat)
    (e : Expr K) (s' : LState K) (hs : (PrefAll pre) s) (h : s.emitNode nodes npOps i e = .ok s') :
    (PrefAll pre) s' := by
  have ha := hs.alloc i
  unfold LState.emitNode at h
  cases e with
  | const _ => simp only [Except.ok.injEq] at h; subst h; exact hs
  | pub _ => simp only [Except.ok.injEq] at h; subst h; exact hs
  | priv _ => simp only [Except.ok.injEq] at h; subst h; exact hs
  | add l r =>
    dsimp only at h
    generalize s.allocWitness i = r0 at h ha
    obtain ⟨s1, out⟩ := r0
    dsimp only at h ha
    split at h <;> try (simp at h; done)
    simp only [Except.ok.injEq] at h; subst h
    exact (ha.push _).setW _ _
  | mul l r =>
    dsimp only at h
    generalize s.allocWitness i = r0 at h ha
    obtain ⟨s1, out⟩ := r0
    dsimp only at h ha
    split at h <;> try (simp at h; done)
    simp only [Except.ok.injEq] at h; subst h
    exact (ha.push _).setW _ _
  | div l r =>
    dsimp only at h
    generalize s.allocWitness i = r0 at h ha
    obtain ⟨s1, out⟩ := r0
    dsimp only at h ha
    split at h <;> try (simp at h; done)
    simp only [Except.ok.injEq] at h; subst h
    exact (ha.push _).setW _ _
  | horner acc alpha pz px =>
    dsimp only at h
    generalize s.allocWitness i = r0 at h ha
    obtain ⟨s1, out⟩ := r0
    dsimp only at h ha
    split at h <;> try (simp at h; done)
    simp only [Except.ok.injEq] at h; subst h
    exact (ha.push _).setW _ _
  | boolCheck v =>
    dsimp only at h
    generalize s.allocWitness i = r0 at h ha
    obtain ⟨s1, out⟩ := r0
    dsimp only at h ha
    split at h <;> try (simp at h; done)
    simp only [Except.ok.injEq] at h; subst h
    exact (ha.push _).setW _ _
  | mulAdd a b c =>
    dsimp only at h
    generalize s.allocWitness i = r0 at h ha
    obtain ⟨s1, out⟩ := r0
    dsimp only at h ha
    split at h <;> try (simp at h; done)
    simp only [Except.ok.injEq] at h; subst h
    exact (ha.push _).setW _ _
  | sub l r =>
    dsimp only at h
    generalize s.allocWitness i = r0 at h ha
    obtain ⟨s1, res⟩ := r0
    dsimp only at h ha
    split at h
    · simp at h
    · split at h
      · have hb := ha.alloc nodes.size
        generalize s1.allocWitness nodes.size = r1 at h hb
        obtain ⟨s2, nw⟩ := r1
        dsimp only at h hb
        simp only [Except.ok.injEq] at h; subst h
        exact ((hb.push _).push _).setW _ _
      · split at h
        · simp at h
        · simp only [Except.ok.injEq] at h; subst h
          exact (ha.push _).setW _ _
  | npCall op _ => exact emitNpCall_pref s nodes npOps op s' hs h
  | npOut call _ =>
    dsimp only at h
    split at h
    · split at h
      · simp at h
      · next s1 hnp =>
        have h1 := emitNpCall_pref s nodes npOps _ s1 hs hnp
        split at h
        · simp only [Except.ok.injEq] at h; subst h; exact h1
        · simp only [Except.ok.injEq] at h; subst h
          exact (h1.alloc i).setW _ _
    · simp at h

theorem emitNode_append {s s' : LState K} {nodes : Array (Expr K)} {npOps : Array NpData} {i : Nat}
    {e : Expr K} (h : s.emitNode nodes npOps i e = .ok s') :
    ∃ added, s'.ops.toList = s.ops.toList ++ added :=
  emitNode_pref (pre := s.ops.toList) s nodes npOps i e s' ⟨[], by simp⟩ h

/-! ### Passes 1–3 -/

/-- No ALU row yet; an entry of `pubRows` at a position covered by `cov` is the `out` of a row. -/
structure PA (b : BState K) (cov : Nat → Prop) (s : LState K) : Prop where
  na : ∀ op ∈ s.ops.toList, isAluOp op = false
  sz : s.pubRows.size = b.pubCount
  pr : ∀ pos x, s.pubRows[pos]? = some x → (∃ op ∈ s.ops.toList, outSlot op = some x) ∨ ¬ cov pos

omit [Neg K] in
theorem PA.mono {b : BState K} {c1 c2 : Nat → Prop} {s : LState K} (h : PA b c1 s)
    (hc : ∀ pos, c2 pos → c1 pos) : PA b c2 s :=
  ⟨h.na, h.sz, fun pos x hx => (h.pr pos x hx).imp id (fun hn hc2 => hn (hc pos hc2))⟩

theorem fConst_PA {b : BState K} {cov : Nat → Prop} {s s' : LState K} {i : Nat} {e : Expr K}
    (hP : PA b cov s) (h : fConst s i e = .ok s') : PA b cov s' := by
  cases e with
  | const v =>
    simp only [fConst] at h
    cases hal : s.allocWitness i with
    | mk s1 w =>
      rw [hal] at h
      simp only [Except.ok.injEq] at h
      subst h
      have ho := (alloc_fields' hal).2.1
      have hp := alloc_pub' hal
      refine ⟨?_, by simp [LState.setW, LState.pushOp, hp, hP.sz], ?_⟩
      · intro op hop
        simp only [LState.setW, LState.pushOp, Array.toList_push, List.mem_append, List.mem_singleton, ho] at hop
        rcases hop with hop | rfl
        · exact hP.na op hop
        · rfl
      · intro pos x hx
        simp only [LState.setW, LState.pushOp, hp] at hx
        rcases hP.pr pos x hx with ⟨op, hop, ho'⟩ | hn
        · exact Or.inl ⟨op, by simp [LState.setW, LState.pushOp, ho, hop], ho'⟩
        · exact Or.inr hn
  | _ =>
    simp only [fConst, Except.ok.injEq] at h
    subst h
    exact hP

theorem fPriv_PA {b : BState K} {cov : Nat → Prop} {s s' : LState K} {i : Nat} {e : Expr K}
    (hP : PA b cov s) (h : fPriv s i e = .ok s') : PA b cov s' := by
  cases e with
  | priv v =>
    simp only [fPriv] at h
    cases hal : s.allocWitness i with
    | mk s1 w =>
      rw [hal] at h
      simp only [Except.ok.injEq] at h
      subst h
      have ho := (alloc_fields' hal).2.1
      have hp := alloc_pub' hal
      refine ⟨?_, by simp [LState.setW, hp, hP.sz], ?_⟩
      · intro op hop
        simp only [LState.setW, ho] at hop
        exact hP.na op hop
      · intro pos x hx
        simp only [LState.setW, hp] at hx
        rcases hP.pr pos x hx with ⟨op, hop, ho'⟩ | hn
        · exact Or.inl ⟨op, by simp [LState.setW, ho, hop], ho'⟩
        · exact Or.inr hn
  | _ =>
    simp only [fPriv, Except.ok.injEq] at h
    subst h
    exact hP

theorem fPub_PA {b : BState K} {s s' : LState K} {k : Nat} {e : Expr K} (hk : b.nodes[k]? = some e)
    (hP : PA b (fun pos => ∃ i, i < k ∧ b.nodes[i]? = some (Expr.pub pos)) s)
    (h : fPub s k e = .ok s') :
    PA b (fun pos => ∃ i, i < k + 1 ∧ b.nodes[i]? = some (Expr.pub pos)) s' := by
  cases e with
  | pub pos0 =>
    simp only [fPub] at h
    cases hal : s.allocWitness k with
    | mk s1 w =>
      rw [hal] at h
      simp only [Except.ok.injEq] at h
      subst h
      have ho := (alloc_fields' hal).2.1
      have hp := alloc_pub' hal
      refine ⟨?_, by simp [LState.setW, LState.pushOp, hp, hP.sz], ?_⟩
      · intro op hop
        simp only [LState.setW, LState.pushOp, Array.toList_push, List.mem_append, List.mem_singleton, ho] at hop
        rcases hop with hop | rfl
        · exact hP.na op hop
        · rfl
      · intro pos x hx
        simp only [LState.setW, LState.pushOp, hp] at hx
        by_cases hpp : pos0 = pos
        · subst hpp
          left
          refine ⟨.pub w pos0, by simp [LState.setW, LState.pushOp], ?_⟩
          rw [Array.getElem?_setIfInBounds] at hx
          simp only [if_true] at hx
          split at hx
          · cases hx; rfl
          · cases hx
        · rw [Array.getElem?_setIfInBounds, if_neg hpp] at hx
          rcases hP.pr pos x hx with ⟨op, hop, ho'⟩ | hn
          · exact Or.inl ⟨op, by simp [LState.setW, LState.pushOp, ho, hop], ho'⟩
          · right
            rintro ⟨i, hi, hn'⟩
            by_cases hik : i = k
            · subst hik
              rw [hk] at hn'
              cases hn'
              exact hpp rfl
            · exact hn ⟨i, by omega, hn'⟩
  | _ =>
    simp only [fPub, Except.ok.injEq] at h
    subst h
    refine hP.mono ?_
    rintro pos ⟨i, hi, hn'⟩
    by_cases hik : i = k
    · subst hik
      rw [hk] at hn'
      cases hn'
    · exact ⟨i, by omega, hn'⟩

omit [Neg K] in
theorem takeWhile_append_all {α} (p : α → Bool) (l1 l2 : List α) (h : ∀ a ∈ l1, p a = true) :
    (l1 ++ l2).takeWhile p = l1 ++ l2.takeWhile p := by
  induction l1 with
  | nil => rfl
  | cons a l1 ih =>
    rw [List.cons_append, List.takeWhile_cons, if_pos (h a List.mem_cons_self),
      ih (fun x hx => h x (List.mem_cons_of_mem _ hx)), List.cons_append]

/-- **`pubsFirst` holds for every lowering of a builder state with `pubFull`.** -/
theorem lower_pubsFirst (b : BState K) (hpf : pubFull b = true) (l : Lowered K) (hl : lower b = .ok l) :
    pubsFirst l = true := by
  have h := hl
  rw [lower_eq] at h
  simp only [bind, Except.bind, forNodes] at h
  have P0 : PA b (fun _ => False) (lowerInit b) :=
    ⟨by intro op hop; simp [lowerInit] at hop, by simp [lowerInit], fun _ _ _ => Or.inr (fun h => h)⟩
  split at h
  · cases h
  · rename_i s1 hs1
    have J1 := fold_inv b.nodes fConst (lowerInit b) (fun _ s => PA b (fun _ => False) s) P0
      (fun k s s' hk _ hI hf => fConst_PA hI hf) _ (Nat.le_refl _) s1 hs1
    split at h
    · cases h
    · rename_i s2 hs2
      have J2 := fold_inv b.nodes fPub s1
        (fun k s => PA b (fun pos => ∃ i, i < k ∧ b.nodes[i]? = some (Expr.pub pos)) s)
        (J1.mono (by rintro pos ⟨i, hi, _⟩; omega))
        (fun k s s' hk _ hI hf => fPub_PA (Array.getElem?_eq_getElem hk) hI hf) _ (Nat.le_refl _) s2 hs2
      split at h
      · cases h
      · rename_i s3 hs3
        have J3 := fold_inv b.nodes fPriv s2
          (fun _ s => PA b (fun pos => ∃ i, i < b.nodes.size ∧ b.nodes[i]? = some (Expr.pub pos)) s) J2
          (fun k s s' hk _ hI hf => fPriv_PA hI hf) _ (Nat.le_refl _) s3 hs3
        split at h
        · cases h
        · rename_i s4 hs4
          have J4 := fold_inv b.nodes (fun st i e => st.emitNode b.nodes b.npOps i e) s3
            (fun _ s => (∃ rest, s.ops.toList = s3.ops.toList ++ rest) ∧ s.pubRows = s3.pubRows)
            ⟨⟨[], by simp⟩, rfl⟩
            (fun k s s' hk _ hI hf => by
              obtain ⟨added, ha⟩ := emitNode_append hf
              obtain ⟨rest, hr⟩ := hI.1
              exact ⟨⟨rest ++ added, by rw [ha, hr, List.append_assoc]⟩, (emit_pub hf).trans hI.2⟩)
            _ (Nat.le_refl _) s4 hs4
          split at h
          · cases h
          · simp only [Except.ok.injEq] at h
            obtain ⟨hbo, hbp⟩ := backfill_fields (List.range (b.nodes.size + 1)) s4
            obtain ⟨hbu, _⟩ := backfill_pub_next (List.range (b.nodes.size + 1)) s4
            subst h
            unfold pubsFirst
            simp only []
            rw [hbo, hbp, hbu]
            obtain ⟨⟨rest, hr⟩, hpub⟩ := J4
            rw [hpub, hr, takeWhile_append_all _ _ _ (fun a ha => by simp [J3.na a ha])]
            rw [List.all_eq_true]
            intro x hx
            simp only [Bool.or_eq_true, List.contains_iff_mem, List.any_eq_true, beq_iff_eq]
            right
            obtain ⟨pos, hpos⟩ := List.mem_iff_getElem?.mp hx
            have hpos' : s3.pubRows[pos]? = some x := by simpa using hpos
            have hlt : pos < b.pubCount := by
              rw [← J3.sz]
              by_contra hge
              rw [Array.getElem?_eq_none (by omega)] at hpos'
              cases hpos'
            rcases J3.pr pos x hpos' with ⟨op, hop, ho⟩ | hn
            · exact ⟨op, List.mem_append.mpr (Or.inl hop), ho⟩
            · exfalso
              obtain ⟨i, hi⟩ := pubFull_spec hpf hlt
              apply hn
              refine ⟨i, ?_, hi⟩
              by_contra hge
              rw [Array.getElem?_eq_none (by omega)] at hi
              cases hi

end

section final
variable [Neg K] [Zero K] [DecidableEq K]

/-- **C02 / `optKeepsShape` — total.** For every builder state with `privOk` and `pubFull` and every
lowering of it, the optimiser keeps the shape run. -/
theorem optKeepsShape_of_guards (b : BState K) (hpo : privOk b = true) (hpf : pubFull b = true)
    (l : Lowered K) (hl : lower b = .ok l) : optKeepsShape l = true :=
  optKeepsShape_total b hpo l hl (lower_pubsFirst b hpf l hl)

/-- **C02 / `compile_shape_ok` — no per-circuit hypothesis.** The shape run of the compiled circuit
(lowering, `dedup`, `fuse`, rewrite post-pass, final scan) of every builder state with `BState.Ok`,
`privOk`, `pubOk`, `primOk`, `pubFull` succeeds from "all inputs supplied". -/
theorem compile_shape_ok (b : BState K) (hok : b.Ok) (hpo : privOk b = true) (hpu : pubOk b = true)
    (hprim : primOk b = true) (hpf : pubFull b = true) (c : Circuit K) (hc : compile b = .ok c) :
    runShape c (allInputsSet c) = true :=
  compile_shape_ok_of_pubsFirst b hok hpo hpu hprim c hc (fun l hl => lower_pubsFirst b hpf l hl)

end final

end P3R.C02O

namespace P3R.C02
open P3R P3R.C02S P3R.C02O

variable {K : Type} [Field K] [DecidableEq K]

/-- **C02 / `run_total_on_satisfying_inputs` — no per-circuit hypothesis.** For every builder state with
`BState.Ok`, `privOk`, `pubOk`, `primOk`, `pubFull` and its compiled circuit, every assignment satisfying
every op relation (hints agreeing, rewrite map respected) and every table holding exactly the supplied
inputs: the run succeeds and returns the assignment. -/
theorem run_total_on_satisfying_inputs (canon : K → Nat) (b : BState K) (hok : b.Ok)
    (hpo : privOk b = true) (hpu : pubOk b = true) (hprim : primOk b = true) (hpf : pubFull b = true)
    (c : Circuit K) (hc : compile b = .ok c)
    (w0 : Array (Option K)) (w pub : Nat → K) (h0 : Agree w0 w) (hsh : shape w0 = allInputsSet c)
    (hall : ∀ op ∈ c.ops.toList, op.holds w pub ∧ RunnerWrites w op ∧ HintAgrees canon w op)
    (hrw : ∀ dc ∈ c.rewrite, w dc.1 = w (resolve c.rewrite dc.2)) :
    ∃ t, runFrom canon c w0 = .ok t ∧ ∀ j, j < t.witness.size → t.witness.getD j 0 = w j :=
  run_total_on_satisfying_inputs_of_pubsFirst canon b hok hpo hpu hprim c hc
    (fun l hl => lower_pubsFirst b hpf l hl) w0 w pub h0 hsh hall hrw

end P3R.C02

#print axioms P3R.C02O.lower_pubsFirst
#print axioms P3R.C02O.optKeepsShape_of_guards
#print axioms P3R.C02O.compile_shape_ok
#print axioms P3R.C02.run_total_on_satisfying_inputs
