"""C10 / C04 share the real-prover harness (`prove` subcommand)."""
import json, os

PROPERTY = "C10"


def prove_run(ctx, want, forge):
    tier, seed, work = ctx["tier"], ctx["seed"], ctx["work"]
    nprog, max_calls = (110, 22) if tier == "quick" else (3000, 40)
    out = f"{work}/run0"
    cmd = [ctx["harness"], "prove", "--seed", str(seed), "--programs", str(nprog), "--max-calls", str(max_calls),
           "--forge", str(forge), "--out", out, "--corpus", f"{ctx['root']}/corpus/prove"]
    if ctx.get("replay"):
        rp = json.load(open(ctx["replay"]))
        os.makedirs(f"{work}/replay_corpus", exist_ok=True)
        json.dump(rp.get("replay", rp), open(f"{work}/replay_corpus/r.json", "w"))
        cmd = [ctx["harness"], "prove", "--seed", str(seed), "--programs", "0", "--forge", str(max(forge, 8)),
               "--out", out, "--corpus", f"{work}/replay_corpus"]
    shards = 1 if (tier == "quick" or ctx.get("replay")) else 8
    if shards == 1:
        rc, o = ctx["sh"](cmd, timeout=14400)
        if rc != 0:
            return [{"class": "harness-crash", "what": f"harness prove exited {rc}: {o[-300:]}", "replay": {"cmd": cmd}, "no_input": True}], {}
        rep = json.load(open(f"{out}/prove.report.json"))
    else:
        # thorough: independent shards (distinct PRNG seeds) in parallel, reports merged; shard 0 replays the corpus
        import subprocess
        procs = []
        for k in range(shards):
            o_k = f"{work}/run{k}"
            c_k = [ctx["harness"], "prove", "--seed", str(seed * 1000 + k), "--programs", str(1000), "--max-calls", str(max_calls),
                   "--forge", str(forge), "--out", o_k] + (["--corpus", f"{ctx['root']}/corpus/prove"] if k == 0 else [])
            procs.append((c_k, o_k, subprocess.Popen(c_k, stdout=subprocess.PIPE, stderr=subprocess.STDOUT, text=True)))
        rep = {"violations": [], "evaluations": 0, "distinct": 0, "samples": [], "hist": {}}
        for c_k, o_k, pr in procs:
            o, _ = pr.communicate(timeout=14400)
            if pr.returncode != 0:
                return [{"class": "harness-crash", "what": f"harness prove exited {pr.returncode}: {o[-300:]}", "replay": {"cmd": c_k}, "no_input": True}], {}
            r = json.load(open(f"{o_k}/prove.report.json"))
            rep["violations"] += r["violations"]; rep["evaluations"] += r["evaluations"]; rep["distinct"] += r["distinct"]
            rep["samples"] = (rep["samples"] + r["samples"])[:4]
            for hk, hv in r["hist"].items():
                rep["hist"][hk] = rep["hist"].get(hk, 0) + hv
    violations = []
    for v in rep["violations"]:
        if v["property"] != want:
            continue
        violations.append({"class": v["class"], "what": f"{v['kind']} {v.get('detail', '')}"[:220], "replay": v["replay"]})
    cov = {"evaluations": rep["evaluations"], "distinct_nontrivial": rep["distinct"],
           "rule": "generated builder programs with satisfying inputs, compiled and run by the real code, proved and verified by the real "
                   "BatchStarkProver over BabyBear (lanes 1..3, Horner K 2..5, min height 1..4 chosen per program); "
                   + ("forged traces: consistent re-execution with a substituted constant / hint output, single ALU or Const cell edits; "
                      "accepted forgeries judged by an independent sat check; " if forge else "")
                   + "distinct = distinct program texts proved",
           "samples": rep["samples"], "input_distribution": rep["hist"],
           "explanation": "the Lean models these theorems speak about are tied to the code by the correspondence runs of C09 (roles / multiplicities: "
                          "Model/Roles), C11 (row constraints, interactions and the Horner schedule: Model/AluAir, Model/AluSchedule) and C02 (runner: "
                          "Model/Runner); this check adds the end-to-end oracle on the real prover and verifier"
                          + ("; forgery modes: constant substitution, single ALU / Const cell edits, hint-output substitution, and the table's own "
                             "reading of HornerAcc steps (accumulator from the previous row) replayed against the op relation (finding F20)" if forge else "")}
    return violations, cov


def sched_violations(ctx, classes):
    """The scheduled-trace oracle of the C11 harness (honest traces laid out by the real AluAir::trace_to_matrix
    incl. packed Horner rows, lanes, separators; single-cell tampering of *matrix* cells — intermediates and b^2
    columns that no `Traces`-level forgery can reach). Returns the violations of the given classes."""
    tier, seed, work = ctx["tier"], ctx["seed"], ctx["work"]
    n_sched, tampers = (1500, 12) if tier == "quick" else (60000, 24)
    out = f"{work}/sched"
    rc, o = ctx["sh"]([ctx["harness"], "alusched", "--seed", str(seed), "--cases", str(n_sched), "--tampers", str(tampers), "--out", out], timeout=7200)
    if rc != 0:
        return [{"class": "harness-crash", "what": f"harness alusched exited {rc}: {o[-300:]}", "replay": {}, "no_input": True}], 0
    rep = json.load(open(f"{out}/alusched.report.json"))
    return [{"class": v["kind"] if v["kind"] in classes else v["class"], "what": v["kind"], "replay": v["replay"]}
            for v in rep["violations"] if v["class"] in classes or v["kind"] in classes], rep["evaluations"]


def c10_run(ctx):
    violations, cov = prove_run(ctx, "C10", 0)
    if not ctx.get("replay"):
        v2, n = sched_violations(ctx, {"honest-scheduled-trace-rejected", "trace-build-panic", "height-mismatch"})
        violations += v2
        if cov:
            cov["evaluations"] += n
            cov["rule"] += "; plus honest scheduled ALU traces (real trace_to_matrix: packed Horner arities, lanes, separators) that the real AluAir::eval must accept"
    return violations, cov


CHECK = {
    "lean_modules": ["P3R.Props.C10", "P3R.Props.C10Full", "P3R.Props.C11Sched"],
    "theorems": ["P3R.C10.record_row_add", "P3R.C10.record_row_mul", "P3R.C10.record_row_muladd", "P3R.C10.record_row_bool",
                 "P3R.C10.honest_bus_balanced",
                 # model-level completeness: the honest trace meets both acceptance conditions of C04.accepted_sat
                 "P3R.C10.holds_rowOk", "P3R.C10.honest_rows", "P3R.C10.honest_tupleNet", "P3R.C10.honest_bus",
                 "P3R.C10.honest_accepted", "P3R.C10.run_honest_accepted",
                 # the scheduled / packed layout keeps every index's net multiplicity (proved over the schedule model of C11)
                 "P3R.C11.schedule_preserves_bus"],
    "run": c10_run,
    "trusted_base": ["STARK completeness: a trace satisfying all row constraints with a balanced bus is provable (also exercised for real by every run)"],
    "assumptions": ["BabyBear D=1 circuits of primitive ops and hints; the scheduled/packed ALU layout: bus preservation is proved over the Lean schedule model (C11.schedule_preserves_bus, model tied to the real AluAir by C11's run), the main-trace layout (intermediate accumulators) is tied by C11's scheduled-trace oracle"],
}

MANIFEST_ENTRY = {
    "property_id": "C10", "quick_cmd": "bin/check C10 --tier quick", "thorough_cmd": "bin/check C10 --tier thorough",
    "evidence_file": "evidence/C10.json", "replay_cmd_template": "bin/check C10 --replay {path}", "engine": "lean-models",
    "technique": "Lean 4 theorems linking runner records to ALU row constraints and bus balance + real prove/verify of generated circuits",
    "level_claimed": {"category": "proof", "text": "run_honest_accepted: a successful modelled run with satisfying inputs yields a trace whose row constraints vanish (ADD/MUL/BOOL/MUL_ADD/chained single-step HORNER, D=1) and whose WitnessChecks bus balances tuple by tuple — proved for every circuit with Horner chains and created read slots; the Horner/scheduled part is partial (finding F7) and, like real prover success, exercised by proving and verifying every generated satisfying program.", "design_ref": "4/C10"},
    "level_note": "STARK completeness assumed and exercised; known findings F7 (Horner steps that are not chains) and F17 (unused private input) reported as KNOWN-FINDING",
}
