//! C17 support: the recursion configuration (KoalaBear, D = 4, Poseidon2 width 16, testing FRI
//! parameters) wired exactly like `recursion/examples/common/mod.rs::define_field_module_types`,
//! a three-column AIR family for uni-STARK children, and the dummy batch-STARK child of
//! `recursion/examples/recursive_aggregation.rs`.

use std::rc::Rc;
use std::sync::Arc;

use p3_air::{Air, AirBuilder, BaseAir, WindowAccess};
use p3_batch_stark::ProverData;
use p3_circuit::ops::{generate_poseidon2_trace, generate_recompose_trace};
use p3_circuit::{CircuitBuilder, CircuitRunner, NonPrimitiveOpId};
use p3_circuit_prover::common::get_airs_and_degrees_with_prep;
use p3_circuit_prover::{BatchStarkProver, CircuitProverData, ConstraintProfile, TablePacking};
use p3_commit::Pcs;
use p3_field::{Field, PrimeCharacteristicRing};
use p3_fri::FriParameters;
use p3_lookup::logup::LogUpGadget;
use p3_matrix::dense::RowMajorMatrix;
use p3_poseidon2_circuit_air::KoalaBearD4Width16;
use p3_recursion::pcs::{
    FriProofTargets, InputProofTargets, MerkleCapTargets, RecExtensionValMmcs, RecValMmcs, Witness,
    set_fri_mmcs_private_data,
};
use p3_recursion::traits::{RecursiveAir, RecursivePcs};
use p3_recursion::verifier::VerificationError;
use p3_recursion::{
    FriRecursionConfig, FriVerifierParams, Poseidon2Config, ProveNextLayerParams, RecursionInput,
    RecursionOutput,
};
use p3_test_utils::koala_bear_params::*;
use p3_uni_stark::{StarkGenericConfig, Val};

pub type EF = Challenge;
pub const DD: usize = 4;
pub const P2: Poseidon2Config = Poseidon2Config::KOALA_BEAR_D4_W16;
pub const LOG_BLOWUP: usize = 2;
pub const LOG_FINAL_POLY_LEN: usize = 0;

pub type InnerFri = FriProofTargets<
    F,
    Challenge,
    RecExtensionValMmcs<F, Challenge, DIGEST_ELEMS, RecValMmcs<F, DIGEST_ELEMS, MyHash, MyCompress>>,
    InputProofTargets<F, Challenge, RecValMmcs<F, DIGEST_ELEMS, MyHash, MyCompress>>,
    Witness<F>,
>;

#[derive(Clone)]
pub struct Cfg {
    pub config: Arc<MyConfig>,
    pub fri: FriVerifierParams,
}

impl StarkGenericConfig for Cfg {
    type Challenge = Challenge;
    type Challenger = Challenger;
    type Pcs = MyPcs;
    fn pcs(&self) -> &MyPcs {
        self.config.pcs()
    }
    fn initialise_challenger(&self) -> Challenger {
        self.config.initialise_challenger()
    }
}

impl FriRecursionConfig for Cfg
where
    MyPcs: RecursivePcs<
            Cfg,
            InputProofTargets<F, Challenge, RecValMmcs<F, DIGEST_ELEMS, MyHash, MyCompress>>,
            InnerFri,
            MerkleCapTargets<F, DIGEST_ELEMS>,
            <MyPcs as Pcs<Challenge, Challenger>>::Domain,
        >,
{
    type Commitment = MerkleCapTargets<F, DIGEST_ELEMS>;
    type InputProof = InputProofTargets<F, Challenge, RecValMmcs<F, DIGEST_ELEMS, MyHash, MyCompress>>;
    type OpeningProof = InnerFri;
    type RawOpeningProof = <MyPcs as Pcs<Challenge, Challenger>>::Proof;
    const DIGEST_ELEMS: usize = 8;

    fn with_fri_opening_proof<'a, A, R>(
        prev: &RecursionInput<'a, Self, A>,
        f: impl FnOnce(&Self::RawOpeningProof) -> R,
    ) -> R
    where
        A: RecursiveAir<Val<Self>, Self::Challenge, LogUpGadget>,
    {
        match prev {
            RecursionInput::UniStark { proof, .. } => f(&proof.opening_proof),
            RecursionInput::BatchStark { proof, .. } => f(&proof.proof.opening_proof),
        }
    }

    fn prepare_circuit_for_verification(
        &self,
        circuit: &mut CircuitBuilder<Challenge>,
    ) -> Result<(), VerificationError> {
        let perm = default_koalabear_poseidon2_16();
        circuit.enable_poseidon2_perm::<KoalaBearD4Width16, _>(
            generate_poseidon2_trace::<Challenge, KoalaBearD4Width16>,
            perm,
        );
        circuit.enable_recompose::<F>(generate_recompose_trace::<F, Challenge>);
        Ok(())
    }

    fn pcs_verifier_params(&self) -> &FriVerifierParams {
        &self.fri
    }

    fn set_fri_private_data(
        runner: &mut CircuitRunner<'_, Challenge>,
        op_ids: &[NonPrimitiveOpId],
        opening_proof: &Self::RawOpeningProof,
    ) -> Result<(), &'static str> {
        set_fri_mmcs_private_data::<F, Challenge, ChallengeMmcs, MyMmcs, MyHash, MyCompress, DIGEST_ELEMS>(
            runner,
            op_ids,
            opening_proof,
            P2,
        )
    }
}

pub fn make_cfg() -> Cfg {
    let perm = default_koalabear_poseidon2_16();
    let hash = MyHash::new(perm.clone());
    let compress = MyCompress::new(perm.clone());
    let val_mmcs = MyMmcs::new(hash, compress, 0);
    let challenge_mmcs = ChallengeMmcs::new(val_mmcs.clone());
    let fri_params = FriParameters {
        max_log_arity: 1,
        log_blowup: LOG_BLOWUP,
        log_final_poly_len: LOG_FINAL_POLY_LEN,
        num_queries: 2,
        commit_proof_of_work_bits: 1,
        query_proof_of_work_bits: 1,
        mmcs: challenge_mmcs,
    };
    let pcs = MyPcs::new(Dft::default(), val_mmcs, fri_params);
    let config = MyConfig::new(pcs, Challenger::new(perm));
    Cfg {
        config: Arc::new(config),
        fri: FriVerifierParams::with_mmcs(LOG_BLOWUP, LOG_FINAL_POLY_LEN, 1, 1, P2),
    }
}

/// The parameter sets a history can switch between ("parameter changes between steps").
pub const NUM_PIDS: usize = 3;
pub fn packing(pid: usize) -> TablePacking {
    // the minimum trace height differs too, so that the packing recorded in a proof identifies the
    // parameter set even when the prover reduces the lanes of an (almost) empty table
    match pid {
        0 => TablePacking::new(1, 1).with_fri_params(LOG_FINAL_POLY_LEN, LOG_BLOWUP),
        1 => TablePacking::new(2, 2).with_fri_params(LOG_FINAL_POLY_LEN, LOG_BLOWUP + 1),
        _ => TablePacking::new(1, 3).with_fri_params(LOG_FINAL_POLY_LEN, LOG_BLOWUP + 2),
    }
}
pub fn params(pid: usize) -> ProveNextLayerParams {
    ProveNextLayerParams { table_packing: packing(pid), constraint_profile: ConstraintProfile::Standard }
}

/// The verifier a caller builds for a layer output (as in the examples).
pub fn layer_verifier(cfg: &Cfg, pid: usize) -> BatchStarkProver<Cfg> {
    let mut v = BatchStarkProver::new(cfg.clone()).with_table_packing(packing(pid));
    v.register_poseidon2_table::<DD>(P2);
    v.register_recompose_table::<DD>(false);
    v
}

// ------------------------------------------------------------------ uni-STARK children

/// Three columns `x y z`, one constraint. `XX`: `x·x = z`, `XY`: `x·y = z`, `Add`: `x + y = z`,
/// `XYY`: `x·y·y = z`.
#[derive(Clone, Copy, Debug, PartialEq, Eq)]
pub enum TinyAir {
    XX,
    XY,
    Add,
    XYY,
}

impl TinyAir {
    pub fn name(&self) -> &'static str {
        match self {
            TinyAir::XX => "xx",
            TinyAir::XY => "xy",
            TinyAir::Add => "add",
            TinyAir::XYY => "xyy",
        }
    }
    pub fn parse(s: &str) -> Option<Self> {
        Some(match s {
            "xx" => TinyAir::XX,
            "xy" => TinyAir::XY,
            "add" => TinyAir::Add,
            "xyy" => TinyAir::XYY,
            _ => return None,
        })
    }
    pub fn trace(&self, rows: usize, offset: u64) -> RowMajorMatrix<F> {
        let mut v = F::zero_vec(rows * 3);
        for r in 0..rows {
            let x = F::from_u64(3 + offset + 2 * r as u64);
            let y = F::from_u64(5 + 7 * offset + 3 * r as u64);
            v[3 * r] = x;
            v[3 * r + 1] = y;
            v[3 * r + 2] = match self {
                TinyAir::XX => x * x,
                TinyAir::XY => x * y,
                TinyAir::Add => x + y,
                TinyAir::XYY => x * y * y,
            };
        }
        RowMajorMatrix::new(v, 3)
    }
}

impl<T: Field> BaseAir<T> for TinyAir {
    fn width(&self) -> usize {
        3
    }
}

impl<AB: AirBuilder> Air<AB> for TinyAir
where
    AB::F: Field,
{
    fn eval(&self, builder: &mut AB) {
        let main = builder.main();
        let row = main.current_slice();
        let (x, y, z) = (row[0], row[1], row[2]);
        match self {
            TinyAir::XX => builder.assert_zero(x * x - z),
            TinyAir::XY => builder.assert_zero(x * y - z),
            TinyAir::Add => builder.assert_zero(x + y - z),
            TinyAir::XYY => builder.assert_zero(x * y * y - z),
        }
    }
}

pub fn prove_uni(cfg: &Cfg, air: TinyAir, log_rows: usize, offset: u64) -> p3_uni_stark::Proof<Cfg> {
    let trace = air.trace(1 << log_rows, offset);
    let proof = p3_uni_stark::prove(cfg, &air, trace, &[]);
    p3_uni_stark::verify(cfg, &air, &proof, &[]).expect("base uni-stark proof must verify");
    proof
}

// ------------------------------------------------------------------ batch-STARK child

/// `recursive_aggregation.rs::prove_dummy_circuit`: a constant connected to a public input.
/// A base circuit with exactly ONE ALU op, proven with `alu_lanes = 4`: `BatchStarkProver::prove` then
/// takes its lane-reduction branch (a one-row ALU table is reduced to one lane and the preparation data
/// is recomputed), so the common data stored *in the proof* differs from the `CircuitProverData` the
/// caller holds — the shape in which `RecursionOutput::into_recursion_input` must use the proof's copy.
pub fn prove_one_alu(cfg: &Cfg, constant: u32) -> RecursionOutput<Cfg> {
    let table_packing = TablePacking::new(1, 4).with_fri_params(LOG_FINAL_POLY_LEN, LOG_BLOWUP);
    let mut builder = CircuitBuilder::new();
    let c = builder.alloc_const(F::from_u32(constant), "c");
    let x = builder.alloc_public_input("x");
    let y = builder.add(x, c);
    let expected = builder.alloc_public_input("expected");
    builder.connect(y, expected);
    let circuit = builder.build().unwrap();
    let (airs_degrees, prim, nonprim) =
        get_airs_and_degrees_with_prep::<Cfg, F, 1>(&circuit, &table_packing, &[], &[], ConstraintProfile::Standard).unwrap();
    let (airs, degrees): (Vec<_>, Vec<usize>) = airs_degrees.into_iter().unzip();
    let mut runner = circuit.runner();
    runner.set_public_inputs(&[F::from_u32(5), F::from_u32(5) + F::from_u32(constant)]).unwrap();
    let traces = runner.run().unwrap();
    let pd = ProverData::from_airs_and_degrees(cfg, &airs, &degrees);
    let cpd = CircuitProverData::new(pd, prim, nonprim);
    let prover = BatchStarkProver::new(cfg.clone()).with_table_packing(table_packing);
    let proof = prover.prove_all_tables(&traces, &cpd).expect("one-ALU-op circuit must prove");
    prover.verify_all_tables::<F>(&proof).expect("one-ALU-op proof must verify");
    RecursionOutput(proof, Rc::new(cpd))
}

pub fn prove_dummy(cfg: &Cfg, constant: u32) -> RecursionOutput<Cfg> {
    let table_packing = TablePacking::new(1, 1).with_fri_params(LOG_FINAL_POLY_LEN, LOG_BLOWUP);
    let mut builder = CircuitBuilder::new();
    let c = builder.alloc_const(F::from_u32(constant), "dummy_const");
    let expected = builder.alloc_public_input("expected");
    builder.connect(c, expected);
    let circuit = builder.build().unwrap();
    let (airs_degrees, prim, nonprim) =
        get_airs_and_degrees_with_prep::<Cfg, F, 1>(&circuit, &table_packing, &[], &[], ConstraintProfile::Standard).unwrap();
    let (airs, degrees): (Vec<_>, Vec<usize>) = airs_degrees.into_iter().unzip();
    let mut runner = circuit.runner();
    runner.set_public_inputs(&[F::from_u32(constant)]).unwrap();
    let traces = runner.run().unwrap();
    let pd = ProverData::from_airs_and_degrees(cfg, &airs, &degrees);
    let cpd = CircuitProverData::new(pd, prim, nonprim);
    let prover = BatchStarkProver::new(cfg.clone()).with_table_packing(table_packing);
    let proof = prover.prove_all_tables(&traces, &cpd).expect("dummy circuit must prove");
    prover.verify_all_tables::<F>(&proof).expect("dummy proof must verify");
    RecursionOutput(proof, Rc::new(cpd))
}
