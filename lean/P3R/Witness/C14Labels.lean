/-
C14 (labels) — non-vacuity of `P3R.Props.C14Labels` and necessity of the side condition `NameOk`.

* The structured labels render to the very strings the model prints (`render_examples`), and a
  shape with every kind of block instantiates the main theorems on non-empty vectors
  (`wUni_sizes`, `wBatch_sizes`, `wUni_pos`).
* Each clause of `NameOk` (names are non-empty, contain no `.`, contain no digit) is needed for the
  rendering to be injective: `digit_in_name_collides`, `dot_in_name_collides`,
  `empty_name_collides` give, for a name violating one clause, two different segment lists with
  the same string.
-/
import P3R.Props.C14Labels

namespace P3R.Witness.C14
open P3R.Packing P3R.C14

/-- The renderings are the label strings of the model. -/
theorem render_examples :
    render [.name .com, .name .main, .nameIdx .r 0, .idx 3] = "com.main.r0.3"
      ∧ render [.nameIdx .ov 2, .nameIdx .q 1, .idx 0] = "ov2.q1.0"
      ∧ render [.name .fri, .nameIdx .q 0, .nameIdx .ph 11, .nameIdx .salt 0, .idx 12]
          = "fri.q0.ph11.salt0.12"
      ∧ render [.name .termN, .idx 4] = "term.4" := by
  refine ⟨?_, ?_, ?_, ?_⟩ <;> decide

/-- A uni-STARK shape with every kind of block: ZK (random commitment / opening, hiding random
    openings, salts), preprocessed, two queries with an arity-2 and an arity-4 phase. -/
def wUni : UniShape :=
  ⟨2, ⟨1, none, 2, some 1⟩, ⟨3, some 3, some 1, some 1, [2, 2], some 1⟩,
   ⟨some [[[1, 2]], [[1]]],
    ⟨[1, 2], 2,
     [⟨[⟨[3, 2], [1, 1]⟩, ⟨[2], [1]⟩], [⟨1, 1, [2]⟩, ⟨2, 3, [2]⟩]⟩,
      ⟨[⟨[3, 2], [1, 1]⟩, ⟨[2], [1]⟩], [⟨1, 1, [2]⟩, ⟨2, 3, [2]⟩]⟩], 2⟩⟩,
   some 1⟩

/-- A batch shape: two instances, lookups (permutation commitment, terminals), preprocessed. -/
def wBatch : BatchShape :=
  ⟨[1, 0, 2], ⟨1, some 1, 1, none⟩,
   [⟨⟨2, some 2, some 1, some 1, [1], none⟩, 1, 1⟩, ⟨⟨3, none, none, none, [1, 1], none⟩, 2, 2⟩],
   ⟨none, ⟨[1], 1, [⟨[⟨[2, 1], []⟩], [⟨1, 1, []⟩]⟩], 1⟩⟩, [true, false, true], some 2⟩

theorem wUni_sizes : (uniPub 8 wUni).length = 71 ∧ (uniPriv 4 wUni).length = 77 := by
  constructor <;> rfl

theorem wBatch_sizes : (batchPub 8 wBatch).length = 56 ∧ (batchPriv 4 wBatch).length = 25 := by
  constructor <;> rfl

/-- `packed_position_unique_uni` at work: `fri.q1.ph1.sib.7` sits at private position 70 and
    therefore at no other private position and at no public position. -/
theorem wUni_pos : (uniPriv 4 wUni)[70]? = some "fri.q1.ph1.sib.7"
    ∧ (∀ j : Nat, (uniPriv 4 wUni)[j]? = some "fri.q1.ph1.sib.7" → j = 70)
    ∧ (∀ j : Nat, (uniPub 8 wUni)[j]? ≠ some "fri.q1.ph1.sib.7") := by
  have h : (uniPriv 4 wUni)[70]? = some "fri.q1.ph1.sib.7" := by decide
  refine ⟨h, fun j hj => ?_, fun j hj => ?_⟩
  · exact ((packed_position_unique_uni 4 8 wUni _ j 70).2.1 hj h)
  · exact (packed_position_unique_uni 4 8 wUni _ j 70).2.2 hj h

/-- A digit inside a name: `q1` + index `2` and `q` + index `12` are both `q12`. -/
theorem digit_in_name_collides :
    ¬ NameOk "q1" ∧ ("q1" ++ toString 2 : String) = "q" ++ toString 12 ∧ ("q1", 2) ≠ ("q", 12) := by
  refine ⟨by decide, by decide, by decide⟩

/-- A `.` inside a name: the paths `a.b / c` and `a / b.c` are both `a.b.c`. -/
theorem dot_in_name_collides :
    ¬ NameOk "a.b" ∧ ("a.b" ++ "." ++ "c" : String) = "a" ++ "." ++ "b.c"
      ∧ ["a.b", "c"] ≠ ["a", "b.c"] := by
  refine ⟨by decide, by decide, by decide⟩

/-- An empty name: the segment "name `""` with index 3" and the bare index 3 are both `3`. -/
theorem empty_name_collides : ¬ NameOk "" ∧ ("" ++ toString 3 : String) = toString 3 := by
  refine ⟨by decide, by decide⟩

end P3R.Witness.C14

#print axioms P3R.Witness.C14.render_examples
#print axioms P3R.Witness.C14.wUni_sizes
#print axioms P3R.Witness.C14.wBatch_sizes
#print axioms P3R.Witness.C14.wUni_pos
#print axioms P3R.Witness.C14.digit_in_name_collides
#print axioms P3R.Witness.C14.dot_in_name_collides
#print axioms P3R.Witness.C14.empty_name_collides
