/-
C19 — "never produces traces or reports success from unset values", through the shape run.

`run_ok_shape_ok` needs no hypothesis on the values at all: whenever the modelled `run` succeeds
from a table `w0`, the value-free shape run (Model/RunnerShape.lean) succeeds from `w0`'s
definedness pattern. Contrapositive (`shape_fail_run_err`): if the supplied inputs leave the circuit
structurally under-determined — some operand undefined when an op needs it, some slot never set —
then `run` returns an error whatever the values are; it cannot "succeed from unset values".
-/
import P3R.Props.C02Shape

namespace P3R.C19
open P3R P3R.C02

variable {K : Type} [Field K] [DecidableEq K]

theorem setW_ok_shape (t t' : Array (Option K)) (i : Nat) (v : K) (h : setW t i v = .ok t') :
    setS (shape t) i = some (shape t') := by
  unfold setW at h
  unfold setS
  rw [shape_size]
  cases hti : t[i]? with
  | none => rw [hti] at h; cases h
  | some o =>
    have hlt : i < t.size := by
      by_contra hge
      have : t[i]? = none := Array.getElem?_eq_none (by omega)
      rw [this] at hti; cases hti
    have hget : t[i] = o := by
      have : t[i]? = some t[i] := by simp [hlt]
      rw [this] at hti; exact Option.some.inj hti
    rw [hti] at h
    simp only [hlt, if_true]
    cases o with
    | some old =>
      simp only at h
      split at h
      · cases h
        congr 1
        apply Array.ext
        · simp [shape]
        · intro j h1 h2
          by_cases hji : i = j
          · subst hji; simp [shape, hget]
          · rw [Array.getElem_setIfInBounds_ne (by simpa [shape] using h2) hji]
      · cases h
    | none =>
      simp only at h
      cases h
      congr 1
      apply Array.ext
      · simp [shape]
      · intro j h1 h2
        by_cases hji : i = j
        · subst hji; simp [shape]
        · have hjt : j < t.size := by simpa [shape] using h1
          simp only [shape, Array.getElem_map]
          rw [Array.getElem_setIfInBounds_ne hjt hji, Array.getElem_setIfInBounds_ne (by simpa using hjt) hji]
          simp

theorem getW_ok_shape (t : Array (Option K)) (i : Nat) (x : K) (h : getW t i = .ok x) :
    getS (shape t) i = true := by
  unfold getW at h
  rw [getS_shape]
  cases hs : slot t i with
  | none => rw [hs] at h; cases h
  | some y => rfl

theorem slot_none_shape (t : Array (Option K)) (i : Nat) (h : slot t i = none) : getS (shape t) i = false := by
  rw [getS_shape, h]; rfl

theorem slot_some_shape (t : Array (Option K)) (i : Nat) (x : K) (h : slot t i = some x) :
    getS (shape t) i = true := by
  rw [getS_shape, h]; rfl

theorem bindE {ε α β} {x : Except ε α} {f : α → Except ε β} {b : β}
    (h : x >>= f = .ok b) : ∃ a, x = .ok a ∧ f a = .ok b := by
  cases x with
  | error e => cases h
  | ok a => exact ⟨a, rfl, h⟩

theorem execAlu_ok_shape (t t' : Array (Option K)) (k : AluKind) (a b : Nat) (c : Option Nat) (out : Nat)
    (io : Option Nat) (r : AluRec K) (h : execAlu t k a b c out io = .ok (t', r)) :
    execAluShape (shape t) k a b c out io = some (shape t') := by
  cases k with
  | add =>
    simp only [execAlu] at h
    obtain ⟨av, hav, h⟩ := bindE h
    simp only [execAluShape, getW_ok_shape t a av hav, Bool.not_true, Bool.false_eq_true, if_false]
    cases hsb : slot t b with
    | some bv =>
      rw [hsb] at h; simp only at h
      obtain ⟨t1, hset, h⟩ := bindE h
      cases h
      rw [slot_some_shape t b bv hsb]; simp only [if_true]
      exact setW_ok_shape t t' out _ hset
    | none =>
      rw [hsb] at h; simp only at h
      obtain ⟨ov, hov, h⟩ := bindE h
      obtain ⟨t1, hset, h⟩ := bindE h
      cases h
      rw [slot_none_shape t b hsb, getW_ok_shape t out ov hov]
      simp only [Bool.false_eq_true, if_false, Bool.not_true]
      exact setW_ok_shape t t' b _ hset
  | mul =>
    simp only [execAlu] at h
    obtain ⟨av, hav, h⟩ := bindE h
    simp only [execAluShape, getW_ok_shape t a av hav, Bool.not_true, Bool.false_eq_true, if_false]
    cases hsb : slot t b with
    | some bv =>
      rw [hsb] at h; simp only at h
      obtain ⟨t1, hset, h⟩ := bindE h
      cases h
      rw [slot_some_shape t b bv hsb]; simp only [if_true]
      exact setW_ok_shape t t' out _ hset
    | none =>
      rw [hsb] at h; simp only at h
      obtain ⟨ov, hov, h⟩ := bindE h
      split at h
      · cases h
      · obtain ⟨t1, hset, h⟩ := bindE h
        cases h
        rw [slot_none_shape t b hsb, getW_ok_shape t out ov hov]
        simp only [Bool.false_eq_true, if_false, Bool.not_true]
        exact setW_ok_shape t t' b _ hset
  | boolCheck =>
    simp only [execAlu] at h
    obtain ⟨av, hav, h⟩ := bindE h
    obtain ⟨t1, hset, h⟩ := bindE h
    cases h
    simp only [execAluShape, getW_ok_shape t a av hav, Bool.not_true, Bool.false_eq_true, if_false]
    exact setW_ok_shape t t' out _ hset
  | mulAdd =>
    cases io with
    | none =>
      cases c with
      | none =>
        simp only [execAlu] at h
        obtain ⟨av, hav, h⟩ := bindE h
        obtain ⟨bv, hbv, h⟩ := bindE h
        obtain ⟨t1, hio, h⟩ := bindE h
        obtain ⟨cv, hcv, h⟩ := bindE h
        obtain ⟨t2, hset, h⟩ := bindE h
        cases h; cases hio
        simp only [execAluShape, getW_ok_shape t a av hav, getW_ok_shape t b bv hbv, Bool.not_true,
          Bool.or_self, Bool.false_eq_true, if_false]
        exact setW_ok_shape t t' out _ hset
      | some ci =>
        simp only [execAlu] at h
        obtain ⟨av, hav, h⟩ := bindE h
        obtain ⟨bv, hbv, h⟩ := bindE h
        obtain ⟨t1, hio, h⟩ := bindE h
        obtain ⟨cv, hcv, h⟩ := bindE h
        obtain ⟨t2, hset, h⟩ := bindE h
        cases h; cases hio
        simp only [execAluShape, getW_ok_shape t a av hav, getW_ok_shape t b bv hbv,
          getW_ok_shape t ci cv hcv, Bool.not_true, Bool.or_self, Bool.false_eq_true, if_false]
        exact setW_ok_shape t t' out _ hset
    | some i =>
      cases c with
      | none =>
        simp only [execAlu] at h
        obtain ⟨av, hav, h⟩ := bindE h
        obtain ⟨bv, hbv, h⟩ := bindE h
        obtain ⟨t1, hio, h⟩ := bindE h
        obtain ⟨cv, hcv, h⟩ := bindE h
        obtain ⟨t2, hset, h⟩ := bindE h
        cases h
        simp only [execAluShape, getW_ok_shape t a av hav, getW_ok_shape t b bv hbv, Bool.not_true,
          Bool.or_self, Bool.false_eq_true, if_false, setW_ok_shape t t1 i _ hio]
        exact setW_ok_shape t1 t' out _ hset
      | some ci =>
        simp only [execAlu] at h
        obtain ⟨av, hav, h⟩ := bindE h
        obtain ⟨bv, hbv, h⟩ := bindE h
        obtain ⟨t1, hio, h⟩ := bindE h
        obtain ⟨cv, hcv, h⟩ := bindE h
        obtain ⟨t2, hset, h⟩ := bindE h
        cases h
        simp only [execAluShape, getW_ok_shape t a av hav, getW_ok_shape t b bv hbv, Bool.not_true,
          Bool.or_self, Bool.false_eq_true, if_false, setW_ok_shape t t1 i _ hio,
          getW_ok_shape t1 ci cv hcv]
        exact setW_ok_shape t1 t' out _ hset
  | horner =>
    simp only [execAlu] at h
    cases io with
    | none => cases h
    | some acc =>
      cases c with
      | none => cases h
      | some cId =>
        simp only at h
        obtain ⟨accv, h1, h⟩ := bindE h
        obtain ⟨av, h2, h⟩ := bindE h
        obtain ⟨bv, h3, h⟩ := bindE h
        obtain ⟨cv, h4, h⟩ := bindE h
        obtain ⟨t1, hset, h⟩ := bindE h
        cases h
        simp only [execAluShape, getW_ok_shape t acc accv h1, getW_ok_shape t a av h2,
          getW_ok_shape t b bv h3, getW_ok_shape t cId cv h4, Bool.not_true, Bool.or_self,
          Bool.false_eq_true, if_false]
        exact setW_ok_shape t t' out _ hset

theorem foldlM_setW_ok_shape {α} (f : α → Nat) (g : α → K) :
    ∀ (l : List α) (t t' : Array (Option K)), l.foldlM (fun t x => setW t (f x) (g x)) t = .ok t' →
      (l.map f).foldlM (fun t o => setS t o) (shape t) = some (shape t') := by
  intro l
  induction l with
  | nil => intro t t' h; simp only [List.foldlM_nil, pure, Except.pure] at h; cases h; rfl
  | cons x xs ih =>
    intro t t' h
    simp only [List.foldlM_cons] at h
    obtain ⟨t1, h1, h2⟩ := bindE h
    simp only [List.map_cons, List.foldlM_cons, setW_ok_shape t t1 (f x) (g x) h1]
    exact ih t1 t' h2

theorem execOp_ok_shape (canon : K → Nat) (s s' : RState K) (op : Op K) (h : execOp canon s op = .ok s') :
    execOpShape (shape s.w) op = some (shape s'.w) := by
  cases op with
  | const out v =>
    simp only [execOp] at h
    obtain ⟨t1, hset, h⟩ := bindE h
    cases h
    exact setW_ok_shape s.w t1 out v hset
  | pub out pos =>
    simp only [execOp] at h
    simp only [execOpShape]
    cases hs : slot s.w out with
    | none => rw [hs] at h; cases h
    | some x => rw [hs] at h; cases h; rw [slot_some_shape s.w out x hs]; rfl
  | alu k a b c out io =>
    simp only [execOp] at h
    obtain ⟨⟨t1, r⟩, hex, h⟩ := bindE h
    cases h
    exact execAlu_ok_shape s.w t1 k a b c out io r hex
  | npo _ _ _ _ => simp [execOp] at h
  | hint ins outs kd =>
    cases kd with
    | table _ => simp [execOp] at h
    | hintBits =>
      simp only [execOp] at h
      obtain ⟨t1, hh, h⟩ := bindE h
      cases h
      unfold execHintBits at hh
      match ins, hh with
      | [x], hh =>
        simp only at hh
        obtain ⟨xv, hx, hh⟩ := bindE hh
        simp only [execOpShape, getW_ok_shape s.w x xv hx, Bool.not_true, Bool.false_eq_true, if_false]
        have := foldlM_setW_ok_shape (fun (oi : Nat × Nat) => oi.1)
          (fun oi => if (canon xv >>> oi.2) % 2 = 1 then (1 : K) else 0) outs.zipIdx s.w t1 hh
        rw [List.zipIdx_map_fst] at this
        exact this
      | [], hh => cases hh
      | _ :: _ :: _, hh => cases hh
    | hintExt =>
      simp only [execOp] at h
      obtain ⟨t1, hh, h⟩ := bindE h
      cases h
      unfold execHintExt at hh
      match ins, outs, hh with
      | [x], [o], hh =>
        simp only at hh
        obtain ⟨xv, hx, hh⟩ := bindE hh
        simp only [execOpShape, getW_ok_shape s.w x xv hx, Bool.not_true, Bool.false_eq_true, if_false]
        exact setW_ok_shape s.w t1 o xv hh
      | [], _, hh => cases hh
      | [_], [], hh => cases hh
      | [_], _ :: _ :: _, hh => cases hh
      | _ :: _ :: _, _, hh => cases hh

theorem execAll_ok_shape (canon : K → Nat) :
    ∀ (ops : List (Op K)) (s s' : RState K), ops.foldlM (execOp canon) s = .ok s' →
      ops.foldlM execOpShape (shape s.w) = some (shape s'.w) := by
  intro ops
  induction ops with
  | nil => intro s s' h; simp only [List.foldlM_nil, pure, Except.pure] at h; cases h; rfl
  | cons op ops ih =>
    intro s s' h
    simp only [List.foldlM_cons] at h
    obtain ⟨s1, h1, h2⟩ := bindE h
    simp only [List.foldlM_cons, execOp_ok_shape canon s s1 op h1]
    exact ih s1 s' h2

theorem postpass_ok_shape (g : Nat → Nat) :
    ∀ (l : List (Nat × Nat)) (t t' : Array (Option K)),
      l.foldlM (fun t (dc : Nat × Nat) =>
          match slot t (g dc.2) with
          | some v => setW t dc.1 v
          | none => pure t) t = .ok t' →
      l.foldlM (fun t (dc : Nat × Nat) => if getS t (g dc.2) then setS t dc.1 else some t) (shape t)
        = some (shape t') := by
  intro l
  induction l with
  | nil => intro t t' h; simp only [List.foldlM_nil, pure, Except.pure] at h; cases h; rfl
  | cons dc rest ih =>
    intro t t' h
    simp only [List.foldlM_cons] at h
    obtain ⟨t1, h1, h2⟩ := bindE h
    simp only [List.foldlM_cons]
    cases hs : slot t (g dc.2) with
    | none =>
      rw [hs] at h1
      simp only [pure, Except.pure] at h1
      cases h1
      simp only [slot_none_shape t _ hs, Bool.false_eq_true, if_false]
      exact ih t t' h2
    | some v =>
      rw [hs] at h1
      simp only [slot_some_shape t _ v hs, if_true, setW_ok_shape t t1 dc.1 v h1]
      exact ih t1 t' h2

/-- **C19 (model level).** Whatever the field values, a successful `run` implies that the
value-free *shape run* over the definedness pattern of the supplied inputs succeeds. No hypothesis
on the values, on satisfiability or on the hints. -/
theorem run_ok_shape_ok (canon : K → Nat) (c : Circuit K) (w0 : Array (Option K)) (tr : Traces K)
    (h : runFrom canon c w0 = .ok tr) : runShape c (shape w0) = true := by
  unfold runFrom at h
  obtain ⟨s, hs, h⟩ := bindE h
  obtain ⟨w3, hw3, h⟩ := bindE h
  obtain ⟨vals, hv, _⟩ := bindE h
  unfold runShape
  have e1 := execAll_ok_shape canon c.ops.toList { w := w0, recs := #[] } s hs
  simp only at e1
  rw [e1]
  have e2 := postpass_ok_shape (fun d => resolve c.rewrite d) c.rewrite s.w w3 hw3
  simp only at e2 ⊢
  rw [e2]
  exact (mapM_slot_ok_iff w3).mp ⟨vals, hv⟩

/-- **C19, contrapositive.** If the shape run fails for the definedness pattern of the inputs (some
operand is never produced, a slot is left unset, …), `run` returns an error for *every* choice of
values — an under-determined circuit is never silently completed. -/
theorem shape_fail_run_err (canon : K → Nat) (c : Circuit K) (w0 : Array (Option K))
    (hsh : runShape c (shape w0) = false) : ∃ e, runFrom canon c w0 = .error e := by
  cases hr : runFrom canon c w0 with
  | error e => exact ⟨e, rfl⟩
  | ok tr => rw [run_ok_shape_ok canon c w0 tr hr] at hsh; cases hsh

/-- Two input tables with the same definedness pattern that both run to completion had the same
(successful) shape run: success/failure of the structural part never depends on values. -/
theorem shape_only_depends_on_pattern (canon : K → Nat) (c : Circuit K) (w0 w0' : Array (Option K))
    (hp : shape w0 = shape w0') (hsh : runShape c (shape w0) = false) :
    (∃ e, runFrom canon c w0 = .error e) ∧ (∃ e, runFrom canon c w0' = .error e) :=
  ⟨shape_fail_run_err canon c w0 hsh, shape_fail_run_err canon c w0' (hp ▸ hsh)⟩

/-- The session form used by the driver's `sshape` line: whatever calls supplied the inputs, if the
resulting table's definedness pattern fails the shape run, the session ends in an error. -/
theorem session_shape_fail_err (canon : K → Nat) (c : Circuit K) (calls : List (Bool × List K))
    (w : Array (Option K)) (hw : applyCalls c (Array.replicate c.witnessCount none) calls = .ok w)
    (hsh : runShape c (w.map Option.isSome) = false) : ∃ e, session canon c calls = .error e := by
  unfold session
  rw [hw]
  exact shape_fail_run_err canon c w hsh

end P3R.C19
