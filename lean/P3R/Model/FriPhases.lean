/-
L13 (part) — which MMCS openings of a FRI query proof `verify_fri_circuit`
(`recursion/src/pcs/fri/verifier.rs`) actually verifies against their commitments, as a function of
the FRI parameters, the folding schedule and the **Merkle cap heights** of the commitments.
Imports only the packing model.

`P3R.Packing.stepUses` (block level) says that the sibling values *and the MMCS salts* of every
commit-phase step are operands of the verifier. In the Rust that is true only for the phases on
which the commit-phase loop reaches `verify_batch_circuit_from_extension_opened`; the loop has one
special case that skips it:

    let log_folded_height = log_current_height - log_arity;
    if log_folded_height == 0 {            // "no Merkle tree"
        current_folded = fold_one_phase(…); // fold equation only: the salts are read by nothing,
        …; continue;                        // the siblings are tied by arithmetic alone
    }
    … verify_batch_circuit_from_extension_opened(cap, dims = [2^log_folded_height × arity],
                                                 parent_index_bits (log_folded_height many), evals, salts)

and the MMCS gadget derives the cap height from the number of cap entries and refuses a cap that is
higher than the tree (`cap_height > max_height_log → InvalidDimension`, surfaced as
`InvalidProofShape("Commit-phase MMCS verification failed for query q, phase k")`). Otherwise the
opening is hashed (`path_depth = log_folded_height − cap_height` compressions, possibly none) and
compared with the cap entry selected by the remaining index bits — **also when the whole tree sits
inside the cap** (`path_depth = 0`).

`friPhases` transcribes exactly this control flow for one query. `P3R.C14.friPhases_all_mmcs` proves
that with `log_blowup + log_final_poly_len ≥ 1` (every FRI configuration: `log_blowup ≥ 1`) no
phase takes the skip, **whatever the cap heights**, so `stepUses` is the set of operands;
`P3R.Witness.C14.blowup_needed` shows the hypothesis is needed.

The input openings (`open_input`) have no skip: every batch goes through `verify_batch_circuit`,
which refuses a cap higher than the batch's tree.
-/
import P3R.Model.Packing

namespace P3R.Packing

/-- What the commit-phase loop does with the opening of one phase. -/
inductive PhaseVerdict
  /-- leaf hashed (with its salt) and compared with the selected cap entry -/
  | mmcs
  /-- `log_folded_height == 0`: fold equation only -/
  | foldOnly
  deriving DecidableEq, Repr

def PhaseVerdict.name : PhaseVerdict → String
  | .mmcs => "m"
  | .foldOnly => "f"

/-- Where the circuit construction stops with `InvalidProofShape`. -/
inductive PhaseErr
  /-- `MMCS verification failed for batch 0` (input cap higher than the input tree) -/
  | input
  /-- `Commit-phase MMCS verification failed for query 0, phase k` -/
  | phase (k : Nat)
  deriving DecidableEq, Repr

def PhaseErr.name : PhaseErr → String
  | .input => "in"
  | .phase k => s!"ph{k}"

/-- One FRI query of a proof with a single committed matrix of maximal height.
    `phases`: per commit phase its `log_arity` and the cap height of its commitment (the commitment
    has `2 ^ capHeight` entries). `inCap`: cap height of the input commitment. -/
structure PhaseCase where
  logBlowup : Nat
  logFinal : Nat
  inCap : Nat
  phases : List (Nat × Nat)

/-- `log_max_height = Σ log_arity + log_final_poly_len + log_blowup` (`verify_circuit`). -/
def PhaseCase.logMax (c : PhaseCase) : Nat :=
  (c.phases.map Prod.fst).sum + c.logFinal + c.logBlowup

/-- The commit-phase loop from `log_current_height = cur`, phase index `k`. (`cur - a` is the
    Rust's `usize` subtraction; it cannot underflow because `cur ≥` the sum of the remaining
    arities.) -/
def phaseLoop : Nat → Nat → List (Nat × Nat) → Except PhaseErr (List PhaseVerdict)
  | _, _, [] => .ok []
  | cur, k, (a, h) :: rest =>
    let lfh := cur - a
    if lfh = 0 then
      match phaseLoop lfh (k + 1) rest with
      | .error e => .error e
      | .ok vs => .ok (.foldOnly :: vs)
    else if h > lfh then .error (.phase k)
    else
      match phaseLoop lfh (k + 1) rest with
      | .error e => .error e
      | .ok vs => .ok (.mmcs :: vs)

/-- One query of `verify_fri_circuit`: `open_input` (MMCS of the input batch, index bits =
    `log_max_height` many), then the commit-phase loop. -/
def friPhases (c : PhaseCase) : Except PhaseErr (List PhaseVerdict) :=
  if c.inCap > c.logMax then .error .input else phaseLoop c.logMax 0 c.phases

/-- The operands of one commit-phase step given what the loop does with it: the siblings always
    (fold), the salts only when the opening is hashed. -/
def stepUsesAt (v : PhaseVerdict) (D : Nat) (pre : String) (st : StepShape) : List Label :=
  idx s!"{pre}.sib" ((2 ^ st.logArity - 1) * D)
    ++ (match v with | .mmcs => mmcsPriv pre st.proof | .foldOnly => [])

end P3R.Packing
