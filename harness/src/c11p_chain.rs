//! Honest sponge / Merkle chains laid out by the real trace generator, tampering of control cells, and
//! an independent decoder of the *operation's* semantics (written from the executor's meaning of a
//! permutation call — `init_chain_state`, `apply_witness_values`, `apply_merkle_swap`,
//! `place_arity4_running_hash`, the accumulator recurrence of the op — not from the AIR).

use std::collections::BTreeMap;

use serde_json::{Value, json};

use super::{Cols, Layout, OpRow, Table};
use crate::rng::Rng;

#[derive(Clone, Copy, Debug, PartialEq)]
pub enum Src {
    /// inherits limb `i` of the previous row's output
    Chain(usize),
    /// fed from a witness slot (`in_ctl = 1`)
    Wit,
    /// private data (Merkle sibling)
    Free,
    /// fresh state of a new chain
    Zero,
}

/// What the operation of one row means (logical limb order: for an arity-2 Merkle row the running
/// digest is limbs `0..RE`, the sibling `RE..2RE`, *before* the swap by the direction bit).
#[derive(Clone, Debug)]
pub struct Sem {
    pub new_start: bool,
    pub merkle: bool,
    pub bit: bool,
    pub bit2: bool,
    pub src: Vec<Src>,
    /// witness / private values of the logical limbs (D cells each); only `Wit` entries are binding
    pub vals: Vec<Vec<u64>>,
    /// accumulator value of the op on a reset row (new_start or non-Merkle)
    pub start_sum: u64,
    pub sum_ctl: bool,
    pub out_ctl: Vec<bool>,
}

pub fn supported(l: &Layout) -> bool {
    l.arity2() || l.arity4() || l.compact()
}

pub struct CaseOut {
    pub evals: usize,
    pub windows: Vec<(u64, Vec<u64>, Vec<u64>, Vec<u64>, Vec<u64>)>,
}

fn addm(a: u64, b: u64, p: u64) -> u64 {
    ((a as u128 + b as u128) % p as u128) as u64
}
fn mulm(a: u64, b: u64, p: u64) -> u64 {
    ((a as u128 * b as u128) % p as u128) as u64
}

/// physical position of logical limb `l` on this row
fn phys(l: &Layout, s: &Sem, limb: usize) -> usize {
    if s.merkle && l.arity2() && s.bit {
        if limb < l.re { limb + l.re } else if limb < 2 * l.re { limb - l.re } else { limb }
    } else {
        limb
    }
}

/// Semantic accumulator of every row (the op's recurrence: reset on new_start / non-Merkle rows).
pub fn sem_sums(l: &Layout, sems: &[Sem]) -> Vec<u64> {
    let p = l.modulus;
    let mut out = vec![];
    let mut prev = 0u64;
    for (r, s) in sems.iter().enumerate() {
        let v = if r > 0 && s.merkle && !s.new_start {
            if l.arity4() {
                addm(addm(mulm(prev, 4, p), s.bit as u64, p), 2 * s.bit2 as u64, p)
            } else {
                addm(mulm(prev, 2, p), s.bit as u64, p)
            }
        } else {
            s.start_sum
        };
        out.push(v);
        prev = v;
    }
    out
}

/// Rows whose accumulator cell is observable: some later row of the same accumulator segment exposes
/// it (index CTL enabled on a Merkle row directly followed by a chain start; arity 2 only — arity 4
/// exposes its bits instead).
pub fn sum_observable(l: &Layout, sems: &[Sem]) -> Vec<bool> {
    let n = sems.len();
    let mut obs = vec![false; n];
    if l.arity4() {
        return obs;
    }
    let exposed = |e: usize| sems[e].sum_ctl && sems[e].merkle && (e + 1 >= n || sems[e + 1].new_start);
    for r in 0..n {
        let mut e = r;
        loop {
            if exposed(e) {
                obs[r] = true;
                break;
            }
            // the segment continues while the next row is a Merkle continuation row
            if e + 1 < n && sems[e + 1].merkle && !sems[e + 1].new_start {
                e += 1;
            } else {
                break;
            }
        }
    }
    obs
}

fn rnd(rng: &mut Rng, p: u64) -> u64 {
    if rng.chance(1, 8) { rng.below(3) } else { rng.below(p) }
}

/// Generate the meaning of 2–4 chains.
fn gen_sems(l: &Layout, rng: &mut Rng, hist: &mut BTreeMap<String, u64>) -> Vec<Sem> {
    let p = l.modulus;
    let mut sems = vec![];
    let nchains = rng.range(2, 4);
    for _ in 0..nchains {
        let kind = if l.arity4() { if rng.chance(1, 4) { "sponge" } else { "merkle4" } } else if rng.chance(2, 5) { "sponge" } else { "merkle2" };
        let len = rng.range(1, 4);
        let ctl_mode = rng.below(3); // 0: no index CTL, 1: last row only, 2: every Merkle row (intermediate rows too)
        *hist.entry(format!("chain.{}.{}.len{}{}", l.name(), kind, len, if kind == "merkle2" { format!(".idxctl{ctl_mode}") } else { String::new() })).or_default() += 1;
        for k in 0..len {
            let first = k == 0;
            let last = k + 1 == len;
            let vals: Vec<Vec<u64>> = (0..l.we).map(|_| (0..l.d).map(|_| rnd(rng, p)).collect()).collect();
            let mut s = Sem { new_start: first, merkle: kind != "sponge", bit: false, bit2: false, src: vec![Src::Zero; l.we], vals, start_sum: 0, sum_ctl: false, out_ctl: vec![false; l.re] };
            // a sponge prefix in front of a Merkle chain (leaf hashing seeds the Merkle chain)
            match kind {
                "sponge" => {
                    for limb in 0..l.we {
                        let cap = limb >= l.re;
                        let ctl = if l.compact() && cap { false } else if first { if cap { rng.chance(1, 2) } else { rng.chance(4, 5) } } else { !cap && rng.chance(1, 2) };
                        s.src[limb] = if ctl { Src::Wit } else if first { Src::Zero } else { Src::Chain(limb) };
                    }
                }
                "merkle2" => {
                    s.bit = rng.chance(1, 2);
                    for limb in 0..l.re {
                        s.src[limb] = if first { Src::Wit } else if rng.chance(1, 10) { Src::Wit } else { Src::Chain(limb) };
                        s.src[l.re + limb] = if rng.chance(1, 4) { Src::Wit } else { Src::Free };
                    }
                    s.sum_ctl = match ctl_mode {
                        0 => false,
                        1 => last,
                        _ => true,
                    };
                }
                _ => {
                    // arity 4: chunk `pos` carries the running digest, the other chunks siblings
                    s.bit = rng.chance(1, 2);
                    s.bit2 = rng.chance(1, 2);
                    let pos = s.bit as usize + 2 * s.bit2 as usize;
                    for chunk in 0..4 {
                        let inj = rng.chance(1, 5);
                        for slot in 0..l.ce {
                            let limb = chunk * l.ce + slot;
                            s.src[limb] = if first { Src::Wit } else if chunk == pos { Src::Chain(slot) } else if inj { Src::Wit } else { Src::Free };
                        }
                    }
                }
            }
            if last || rng.chance(1, 4) {
                for o in s.out_ctl.iter_mut() {
                    *o = rng.chance(3, 4);
                }
            }
            sems.push(s);
        }
    }
    sems
}

/// Execute the meaning with the reference permutation: op rows for the real trace generator.
fn run_sems(t: &dyn Table, sems: &[Sem]) -> Vec<OpRow> {
    let l = t.layout();
    let sums = sem_sums(&l, sems);
    let mut ops = vec![];
    let mut prev_out: Vec<u64> = vec![0; l.width()];
    let mut next_idx = 7u32;
    for (r, s) in sems.iter().enumerate() {
        let mut input = vec![0u64; l.width()];
        for limb in 0..l.we {
            let pp = phys(&l, s, limb);
            for d in 0..l.d {
                input[pp * l.d + d] = match s.src[limb] {
                    Src::Chain(i) => prev_out[i * l.d + d],
                    Src::Wit | Src::Free => s.vals[limb][d],
                    Src::Zero => 0,
                };
            }
        }
        let out = t.perm(&input);
        let mut o = super::filler(&l);
        o.new_start = s.new_start;
        o.merkle = s.merkle;
        o.bit = s.bit;
        o.bit2 = s.bit2;
        o.sum = if s.sum_ctl || s.new_start || !s.merkle { if s.sum_ctl { sums[r] } else { s.start_sum } } else { 0 };
        o.input = input;
        for limb in 0..l.we {
            o.in_ctl[limb] = s.src[limb] == Src::Wit;
            if o.in_ctl[limb] {
                o.in_idx[limb] = next_idx;
                next_idx += 1;
            }
        }
        for j in 0..l.re {
            o.out_ctl[j] = s.out_ctl[j];
            if o.out_ctl[j] {
                o.out_idx[j] = next_idx;
                next_idx += 1;
            }
        }
        if s.sum_ctl || (l.arity4() && s.merkle) {
            o.sum_ctl = s.sum_ctl;
            o.sum_idx = next_idx;
            next_idx += 1;
        }
        prev_out = out;
        ops.push(o);
    }
    ops
}

/// Violated facts of the operations' meaning on a (possibly tampered) main matrix. Tags:
/// `bit-range`, `bit2-range` (a direction cell of a Merkle row outside {0,1}), `in-wit:<mode>`,
/// `in-zero:<mode>`, `in-chain:<mode>`, `perm`, `bit`, `bit2`, `bitprod`, `sum-start`, `sum-step`.
pub fn judge(t: &dyn Table, c: &Cols, sems: &[Sem], main: &[Vec<u64>]) -> Vec<(usize, String)> {
    let l = t.layout();
    let p = l.modulus;
    let mut facts = vec![];
    let sums = sem_sums(&l, sems);
    let obs = sum_observable(&l, sems);
    for (r, s) in sems.iter().enumerate() {
        let row = &main[r];
        let mode = if s.merkle { "merkle" } else { "sponge" };
        // a direction "bit" outside {0,1} is not a Merkle step, whatever else the row holds (first fact of the
        // row: it names the class of a coordinated selector forgery, see `forge_selector`)
        if s.merkle {
            if row[c.bit] > 1 {
                facts.push((r, "bit-range".into()));
            }
            if l.arity4() && row[c.extra[0]] > 1 {
                facts.push((r, "bit2-range".into()));
            }
        }
        for limb in 0..l.we {
            let pp = phys(&l, s, limb);
            for d in 0..l.d {
                let cell = row[c.inputs[pp * l.d + d]];
                match s.src[limb] {
                    Src::Wit => {
                        if cell != s.vals[limb][d] {
                            facts.push((r, format!("in-wit:{mode}")));
                        }
                    }
                    Src::Zero => {
                        if cell != 0 {
                            facts.push((r, format!("in-zero:{mode}")));
                        }
                    }
                    Src::Chain(i) => {
                        let prev = if r == 0 { 0 } else { main[r - 1][c.outputs[i * l.d + d]] };
                        if cell != prev {
                            facts.push((r, format!("in-chain:{mode}")));
                        }
                    }
                    Src::Free => {}
                }
            }
        }
        // outputs = Perm(inputs): the permutation is an uninterpreted relation for the control part;
        // decided here by the reference permutation
        let inp: Vec<u64> = c.inputs.iter().map(|i| row[*i]).collect();
        let out: Vec<u64> = c.outputs.iter().map(|i| row[*i]).collect();
        if t.perm(&inp) != out {
            facts.push((r, "perm".into()));
        }
        if s.merkle {
            if row[c.bit] != s.bit as u64 {
                facts.push((r, "bit".into()));
            }
            if l.arity4() {
                if row[c.extra[0]] != s.bit2 as u64 {
                    facts.push((r, "bit2".into()));
                }
                if row[c.extra[1]] != mulm(row[c.bit], row[c.extra[0]], p) {
                    facts.push((r, "bitprod".into()));
                }
            }
        }
        if obs[r] && row[c.sum] != sums[r] {
            let reset = r == 0 || s.new_start || !s.merkle;
            facts.push((r, if reset { "sum-start".into() } else { "sum-step".into() }));
        }
    }
    facts
}

/// The real AIR on every window of the table (wrap-around window with `is_transition = 0`).
/// Returns (first failing (row, constraint index), live interactions per row with their position).
pub fn accept(t: &dyn Table, main: &[Vec<u64>], prep: &[Vec<u64>]) -> Option<(Option<(usize, usize)>, Vec<(usize, usize, Vec<u64>, u64)>)> {
    let h = main.len();
    let mut fail = None;
    let mut bus = vec![];
    for r in 0..h {
        let n = (r + 1) % h;
        let tr = if r + 1 < h { 1 } else { 0 };
        let (cons, inter) = t.eval(tr, &main[r], &main[n], &prep[r], &prep[n])?;
        if fail.is_none() {
            if let Some(ci) = cons.iter().position(|x| *x != 0) {
                fail = Some((r, ci));
            }
        }
        for (k, (f, m)) in inter.into_iter().enumerate() {
            if m != 0 {
                bus.push((r, k, f, m));
            }
        }
    }
    Some((fail, bus))
}

/// every failing (row, constraint index) of the table
pub fn failing(t: &dyn Table, main: &[Vec<u64>], prep: &[Vec<u64>]) -> Vec<(usize, usize)> {
    let h = main.len();
    let mut out = vec![];
    for r in 0..h {
        let n = (r + 1) % h;
        let tr = if r + 1 < h { 1 } else { 0 };
        if let Some((cons, _)) = t.eval(tr, &main[r], &main[n], &prep[r], &prep[n]) {
            out.extend(cons.iter().enumerate().filter(|(_, x)| **x != 0).map(|(ci, _)| (r, ci)));
        }
    }
    out
}

/// kind of the `k`-th interaction of a row: 0 input send, 1 output receive, 2 index / bit lookups
fn inter_kind(l: &Layout, k: usize) -> usize {
    let n_in = if l.compact() { l.re } else { l.we };
    if k < n_in { 0 } else if k < n_in + l.re { 1 } else { 2 }
}

fn mode_name(l: &Layout) -> &'static str {
    if l.arity4() { "arity4" } else if l.compact() { "arity2-compact" } else { "arity2" }
}

/// class of an accepted-invalid trace, from the first violated fact
pub fn class_of(l: &Layout, facts: &[(usize, String)]) -> String {
    let f = &facts[0].1;
    let what = match f.as_str() {
        "in-wit:merkle" => "merkle-ctl-input-unbound",
        "in-wit:sponge" => "sponge-ctl-input-unbound",
        "in-zero:merkle" | "in-zero:sponge" => "new-start-unfed-limb-free",
        "in-chain:merkle" => "merkle-placement-unenforced",
        "in-chain:sponge" => "sponge-chaining-unenforced",
        "bit-range" => "mmcs_bit-range-unenforced",
        "bit2-range" => "mmcs_bit2-range-unenforced",
        "bit" => "mmcs_bit-unbound",
        "bit2" => "mmcs_bit2-unbound",
        "bitprod" => "bit-product-unenforced",
        "sum-start" => "index-sum-start-unpinned",
        "sum-step" => "index-sum-recurrence-unenforced",
        "perm" => "permutation-unenforced",
        _ => "other",
    };
    format!("accepts-invalid-row:poseidon:{}:{}", mode_name(l), what)
}

/// Re-derive, from row `from` on, what an honest executor would compute given the (tampered) cells of
/// row `from - 1…`: chained inputs, permutation blocks, accumulator cells — until the chain ends.
fn rechain(t: &dyn Table, c: &Cols, sems: &[Sem], main: &mut [Vec<u64>], from: usize, redo_inputs: bool, redo_sums: bool) {
    let l = t.layout();
    let p = l.modulus;
    let mut r = from;
    while r < sems.len() && !sems[r].new_start {
        let s = &sems[r];
        if redo_inputs {
            for limb in 0..l.we {
                if let Src::Chain(i) = s.src[limb] {
                    let pp = phys(&l, s, limb);
                    for d in 0..l.d {
                        main[r][c.inputs[pp * l.d + d]] = main[r - 1][c.outputs[i * l.d + d]];
                    }
                }
            }
            t.refill(&mut main[r]);
        }
        if redo_sums && s.merkle {
            let prev = main[r - 1][c.sum];
            main[r][c.sum] = if l.arity4() {
                addm(addm(mulm(prev, 4, p), main[r][c.bit], p), mulm(2, main[r][c.extra[0]], p), p)
            } else {
                addm(mulm(prev, 2, p), main[r][c.bit], p)
            };
        }
        r += 1;
    }
}

// ---------------------------------------------------------------------------------------------
// Coordinated selector forgeries.
//
// A single-cell change of a direction cell to a value outside {0,1} is rejected by the placement gates
// whatever happens to the cell's own range check, so single-cell tampering cannot see a lost range check.
// The forgery a malicious prover would submit is coordinated: for a selector-like prover cell X of the row
// (arity 2: `mmcs_bit`; arity 4: `mmcs_bit`, `mmcs_bit2`, the product helper `mmcs_bit_x_bit2`, or both bits)
// and a value t, every OTHER prover cell of the row is solved so that every constraint except X's own check
// (booleanity of a bit; the tie `prod = b0·b1` of the helper) holds:
//   * the dependent helper `prod = b0·b1` (bits forged),
//   * the position weights `h` (arity 4: `(1−b0−b1+prod, b0−prod, b1−prod, prod)`, arity 2: `(1−b0, b0)`): every
//     chunk / half whose weight is non-zero receives the running digest (chained slots only: a CTL-loaded slot
//     has `merkle_chain_sel = 0`),
//   * the row's permutation block is recomputed,
//   * the accumulator cell follows its recurrence with the forged values (`4·prev + b0 + 2·b1`, `2·prev + b0`),
//   * the rows after it are re-chained and re-accumulated honestly.
// On a chain-start row no placement / accumulator gate is live: the forgery is the cell (and the helper) alone.
// The real AIR must reject the result; the decoder judges the relation.

#[derive(Clone, Copy, Debug, PartialEq)]
pub enum SelCell {
    Bit,
    Bit2,
    Prod,
    BothBits,
}

impl SelCell {
    fn name(&self) -> &'static str {
        match self {
            SelCell::Bit => "mmcs_bit",
            SelCell::Bit2 => "mmcs_bit2",
            SelCell::Prod => "mmcs_bit_x_bit2",
            SelCell::BothBits => "mmcs_bit+mmcs_bit2",
        }
    }
}

pub fn sel_cells(l: &Layout) -> Vec<SelCell> {
    if l.arity4() { vec![SelCell::Bit, SelCell::Bit2, SelCell::Prod, SelCell::BothBits] } else { vec![SelCell::Bit] }
}

fn subm(a: u64, b: u64, p: u64) -> u64 {
    addm(a, p - b % p, p)
}

/// Small set of interesting non-boolean values: 2, 3, −1, 1/2 (so that `2t = 1`), −2, random.
pub fn forged_value(rng: &mut Rng, p: u64) -> u64 {
    match rng.below(7) {
        0 | 1 => 2,
        2 => 3,
        3 => p - 1,
        4 => (p + 1) / 2,
        5 => p - 2,
        _ => 2 + rng.below(p - 2),
    }
}

/// Overwrite row `r` of `main` with the coordinated forgery of `cell` (see above). Returns a description
/// (forged control cells, position weights, chunks that received the digest).
pub fn forge_selector(t: &dyn Table, c: &Cols, sems: &[Sem], main: &mut [Vec<u64>], r: usize, cell: SelCell, tv: u64, uv: u64) -> Value {
    let l = t.layout();
    let p = l.modulus;
    let s = &sems[r];
    let a4 = l.arity4();
    let mut b0 = main[r][c.bit];
    let mut b1 = if a4 { main[r][c.extra[0]] } else { 0 };
    #[allow(unused_assignments)]
    let mut pr = if a4 { main[r][c.extra[1]] } else { 0 };
    match cell {
        SelCell::Bit => {
            b0 = tv;
            pr = mulm(b0, b1, p);
        }
        SelCell::Bit2 => {
            b1 = tv;
            pr = mulm(b0, b1, p);
        }
        SelCell::Prod => pr = tv,
        SelCell::BothBits => {
            b0 = tv;
            b1 = uv;
            pr = mulm(b0, b1, p);
        }
    }
    main[r][c.bit] = b0;
    if a4 {
        main[r][c.extra[0]] = b1;
        main[r][c.extra[1]] = pr;
    }
    let cont = r > 0 && s.merkle && !s.new_start;
    let h: Vec<u64> = if a4 {
        vec![addm(subm(subm(1, b0, p), b1, p), pr, p), subm(b0, pr, p), subm(b1, pr, p), pr]
    } else {
        vec![subm(1, b0, p), b0]
    };
    let mut filled = vec![];
    if cont {
        for (k, hk) in h.iter().enumerate() {
            if *hk == 0 {
                continue;
            }
            let n = if a4 { l.ce } else { l.re };
            let mut any = false;
            for slot in 0..n {
                // the slot's Merkle selector: arity 4 per physical slot, arity 2 per digest limb (gates both halves)
                let ctl = if a4 { s.src[k * n + slot] == Src::Wit } else { s.src[slot] == Src::Wit };
                if ctl {
                    continue;
                }
                for d in 0..l.d {
                    main[r][c.inputs[(k * n + slot) * l.d + d]] = main[r - 1][c.outputs[slot * l.d + d]];
                }
                any = true;
            }
            if any {
                filled.push(k);
            }
        }
        t.refill(&mut main[r]);
        let prev = main[r - 1][c.sum];
        main[r][c.sum] = if a4 { addm(addm(mulm(prev, 4, p), b0, p), mulm(2, b1, p), p) } else { addm(mulm(prev, 2, p), b0, p) };
    }
    rechain(t, c, sems, main, r + 1, true, true);
    json!({"kind": format!("coordinated:{}", cell.name()), "row": r, "row_kind": if cont { "continuation" } else { "chain-start" },
           "forged_ctl_cells": {"mmcs_bit": b0, "mmcs_bit2": b1, "mmcs_bit_x_bit2": pr, "mmcs_index_sum": main[r][c.sum]},
           "position_weights": h, "digest_written_to_chunks": filled,
           "forged_row_inputs": c.inputs.iter().map(|i| main[r][*i]).collect::<Vec<_>>()})
}

type Bus = Vec<(usize, usize, Vec<u64>, u64)>;

/// live bus tuples (row, position) that differ between two traces
fn changed_tuples(honest: &Bus, other: &Bus) -> Vec<(usize, usize)> {
    let hm: BTreeMap<(usize, usize), &(usize, usize, Vec<u64>, u64)> = honest.iter().map(|b| ((b.0, b.1), b)).collect();
    let tm: BTreeMap<(usize, usize), &(usize, usize, Vec<u64>, u64)> = other.iter().map(|b| ((b.0, b.1), b)).collect();
    let mut out = vec![];
    for (k, b) in hm.iter() {
        if tm.get(k).map(|x| (&x.2, x.3)) != Some((&b.2, b.3)) {
            out.push(*k);
        }
    }
    for k in tm.keys() {
        if !hm.contains_key(k) {
            out.push(*k);
        }
    }
    out
}

/// One coordinated forgery on an honest trace: build it, run the real AIR on every window, judge it with the
/// decoder. Accepted = every constraint of every window vanishes and the only live bus tuples that moved are
/// output receives (the digests after the forged row), the accumulator send (arity 2) and the forged cell's own
/// direction-bit lookup on the forged row (arity 4: it carries the forged value; the witness it reads is the
/// prover's) — never an input send, never another row's bit lookup. Returns 1 if the AIR was evaluated.
#[allow(clippy::too_many_arguments)]
pub fn forge_case(t: &dyn Table, c: &Cols, sems: &[Sem], main: &[Vec<u64>], prep: &[Vec<u64>], honest_bus: &Bus, r: usize, cell: SelCell, tv: u64, uv: u64,
                  desc: &dyn Fn(Value) -> Value, hist: &mut BTreeMap<String, u64>, violations: &mut Vec<Value>) -> usize {
    let l = t.layout();
    let mut m2: Vec<Vec<u64>> = main.to_vec();
    let what = forge_selector(t, c, sems, &mut m2, r, cell, tv, uv);
    if m2 == main {
        return 0; // the "forgery" is the honest row (product helper set to its own value)
    }
    let facts = judge(t, c, sems, &m2);
    let Some((fail, bus)) = accept(t, &m2, prep) else { return 0 };
    let n_in = if l.compact() { l.re } else { l.we };
    let own: Vec<usize> = match cell {
        SelCell::Bit => vec![n_in + l.re],
        SelCell::Bit2 => vec![n_in + l.re + 1],
        SelCell::Prod => vec![],
        SelCell::BothBits => vec![n_in + l.re, n_in + l.re + 1],
    };
    let bus_ok = changed_tuples(honest_bus, &bus).iter().all(|(row, k)| match inter_kind(&l, *k) {
        0 => false,
        1 => *row >= r,
        _ => !l.arity4() || (*row == r && own.contains(k)),
    });
    let accepted = fail.is_none() && bus_ok;
    let valid = facts.is_empty();
    let verdict = match (accepted, valid) {
        (true, true) => "accepted-valid",
        (true, false) => "ACCEPTED-INVALID",
        (false, true) => "rejected-valid",
        (false, false) => if fail.is_some() { "rejected-invalid" } else { "rejected-invalid(bus)" },
    };
    let posn = if r > 0 && sems[r].merkle && !sems[r].new_start { "cont" } else { "first" };
    *hist.entry(format!("forge.{}.{}.{}.{}", mode_name(&l), cell.name(), posn, verdict)).or_default() += 1;
    if fail.is_some() {
        // self-check of the forgery: it is coordinated iff the ONLY failing constraints of the whole table are the
        // forged cell's own checks on the forged row (constraint 0 `assert_bool(mmcs_bit)`; arity 4: 1
        // `assert_bool(mmcs_bit2)`, 2 the product tie)
        let own_cons: Vec<usize> = match cell {
            SelCell::Bit => vec![0],
            SelCell::Bit2 => vec![1],
            SelCell::Prod => vec![2],
            SelCell::BothBits => vec![0, 1],
        };
        let fl = failing(t, &m2, prep);
        let only_own = fl.iter().all(|(row, ci)| *row == r && own_cons.contains(ci));
        *hist.entry(format!("forge.selfcheck.{}.{}", mode_name(&l), if only_own { "rejected-only-by-own-check" } else { "rejected-by-other-constraints-too" })).or_default() += 1;
    }
    if accepted && !valid {
        violations.push(json!({"property":"C11","kind":"row-accepted-but-relation-fails","class": class_of(&l, &facts),
            "facts": facts.iter().take(4).map(|(r, f)| format!("row{r}:{f}")).collect::<Vec<_>>(),
            "replay": desc(what)}));
    }
    1
}

fn ops_desc(l: &Layout, ops: &[OpRow], extra: Value) -> Value {
    json!({"layout": l.name(), "ops": ops.iter().map(|o| json!({"ns": o.new_start, "mp": o.merkle, "bit": o.bit, "bit2": o.bit2, "sum": o.sum, "in": o.input, "in_ctl": o.in_ctl, "out_ctl": o.out_ctl, "sum_ctl": o.sum_ctl})).collect::<Vec<_>>(), "tamper": extra})
}

/// Systematic sweep, every run, every layout with a Merkle mode: a three-row Merkle chain `start, step(b0,b1),
/// step` for every honest position of the middle row; on the start row and on the middle row every selector
/// cell is forged with every value of a fixed set (pairs for both bits), coordinated as in `forge_selector`.
pub fn selector_sweep(tabs: &[Box<dyn Table>], hist: &mut BTreeMap<String, u64>, violations: &mut Vec<Value>) -> usize {
    let mut evals = 0;
    for t in tabs.iter().filter(|t| supported(&t.layout())) {
        let t = t.as_ref();
        let l = t.layout();
        let c = t.cols();
        let p = l.modulus;
        let a4 = l.arity4();
        let positions: Vec<(bool, bool)> = if a4 { vec![(false, false), (true, false), (false, true), (true, true)] } else { vec![(false, false), (true, false)] };
        for (pb0, pb1) in positions {
            let mk = |first: bool, last: bool, b0: bool, b1: bool, salt: usize| -> Sem {
                let mut src = vec![Src::Free; l.we];
                if a4 {
                    let pos = b0 as usize + 2 * b1 as usize;
                    for limb in 0..l.we {
                        src[limb] = if first { Src::Wit } else if limb / l.ce == pos { Src::Chain(limb % l.ce) } else { Src::Free };
                    }
                } else {
                    for limb in 0..l.re {
                        src[limb] = if first { Src::Wit } else { Src::Chain(limb) };
                    }
                }
                Sem { new_start: first, merkle: true, bit: b0, bit2: b1, src, vals: (0..l.we).map(|i| (0..l.d).map(|d| (5 + salt * 1000 + 11 * i + d) as u64).collect()).collect(),
                      start_sum: 0, sum_ctl: last && !a4, out_ctl: vec![last; l.re] }
            };
            let sems = vec![mk(true, false, false, false, 1), mk(false, false, pb0, pb1, 2), mk(false, true, true, false, 3)];
            let ops = run_sems(t, &sems);
            let Some((main, prep)) = t.build(&ops, 4) else { continue };
            let Some((fail, bus)) = accept(t, &main, &prep) else { continue };
            if fail.is_some() || !judge(t, &c, &sems, &main).is_empty() {
                *hist.entry(format!("forge.sweep.{}.honest-not-accepted", l.name())).or_default() += 1;
                continue;
            }
            let desc = |extra: Value| ops_desc(&l, &ops, extra);
            let vals = [2u64, 3, p - 1, (p + 1) / 2];
            for r in [0usize, 1] {
                for cell in sel_cells(&l) {
                    for (vi, tv) in vals.iter().enumerate() {
                        let uvs: Vec<u64> = if cell == SelCell::BothBits { vec![vals[(vi + 1) % vals.len()], *tv] } else { vec![0] };
                        for uv in uvs {
                            evals += forge_case(t, &c, &sems, &main, &prep, &bus, r, cell, *tv, uv, &desc, hist, violations);
                        }
                    }
                    if cell == SelCell::Prod {
                        // the helper also has boolean wrong values
                        for tv in [0u64, 1] {
                            evals += forge_case(t, &c, &sems, &main, &prep, &bus, r, cell, tv, 0, &desc, hist, violations);
                        }
                    }
                }
            }
        }
    }
    evals
}

pub fn chain_case(t: &dyn Table, rng: &mut Rng, tampers: usize, hist: &mut BTreeMap<String, u64>, violations: &mut Vec<Value>) -> CaseOut {
    let l = t.layout();
    let c = t.cols();
    let p = l.modulus;
    let sems = gen_sems(&l, rng, hist);
    let ops = run_sems(t, &sems);
    let desc = |extra: Value| -> Value {
        json!({"layout": l.name(), "ops": ops.iter().map(|o| json!({"ns": o.new_start, "mp": o.merkle, "bit": o.bit, "bit2": o.bit2, "sum": o.sum, "in": o.input, "in_ctl": o.in_ctl, "out_ctl": o.out_ctl, "sum_ctl": o.sum_ctl})).collect::<Vec<_>>(), "tamper": extra})
    };
    let mut out = CaseOut { evals: 0, windows: vec![] };
    let Some((main, prep)) = t.build(&ops, 1 << rng.usize(2)) else {
        violations.push(json!({"property":"C11","kind":"poseidon-trace-build-panic","class": format!("panic:poseidon-trace-build:{}", l.name()), "replay": desc(json!(null))}));
        return out;
    };
    let h = main.len();
    for r in 0..h {
        let n = (r + 1) % h;
        out.windows.push((if r + 1 < h { 1 } else { 0 }, main[r].clone(), main[n].clone(), prep[r].clone(), prep[n].clone()));
    }
    out.evals += 1;
    let Some((fail, honest_bus)) = accept(t, &main, &prep) else {
        violations.push(json!({"property":"C11","kind":"poseidon-air-eval-panic","class": super::panic_class(&l), "replay": desc(json!(null))}));
        return out;
    };
    if let Some((r, ci)) = fail {
        violations.push(json!({"property":"C11","kind":"honest-poseidon-trace-rejected","class": format!("rejects-valid-row:poseidon:{}:honest", mode_name(&l)), "row": r, "constraint": ci, "replay": desc(json!(null))}));
        return out;
    }
    let hf = judge(t, &c, &sems, &main);
    if !hf.is_empty() {
        // the decoder disagrees with the honest trace: harness bug, do not judge
        *hist.entry(format!("decoder_disagrees.{}", hf[0].1)).or_default() += 1;
        return out;
    }
    let nreal = sems.len();
    let obs = sum_observable(&l, &sems);
    for _ in 0..tampers {
        let mut m2 = main.clone();
        let r = rng.usize(nreal);
        let s = &sems[r];
        let delta = 1 + rng.below(p - 1);
        // (name, kinds of live bus tuples that may legitimately change, is the cell observable)
        let (name, allowed, observable): (String, Vec<usize>, bool) = match rng.below(8) {
            0 | 1 => {
                // accumulator cell alone: first / intermediate / last row of its segment
                m2[r][c.sum] = addm(m2[r][c.sum], delta, p);
                let posn = if r == 0 || s.new_start || !s.merkle { "first" } else if r + 1 < nreal && sems[r + 1].merkle && !sems[r + 1].new_start { "mid" } else { "last" };
                (format!("sum.{posn}"), vec![], obs[r])
            }
            2 => {
                // accumulator cell, the rows after it re-accumulated honestly from the forged value
                m2[r][c.sum] = addm(m2[r][c.sum], delta, p);
                rechain(t, &c, &sems, &mut m2, r + 1, false, true);
                let posn = if r == 0 || s.new_start || !s.merkle { "first" } else { "mid" };
                (format!("sum.{posn}+reaccumulate"), vec![2], obs[r])
            }
            3 => {
                // direction bit: flipped (any row), or an arbitrary value (Merkle rows)
                if s.merkle && rng.chance(1, 3) {
                    m2[r][c.bit] = addm(m2[r][c.bit], delta, p);
                } else {
                    m2[r][c.bit] = 1 - m2[r][c.bit].min(1);
                }
                let re = rng.chance(1, 2);
                if re {
                    rechain(t, &c, &sems, &mut m2, r + 1, false, true);
                }
                (format!("bit.{}{}", if s.new_start { "first" } else { "cont" }, if re { "+reaccumulate" } else { "" }), if re { vec![2] } else { vec![] }, s.merkle)
            }
            4 if l.arity4() => {
                let which = rng.usize(2);
                if which == 0 {
                    m2[r][c.extra[0]] = 1 - m2[r][c.extra[0]].min(1);
                } else {
                    m2[r][c.extra[1]] = addm(m2[r][c.extra[1]], delta, p);
                }
                (format!("arity4.{}", if which == 0 { "bit2" } else { "bitprod" }), vec![], s.merkle)
            }
            _ => {
                // one input cell (capacity limb, chained limb, witness-fed limb, sibling), the row's
                // permutation recomputed; optionally the rows after it re-chained honestly
                let limb = rng.usize(l.we);
                let d = rng.usize(l.d);
                let pp = phys(&l, s, limb);
                m2[r][c.inputs[pp * l.d + d]] = addm(m2[r][c.inputs[pp * l.d + d]], delta, p);
                t.refill(&mut m2[r]);
                let re = rng.chance(2, 3);
                if re {
                    rechain(t, &c, &sems, &mut m2, r + 1, true, false);
                }
                let sk = match s.src[limb] {
                    Src::Chain(_) => "chained",
                    Src::Wit => "witness-fed",
                    Src::Free => "sibling",
                    Src::Zero => "fresh",
                };
                let cap = if limb >= l.re && !s.merkle { ".capacity" } else { "" };
                (format!("in.{}.{sk}{cap}{}", if s.merkle { "merkle" } else { "sponge" }, if re { "+rechain" } else { "" }), vec![1], true)
            }
        };
        let facts = judge(t, &c, &sems, &m2);
        let Some((fail, bus)) = accept(t, &m2, &prep) else { continue };
        out.evals += 1;
        // live tuples that changed, by kind
        let mut changed = [false; 3];
        let key = |b: &(usize, usize, Vec<u64>, u64)| (b.0, b.1);
        let hm: BTreeMap<(usize, usize), &(usize, usize, Vec<u64>, u64)> = honest_bus.iter().map(|b| (key(b), b)).collect();
        let tm: BTreeMap<(usize, usize), &(usize, usize, Vec<u64>, u64)> = bus.iter().map(|b| (key(b), b)).collect();
        for (k, b) in hm.iter() {
            if tm.get(k).map(|x| (&x.2, x.3)) != Some((&b.2, b.3)) {
                changed[inter_kind(&l, k.1)] = true;
            }
        }
        for k in tm.keys() {
            if !hm.contains_key(k) {
                changed[inter_kind(&l, k.1)] = true;
            }
        }
        // arity 4: the tuples after the output receives are the direction-bit lookups, never allowed to move
        let bus_ok = (0..3).all(|k| !changed[k] || (allowed.contains(&k) && !(k == 2 && l.arity4())));
        let accepted = fail.is_none() && bus_ok;
        let valid = facts.is_empty();
        let verdict = match (accepted, valid) {
            (true, true) => "accepted-valid",
            (true, false) => "ACCEPTED-INVALID",
            (false, true) => if fail.is_some() { if observable { "REJECTED-VALID" } else { "rejected-unobservable-cell" } } else { "valid-bus-changed" },
            (false, false) => "rejected-invalid",
        };
        *hist.entry(format!("tamper.{}.{}.{}", mode_name(&l), name, verdict)).or_default() += 1;
        if accepted && !valid {
            violations.push(json!({"property":"C11","kind":"row-accepted-but-relation-fails","class": class_of(&l, &facts),
                "facts": facts.iter().take(4).map(|(r, f)| format!("row{r}:{f}")).collect::<Vec<_>>(),
                "replay": desc(json!({"kind": name, "row": r, "delta": delta}))}));
        } else if fail.is_some() && valid && observable {
            violations.push(json!({"property":"C11","kind":"row-rejected-but-relation-holds","class": format!("rejects-valid-row:poseidon:{}:{}", mode_name(&l), name),
                "replay": desc(json!({"kind": name, "row": r, "delta": delta, "failed": format!("{:?}", fail)}))}));
        }
    }
    // coordinated selector forgeries (see `forge_selector`): random Merkle row, selector cell, value
    let merkle_rows: Vec<usize> = (0..nreal).filter(|r| sems[*r].merkle).collect();
    if !merkle_rows.is_empty() {
        let cells = sel_cells(&l);
        for _ in 0..tampers {
            let r = merkle_rows[rng.usize(merkle_rows.len())];
            let cell = cells[rng.usize(cells.len())];
            let tv = if cell == SelCell::Prod && rng.chance(1, 3) { rng.below(2) } else { forged_value(rng, p) };
            let uv = if rng.chance(1, 3) { rng.below(2) } else { forged_value(rng, p) };
            out.evals += forge_case(t, &c, &sems, &main, &prep, &honest_bus, r, cell, tv, uv, &desc, hist, violations);
        }
    }
    out
}

/// Pinned witnesses mirrored in `lean/P3R/Witness/C11P.lean`, replayed on the real AIR on every run:
/// an arity-2 Merkle chain `start, b=1, b=0` whose index is exposed on the last row; the start row's
/// accumulator cell set to 5 (the op says 0) and the two rows after it re-accumulated: every constraint of
/// every window vanishes and the table sends index 22 where the bits say 2.
pub fn replay_witnesses(tabs: &[Box<dyn Table>], hist: &mut BTreeMap<String, u64>, violations: &mut Vec<Value>) {
    for t in tabs.iter().filter(|t| t.layout().arity2()) {
        let t = t.as_ref();
        let l = t.layout();
        let c = t.cols();
        let mk = |first: bool, bit: bool, last: bool| -> Sem {
            let mut src = vec![Src::Free; l.we];
            for limb in 0..l.re {
                src[limb] = if first { Src::Wit } else { Src::Chain(limb) };
            }
            Sem { new_start: first, merkle: true, bit, bit2: false, src, vals: (0..l.we).map(|i| (0..l.d).map(|d| (3 + 7 * i + d) as u64).collect()).collect(), start_sum: 0, sum_ctl: last, out_ctl: vec![last; l.re] }
        };
        let sems = vec![mk(true, false, false), mk(false, true, false), mk(false, false, true)];
        let ops = run_sems(t, &sems);
        let Some((main, prep)) = t.build(&ops, 4) else { continue };
        let Some((fail, bus)) = accept(t, &main, &prep) else { continue };
        let idx_of = |bus: &[(usize, usize, Vec<u64>, u64)]| -> Vec<u64> { bus.iter().filter(|b| inter_kind(&l, b.1) == 2).map(|b| b.2[1]).collect() };
        let mut m2 = main.clone();
        m2[0][c.sum] = 5;
        rechain(t, &c, &sems, &mut m2, 1, false, true);
        let Some((fail2, bus2)) = accept(t, &m2, &prep) else { continue };
        let (hi, fi) = (idx_of(&bus), idx_of(&bus2));
        let reproduced = fail.is_none() && fail2.is_none() && hi == vec![2] && fi == vec![22];
        *hist.entry(format!("witness.acc_start_free.{}.{}", l.name(), if reproduced { "accepted(exposed 22 for bits 10)" } else { "not-reproduced" })).or_default() += 1;
        if reproduced {
            let facts = judge(t, &c, &sems, &m2);
            violations.push(json!({"property":"C11","kind":"row-accepted-but-relation-fails","class": class_of(&l, &facts),
                "facts": facts.iter().take(4).map(|(r, f)| format!("row{r}:{f}")).collect::<Vec<_>>(),
                "replay": {"witness": "P3R.Witness.C11P.acc_start_free", "layout": l.name(), "bits": [1, 0], "start_cell": 5, "honest_exposed": hi, "forged_exposed": fi}}));
        } else if fail2.is_some() {
            *hist.entry(format!("witness.acc_start_free.{}.rejected-at-{:?}", l.name(), fail2)).or_default() += 1;
        }
    }

    // `P3R.Witness.C11P.new_start_limb_free` (finding F-C11-P1): a sponge chain start of the generic preprocessed
    // layout whose capacity limbs are not fed from a witness (`add_hash_slice`, `add_hash_base_coeffs_overwrite`
    // for D >= 2). The op's fresh state is zero; the table accepts 77 there: no constraint, multiplicity 0.
    for t in tabs.iter().filter(|t| supported(&t.layout()) && !t.layout().compact()) {
        let t = t.as_ref();
        let l = t.layout();
        let c = t.cols();
        let mut src = vec![Src::Zero; l.we];
        for limb in 0..l.re {
            src[limb] = Src::Wit;
        }
        let sems = vec![Sem { new_start: true, merkle: false, bit: false, bit2: false, src, vals: (0..l.we).map(|i| (0..l.d).map(|d| (3 + 7 * i + d) as u64).collect()).collect(), start_sum: 0, sum_ctl: false, out_ctl: vec![true; l.re] }];
        let ops = run_sems(t, &sems);
        let Some((main, prep)) = t.build(&ops, 4) else { continue };
        let Some((fail, bus)) = accept(t, &main, &prep) else { continue };
        let mut m2 = main.clone();
        m2[0][c.inputs[l.re * l.d]] = 77;
        t.refill(&mut m2[0]);
        let Some((fail2, bus2)) = accept(t, &m2, &prep) else { continue };
        let ins = |b: &[(usize, usize, Vec<u64>, u64)]| -> Vec<(usize, usize, Vec<u64>, u64)> { b.iter().filter(|x| inter_kind(&l, x.1) != 1).cloned().collect() };
        let outs = |b: &[(usize, usize, Vec<u64>, u64)]| -> Vec<(usize, usize, Vec<u64>, u64)> { b.iter().filter(|x| inter_kind(&l, x.1) == 1).cloned().collect() };
        let reproduced = fail.is_none() && fail2.is_none() && ins(&bus) == ins(&bus2) && outs(&bus) != outs(&bus2);
        *hist.entry(format!("witness.new_start_limb_free.{}.{}", l.name(), if reproduced { "accepted(capacity 77 on a chain start, digest changed)" } else { "not-reproduced" })).or_default() += 1;
        if reproduced {
            let facts = judge(t, &c, &sems, &m2);
            violations.push(json!({"property":"C11","kind":"row-accepted-but-relation-fails","class": class_of(&l, &facts),
                "facts": facts.iter().take(4).map(|(r, f)| format!("row{r}:{f}")).collect::<Vec<_>>(),
                "replay": {"witness": "P3R.Witness.C11P.new_start_limb_free", "layout": l.name(), "capacity_cell": 77}}));
        }
    }
}
