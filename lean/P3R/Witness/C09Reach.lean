/-
Witnesses for `P3R.C09R` (Props/C09Reach.lean).

Non-vacuity
* `bDec` — a `ReachablePrim` program: `decompose_to_bits(x, 1)` and `decompose_to_bits(y, 1)` (hint call,
  `assert_bool`, the `MulAdd` recomposition, `connect(x, Σ)`), then the bits are used like any other value: bit 0 in
  the `b` column of a `Mul` row, a fusable `mul` + `add`, a backward `sub`, bit 1 in the `a` column of an
  `Add` row. `dec_reachable` builds the derivation; `compiled_bus_balanced_reachable` applies with no
  other hypothesis; `dec_balanced` evaluates the same facts directly (the circuit exists, a `MulAdd` row
  was fused, a hint op is present, every slot balances) — theorem and model agree.
* `good_cov` — `Witness.C09Total.bGood` (raw `pushNp` + `assert_bool`, not `ReachablePrim`) is reachable
  along the pending-set discipline with nothing pending at the end; `compiled_bus_balanced_cov` applies.
* `pend_cov` — a raw hint output that is only ever used in unguarded columns (`a` and `c` of a `MulAdd`
  row) stays pending for ever, and the theorem still applies (`pend_balanced`: evaluated).

Necessity of excluding raw `pushNp` from `ReachablePrim` / of the discipline
* `bad_not_cov`, `tbl_not_cov`, `hnt_not_cov` — the three existing counterexamples (`bBad`: hint output
  first used in `b` of a forward row, net −1; `bTbl`: table-backed output whose only `b` use is removed by
  de-duplication, net −1; `bHnt`: the same with a hint executor) are `C02T.Reachable` and are NOT
  reachable along the discipline for any pending set — in particular not `ReachablePrim`.
-/
import P3R.Props.C09Reach
import P3R.Witness.C09Fuse
open P3R P3R.C02T P3R.C09R P3R.Witness.C09Total P3R.Witness.C09Compile P3R.Witness.C09Opt

namespace P3R.Witness.C09Reach

def pow2 (i : Nat) : Int := (2 : Int) ^ i

def p1 : BState Int := (BState.init : BState Int).allocPublic.1          -- x = e1
def p2 : BState Int := p1.allocPrivate.1                                  -- y = e2
def p3 : BState Int := (p2.decomposeToBits pow2 1 1).1                    -- call e3, bit e4, e5 … e7; x == e7
def p3' : BState Int := (p3.decomposeToBits pow2 2 1).1                   -- call e8, bit e9, e10, e11; y == e11
def p4 : BState Int := (p3'.mul 1 4).1                                    -- e12 = x * bit0   (bit in b)
def p5 : BState Int := (p4.add 12 2).1                                    -- e13 = e12 + y    (fusable)
def p6 : BState Int := (p5.sub 13 1).1                                    -- e14 = e13 - x    (backward row)
def bDec : BState Int := (p6.add 9 14).1                                  -- e15 = bit1 + e14 (bit in a)

/-- The bits are e4 and e9, and the program has 16 nodes. -/
theorem dec_shape : (p2.decomposeToBits pow2 1 1).2 = [4] ∧ (p3.decomposeToBits pow2 2 1).2 = [9] ∧
    bDec.nodes.size = 16 ∧ bDec.connects = [(4, 6), (1, 7), (9, 10), (2, 11)] ∧
    bDec.nodes[12]? = some (Expr.mul 1 4) ∧ bDec.nodes[15]? = some (Expr.add 9 14) := by
  decide +kernel

theorem dec_reachable : ReachablePrim bDec := by
  have h1 : ReachablePrim p1 := .allocPublic .init
  have h2 : ReachablePrim p2 := .allocPrivate h1
  have h3 : ReachablePrim p3 := .decomposeToBits h2 pow2 (by decide +kernel) 1
  have h3' : ReachablePrim p3' := .decomposeToBits h3 pow2 (by decide +kernel) 1
  have h4 : ReachablePrim p4 := .mul h3' (by decide +kernel) (by decide +kernel)
  have h5 : ReachablePrim p5 := .add h4 (by decide +kernel) (by decide +kernel)
  have h6 : ReachablePrim p6 := .sub h5 (by decide +kernel) (by decide +kernel)
  exact .add h6 (by decide +kernel) (by decide +kernel)

/-- `compiled_bus_balanced_reachable` applies: reachability is the only hypothesis. -/
example (c : Circuit Int) (p : Prep) (hc : compile bDec = .ok c) (hp : genPrep c = some p) (s : Nat) :
    p.net s = 0 :=
  compiled_bus_balanced_reachable bDec dec_reachable c hc p hp s

example : hintsGuarded bDec = true ∧ operandsGuarded bDec = true ∧ privOk bDec = true ∧
    noTableOutputsUsed bDec = true :=
  ⟨dec_reachable.guarded.1, dec_reachable.guarded.2, dec_reachable.privOk,
   dec_reachable.noTableOutputsUsed⟩

/-- The same, evaluated: the program compiles, the compiled list has a hint op, a fused `MulAdd` row
(accumulator-less `MulAdd`s of the recomposition chain are there too; the fused one reads the private
input as addend) and `BoolCheck` rows; `genPrep` succeeds, the certificate holds and every slot
balances. -/
theorem dec_balanced :
    (match compile bDec with
     | .ok c =>
       c.defUse &&
       (c.ops.toList.any fun op => match op with | .hint _ _ .hintBits => true | _ => false) &&
       (c.ops.toList.any fun op => match op with | .alu .boolCheck _ _ _ _ _ => true | _ => false) &&
       (match genPrep c with
        | some p => (List.range c.witnessCount).all fun s => p.net s == 0
        | none => false)
     | .error _ => false) = true ∧
    (match lower bDec with
     | .ok l =>
       -- the fusion pass really fuses the `mul` + `add` pair of the example
       decide ((fuse (dedup l.ops).1 (l.privRows.toList.map (resolve (dedup l.ops).2))).size <
         (dedup l.ops).1.size)
     | .error _ => false) = true := by
  decide +kernel

/-- A two-bit decomposition (one call with two outputs), both bits used in guarded columns afterwards. The
theorem applies; the model's `op_id_to_output_exprs` sorts with `List.mergeSort` (well-founded recursion),
which the kernel does not unfold for two outputs, so this one is not evaluated by `decide`. -/
def bDec2 : BState Int :=
  (((p2.decomposeToBits pow2 1 2).1.mul 1 4).1.add 5 12).1

theorem dec2_reachable : ReachablePrim bDec2 := by
  have h2 : ReachablePrim p2 := .allocPrivate (.allocPublic .init)
  have h3 := ReachablePrim.decomposeToBits h2 pow2 (x := 1) (by decide +kernel) 2
  have h4 := ReachablePrim.mul h3 (l := 1) (r := 4) (by decide +kernel) (by decide +kernel)
  exact .add h4 (l := 5) (r := 12) (by decide +kernel) (by decide +kernel)

example (c : Circuit Int) (p : Prep) (hc : compile bDec2 = .ok c) (hp : genPrep c = some p) (s : Nat) :
    p.net s = 0 :=
  compiled_bus_balanced_reachable bDec2 dec2_reachable c hc p hp s

/-! ### The pending-set discipline -/

/-- `bGood` (raw `pushNp`, then `assert_bool` of the output): nothing is pending at the end. -/
theorem good_cov : ReachableCov (fun _ => False) bGood := by
  have h1 : ReachableCov (fun _ => False) g1 := .allocPublic .init
  have h2 : ReachableCov (fun _ => False) g2 := .allocPrivate h1
  have h3 := ReachableCov.pushNp h2 .hintBits [[1]] 1
  have h4 : ReachableCov (fun _ => False) g4 := by
    refine .weaken (.assertBool h3 (x := 4) (by decide +kernel)) ?_
    rintro l ⟨hl | hl, hne⟩
    · exact hl
    · have : (g2.pushNp .hintBits [[1]] 1).2 = [4] := by decide +kernel
      rw [this] at hl
      exact hne (by simpa using hl)
  have h5 : ReachableCov (fun _ => False) g5 :=
    .mul h4 (by decide +kernel) (by decide +kernel) id id
  have h6 : ReachableCov (fun _ => False) g6 :=
    .add h5 (by decide +kernel) (by decide +kernel) id id
  have h7 : ReachableCov (fun _ => False) g7 :=
    .sub h6 (by decide +kernel) (by decide +kernel) id id
  exact .add h7 (by decide +kernel) (by decide +kernel) id id

example (c : Circuit Int) (p : Prep) (hc : compile bGood = .ok c) (hp : genPrep c = some p) (s : Nat) :
    p.net s = 0 :=
  compiled_bus_balanced_cov _ bGood good_cov c hc p hp s

/-- A raw hint output that is only used in unguarded columns: `h = hint(x); r = h * x + h` through
`add_mul_add(h, x, h)` — `h` sits in the `a` and the `c` column of a `MulAdd` row. It is never covered. -/
def q1 : BState Int := (BState.init : BState Int).allocPublic.1          -- x = e1
def q2 : BState Int := (q1.pushNp .hintBits [[1]] 1).1                    -- call e2, h = e3
def bPend : BState Int := (q2.mulAdd 3 1 3).1                             -- e4 = h * x + h

theorem pend_cov : ReachableCov (fun l => False ∨ l ∈ (q1.pushNp .hintBits [[1]] 1).2) bPend := by
  have h1 : ReachableCov (fun _ => False) q1 := .allocPublic .init
  have h2 := ReachableCov.pushNp h1 .hintBits [[1]] 1
  refine .mulAdd h2 (x := 3) (y := 1) (z := 3) (by decide +kernel) (by decide +kernel)
    (by decide +kernel) ?_
  have : (q1.pushNp .hintBits [[1]] 1).2 = [3] := by decide +kernel
  rw [this]
  simp

example (c : Circuit Int) (p : Prep) (hc : compile bPend = .ok c) (hp : genPrep c = some p) (s : Nat) :
    p.net s = 0 :=
  compiled_bus_balanced_cov _ bPend pend_cov c hc p hp s

theorem pend_balanced :
    (match compile bPend with
     | .ok c =>
       (match genPrep c with
        | some p => (List.range c.witnessCount).all fun s => p.net s == 0
        | none => false)
     | .error _ => false) = true := by
  decide +kernel

/-! ### Necessity: raw `pushNp` outside the discipline -/

/-- `h = hint(x); y = x + h`: `C02T.Reachable` (`bad_reachable`), unbalanced (`bad_unbalanced`), and not
reachable along the discipline for any pending set. -/
theorem bad_not_cov : Reachable bBad ∧ ¬ ∃ U, ReachableCov U bBad :=
  ⟨bad_reachable, not_cov_of_unguarded bBad (Or.inl bad_not_guarded.1)⟩

theorem bad_not_prim : ¬ ReachablePrim bBad := fun h => bad_not_cov.2 ⟨_, h.cov⟩

/-- The table-backed counterexample of `tbl_dedup_breaks` (net −1 after de-duplication). -/
theorem tbl_not_cov : Reachable bTbl ∧ ¬ ∃ U, ReachableCov U bTbl :=
  ⟨tbl_reachable, not_cov_of_unguarded bTbl (Or.inr tbl_excluded.2.1)⟩

theorem tbl_not_prim : ¬ ReachablePrim bTbl := fun h => tbl_not_cov.2 ⟨_, h.cov⟩

/-- The same program with a hint executor balances (`hnt_compiles_balanced`) but is outside the
discipline as well: the discipline is sufficient, not necessary. -/
theorem hnt_not_cov : operandsGuarded bHnt = false ∧ ¬ ∃ U, ReachableCov U bHnt := by
  have h : operandsGuarded bHnt = false := by decide +kernel
  exact ⟨h, not_cov_of_unguarded bHnt (Or.inr h)⟩

end P3R.Witness.C09Reach
