/-
C18 — every unordered-container iteration of the compile / key-generation path as an explicit
ordering argument.

Each `HashMap` / `HashSet` of the Rust code that is *iterated* (inventory:
`design_notes/C18_sites.md`) appears here as a function that receives the enumeration as a
`List`. A "hash order" is an arbitrary function `enum : List α → List α` that returns some
permutation of the container's content (`(enum l).Perm l` is a hypothesis of the theorems in
`P3R.Props.C18Order`, never of the models). The models are import-free (core `List` only).

Sites (Rust → model):
* `lowerer/state.rs::backfill_connect_mappings` over `ConnectDsu::in_connect`  → `backfillStep`,
  `lowerOrd`; the union–find itself, with the code's path compression, → `Dsu.*`
* `optimizer/fuse_mul_add.rs::filter_valid` (`valid.iter()` → `fused_positions`, `valid.retain`)
  and `apply` (`for &add_idx in valid`)                                         → `Fusion.*Ord`, `fuseOrd`
* `circuit_builder.rs::build_with_public_mapping`: `expr_to_widx.into_iter().map().collect()`
  → `e2wCollect`; `non_primitive_trace_generators.keys()` + `sort()` → `genOrder`;
  `for (tag, expr_id) in self.tag_to_expr` → `tagTransfer`
* `expr.rs::build_npo_output_map` (`for (&op_id, outputs) in &mut map`)        → `firstErr`
* `circuit-prover/src/common.rs`: `non_primitive_base.extend(plugin_prep)` → `extendMap`;
  AIR-builder loop over `non_primitive_base.iter()` → `airLoop`
* `batch_stark_prover.rs::poseidon_preprocess_for_prover` phase 1 (`ext_reads[..] += 1`) →
  `phase1`; phase 2 (per-key rewrite, insert into a fresh map) → `phase2`
* `tables/runner.rs::run` rewrite post-pass (`for (dup, canon) in &rewrite`)   → `rewritePass`
-/
import P3R.Model.Optimize

namespace P3R.Order
open P3R

/-! ### Generic shapes -/

/-- "Return the first error": `for x in map { check(x)?; }` — `none` = no error. -/
def firstErr {α ε : Type} (chk : α → Option ε) (l : List α) : Option ε := l.findSome? chk

/-- A hash map as an association list: `insert` conses, `get` is `List.lookup` (newest first).
Inserting the entries of `new` in the given order into `base` (`HashMap::extend`, or `collect()` of
an iterator of pairs into a fresh map when `base = []`). -/
def extendMap {κ ν : Type} (base new : List (κ × ν)) : List (κ × ν) := new.reverse ++ base

/-! ### Union–find with the code's path compression (`lowerer/connect_dsu.rs`)

`parents : HashMap<ExprId, ExprId>`, "absent = own root", is the total function `p` with
`p x = x` for absent ids. -/

/-- `k` parent steps. -/
def Dsu.iter (p : Nat → Nat) : Nat → Nat → Nat
  | 0, x => x
  | k + 1, x => Dsu.iter p k (p x)

/-- `parents.insert(v, r)`. -/
def Dsu.setParent (p : Nat → Nat) (v r : Nat) : Nat → Nat := fun y => if y = v then r else p y

/-- Pass 2 of `find`: re-walk from `v`, pointing every node on the path at `root`
(`while let Some(&p) = parents.get(&v) { if p == root { break } parents.insert(v, root); v = p }`). -/
def Dsu.compressPath (p : Nat → Nat) (root : Nat) : Nat → Nat → (Nat → Nat)
  | 0, _ => p
  | k + 1, v => if p v = root then p else Dsu.compressPath (Dsu.setParent p v root) root k (p v)

/-- `ConnectDsu::find` with fuel `n` (an upper bound of the forest depth): new parents, root. -/
def Dsu.find (p : Nat → Nat) (n x : Nat) : (Nat → Nat) × Nat :=
  let root := Dsu.iter p n x
  (Dsu.compressPath p root n x, root)

/-- `ConnectDsu::union`: `rb` is attached under `ra` (the *first* argument's root wins). -/
def Dsu.union (p : Nat → Nat) (n a b : Nat) : Nat → Nat :=
  let (p, ra) := Dsu.find p n a
  let (p, rb) := Dsu.find p n b
  if ra = rb then p else Dsu.setParent p rb ra

/-- State of `backfill_connect_mappings` at the level of the real union–find: the parents (mutated
by every `find`), and `expr_to_widx`. `rootW` is `root_to_widx` (not changed by the pass). -/
structure BackfillSt where
  parents : Nat → Nat
  e2w : Nat → Option Nat

/-- One iteration: `if !expr_to_widx.contains_key(e) && let Some(w) = dsu.class_witness(e) { insert }`.
`class_witness` calls `find`, which compresses the path whether or not the slot exists. -/
def backfillDsuStep (rootW : Nat → Option Nat) (n : Nat) (s : BackfillSt) (e : Nat) : BackfillSt :=
  match s.e2w e with
  | some _ => s
  | none =>
    let (p', r) := Dsu.find s.parents n e
    match rootW r with
    | some w => { parents := p', e2w := fun y => if y = e then some w else s.e2w y }
    | none => { s with parents := p' }

def backfillDsu (rootW : Nat → Option Nat) (n : Nat) (s : BackfillSt) (l : List Nat) : BackfillSt :=
  l.foldl (backfillDsuStep rootW n) s

/-! ### Backfill in the lowering model (`Model/Lower.lean` keeps the partition `rep`) -/

section
variable {K : Type}

/-- One iteration of `backfill_connect_mappings` on the lowering state (same text as in `lower`). -/
def backfillStep (st : LState K) (e : Nat) : LState K :=
  if st.inConnect.getD e false then
    match st.e2w.getD e none with
    | some _ => st
    | none =>
      match st.rootW.getD (st.rep.getD e e) none with
      | some w => st.setW e w
      | none => st
  else st

/-- The members of `in_connect`, ascending (what `enum` permutes). -/
def connectMembers (st : LState K) (m : Nat) : List Nat :=
  (List.range m).filter fun e => st.inConnect.getD e false

end

section
variable {K : Type} [Neg K]

/-- `ExpressionLowerer::lower` with the iteration order of `in_connect` as a parameter. Identical to
`P3R.lower` except for the list the backfill pass walks (`P3R.C18.lowerOrd_eq_lower`). -/
def lowerOrd (enum : List Nat → List Nat) (b : BState K) : Except LowerErr (Lowered K) := do
  let n := b.nodes.size
  let inC := b.connects.foldl (fun (m : Array Bool) ab =>
      (m.setIfInBounds ab.1 true).setIfInBounds ab.2 true) (Array.replicate (n + 1) false)
  let s0 : LState K :=
    { rep := Dsu.ofConnects (n + 1) b.connects, inConnect := inC,
      rootW := Array.replicate (n + 1) none, next := 0, ops := #[],
      e2w := Array.replicate (n + 1) none,
      pubRows := Array.replicate b.pubCount 0, privRows := Array.replicate b.privCount 0,
      emitted := Array.replicate b.npOps.size false }
  let s1 ← forNodes b.nodes s0 fun st i e =>
    match e with
    | .const v => let (st, w) := st.allocWitness i; .ok ((st.pushOp (.const w v)).setW i w)
    | _ => .ok st
  let s2 ← forNodes b.nodes s1 fun st i e =>
    match e with
    | .pub pos =>
      let (st, w) := st.allocWitness i
      let st := (st.pushOp (.pub w pos)).setW i w
      .ok { st with pubRows := st.pubRows.setIfInBounds pos w }
    | _ => .ok st
  let s3 ← forNodes b.nodes s2 fun st i e =>
    match e with
    | .priv pos =>
      let (st, w) := st.allocWitness i
      let st := st.setW i w
      .ok { st with privRows := st.privRows.setIfInBounds pos w }
    | _ => .ok st
  let s4 ← forNodes b.nodes s3 fun st i e => st.emitNode b.nodes b.npOps i e
  match (List.range b.npOps.size).find? fun i => !(s4.emitted.getD i false) with
  | some i => .error (.unanchoredNp i)
  | none =>
    let s5 := (enum (connectMembers s4 (n + 1))).foldl backfillStep s4
    .ok { ops := s5.ops, pubRows := s5.pubRows, privRows := s5.privRows, e2w := s5.e2w,
          witnessCount := s5.next }

end

/-- Pairwise distinct (decidable form of `List.Nodup` for the driver). -/
def distinctNat : List Nat → Bool
  | [] => true
  | x :: xs => !xs.contains x && distinctNat xs

/-- Canonical (key-sorted) representation of a hash map given as an association list: a `HashMap`
is observed extensionally, never through its iteration order. -/
def canonMap (m : List (Nat × Nat)) : List (Nat × Nat) := m.mergeSort fun a b => decide (a.1 ≤ b.1)

/-! ### Mul+Add fusion with its three hash iterations as parameters -/

section
variable {K : Type}

/-- The hash orders `MulAddFusion::run` meets: `valid.iter()` when `fused_positions` is collected,
the order in which `retain` leaves the surviving set, and `for &add_idx in valid` in `apply`. -/
structure FuseOrders (K : Type) where
  fusedPos : List (Cand K) → List (Cand K)
  retain : List (Cand K) → List (Cand K)
  apply : List (Cand K) → List (Cand K)

/-- Every field is a hash order: it returns a permutation of the container's content. -/
structure FuseOrders.Valid (ord : FuseOrders K) : Prop where
  fusedPos : ∀ l, (ord.fusedPos l).Perm l
  retain : ∀ l, (ord.retain l).Perm l
  apply : ∀ l, (ord.apply l).Perm l

/-- One round of the `filter_valid` loop. `fused_positions` is collected from `ord.fusedPos valid`
(a later pair overwrites an earlier one with the same key: `extendMap`), the set that survives
`retain` is handed on in the order `ord.retain` picks. -/
def filterRoundOrd (f : Fusion K) (ord : FuseOrders K) (valid : List (Cand K)) : List (Cand K) :=
  let fusedPos : List (Nat × Nat) := extendMap [] ((ord.fusedPos valid).map fun c => (c.out, c.mulIdx))
  ord.retain (valid.filter fun c =>
    let pos := match fusedPos.lookup c.addend with
      | some p => some p
      | none => f.defIdx c.addend
    match pos with
    | some p => decide (p < c.mulIdx)
    | none => true)

def filterValidOrd (f : Fusion K) (ord : FuseOrders K) : Nat → List (Cand K) → List (Cand K)
  | 0, valid => valid
  | fuel + 1, valid =>
    let valid' := filterRoundOrd f ord valid
    if valid'.length = valid.length then valid else filterValidOrd f ord fuel valid'

/-- `MulAddFusion::run` with explicit hash orders (`candidates` itself is a map keyed by the add
position; it is only looked up, and its key set seeds `valid`). -/
def fuseOrd (ord : FuseOrders K) (ops : Array (Op K)) (inputs : List Nat) : Array (Op K) :=
  let f := Fusion.new ops inputs
  let cands := f.candidates ops
  Fusion.apply ops (ord.apply (filterValidOrd f ord (cands.length + 1) (ord.retain cands)))

/-- The invariant the code maintains and the theorems need: candidate outputs pairwise distinct
(keys of `fused_positions`) and mul positions pairwise distinct (keys of `mul_replacements`).
Decidable; the driver evaluates it on every program of the C18 run (`c18inv`). -/
def candsDistinct (cands : List (Cand K)) : Bool :=
  distinctNat (cands.map (·.out)) && distinctNat (cands.map (·.mulIdx))

/-- `candsDistinct` for the candidates of a program's (deduplicated) op list. -/
def fusionInvariant (ops : Array (Op K)) (inputs : List Nat) : Bool :=
  candsDistinct ((Fusion.new ops inputs).candidates ops)

/-- Operand occurrences of an op (what `scan_use_counts` counts). -/
def opReads : Op K → List Nat
  | .alu k a b c _ io =>
    [a, b] ++ c.toList ++ (match k, io with
      | .horner, some acc => [acc]
      | _, _ => [])
  | .hint ins _ _ => ins
  | .npo ins _ _ _ => ins.flatten
  | _ => []

/-- Slots an op writes (what `scan_defs` counts in `writer_counts`, backwards records apart). -/
def opWrites : Op K → List Nat
  | .const out _ => [out]
  | .pub out _ => [out]
  | .alu _ _ _ _ out _ => [out]
  | .hint _ outs _ => outs
  | .npo _ outs _ _ => outs.flatten

/-- "The first operand of every plain `Add` is a private input or is named (read or written) by an
earlier op": the def-before-use condition under which `candsDistinct` holds for *every* op list
(`P3R.C18.fusionInvariant_of_aDefined`). Elementary (no reference to the fusion pass), decidable;
the driver evaluates it per program next to `fusionInvariant` (`c18inv`). -/
def aDefined (inputs : List Nat) (ops : List (Op K)) : Bool :=
  ops.zipIdx.all fun (p : Op K × Nat) =>
    match p.1 with
    | .alu .add a _ none _ _ =>
      inputs.contains a ||
        (ops.take p.2).any fun op => (opReads op).contains a || (opWrites op).contains a
    | _ => true

end

/-! ### `build_with_public_mapping` -/

/-- `expr_to_widx.into_iter().map(|(e, w)| (e, resolve(w))).collect()` into the array-indexed map of
the compile model: the pairs arrive in hash order. -/
def e2wCollect (n : Nat) (f : Nat → Nat) (pairs : List (Nat × Nat)) : Array (Option Nat) :=
  pairs.foldl (fun a p => a.setIfInBounds p.1 (some (f p.2))) (Array.replicate n none)

/-- The `(expr, witness)` pairs of an array-indexed map, ascending. -/
def e2wPairs (a : Array (Option Nat)) : List (Nat × Nat) :=
  (a.toList.zipIdx).filterMap fun (wi : Option Nat × Nat) => wi.1.map fun w => (wi.2, w)

/-- `gen_order`: `non_primitive_trace_generators.keys().cloned().collect()` then `sort()`.
`NpoTypeId` (a string with its derived `Ord`) is a `Nat` code here: any linear order. -/
def genOrder (keysInHashOrder : List Nat) : List Nat := keysInHashOrder.mergeSort (fun a b => decide (a ≤ b))

/-- `for (tag, expr_id) in self.tag_to_expr { … insert / return Err(MissingExprMapping) }`.
Result: the new `tag_to_witness` map, or the first tag whose expression has no witness. -/
def tagTransfer {τ : Type} (e2w : Nat → Option Nat) : List (τ × Nat) → List (τ × Nat) → Except (τ × Nat) (List (τ × Nat))
  | acc, [] => .ok acc
  | acc, (t, e) :: rest =>
    match e2w e with
    | some w => tagTransfer e2w ((t, w) :: acc) rest
    | none => .error (t, e)

/-! ### Key generation (`circuit-prover`) -/

/-- The AIR-builder loop of `get_airs_and_degrees_with_prep` (`common.rs`): builders in registration
order (a `Vec`); each takes the *first* entry of `non_primitive_base` — in hash order — that it can
build, then `break`s. -/
def airLoop {β κ ν α : Type} (tryBuild : β → κ → ν → Option α) (builders : List β) (base : List (κ × ν)) : List α :=
  builders.filterMap fun b => base.findSome? fun kv => tryBuild b kv.1 kv.2

/-- The loop as repaired in /repo 9b88fce: the entries of `non_primitive_base` are first sorted by op type
(`sort_unstable_by` on the `Ord` of `NpoTypeId`; keys of a map are distinct, so stability is immaterial).
Op types are modelled by any key type with a decidable total order (here `Nat` codes). -/
def airLoopSorted {β ν α : Type} (tryBuild : β → Nat → ν → Option α) (builders : List β) (base : List (Nat × ν)) : List α :=
  airLoop tryBuild builders (base.mergeSort fun a b => decide (a.1 ≤ b.1))

/-- `ext_reads: Vec<u32>`: length and content (`resize(i + 1, 0)` then `+= 1`). -/
structure Reads where
  len : Nat
  f : Nat → Nat

def Reads.bump (r : Reads) (i : Nat) : Reads :=
  { len := max r.len (i + 1), f := fun j => if j = i then r.f j + 1 else r.f j }

/-- Phase 1 of `poseidon_preprocess_for_prover`: for every entry of `preprocessed.non_primitive`
(hash order) bump `ext_reads` at the slots its rows read (`readsOf`, a pure function of the entry). -/
def phase1 {κ ν : Type} (readsOf : κ → ν → List Nat) (r : Reads) (entries : List (κ × ν)) : Reads :=
  entries.foldl (fun r kv => (readsOf kv.1 kv.2).foldl Reads.bump r) r

/-- Phase 2: every entry is rewritten by a pure function of the entry and of the *final* `ext_reads`
and inserted into a fresh map. -/
def phase2 {κ ν μ : Type} (g : κ → ν → μ) (entries : List (κ × ν)) : List (κ × μ) :=
  extendMap [] (entries.map fun kv => (kv.1, g kv.1 kv.2))

/-! ### Runner post-pass (`tables/runner.rs::run`) -/

/-- `for (dup, canon) in &rewrite { let r = root(canon); if let Some(v) = witness[r] { set_witness(dup, v)? } }`.
Errors are erased to `none` (which conflict is reported first is *not* order-independent, see
`design_notes/C18_sites.md`). -/
def rewriteStep {V : Type} [DecidableEq V] (root : Nat → Nat) (w : Option (Nat → Option V)) (dc : Nat × Nat) :
    Option (Nat → Option V) :=
  match w with
  | none => none
  | some w =>
    match w (root dc.2) with
    | none => some w
    | some v =>
      match w dc.1 with
      | none => some fun y => if y = dc.1 then some v else w y
      | some v' => if v' = v then some w else none

def rewritePass {V : Type} [DecidableEq V] (root : Nat → Nat) (w : Nat → Option V) (rw : List (Nat × Nat)) :
    Option (Nat → Option V) :=
  rw.foldl (rewriteStep root) (some w)

/-! ### The whole compile path over a record of orderings -/

/-- Every hash order the path from a builder program to `Circuit` meets. -/
structure Orders (K : Type) where
  backfill : List Nat → List Nat
  fuse : FuseOrders K
  e2w : List (Nat × Nat) → List (Nat × Nat)
  genKeys : List Nat → List Nat
  tags : List (Nat × Nat) → List (Nat × Nat)

structure Orders.Valid {K : Type} (o : Orders K) : Prop where
  backfill : ∀ l, (o.backfill l).Perm l
  fuse : o.fuse.Valid
  e2w : ∀ l, (o.e2w l).Perm l
  genKeys : ∀ l, (o.genKeys l).Perm l
  tags : ∀ l, (o.tags l).Perm l

/-- What `build_with_public_mapping` returns beyond `P3R.Circuit`: generator order and wire tags. -/
structure CircuitX (K : Type) where
  core : Circuit K
  genOrder : List Nat
  tagToWitness : List (Nat × Nat)

inductive BuildErr where
  | lower (e : LowerErr)
  | missingTag (tag expr : Nat)
deriving Repr, DecidableEq

section
variable {K : Type} [Neg K] [Zero K] [DecidableEq K]

/-- `Optimizer::optimize_with_inputs` (dedup iterates `Vec`s only). -/
def optimizeOrd (ord : FuseOrders K) (ops : Array (Op K)) (privRows : List Nat) : Array (Op K) × Rewrite :=
  let (ops, rw) := dedup ops
  (fuseOrd ord ops (privRows.map (resolve rw)), rw)

/-- The fusion invariant at the op list the optimiser hands to the fusion pass. -/
def fusionInvariantOf (l : Lowered K) : Bool :=
  fusionInvariant (dedup l.ops).1 (l.privRows.toList.map (resolve (dedup l.ops).2))

/-- `aDefined` at the op list and input set the optimiser hands to the fusion pass. -/
def aDefinedOf (l : Lowered K) : Bool :=
  aDefined (l.privRows.toList.map (resolve (dedup l.ops).2)) (dedup l.ops).1.toList

/-- `expr_to_widx` of the built circuit, in the canonical order (the theorems show every order gives it). -/
def finalE2w (l : Lowered K) : Array (Option Nat) :=
  e2wCollect l.e2w.size (resolve (dedup l.ops).2) (e2wPairs l.e2w)

/-- `build_with_public_mapping` with every hash iteration order explicit. `genKeys` are the
registered trace-generator ids, `tags` the `tag_to_expr` entries (both distinct-keyed maps). -/
def compileOrd (o : Orders K) (b : BState K) (genKeys : List Nat) (tags : List (Nat × Nat)) :
    Except BuildErr (CircuitX K) :=
  match lowerOrd o.backfill b with
  | .error e => .error (.lower e)
  | .ok l =>
    let (ops, rw) := optimizeOrd o.fuse l.ops l.privRows.toList
    if !hornerChained ops.toList then .error (.lower .hornerNotChained) else
    let e2w := e2wCollect l.e2w.size (resolve rw) (o.e2w (e2wPairs l.e2w))
    -- a `HashMap` result is observed through its canonical form
    match (tagTransfer (fun e => e2w.getD e none) [] (o.tags tags)).map canonMap with
    | .error te => .error (.missingTag te.1 te.2)
    | .ok tw =>
      .ok { core := { witnessCount := l.witnessCount, ops := ops,
                      pubRows := l.pubRows.map (resolve rw), privRows := l.privRows.map (resolve rw),
                      e2w := e2w, rewrite := rw },
            genOrder := genOrder (o.genKeys genKeys),
            tagToWitness := tw }

/-- The same build with no ordering argument: the fixed-order `P3R.compile` (what C02/C03/C09 verify and
the harness compares with the real build), the tag loop in list order, the generator ids sorted.
`P3R.C18.compileOrd_eq_fixed`: every valid record of hash orders gives exactly this. -/
def compileFixed (b : BState K) (genKeys : List Nat) (tags : List (Nat × Nat)) :
    Except BuildErr (CircuitX K) :=
  match compile b with
  | .error e => .error (.lower e)
  | .ok c =>
    match (tagTransfer (fun e => c.e2w.getD e none) [] tags).map canonMap with
    | .error te => .error (.missingTag te.1 te.2)
    | .ok tw => .ok { core := c, genOrder := genOrder genKeys, tagToWitness := tw }

end

end P3R.Order
