/-
L11 — verifier arithmetic gadgets (C20). Import-free; polymorphic in the arithmetic instances.

Every gadget has two models:
* `…C` — the value computed by the *circuit* the Rust gadget builds (one definition per builder
  call: `mul`, `sub`, `div`, `mul_add`, `horner_acc_step`, `select`, `exp_power_of_2`,
  `mul_many`, `inner_product`), including the builder's structural folding rules that change
  *definedness* (`e / e ↦ 1` for the same expression id, `e / 1 ↦ e`). `none` = the circuit cannot
  be run on that input (`CircuitError::DivisionByZero`, or a build-time panic).
* `…N` — the value computed by the *native* p3 0.6.3 code for the same quantity. `none` = the
  native code panics (`inverse()` of zero).

Rust mirrored:
  recursion/src/verifier/quotient.rs      vanishing_poly_at_point_{circuit,native},
                                          compute_quotient_chunk_products, compute_quotient_evaluation
  recursion/src/pcs/fri/targets.rs        selectors_at_point_circuit
  recursion/src/verifier/periodic.rs      evaluate_one
  recursion/src/pcs/fri/verifier.rs       evaluate_polynomial, circuit_exp_by_constant,
                                          precompute_two_adic_powers, compute_final_query_point,
                                          precompute_evaluation_points
  circuit/src/builder/circuit_builder.rs  exp_power_of_2, mul_many, inner_product, select
  p3-commit domain.rs                     vanishing_poly_at_point, selectors_at_point
  p3-uni-stark verifier.rs                recompose_quotient_from_chunks
  p3-fri verifier.rs                      query points, final-polynomial Horner
-/
namespace P3R.Gadgets

section
variable {K : Type} [Zero K] [One K] [Add K] [Mul K] [Sub K] [Neg K] [Inv K] [DecidableEq K]

/-- Builder `div` as executed by the runner (`b * out = a` solved for `out`): fails on `b = 0`.
    Native `a / b = a * b.inverse()` panics on `b = 0` — the same partial function. -/
def cdiv (a b : K) : Option K := if b = 0 then none else some (a * b⁻¹)

/-- Native `Field::inverse`: panics on zero. -/
def ninv (a : K) : Option K := if a = 0 then none else some a⁻¹

/-- `exp_power_of_2` (builder and p3 alike): `k` successive squarings. -/
def expPow2 (x : K) : Nat → K
  | 0 => x
  | k + 1 => expPow2 (x * x) k

/-- Reference power by repeated multiplication (native `alpha_pow *= alpha`, `n` times). -/
def powNat (x : K) : Nat → K
  | 0 => 1
  | n + 1 => powNat x n * x

/-! ### `circuit_exp_by_constant` -/

/-- Square-and-multiply, most significant bit first (`n ≥ 1`): the recursion on `n / 2`
    performs exactly the multiplications of the Rust loop over the bits below the top bit. -/
def expByConstGo (base : K) (n : Nat) : K :=
  if _h : n ≤ 1 then base else
    let r := expByConstGo base (n / 2)
    let r2 := r * r
    if n % 2 = 1 then r2 * base else r2
termination_by n
decreasing_by omega

/-- `circuit_exp_by_constant`: `debug_assert!(n > 0)`; `none` = that panic. -/
def expByConst (base : K) (n : Nat) : Option K :=
  if n = 0 then none else some (expByConstGo base n)

/-! ### vanishing polynomial and selectors -/

/-- A two-adic coset as the gadgets see it: first point, its inverse (as computed by the Rust:
    `first_point().inverse()` / `shift_inverse()`), log₂ of the size. -/
structure Dom (K : Type) where
  g : K
  gInv : K
  logN : Nat

/-- `vanishing_poly_at_point_circuit` = `vanishing_poly_at_point_native`
    = p3 `vanishing_poly_at_point`: `(x·g⁻¹)^(2^logN) − 1` by squarings. -/
def vanishing (d : Dom K) (x : K) : K := expPow2 (x * d.gInv) d.logN - 1

structure Sel (K : Type) where
  isFirst : K
  isLast : K
  isTrans : K
  invVan : K
deriving DecidableEq

/-- `selectors_at_point_circuit` (both PCS impls are identical).
    `z_h = Sub(us_exp, one)`, `us_minus_one = Sub(unshifted, one)`: for `logN = 0`,
    `us_exp` *is* `unshifted`, the `Sub` nodes are shared by CSE and `div` folds `e / e` to the
    constant 1 (no division emitted); likewise for `is_last_row` when the constant `genInv`
    is 1 (constant pool shares it with `one`). -/
def selectorsC (shiftInv genInv : K) (logN : Nat) (x : K) : Option (Sel K) :=
  let u := shiftInv * x
  let zh := expPow2 u logN - 1
  let um1 := u - 1
  let umg := u - genInv
  let first := if logN = 0 then some 1 else cdiv zh um1
  let last := if logN = 0 ∧ genInv = 1 then some 1 else cdiv zh umg
  match first, last, cdiv 1 zh with
  | some f, some l, some iv => some ⟨f, l, umg, iv⟩
  | _, _, _ => none

/-- p3 `TwoAdicMultiplicativeCoset::selectors_at_point`. -/
def selectorsN (shiftInv genInv : K) (logN : Nat) (x : K) : Option (Sel K) :=
  let u := x * shiftInv
  let zh := expPow2 u logN - 1
  match cdiv zh (u - 1), cdiv zh (u - genInv), ninv zh with
  | some f, some l, some iv => some ⟨f, l, u - genInv, iv⟩
  | _, _, _ => none

/-! ### quotient recomposition -/

/-- `mul_many`: empty ↦ 1, singleton ↦ the element itself (same expression), else left fold. -/
def mulMany : List K → K
  | [] => 1
  | a :: rest => rest.foldl (fun acc x => acc * x) a

/-- `inner_product`: `fold(zero, |acc, (x, y)| mul_add(x, y, acc))`. -/
def innerProduct (a b : List K) : K :=
  (a.zip b).foldl (fun acc xy => xy.1 * xy.2 + acc) 0

/-- All elements except the one at position `i` (`enumerate().filter(|(j, _)| j != i)`). -/
def others {α : Type} (l : List α) (i : Nat) : List α := l.take i ++ l.drop (i + 1)

/-- `den_constants[i] = ∏_{j≠i} Z_j(g_i)`, computed natively at build time (left fold from 1). -/
def denConst (doms : List (Dom K)) (i : Nat) (gi : K) : K :=
  (others doms i).foldl (fun acc d => acc * vanishing d gi) 1

/-- One Lagrange coefficient in the circuit: `div(div(total, vp_i), den_i)`.
    With a single chunk `total` *is* `vp_0` (`mul_many` returns its only input), so the first
    `div` folds to the constant 1, and `den_0 = 1` (empty product) makes the second return it. -/
def lagrangeOneC (n : Nat) (total vp den : K) : Option K :=
  if n = 1 then some 1 else (cdiv total vp).bind fun num => cdiv num den

/-- `compute_quotient_chunk_products`. -/
def lagrangeC (doms : List (Dom K)) (zeta : K) : Option (List K) :=
  let total := mulMany (doms.map fun d => vanishing d zeta)
  doms.zipIdx.mapM fun di =>
    lagrangeOneC doms.length total (vanishing di.1 zeta) (denConst doms di.2 di.1.g)

/-- `recompose_quotient_from_chunks_circuit`: `chunks[i]` are the `D` opened coefficient
    evaluations of chunk `i`, `basis = [e_0 … e_{D-1}]`. `none` = the circuit cannot be built
    (`zip_eq` length panic inside `inner_product`) or cannot be run (`DivisionByZero`); the two
    are told apart by `recomposeShapeOk`. -/
def recomposeC (doms : List (Dom K)) (chunks : List (List K)) (basis : List K) (zeta : K) : Option K :=
  match lagrangeC doms zeta with
  | none => none
  | some zps =>
    if chunks.isEmpty then some 0
    else if chunks.any (fun ch => ch.length != basis.length) || chunks.length != doms.length then none
    else some (innerProduct (chunks.map fun ch => innerProduct ch basis) zps)

/-- The shapes under which neither side panics on lengths (guaranteed by proof-shape validation). -/
def recomposeShapeOk (doms : List (Dom K)) (chunks : List (List K)) (basis : List K) : Bool :=
  chunks.length == doms.length && chunks.all (fun ch => ch.length == basis.length)

/-- Native `zps[i] = ∏_{j≠i} Z_j(ζ) · Z_j(g_i).inverse()` (`product()` = left fold from 1). -/
def zpN (doms : List (Dom K)) (i : Nat) (gi zeta : K) : Option K :=
  (others doms i).foldlM (fun acc d =>
    (ninv (vanishing d gi)).bind fun inv => some (acc * (vanishing d zeta * inv))) 1

/-- `from_ext_basis_coefficients`: `Σ_j e_j · ch_j` (`sum()` = left fold from 0). -/
def fromBasis (basis ch : List K) : K :=
  (basis.zip ch).foldl (fun acc ec => acc + ec.1 * ec.2) 0

/-- p3-uni-stark `recompose_quotient_from_chunks`. `none` = a native panic: `inverse()` of zero,
    `zps[ch_i]` out of range, or the `expect` on a chunk of the wrong length. -/
def recomposeN (doms : List (Dom K)) (chunks : List (List K)) (basis : List K) (zeta : K) : Option K :=
  match doms.zipIdx.mapM (fun di => zpN doms di.2 di.1.g zeta) with
  | none => none
  | some zps =>
    if chunks.any (fun ch => ch.length != basis.length) || doms.length < chunks.length then none
    else some ((zps.zip chunks).foldl (fun acc zc => acc + zc.1 * fromBasis basis zc.2) 0)

/-! ### periodic columns and polynomial evaluation -/

/-- `periodic.rs::evaluate_one` after the (native, build-time) inverse coset DFT:
    `coeffs` ascending, `folds = log n − log period`. `none` = the `expect` on an empty vector. -/
def periodicC (coeffs : List K) (folds : Nat) (x : K) : Option K :=
  match coeffs.reverse with
  | [] => none
  | lead :: rest =>
    if rest.isEmpty then some lead
    else
      let zp := expPow2 x folds
      some (rest.foldl (fun acc c => acc * zp + c) lead)

/-- Value of the polynomial with ascending coefficients `cs` at `x`: `Σ cᵢ xⁱ`
    (as `c₀ + x·(c₁ + …)`; the native final-polynomial `horner` computes exactly this fold). -/
def polyEval (cs : List K) (x : K) : K :=
  cs.foldr (fun c acc => acc * x + c) 0

/-- `fri/verifier.rs::evaluate_polynomial`: `horner_acc_step(result, x, coeff, zero)` =
    `result·x + coeff − 0`. `none` = the `assert!(!coefficients.is_empty())` panic. -/
def evalPolyC (cs : List K) (x : K) : Option K :=
  match cs with
  | [] => none
  | [c] => some c
  | _ => some (cs.reverse.foldl (fun r c => r * x + c - 0) 0)

/-! ### index-dependent domain points -/

/-- `select(b, t, s) = b·(t − s) + s` (`mul_add(b, sub(t, s), s)`). -/
def select (b t s : K) : K := b * (t - s) + s

/-- `[g, g², g⁴, …]` (`precompute_two_adic_powers`, `iter::successors(g, square).take(n)`). -/
def pow2Powers (g : K) : Nat → List K
  | 0 => []
  | n + 1 => g :: pow2Powers (g * g) n

/-- The select–multiply chain `∏ⱼ select(bitⱼ, powerⱼ, 1)` (left fold from 1, `zip` truncates). -/
def selectChain (bits powers : List K) : K :=
  (bits.zip powers).foldl (fun r bp => r * select bp.1 bp.2 1) 1

/-- `compute_final_query_point`: `bits = index_bits[consumed .. logMax]`. -/
def finalQueryPointC (g : K) (logMax consumed : Nat) (bits : List K) : K :=
  selectChain (List.replicate consumed 0 ++ bits.reverse) (pow2Powers g logMax)

/-- Little-endian value of a list of bits. -/
def bitsVal : List Bool → Nat
  | [] => 0
  | b :: bs => (if b then 1 else 0) + 2 * bitsVal bs

/-- Native: `two_adic_generator(logMax).exp_u64(reverse_bits_len(domain_index, logMax))` where
    `domain_index = index >> consumed` has the little-endian bits `bits` (length
    `logMax − consumed`): the reversed index has bits `0^consumed ++ reverse bits`. -/
def finalQueryPointN (g : K) (consumed : Nat) (bits : List Bool) : K :=
  powNat g (bitsVal (List.replicate consumed false ++ bits.reverse))

/-- `precompute_evaluation_points` for one height `h ≤ hMax`: the chain over the first `h`
    reversed bits with the powers of `g = two_adic_generator(hMax)`, raised to `2^(hMax − h)`,
    times the coset generator. `revBits = reverse(index_bits[bitsReduced .. bitsReduced+hMax])`. -/
def evalPointC (gen g : K) (hMax h : Nat) (revBits : List K) : K :=
  gen * expPow2 (selectChain (revBits.take h) (pow2Powers g hMax)) (hMax - h)

/-- Native: `GENERATOR * two_adic_generator(h).exp_u64(reverse_bits_len(index >> (logGlobalMax − h), h))`,
    with `gh = two_adic_generator(h)`; the reversed reduced index has the little-endian bits
    `revBits.take h`. -/
def evalPointN (gen gh : K) (h : Nat) (revBits : List Bool) : K :=
  gen * powNat gh (bitsVal (revBits.take h))

end

end P3R.Gadgets
