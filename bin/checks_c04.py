"""C04: soundness of the circuit proof system against forged traces (shares the prove harness)."""
from checks_c10 import prove_run, sched_violations

PROPERTY = "C04"


def poseidon_row_violations(ctx, keep=None):
    """Non-primitive rows (C04: "every non-primitive row is the true function of its inputs"): the row-level tamper oracle of
    the C11 harness on the real Poseidon2 / Poseidon1 circuit AIRs (honest chains, single-cell / chain-structure tampering, judged by
    an independent relation decoder). Only rows the real AIR *accepts* although the relation fails are C04 violations."""
    import json, os
    tier, seed, work = ctx["tier"], ctx["seed"], ctx["work"]
    n_pos, n_chain, pt = (600, 260, 10) if tier == "quick" else (6000, 12000, 20)
    out = f"{work}/poseidon"
    os.makedirs(out, exist_ok=True)
    rc, o = ctx["sh"]([ctx["harness"], "poseidonctl", "--seed", str(seed), "--cases", str(n_pos), "--chains", str(n_chain),
                       "--tampers", str(pt), "--out", out], timeout=7200)
    if rc != 0:
        return [{"class": "harness-crash", "what": f"harness poseidonctl exited {rc}: {o[-300:]}", "replay": {}, "no_input": True}], {}
    rep = json.load(open(f"{out}/poseidonctl.report.json"))
    seen, vs = {}, []
    for v in rep["violations"]:
        if not v["class"].startswith("accepts-invalid-row:poseidon") or (keep is not None and not keep(v["class"])):
            continue
        seen[v["class"]] = seen.get(v["class"], 0) + 1
        if seen[v["class"]] <= 3:
            vs.append({"class": v["class"], "what": v["kind"] + (" " + ",".join(v.get("facts", [])) if v.get("facts") else ""), "replay": v["replay"]})
    return vs, {"poseidon.tamper_evaluations": rep["tamper_evaluations"], "poseidon.accepted_invalid_by_class": seen}


def c04_run(ctx):
    violations, cov = prove_run(ctx, "C04", 4)
    if not ctx.get("replay"):
        # matrix-level forgeries: tampered cells of honest scheduled ALU matrices (incl. intermediate / b^2 columns)
        # that the real AluAir::eval accepts although the decoded rows violate their relation
        v2, n = sched_violations(ctx, {"accepts-invalid-row"})
        violations += v2
        if cov:
            cov["evaluations"] += n
            cov["rule"] += "; plus single-cell tampering of scheduled ALU matrices (real trace_to_matrix + real AluAir::eval through a recording builder), judged by an independent relation decoder"
        v3, c3 = poseidon_row_violations(ctx)
        violations += v3
        if cov:
            cov["evaluations"] += c3.get("poseidon.tamper_evaluations", 0)
            cov["input_distribution"] = {**cov.get("input_distribution", {}), **{k: (v if not isinstance(v, dict) else json_str(v)) for k, v in c3.items()}}
            cov["rule"] += ("; plus non-primitive rows: honest Poseidon2/Poseidon1 circuit-table chains (all layouts: arity-2 generic / compact D=1, arity-4, "
                            "width 24) with tampered cells / chain structure through the real AIR eval, judged by an independent decoder")
    return violations, cov


def json_str(d):
    import json
    return json.dumps(d, sort_keys=True)

CHECK = {
    "lean_modules": ["P3R.Props.C04", "P3R.Props.C04Full", "P3R.Props.C04Packed", "P3R.Witness.C04", "P3R.Props.C11P",
                     "P3R.Props.C04Gen", "P3R.Props.C10Gen", "P3R.Witness.C04Gen",
                     "P3R.Props.C04Sched", "P3R.Witness.C04Sched",
                     "P3R.Props.C04SchedBus", "P3R.Witness.C04SchedBus",
                     "P3R.Props.C04SchedWF", "P3R.Witness.C04SchedWF",
                     "P3R.Props.C04SchedCols", "P3R.Witness.C04SchedCols",
                     "P3R.Props.EndToEnd", "P3R.Props.EndToEndReach", "P3R.Witness.EndToEnd",
                     "P3R.Props.C04NoSkip", "P3R.Witness.C04NoSkip",
                     "P3R.Props.C04LateFresh", "P3R.Witness.C04LateFresh"],
    "theorems": ["P3R.C04.readers_agree", "P3R.C04.row_sat_add", "P3R.C04.row_sat_mul", "P3R.C04.row_sat_bool",
                 "P3R.C04.row_sat_muladd", "P3R.C04.row_sat_horner", "P3R.C04.accepted_alu_sat_partial", "P3R.C04.const_not_bound",
                 # composition: balanced bus + single creator (C09) + row constraints on cells => a satisfying assignment exists
                 "P3R.C04.bus_single_valued", "P3R.C04.genPrep_slots", "P3R.C04.rowsOk_sat", "P3R.C04.accepted_sat",
                 "P3R.C04.accepted_sat_genPrep", "P3R.Witness.C04.accepted_sat_nonvacuous", "P3R.Witness.C04.unchained_accepted_not_sat",
                 # packed rows: the unpacking argument (tuple-level bus equivalence of a packed row and its k steps; composition on any equivalent bus)
                 "P3R.C04.packed_tuple_net", "P3R.C04.accepted_sat_bus_equiv",
                 # every extension degree D >= 1 (cells in the base field K, D per operand; circuit over the extension ring L; bus tuples
                 # (slot, v_0..v_{D-1}); coefficient-wise row constraints of Model/AluAir): rows at ring level, bus for any payload type,
                 # composition, accepted_sat as the D = 1 instance, the window tie to aluConstraints, the unpacking lemmas for D-tuples
                 "P3R.C04.row_sat_add_gen", "P3R.C04.row_sat_mul_gen", "P3R.C04.row_sat_bool_gen", "P3R.C04.row_bool_coeffs_gen",
                 "P3R.C04.row_sat_muladd_gen", "P3R.C04.row_sat_horner_gen", "P3R.C04.window_lane_blocks", "P3R.C04.window_horner_start_ring",
                 "P3R.C04.bus_single_valued_gen", "P3R.C04.bus_single_valued_tuple", "P3R.C04.genPrep_slots_gen",
                 "P3R.C04.rowOk_holds_gen", "P3R.C04.rowsOk_sat_gen", "P3R.C04.accepted_sat_gen", "P3R.C04.accepted_sat_genPrep_gen",
                 "P3R.C04.accepted_sat_of_gen", "P3R.C04.accepted_sat_gen_bus_equiv", "P3R.C04.packed_tuple_net_gen",
                 # converse (completeness) for every D under power-basis independence
                 "P3R.C10.holds_rowOk_gen", "P3R.C10.honest_rows_gen", "P3R.C10.honest_tupleNet_gen", "P3R.C10.honest_bus_gen",
                 "P3R.C10.honest_accepted_gen", "P3R.C10.run_honest_accepted_gen",
                 # D = 2 witnesses over Z/7[X]/(X^2 - 3)
                 "P3R.Witness.C04Gen.accepted_sat_gen_nonvacuous", "P3R.Witness.C04Gen.mul_relation_in_L",
                 "P3R.Witness.C04Gen.rows_tampered_rejected", "P3R.Witness.C04Gen.bool_higher_coeff_rejected",
                 "P3R.Witness.C04Gen.g_irreducible", "P3R.Witness.C04Gen.sat_cvW", "P3R.Witness.C04Gen.honest_rows_gen_nonvacuous",
                 # the SCHEDULED table as committed (Props/C04Sched): concrete scheduled preprocessed matrix (prepRow = scheduledPrepRows),
                 # arbitrary main trace, window constraints of aluConstraints + balanced tuple bus => Sat; every D, lanes, K_max
                 "P3R.C04.scheduledPrepRows_getD", "P3R.C04.prepRow_lane", "P3R.C04.prepRow_extra",
                 "P3R.C04.entryCols_packed_sel", "P3R.C04.entryCols_packed_selK",
                 "P3R.C04.sched_add", "P3R.C04.sched_mul", "P3R.C04.sched_mulAdd", "P3R.C04.sched_bool",
                 "P3R.C04.sched_sep_zero", "P3R.C04.sched_horner_single", "P3R.C04.sched_packed",
                 "P3R.C04.chained_alu", "P3R.C04.ev_chainCells", "P3R.C04.prev_out_acc",
                 "P3R.C04.sched_rows_sat", "P3R.C04.scheduled_accepted_sat",
                 "P3R.Witness.C04Sched.sched_eq", "P3R.Witness.C04Sched.win_ok", "P3R.Witness.C04Sched.win_tampered_rejected",
                 "P3R.Witness.C04Sched.wf_ok", "P3R.Witness.C04Sched.cells_ok", "P3R.Witness.C04Sched.sched_rows_sat_nonvacuous",
                 # bus of the scheduled table in packed form (one b tuple with summed multiplicity, silent intermediates) == unpacked cells' bus
                 "P3R.C04.tupleNet_busOf", "P3R.C04.step_all_net", "P3R.C04.schedBus_equiv",
                 "P3R.C04.scheduled_accepted_sat_bus", "P3R.C04.scheduled_accepted_sat_D1",
                 "P3R.Witness.C04Sched.bus_ok", "P3R.Witness.C04Sched.creators_ok", "P3R.Witness.C04Sched.scheduled_accepted_sat_nonvacuous",
                 # the lane-0 discipline SchedWF DERIVED from the model of compute_schedule for every op list (Props/C04SchedWF):
                 # splitChains invariant, fill_row / placeChain / chain-fold positional invariants, main theorems without the hypothesis
                 "P3R.C04.wf_append_benign", "P3R.C04.wf_snoc", "P3R.C04.fillRow_ext", "P3R.C04.fillRow_aligned", "P3R.C04.fillRow_len",
                 "P3R.C04.splitChains_good", "P3R.C04.push_fill", "P3R.C04.placeChain_wf", "P3R.C04.chainsFold_wf",
                 "P3R.C04.computeSchedule_wf", "P3R.C04.scheduled_accepted_sat_bus'", "P3R.C04.scheduled_accepted_sat_D1'",
                 "P3R.Witness.C04Sched.wf_derived", "P3R.Witness.C04Sched.sched2_eq", "P3R.Witness.C04Sched.wf2_derived",
                 "P3R.Witness.C04Sched.wf2_chain_start", "P3R.Witness.C04Sched.wf2_chain_step",
                 "P3R.Witness.C04Sched.wf_clause_not_trivial", "P3R.Witness.C04Sched.scheduled_accepted_sat_nonvacuous'",
                 # K-valued index / multiplicity columns of aluInteractions on the scheduled matrix vs the integer multiplicities (Props/C04SchedCols):
                 # row reading, images of single-op lanes and of lane 0 of a packed row, hpk derived from the scheduler's K-level tests below the characteristic
                 "P3R.C04.aluInteractions_prepRow", "P3R.C04.opStep_net", "P3R.C04.lane_op_image", "P3R.C04.lane_sep_zero",
                 "P3R.C04.entryCols_packed_keep", "P3R.C04.entryCols_packed_last", "P3R.C04.lane_packed_image",
                 "P3R.C04.natK_inj_below", "P3R.C04.intCast_zero_below", "P3R.C04.hpk_of_tested", "P3R.C04.scheduled_accepted_sat_bus''",
                 "P3R.Witness.C04Sched.prepBus_ok", "P3R.Witness.C04Sched.slots_inj", "P3R.Witness.C04Sched.mults_faithful",
                 "P3R.Witness.C04Sched.row0_lane1_image", "P3R.Witness.C04Sched.scheduled_accepted_sat_nonvacuous''",
                 # non-primitive rows (control part of the Poseidon circuit tables): what an accepted window implies about chaining,
                 # Merkle placement and the index accumulator, and what it leaves free (the known findings F-C08-5*, F-C11-P1)
                 "P3R.C11P.spongeChain_iff", "P3R.C11P.merklePlace_iff", "P3R.C11P.arity4Place_iff", "P3R.C11P.generic_window_iff",
                 "P3R.C11P.accChain2_iff", "P3R.C11P.accChain4_iff", "P3R.C11P.generic_chain_start_free", "P3R.C11P.compact_start_iff",
                 # END TO END (Props/EndToEnd): the stage theorems composed. Soundness C04 o C03 o C02: an accepted trace of compile b attests an
                 # assignment to the program's EXPRESSIONS (through expr_to_widx and the dedup rewrite, fused product slots repaired) under which
                 # the SOURCE program holds (every node relation, connect, assert_zero, assert_bool; with non-zero divisors: denotations);
                 # base field, every D, and from the scheduled table; completeness C02 o C09 o C10 is the converse; bridging lemmas
                 "P3R.E2E.SourceSat.assert_zero", "P3R.E2E.SourceSat.assert_bool", "P3R.E2E.SourceSat.denote",
                 "P3R.E2E.compile_e2w", "P3R.E2E.compile_eslot", "P3R.E2E.source_of_sat", "P3R.E2E.accepted_sat_cells",
                 "P3R.E2E.dedup_wf", "P3R.E2E.fuse_wf", "P3R.E2E.compile_ops_wf", "P3R.E2E.compile_alu_shape", "P3R.E2E.run_pub_in_range",
                 "P3R.E2E.e2e_soundness", "P3R.E2E.e2e_soundness_reachable", "P3R.E2E.e2e_soundness_gen", "P3R.E2E.e2e_soundness_scheduled",
                 "P3R.E2E.e2e_completeness", "P3R.E2E.e2e_completeness_gen", "P3R.E2E.e2e_roundtrip",
                 "P3R.Witness.EndToEnd.e_reachable", "P3R.Witness.EndToEnd.e_guards", "P3R.Witness.EndToEnd.e_facts",
                 "P3R.Witness.EndToEnd.completeness_applies", "P3R.Witness.EndToEnd.soundness_applies",
                 "P3R.Witness.EndToEnd.source_consequence", "P3R.Witness.EndToEnd.e2e_nonvacuous",
                 "P3R.Witness.EndToEnd.roundtrip_applies", "P3R.Witness.EndToEnd.run_evaluated",
                 "P3R.Witness.EndToEnd.tampered_not_accepted", "P3R.Witness.EndToEnd.gen_applies",
                 # Props/EndToEndReach: node 0 of every reachable program is the zero constant (assert_zero x = connect x 0 => v x = 0)
                 "P3R.E2ER.Reachable.node0", "P3R.E2E.SourceSat.assert_zero_reachable", "P3R.Witness.EndToEnd.guards_from_reachability",
                 # Props/C04NoSkip: hnoskip ("no a/c operand of the role scan off the bus") derived for ReachablePrim programs from the shape run of the
                 # compiled circuit (C02O.compile_shape_ok) + the b-column certificate (C09F.compile_defuse); ONE decidable syntactic hypothesis left
                 # (lateFresh c.ops: no Const/Public row after the first ALU row carries a hint output's slot) -> the *_partial capstones
                 "P3R.C04N.skip_iff", "P3R.C04N.alu_a_skip_iff", "P3R.C04N.noskip_of_cert", "P3R.C04N.exec_alu_gen", "P3R.C04N.cert_of_shape",
                 "P3R.C04N.fuse_dshape", "P3R.C04N.fuse_ioUnread", "P3R.C04N.fuse_PreOk", "P3R.C04N.compile_noSkipCert_of_lateFresh",
                 "P3R.C04N.compiled_no_skip_of_lateFresh", "P3R.C04N.compiled_no_skip_partial",
                 "P3R.C04N.e2e_soundness_reachable_partial", "P3R.C04N.e2e_roundtrip_reachable_partial",
                 "P3R.Witness.C04NoSkip.skip_occurs", "P3R.Witness.C04NoSkip.cert_on_example", "P3R.Witness.C04NoSkip.lateFresh_on_example",
                 "P3R.Witness.C04NoSkip.no_skip_applies", "P3R.Witness.C04NoSkip.soundness_applies'", "P3R.Witness.C04NoSkip.lateFresh_needed",
                 # Props/C04LateFresh: compile_lateFresh — the hypothesis left open by C04NoSkip is a theorem. (A) invariant through the four passes of
                 # lower: the slot of a Const row emitted by emit_operations (the mul − const fast-path constant, allocated for the synthetic id
                 # nodes.len()) is below next and unused (not in expr_to_widx, not in the connect-class table, no ALU out, no hint output), pass 4
                 # emits no Public row, passes 1–3 no ALU row; (B) dedup: keys and values of every rewrite map are ALU out slots, unused slots are
                 # fixed points and nothing is mapped onto them, non-ALU rows all kept in order; (C) fuse keeps non-ALU rows verbatim, fused rows
                 # are ALU rows. Capstones with ReachablePrim b as the ONLY hypothesis on the program.
                 "P3R.C04L.lower_lateP", "P3R.C04L.dedup_lateP", "P3R.C04L.fuse_lateP", "P3R.C04L.lateFresh_of_lateP", "P3R.C04L.compile_lateFresh",
                 "P3R.C04L.compiled_no_skip_of_guards", "P3R.C04L.compiled_no_skip", "P3R.C04L.e2e_soundness_reachable'",
                 "P3R.C04L.e2e_roundtrip_reachable'",
                 "P3R.Witness.C04LateFresh.l_reachable", "P3R.Witness.C04LateFresh.late_const_occurs", "P3R.Witness.C04LateFresh.lateFresh_applies",
                 "P3R.Witness.C04LateFresh.no_skip_applies", "P3R.Witness.C04LateFresh.no_skip_applies_E",
                 "P3R.Witness.C04LateFresh.soundness_applies", "P3R.Witness.C04LateFresh.roundtrip_applies",
                 "P3R.Witness.C04LateFresh.connectsOk_needed"],
    "run": c04_run,
    "trusted_base": ["ideal STARK/LogUp: an accepted proof implies row constraints hold on some committed trace and the WitnessChecks bus is balanced as a signed multiset (DESIGN §2)"],
    "assumptions": ["the Lean composition theorem holds for every extension degree D >= 1 (accepted_sat_gen: cells in the base field, D per operand, bus tuples (slot, v_0..v_{D-1}), coefficient-wise row constraints, relations in the extension ring L generated by a root alpha of the ALU's multiplication kind — KindRoot; accepted_sat is its D = 1 instance, accepted_sat_of_gen); accepted_sat(_gen) speaks about single-step Horner rows of the unscheduled abstract trace; the SCHEDULED table is covered by scheduled_accepted_sat_bus (Props/C04Sched, C04SchedBus): for sched = computeSchedule preps lanes kmax, the concrete preprocessed matrix prepRow = scheduledPrepRows (zero rows up to height H), ANY main-trace row function, (a) all of aluConstraints D lanes kmax kind vanishing on every window (r, r+1 mod H) and (b) the packed bus schedBus (other tables' cells + per scheduled entry what the table declares: packed rows send ONE b tuple with the summed multiplicity and nothing for the silent intermediate outputs) balanced as a signed multiset of D-tuples imply an assignment in the extension ring satisfying every op (single ops in every lane, chain starts after a separator via the F22 constraint, packed rows of every arity via C11.packed_window_sound_gen at ring level, cover by C11.computeSchedule_cover, bus by packed_tuple_net_gen + bus_single_valued_gen); the lane-0 discipline SchedWF of the schedule (Horner entries only on lane 0 below row 0, predecessor = previous chain entry or separator, packed arity in 2..K_max) is DERIVED from the model of compute_schedule for every op list, lanes >= 1 and K_max (computeSchedule_wf, Props/C04SchedWF: invariants of splitChains / fill_row / the chain loop; scheduled_accepted_sat_bus' has no SchedWF hypothesis); the integer-level reading hpk of the scheduler's two tests is DERIVED (hpk_of_tested, scheduled_accepted_sat_bus'', Props/C04SchedCols) from the per-op column encoding PrepBus (index columns = natK slot, multiplicity columns = images of eventMult; = what common.rs writes, read not modelled) when b slots have distinct images and non-zero out multiplicities non-zero images (natK_inj_below / intCast_zero_below: slot indices and read counts below the characteristic); aluInteractions on a row of the scheduled matrix is read entry by entry (aluInteractions_prepRow) and its tuples on single-op lanes / lane 0 of a packed row are the K-images of the integer interactions (lane_op_image, lane_packed_image: ONE b tuple with the image of the summed multiplicity, last step's out); its explicit hypotheses that are NOT derived: the images of the packed EXTRA tuples (later steps' (a, c) lookups) and the transfer of a K-valued balance to the integer tuple balance are not proved (hbal stays on integer multiplicities), the selector columns of op j encode its kind (PrepSel, = the 12->13 column conversion of common.rs), the integer-level reading hpk of the scheduler's two tests (equal b slot, intermediate out multiplicity 0; the K-valued columns b_idx / mult_out agree with it when slot indices and read counts stay below the characteristic), multiplicities are integers (the field-valued multiplicity columns of aluInteractions are their images), at most one creator per slot over the unpacked cells (C09.one_creator up to the schedule's permutation), MUL_ADD / HORNER ops carry a c operand; the row selector is one non-zero value `sel` (one-hot selectors of the preprocessed trace; window_lane_blocks ties the constraint vectors to aluConstraints); accepted_sat(_gen) assumes no ALU operand is off the bus (role `skip`; 0 of 36k generated rows in the C09 run) and that a Const row's cells denote the circuit's constant (false today: finding F4); the permutation rounds of the Poseidon tables are uninterpreted (control part modelled in Model/PoseidonCtl, tied by C11's run); recompose rows carry no constraint (F5b); END TO END (Props/EndToEnd, e2e_soundness / _gen / _scheduled): composed with C03 (compile_chain_sound_total) and C02 (lower_passes_check_ok) the satisfying assignment of the op list becomes an assignment to the source program's expressions satisfying every node relation / connect / assert — hypotheses: BState.Ok (every Reachable program), compile b = ok c, genPrep c = some p, the acceptance conditions, and hnoskip (no operand of the role scan off the bus: decidable on p; for ReachablePrim programs DERIVED — Props/C04NoSkip (from the shape run of the compiled circuit and the def-before-use certificate, up to the decidable syntactic condition lateFresh c.ops: no Const/Public row placed after the first ALU row carries a hint output's slot; Witness.C04NoSkip.lateFresh_needed: not droppable at list level) and Props/C04LateFresh (compile_lateFresh: lateFresh holds for the compiled list of every builder state with connectsOk, by an invariant through emit_operations, dedup and fuse) — so compiled_no_skip, e2e_soundness_reachable', e2e_roundtrip_reachable' have ReachablePrim b as the only hypothesis on the program; Witness.C04LateFresh.connectsOk_needed: at model level a raw connect naming the synthetic id nodes.len() breaks lateFresh, no builder call returns that id); hornerChained and the well-formedness of the compiled ops are derived from compile (compile_ops_eq, compile_ops_wf)"],
}

MANIFEST_ENTRY = {
    "property_id": "C04", "quick_cmd": "bin/check C04 --tier quick", "thorough_cmd": "bin/check C04 --tier thorough",
    "evidence_file": "evidence/C04.json", "replay_cmd_template": "bin/check C04 --replay {path}", "engine": "lean-models",
    "technique": "Lean 4 proof that balanced bus + vanishing row constraints imply the op relations (partial: constants, Horner) + forged-trace prove/verify",
    "level_claimed": {"category": "proof", "text": "accepted_sat: a balanced WitnessChecks bus over the roles of the role scan (single creator proved in C09) together with vanishing row constraints (ADD/MUL/BOOL/MUL_ADD/single-step HORNER) yields an assignment satisfying every op relation — proved for every circuit and trace, with readers_agree / bus_single_valued / row_sat_* as steps; accepted_sat_gen: the same for every extension degree D >= 1 (D coefficient cells per operand, D-tuples on the bus, coefficient-wise constraints with the binomial / quintic / base product, relations in the extension ring; D = 2 witness over F_49), accepted_sat being its D = 1 instance (accepted_sat_of_gen); scheduled_accepted_sat_bus: the same conclusion from the two acceptance conditions stated on the concrete scheduled, multi-lane, packed matrix (window constraints of aluConstraints against scheduledPrepRows of computeSchedule + balanced packed tuple bus), every D / lane count / K_max, non-vacuous on a packed chain at lanes = 2 (Witness/C04SchedBus); converse run_honest_accepted_gen under power-basis independence; const_not_bound proves the acceptance conditions do not bind constants (finding F4, replayed on the real prover every run); forged traces through the real prover judged by an independent sat check.", "design_ref": "4/C04"},
    "level_note": "cryptographic soundness assumed ideal; constants (F4) and the arity-2 Merkle mode / unfed start limbs of the Poseidon tables (F-C08-5*, F-C11-P1) are known findings; permutation rounds uninterpreted",
}
