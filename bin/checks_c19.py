"""C19: runner fail-safety — identical outcomes in the debug and the release build of the harness
(crashes are observations), and equal to the Lean model's checked semantics."""
import json, os
from checks import run_driver, read_lines

PROPERTY = "C19"


def run_profile(ctx, binary, profile, seed, nprog, out):
    """Run the failsafe list, resuming after crashes; returns (lines, crashes)."""
    crashes, skip = [], 0
    for _ in range(50):
        rc, o = ctx["sh"]([binary, "failsafe", "--seed", str(seed), "--programs", str(nprog), "--skip", str(skip), "--out", out], timeout=7200)
        lines = read_lines(f"{out}/failsafe.{profile}")
        if rc == 0 and lines and lines[-1].startswith("end "):
            return lines, crashes
        # crashed: the last 'begin k ...' without a matching 'case k' is the culprit
        begun = [l for l in lines if l.startswith("begin ")]
        last = begun[-1].split() if begun else ["begin", str(skip)]
        k = int(last[1])
        crashes.append({"case": " ".join(last[1:]), "exit": rc})
        with open(f"{out}/failsafe.{profile}", "a") as fh:
            fh.write(f"case {k} {' '.join(last[2:])} crash exit={rc}\n")
        skip = k + 1
    return read_lines(f"{out}/failsafe.{profile}"), crashes


def run(ctx):
    tier, seed, work = ctx["tier"], ctx["seed"], ctx["work"]
    nprog = 150 if tier == "quick" else 60000
    out = f"{work}/run0"
    os.makedirs(out, exist_ok=True)
    violations = []
    rc, o = ctx["build_harness"]("release")
    if rc != 0:
        return [{"class": "harness-build", "what": "release harness does not build", "replay": {"log": o[-2000:]}, "no_input": True}], {}
    rel = os.path.join(ctx["harness_dir"], "target/release/p3r-harness")
    dbg_lines, dbg_crashes = run_profile(ctx, ctx["harness"], "debug", seed, nprog, out)
    rel_lines, rel_crashes = run_profile(ctx, rel, "release", seed, nprog, out)
    # cases are keyed by (program id, variant), not by their running number: a generated program that trips a
    # *builder* debug assertion is discarded by the debug harness only, which shifts the numbering of one profile
    def keyed(lines):
        return {(l.split()[2], l.split()[3]): l for l in lines if l.startswith("case ")}
    dcase, rcase = keyed(dbg_lines), keyed(rel_lines)
    hist = {}
    hist["only-in-one-profile(builder debug assertion)"] = len(set(dcase) ^ set(rcase))
    for k, l in dcase.items():
        t = l.split()
        key = f"{t[3]}.{' '.join(t[4:6]) if t[4] == 'err' else t[4]}"
        hist[key] = hist.get(key, 0) + 1
        r = rcase.get(k)
        if r is None:
            continue
        if r.split()[2:] != l.split()[2:]:
            violations.append({"class": "profile-divergence:" + t[3],
                               "what": f"debug and release builds disagree: debug={l!r} release={r!r}",
                               "replay": {"case": l, "release": r, "seed": seed, "programs": nprog}})
        if " panic" in l or " crash" in l:
            violations.append({"class": "runner-panic", "what": l, "replay": {"case": l, "seed": seed}})
    for c in dbg_crashes + rel_crashes:
        violations.append({"class": "runner-crash", "what": f"process died on case {c}", "replay": c})
    # model correspondence on the primitive-op programs
    run_driver(ctx, f"{out}/failsafe.cases", f"{out}/failsafe.model.full")
    mfull = read_lines(f"{out}/failsafe.model.full")
    model = [l for l in mfull if l.startswith("run ")]
    sshape = [l for l in mfull if l.startswith("sshape ")]
    impl = read_lines(f"{out}/failsafe.impl")
    cases, progs, cur = [], [], []
    for l in read_lines(f"{out}/failsafe.cases"):
        if l.startswith("prog "):
            cur = []
        if l.startswith("sess"):
            cases.append(l); progs.append([x for x in cur if x not in ("build",) and not x.startswith("prog ")])
        else:
            cur.append(l)
    dis = 0
    # P3R.C19.session_shape_fail_err: a session whose definedness pattern fails the value-free shape run must end
    # in an error in the real runner, whatever the values (checked directly against the implementation)
    for k in range(min(len(impl), len(sshape))):
        hist["model." + sshape[k].replace(" ", ".")] = hist.get("model." + sshape[k].replace(" ", "."), 0) + 1
        if sshape[k] == "sshape no" and impl[k].startswith("run ok"):
            violations.append({"class": "runner-completes-underdetermined",
                               "what": "the real runner succeeds on a session whose definedness pattern fails the shape run "
                                       "(theorem P3R.C19.session_shape_fail_err: every such session must end in an error)",
                               "replay": {"field": "bb", "program": progs[k] if k < len(progs) else None,
                                          "session": cases[k] if k < len(cases) else None, "impl": impl[k][:200]}})
    for k in range(max(len(impl), len(model))):
        a = impl[k] if k < len(impl) else None
        b = model[k] if k < len(model) else None
        if a != b and a and b and a.startswith("run ok") and b.startswith("run err"):
            # the real runner reports success where the checked semantics (proved to reject
            # missing / conflicting inputs) returns an error: a concrete failing session
            dis += 1
            if dis <= 3:
                violations.append({"class": "runner-accepts:" + b.split()[2],
                                   "what": f"runner succeeds on a session the checked semantics rejects with {b.split()[2]}",
                                   "replay": {"field": "bb", "program": progs[k] if k < len(progs) else None,
                                              "session": cases[k] if k < len(cases) else None, "impl": a[:200], "model": b}})
        elif a != b:
            dis += 1
            if dis <= 3:
                violations.append({"class": "model-disagreement",
                                   "what": f"correspondence runner sessions vs lean/P3R/Model/Runner no longer checks: impl={str(a)[:80]!r} model={str(b)[:80]!r}",
                                   "replay": {"correspondence": "CircuitRunner sessions", "session": cases[k] if k < len(cases) else None},
                                   "no_input": True})
    cov = {"evaluations": len(dcase) + len(rcase), "distinct_nontrivial": len(dcase),
           "rule": "every generated program and 6 Poseidon2-permutation circuits x 10 input-supply variants (full, no private, no public, "
                   "short/long vectors, public set twice, perturbed values), each run by the debug and the release build of the harness; "
                   "outcome lines compared; primitive-op sessions also compared with the Lean model; distinct = distinct (circuit, variant) pairs",
           "samples": [dcase[k] for k in list(dcase)[:4]], "input_distribution": hist,
           "traces_validated_against_impl": len(impl), "disagreements_checked": dis}
    return violations, cov


CHECK = {
    "lean_modules": ["P3R.Props.C19", "P3R.Props.C19Shape"],
    "theorems": ["P3R.C19.setPublics_len_err", "P3R.C19.setPrivates_len_err", "P3R.C19.setW_conflict_err",
                 "P3R.C19.setW_set_ok_iff", "P3R.C19.getW_unset_err", "P3R.C19.public_unset_err", "P3R.C19.runFrom_ok_total",
                 "P3R.C19.execAlu_ok_shape", "P3R.C19.execOp_ok_shape", "P3R.C19.run_ok_shape_ok", "P3R.C19.shape_fail_run_err",
                 "P3R.C19.shape_only_depends_on_pattern", "P3R.C19.session_shape_fail_err"],
    "run": run,
    "trusted_base": ["the optimised build's behaviour is observed, not modelled: a pure model cannot exhibit undefined behaviour"],
    "assumptions": ["private data of MMCS ops (set_private_data) is not exercised"],
}

MANIFEST_ENTRY = {
    "property_id": "C19", "quick_cmd": "bin/check C19 --tier quick", "thorough_cmd": "bin/check C19 --tier thorough",
    "evidence_file": "evidence/C19.json", "replay_cmd_template": "bin/check C19 --replay {path}", "engine": "lean-models",
    "technique": "Lean 4 theorems over the checked runner semantics + two-profile differential run of the real runner",
    "level_claimed": {"category": "proof", "text": "error-on-mismatch / conflict / unset theorems and run-ok-implies-all-set proved for the checked semantics; the same sessions run in debug and release builds must print identical outcomes and equal the model.", "design_ref": "4/C19"},
    "level_note": "release-build behaviour is observed only (partial by nature); F11 (unchecked read in optimised builds) fixed",
}
