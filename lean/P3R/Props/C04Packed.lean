/-
C04 — packed Horner rows and the composition theorem.

`C04.accepted_sat` speaks about the *unscheduled* abstract trace (one cell per operand of every
op). The real ALU table is scheduled and packs up to K chained Horner steps into one row. The two
are connected by an *unpacking* argument, whose three steps are proved here and in C11:

1. rows — `C11.packed_row_sound`: a packed row whose constraints vanish carries, in its `out`
   cell, the value of the chain of its `k` single steps; give every intermediate accumulator (which
   has no cell: it is bus-silent) that chain's partial value and every step the row's single `b`
   cell, and each of the `k` unpacked rows satisfies the single-step constraint by construction;
2. bus — `packed_tuple_net` below: on every *tuple* `(slot, value)` the packed row's interactions
   (one `b` lookup with the summed multiplicity, no lookup for the intermediate outputs) have the
   net multiplicity of the `k` unpacked rows' interactions, because the unpacked `b` cells are equal
   and the intermediate outputs are sent with multiplicity 0 (`horner_outs_are_silent`); tuple nets
   are additive over rows (`tnet_append`), so the scheduled bus balances iff the unpacked one does;
3. composition — `accepted_sat_bus_equiv`: `accepted_sat` only needs the unpacked cells' bus to be
   balanced *as a function of tuples*; any interaction list with the same tuple nets (the scheduled
   table's) may stand in for it.
Together: an accepted scheduled trace yields an accepted unscheduled abstract trace of the same ops,
hence (`accepted_sat`) a satisfying assignment. The bookkeeping that lists, for a concrete schedule,
which row is unpacked into which ops is `C11.computeSchedule_cover` (every op exactly once) and
`C11.computeSchedule_tested` (every packed window passed the two tests used in step 2).
-/
import P3R.Props.C04Full
import Mathlib.Algebra.BigOperators.Group.List.Basic

namespace P3R.C04
open P3R P3R.C09

variable {F : Type} [Field F] [DecidableEq F]

/-- **Step 3.** `accepted_sat` with the balance hypothesis stated on any tuple-equivalent bus. -/
theorem accepted_sat_bus_equiv (pub : Nat → F) (ops : List (Op F)) (evs : List (Nat × Role))
    (reads : List (Nat × Nat)) (vs : List F) (B : List (Inter F))
    (hslots : evs.map Prod.fst = ops.flatMap opSlots)
    (hlen : vs.length = evs.length)
    (hcre : ∀ s, nCreators evs s ≤ 1)
    (hnoskip : ∀ e ∈ evs, e.2 ≠ .skip)
    (hequiv : ∀ s v, tupleNet B s v = tupleNet
      (busOf reads (List.zipWith (fun (e : Nat × Role) v => (⟨e.1, e.2, v⟩ : Cell F)) evs vs)) s v)
    (hbal : ∀ s v, tupleNet B s v = 0)
    (hchain : hornerChained ops = true)
    (hrows : rowsOk pub ops vs none) :
    ∃ w : Nat → F, Sat w pub ops :=
  accepted_sat pub ops evs reads vs hslots hlen hcre hnoskip
    (fun s v => by rw [← hequiv s v]; exact hbal s v) hchain hrows

theorem tupleNet_nil (s : Nat) (v : F) : tupleNet ([] : List (Inter F)) s v = 0 := rfl

theorem tupleNet_cons (i : Inter F) (l : List (Inter F)) (s : Nat) (v : F) :
    tupleNet (i :: l) s v = (if i.slot = s ∧ i.val = v then i.mult else 0) + tupleNet l s v := by
  unfold tupleNet
  by_cases h : i.slot = s ∧ i.val = v
  · simp [List.filter_cons, h]
  · simp [List.filter_cons, h]

theorem tnet_append (l₁ l₂ : List (Inter F)) (s : Nat) (v : F) :
    tupleNet (l₁ ++ l₂) s v = tupleNet l₁ s v + tupleNet l₂ s v := by
  unfold tupleNet
  simp [List.filter_append, List.map_append, List.sum_append]

/-- The interactions of one unpacked Horner step `t` of a window: `a`, the shared `b`, `c`, `out`. -/
structure StepInters (F : Type) where
  a : Inter F
  b : Inter F
  c : Inter F
  out : Inter F

def StepInters.all (x : StepInters F) : List (Inter F) := [x.a, x.b, x.c, x.out]

/-- What the packed row puts on the bus for a window `st 0, …, st (k−1)`: the first step's `a` and
`c`, ONE `b` interaction with the summed multiplicity, the last step's `out`, and the later steps'
`(a, c)` pairs from the extra columns. -/
def packedInters (st : Nat → StepInters F) (k : Nat) : List (Inter F) :=
  [(st 0).a, ⟨(st 0).b.slot, (st 0).b.val, ((List.range k).map fun t => (st t).b.mult).sum⟩, (st 0).c,
   (st (k - 1)).out] ++
  (List.range (k - 1)).flatMap fun t0 => [(st (t0 + 1)).a, (st (t0 + 1)).c]

def unpackedInters (st : Nat → StepInters F) (k : Nat) : List (Inter F) :=
  (List.range k).flatMap fun t => (st t).all

def tn (s : Nat) (v : F) (i : Inter F) : Int := if i.slot = s ∧ i.val = v then i.mult else 0

theorem tupleNet_flatMap {α} (l : List α) (f : α → List (Inter F)) (s : Nat) (v : F) :
    tupleNet (l.flatMap f) s v = (l.map fun a => tupleNet (f a) s v).sum := by
  induction l with
  | nil => rfl
  | cons a l ih => simp [List.flatMap_cons, tnet_append, ih]

/-- **Step 2.** On every tuple the packed row nets what its `k` unpacked steps net, provided all
steps carry the same `b` tuple and every step but the last sends its `out` with multiplicity 0. -/
theorem packed_tuple_net (st : Nat → StepInters F) (k : Nat) (hk : 1 ≤ k)
    (hb : ∀ t, t < k → (st t).b.slot = (st 0).b.slot ∧ (st t).b.val = (st 0).b.val)
    (hsilent : ∀ t, t + 1 < k → (st t).out.mult = 0) (s : Nat) (v : F) :
    tupleNet (packedInters st k) s v = tupleNet (unpackedInters st k) s v := by
  unfold packedInters unpackedInters
  rw [tnet_append, tupleNet_flatMap, tupleNet_flatMap]
  simp only [tupleNet_cons, tupleNet_nil, StepInters.all, add_zero]
  -- abc part by induction, out part by silence
  have habc : ∀ n, 1 ≤ n → n ≤ k →
      tn s v (st 0).a +
      (if (st 0).b.slot = s ∧ (st 0).b.val = v then ((List.range n).map fun t => (st t).b.mult).sum else 0) +
      tn s v (st 0).c +
      ((List.range (n - 1)).map fun t0 => tn s v (st (t0 + 1)).a + tn s v (st (t0 + 1)).c).sum =
      ((List.range n).map fun t => tn s v (st t).a + tn s v (st t).b + tn s v (st t).c).sum := by
    intro n
    induction n with
    | zero => intro h; omega
    | succ n ih =>
      intro _ hn
      by_cases hn0 : n = 0
      · subst hn0
        simp [tn]
      · have ih' := ih (by omega) (by omega)
        have e1 : n + 1 - 1 = (n - 1) + 1 := by omega
        rw [e1, List.range_succ (n := n - 1), List.range_succ (n := n)]
        simp only [List.map_append, List.map_cons, List.map_nil, List.sum_append, List.sum_cons,
          List.sum_nil, add_zero]
        have e2 : n - 1 + 1 = n := by omega
        rw [e2, ← ih']
        obtain ⟨hbs, hbv⟩ := hb n (by omega)
        unfold tn
        rw [hbs, hbv]
        split_ifs <;> ring
  have hout : ((List.range k).map fun t => tn s v (st t).out).sum = tn s v (st (k - 1)).out := by
    have hkk : k = (k - 1) + 1 := by omega
    rw [hkk, List.range_succ]
    simp only [List.map_append, List.map_cons, List.map_nil, List.sum_append, List.sum_cons,
      List.sum_nil, add_zero]
    have hz : ((List.range (k - 1)).map fun t => tn s v (st t).out).sum = 0 := by
      apply List.sum_eq_zero
      intro y hy
      obtain ⟨t, ht, rfl⟩ := List.mem_map.mp hy
      have := hsilent t (by have := List.mem_range.mp ht; omega)
      simp [tn, this]
    rw [hz, zero_add]
    simp
  have hsplit : ((List.range k).map fun t =>
      (tn s v (st t).a + (tn s v (st t).b + (tn s v (st t).c + tn s v (st t).out)))).sum =
      ((List.range k).map fun t => tn s v (st t).a + tn s v (st t).b + tn s v (st t).c).sum +
      ((List.range k).map fun t => tn s v (st t).out).sum := by
    rw [← List.sum_map_add]
    congr 1
    apply List.map_congr_left
    intro t _
    ring
  have h1 := habc k hk (Nat.le_refl k)
  unfold tn at h1 hout hsplit
  rw [hsplit, ← h1, hout]
  ring

end P3R.C04
