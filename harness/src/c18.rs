//! C18: determinism of compilation and key generation. Every program is built several times
//! in one process (hash maps get fresh seeds per instance) and the canonical dumps (op list,
//! witness numbering, preprocessed columns, AIR degrees, preprocessed commitment) must be
//! identical; the per-program digests are written to a file that `bin/check` compares across
//! separate processes and thread counts.

use std::collections::BTreeMap;
use std::io::Write;
use std::panic::{AssertUnwindSafe, catch_unwind};

use p3_baby_bear::BabyBear;
use p3_batch_stark::ProverData;
use p3_circuit_prover::common::get_airs_and_degrees_with_prep;
use p3_circuit_prover::config::{self, BabyBearConfig};
use p3_circuit_prover::{ConstraintProfile, TablePacking};
use serde_json::{Value, json};

use crate::prog::*;
use crate::rng::Rng;

type F = BabyBear;

fn fnv(s: &str) -> u64 {
    let mut h = 0xcbf29ce484222325u64;
    for b in s.bytes() {
        h = (h ^ b as u64).wrapping_mul(0x100000001b3);
    }
    h
}

/// Canonical text of everything a prover and a verifier must agree on.
pub fn build_dump(calls: &[Call], with_commit: bool) -> Option<String> {
    catch_unwind(AssertUnwindSafe(|| -> Option<String> {
        let (_, b) = rebuild::<F>(calls);
        let c = b.build().ok()?;
        let mut out = circuit_lines(&c).join("\n");
        let (pl, _) = crate::c09::prep_lines(&c, 2);
        out.push('\n');
        out.push_str(&pl.join("\n"));
        if with_commit {
            let cfg = config::baby_bear();
            if let Ok((airs_degrees, _, _)) =
                get_airs_and_degrees_with_prep::<BabyBearConfig, F, 1>(&c, &TablePacking::new(2, 2), &[], &[], ConstraintProfile::Standard)
            {
                let (airs, degs): (Vec<_>, Vec<usize>) = airs_degrees.into_iter().unzip();
                let pd = ProverData::from_airs_and_degrees(&cfg, &airs, &degs);
                out.push_str(&format!("\ndegrees {degs:?}"));
                // the preprocessed commitment, via its serialized common data
                let bytes = serde_json::to_string(&pd.common.preprocessed.as_ref().map(|g| &g.commitment)).unwrap_or_default();
                out.push_str(&format!("\ncommit {:016x}", fnv(&bytes)));
            }
        }
        Some(out)
    }))
    .ok()
    .flatten()
}

pub fn main(args: &crate::Args) {
    let seed = args.u64("seed", 1);
    let nprog = args.u64("programs", 300) as usize;
    let repeats = args.u64("repeats", 4) as usize;
    let commit_every = args.u64("commit-every", 10) as usize;
    let out = args.str("out", "/tmp/p3r");
    let tag = args.str("tag", "p0");
    std::fs::create_dir_all(&out).unwrap();
    let mut f = std::io::BufWriter::new(std::fs::File::create(format!("{out}/determinism.{tag}")).unwrap());
    let mut rng = Rng::new(seed ^ 0xc18);
    let mut hist: BTreeMap<String, u64> = BTreeMap::new();
    let mut violations: Vec<Value> = vec![];
    let mut todo: Vec<(Vec<Call>, String)> = vec![];
    if let Some(dir) = args.opt("corpus") {
        let mut files: Vec<_> = std::fs::read_dir(&dir).map(|d| d.filter_map(|e| e.ok()).map(|e| e.path()).collect()).unwrap_or_default();
        files.sort();
        for fl in files {
            let Ok(txt) = std::fs::read_to_string(&fl) else { continue };
            let Ok(v) = serde_json::from_str::<Value>(&txt) else { continue };
            let v = if v.get("program").is_some() { v } else { v["replay"].clone() };
            let calls: Option<Vec<Call>> = v["program"].as_array().map(|a| a.iter().filter_map(|l| crate::c02::parse_call(l.as_str()?)).collect());
            if let Some(c) = calls {
                todo.push((c, format!("corpus:{}", fl.file_name().unwrap().to_string_lossy())));
            }
        }
    }
    for i in 0..nprog {
        let mut r = rng.fork();
        if let Some((prog, _)) = generate::<F>(&mut r, &GenCfg { max_calls: 40, allow_zero_div: false }) {
            todo.push((prog.calls, format!("gen:{seed}:{i}")));
        }
    }
    // wide Public / Const tables with aliased inputs (`connect(pub_i, pub_j)`, `connect(pub_i, const)`): the tables whose
    // preprocessing is worth parallelising; together with the `par` build (rayon on) and several pool sizes they expose a
    // split-dependent creator / reader assignment. Always with the commitment in the digest.
    let nwide = args.u64("wide", 0) as usize;
    for k in 0..nwide {
        let mut r = Rng::new(seed ^ 0x51de ^ ((k as u64) << 20));
        let n = [64usize, 256, 1024, 300][k % 4];
        let mut lines: Vec<String> = (0..n).map(|_| "pub".to_string()).collect(); // nodes 1..=n (node 0 is the zero constant)
        let nconst = 1 + r.usize(6);
        for c in 0..nconst {
            lines.push(format!("const {}", 3 + 7 * c)); // nodes n+1 ..
        }
        let nalias = n / 8 + r.usize(n / 4);
        for _ in 0..nalias {
            let a = 1 + r.usize(n);
            let b = 1 + r.usize(n);
            if a != b {
                lines.push(format!("conn {a} {b}"));
            }
        }
        for c in 0..nconst {
            if r.chance(1, 2) {
                lines.push(format!("conn {} {}", 1 + r.usize(n), n + 1 + c));
            }
        }
        for _ in 0..(4 + r.usize(12)) {
            let (a, b) = (1 + r.usize(n), 1 + r.usize(n));
            lines.push(if r.chance(1, 2) { format!("mul {a} {b}") } else { format!("add {a} {b}") });
        }
        let calls: Vec<Call> = lines.iter().filter_map(|l| crate::c02::parse_call(l)).collect();
        todo.push((calls, format!("wide:{seed}:{k}:{n}")));
    }
    // the same programs for the Lean driver: it evaluates the decidable hypotheses of
    // `P3R.C18.compile_order_independent` (`c18inv`) on each of them (bin/checks_c18.py reads the answers)
    if args.u64("cases", 0) == 1 {
        let mut cf = std::io::BufWriter::new(std::fs::File::create(format!("{out}/determinism.{tag}.cases")).unwrap());
        for (calls, id) in &todo {
            writeln!(cf, "# {id}").unwrap();
            writeln!(cf, "prog bb").unwrap();
            for c in calls {
                writeln!(cf, "{}", c.line()).unwrap();
            }
            writeln!(cf, "c18inv").unwrap();
        }
        cf.flush().unwrap();
        let ids: Vec<Value> = todo.iter().map(|(calls, id)| json!({"id": id, "program": calls.iter().map(|c| c.line()).collect::<Vec<_>>()})).collect();
        std::fs::write(format!("{out}/determinism.{tag}.programs.json"), serde_json::to_string(&ids).unwrap()).unwrap();
    }
    let mut evals = 0usize;
    for (n, (calls, id)) in todo.iter().enumerate() {
        let with_commit = n % commit_every == 0 || id.starts_with("wide:");
        let first = build_dump(calls, with_commit);
        let Some(first) = first else {
            writeln!(f, "{id} build-err").unwrap();
            continue;
        };
        evals += 1;
        *hist.entry(format!("ops.{}", (first.lines().count() / 20) * 20)).or_default() += 1;
        for r in 1..repeats {
            let again = build_dump(calls, with_commit);
            evals += 1;
            if again.as_deref() != Some(first.as_str()) {
                let a = again.unwrap_or_default();
                let diff = first.lines().zip(a.lines()).find(|(x, y)| x != y).map(|(x, y)| format!("{x} | {y}"));
                violations.push(json!({"property":"C18","kind":"in-process-rebuild-differs","class":"nondeterministic-build",
                    "repeat": r, "first_difference": diff,
                    "replay": {"field":"bb","program": calls.iter().map(|c| c.line()).collect::<Vec<_>>(), "pubs":[], "privs":[], "id": id}}));
                break;
            }
        }
        writeln!(f, "{id} {:016x}", fnv(&first)).unwrap();
    }
    // the recursion front end: the verification circuit of a real batch-STARK proof (tables of different
    // heights) built repeatedly; its digest also goes to the cross-process file
    if args.u64("verifier-circuit", 1) == 1 {
        let fps = catch_unwind(AssertUnwindSafe(|| crate::c15::verifier_circuit_fingerprints(repeats.max(2)))).unwrap_or_default();
        evals += fps.len();
        if let Some(first) = fps.first() {
            if let Some((r, other)) = fps.iter().enumerate().find(|(_, x)| *x != first) {
                violations.push(json!({"property":"C18","kind":"in-process-rebuild-differs","class":"nondeterministic-verifier-circuit",
                    "repeat": r, "first_difference": format!("{first} | {other}"),
                    "replay": {"what": "verify_p3_batch_proof_circuit over the harness's fixed batch proof (c15::base_batch), built repeatedly"}}));
            }
            writeln!(f, "verifier-circuit:batch {:016x}", fnv(first)).unwrap();
            *hist.entry("verifier-circuit.builds".into()).or_default() += fps.len() as u64;
        } else {
            writeln!(f, "verifier-circuit:batch build-err").unwrap();
        }
    }
    f.flush().unwrap();
    let report = json!({"evaluations": evals, "programs": todo.len(), "hist": hist, "violations": violations, "seed": seed});
    std::fs::write(format!("{out}/determinism.{tag}.report.json"), serde_json::to_string_pretty(&report).unwrap()).unwrap();
    println!("determinism[{tag}]: programs={} evals={} violations={}", todo.len(), evals, violations.len());
}
