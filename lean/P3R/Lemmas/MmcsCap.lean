/-
C08: `select_cap_entry` (binary multiplexer tree on the remaining index bits) returns
`cap[index]` (`cap_select_eq`), and the direction bits handed to the gadget decode to the
native index arithmetic (`index_bits_eq`).
-/
import P3R.Lemmas.MmcsNativePath
import Mathlib.Algebra.Ring.Defs
import Mathlib.Tactic.Ring

namespace P3R.Mmcs
variable {K : Type} [CommRing K]

/-- Field encoding of a direction bit. -/
def bitK (b : Bool) : K := if b then 1 else 0

theorem zipWith_mux_false (l r : List K) (h : l.length = r.length) :
    List.zipWith (fun x y => (0 : K) * (y - x) + x) l r = l := by
  induction l generalizing r with
  | nil => simp
  | cons a l ih =>
    cases r with
    | nil => simp at h
    | cons b r =>
      have := ih r (by simpa using h)
      simp only [List.zipWith_cons_cons, this]
      simp

theorem zipWith_mux_true (l r : List K) (h : l.length = r.length) :
    List.zipWith (fun x y => (1 : K) * (y - x) + x) l r = r := by
  induction l generalizing r with
  | nil => cases r <;> simp_all
  | cons a l ih =>
    cases r with
    | nil => simp at h
    | cons b r =>
      have := ih r (by simpa using h)
      simp only [List.zipWith_cons_cons, this]
      simp

/-- One multiplexer level halves the candidates and keeps entry `2i + b`. -/
theorem muxPairs_spec (b : Bool) (d : Nat) :
    ∀ (n : Nat) (cap : List (List K)), cap.length = 2 * n → (∀ e ∈ cap, e.length = d) →
      (muxPairs (bitK b) cap).length = n ∧ (∀ e ∈ muxPairs (bitK b) cap, e.length = d) ∧
      ∀ i, i < n → (muxPairs (bitK b) cap).getD i [] = cap.getD (2 * i + (if b then 1 else 0)) [] := by
  intro n
  induction n with
  | zero =>
    intro cap h _
    have : cap = [] := List.eq_nil_of_length_eq_zero (by omega)
    subst this
    simp [muxPairs]
  | succ n ih =>
    intro cap h hd
    match cap, h with
    | l :: r :: rest, h =>
      have hl : l.length = d := hd l (by simp)
      have hr : r.length = d := hd r (by simp)
      obtain ⟨h1, h2, h3⟩ := ih rest (by simp at h; omega) (fun e he => hd e (by simp [he]))
      have hhead : List.zipWith (fun x y => bitK b * (y - x) + x) l r = if b then r else l := by
        cases b
        · simpa [bitK] using zipWith_mux_false l r (by omega)
        · simpa [bitK] using zipWith_mux_true l r (by omega)
      refine ⟨by simp [muxPairs, h1], ?_, ?_⟩
      · intro e he
        simp only [muxPairs, List.mem_cons] at he
        rcases he with rfl | he
        · rw [hhead]; cases b <;> simp [hl, hr]
        · exact h2 e he
      · intro i hi
        cases i with
        | zero => simp only [muxPairs, List.getD_cons_zero, hhead]; cases b <;> simp
        | succ i =>
          simp only [muxPairs, List.getD_cons_succ]
          rw [h3 i (by omega)]
          have : 2 * (i + 1) + (if b = true then 1 else 0) = (2 * i + (if b = true then 1 else 0)) + 2 := by ring
          rw [this]
          simp [List.getD_cons_succ]

/-- The fold of multiplexer levels over the bits of `i` selects entry `i`. -/
theorem foldl_mux_spec (d : Nat) :
    ∀ (c : Nat) (cap : List (List K)) (i : Nat), cap.length = 2 ^ c → (∀ e ∈ cap, e.length = d) → i < 2 ^ c →
      (((idxBits i c).map bitK).foldl (fun cur b => muxPairs b cur) cap).headD [] = cap.getD i [] := by
  intro c
  induction c with
  | zero =>
    intro cap i h _ hi
    have : i = 0 := by simpa using hi
    subst this
    cases cap <;> simp [idxBits] at h ⊢
  | succ c ih =>
    intro cap i h hd hi
    simp only [idxBits, List.map_cons, List.foldl_cons]
    obtain ⟨h1, h2, h3⟩ := muxPairs_spec (i % 2 == 1) d (2 ^ c) cap (by rw [h, pow_succ]; ring) hd
    rw [ih _ (i / 2) h1 h2 (by rw [pow_succ] at hi; omega), h3 _ (by rw [pow_succ] at hi; omega)]
    congr 1
    rcases Nat.mod_two_eq_zero_or_one i with hm | hm <;> simp [hm] <;> omega

/-- `cap_select_eq`: for a cap of `2^c` digests, `select_cap_entry` on the `c` bits of `i`
(least significant first) is `cap[i]`. -/
theorem cap_select_eq (d c : Nat) (cap : List (List K)) (i : Nat) (h : cap.length = 2 ^ c)
    (hd : ∀ e ∈ cap, e.length = d) (hi : i < 2 ^ c) :
    selectCapEntry cap ((idxBits i c).map bitK) = cap.getD i [] := by
  unfold selectCapEntry
  split
  · rename_i h1
    have hc : c = 0 := by
      rcases Nat.eq_zero_or_pos c with h0 | h0
      · exact h0
      · have : 2 ≤ 2 ^ c := by
          calc 2 = 2 ^ 1 := by norm_num
          _ ≤ 2 ^ c := Nat.pow_le_pow_right (by norm_num) h0
        omega
    subst hc
    have : i = 0 := by simpa using hi
    subst this
    cases cap <;> simp at h1 ⊢
  · exact foldl_mux_spec d c cap i h hd hi

/-! ### index bits -/

theorem idxBits_length (i P : Nat) : (idxBits i P).length = P := by
  induction P generalizing i with
  | zero => rfl
  | succ P ih => simp [idxBits, ih]

theorem idxBits_take (i : Nat) : ∀ (L P : Nat), P ≤ L → (idxBits i L).take P = idxBits i P := by
  intro L
  induction L generalizing i with
  | zero => intro P h; have : P = 0 := by omega
            subst this; rfl
  | succ L ih =>
    intro P h
    cases P with
    | zero => rfl
    | succ P => simp [idxBits, ih (i / 2) P (by omega)]

theorem idxBits_drop (i : Nat) : ∀ (L P : Nat), P ≤ L → (idxBits i L).drop P = idxBits (i / 2 ^ P) (L - P) := by
  intro L
  induction L generalizing i with
  | zero => intro P h; have : P = 0 := by omega
            subst this; simp
  | succ L ih =>
    intro P h
    cases P with
    | zero => simp
    | succ P =>
      simp only [idxBits, List.drop_succ_cons]
      rw [ih (i / 2) P (by omega), Nat.div_div_eq_div_mul, pow_succ, Nat.mul_comm]
      congr 1
      omega

/-- `index_bits_eq`: the little-endian bits `(index >> k) & 1` are the native walk's
`index % 2`, `index / 2`, …. -/
theorem idxBits_eq_shift (i L : Nat) : idxBits i L = (List.range L).map fun k => (i >>> k) % 2 == 1 := by
  induction L generalizing i with
  | zero => rfl
  | succ L ih =>
    rw [List.range_succ_eq_map]
    simp only [idxBits, List.map_cons, List.map_map, Nat.shiftRight_zero]
    congr 1
    rw [ih]
    apply List.map_congr_left
    intro k _
    simp only [Function.comp, Nat.shiftRight_succ_inside]

theorem toBool?_bitK [Nontrivial K] [DecidableEq K] (b : Bool) : toBool? (bitK b : K) = some b := by
  cases b <;> simp [toBool?, bitK]

end P3R.Mmcs
