"""C17 — recursion layers and aggregations chain, with or without cached preparation.
(Version for the tree with findings F10 / F10b repaired by fixes/C17-1.diff + fixes/C17-2.diff.)

Plug-in for bin/check. One run of the *release* harness (`p3r-harness layers`) drives the real
`prove_next_layer`, `prove_aggregation_layer`, `prove_aggregation_layer_cross`,
`build_next_layer_prep` through generated call histories (small circuits behind a table-free
`PcsRecursionBackend`) and through real histories (FRI backend, uni-/batch-STARK children, layer
outputs fed to further layers), judges every call against the same call without cache
(implementation oracle) and records what the real cache logic did. The Lean driver
`p3r_driver_c17` runs the model `P3R.Cache.run` / `fingerprint` / `genPrep` on the same lines.
"""
import json, os

PROPERTY = "C17"

CORRESPONDENCE = ("cache state machine of recursion/src/recursion.rs (prove_next_layer prep argument, "
                  "prove_aggregation_layer{,_cross} AggregationPrepCache: hit / miss / fill, whose preparation data "
                  "is used, content of the cache variable after each call), aggregation_circuit_fingerprint and "
                  "equality of preprocessed columns of generated circuits vs lean/P3R/Model/Cache.lean "
                  "(step, run, fingerprint, fingerprintX, structureOf) + Model/Roles.lean (genPrep); "
                  "table lists of every FRI backend impl (recursion/src/backend/fri.rs, D = 2 / 4 / 5: non_primitive_provers, "
                  "non_primitive_preprocessors, non_primitive_air_builders) as consumed by prove_all_tables, "
                  "get_airs_and_degrees_with_prep and verify_p3_batch_proof_circuit vs lean/P3R/Model/Tables.lean "
                  "(carried, airList, accepts)")


def _read(p):
    with open(p) as fh:
        return [l.rstrip("\n") for l in fh]


def _same(impl, model):
    """Line equality, except that a call the implementation could not complete (`fail=…`) is
    compatible with a model step for which a hypothesis of the partial theorem is falsified
    (`eq=?K`: a digest collision; the model makes no prediction about the outcome there)."""
    if impl == model:
        return True
    a, b = impl.split(" | "), model.split(" | ")
    if len(a) != len(b):
        return False
    for x, y in zip(a, b):
        if x == y:
            continue
        xs, ys = x.split(), y.split()
        if len(xs) == 2 and xs[1].startswith("fail=") and ys and ys[0] == xs[0] and ys[-1] == "eq=?K":
            continue
        return False
    return True


def _deg_cov(deg):
    """Per configuration of the FRI backend: the three lists as the real plugins report them, whether a
    proof of the backend's own verification circuit is accepted by the next step, the real chains run and
    the observations (recompose NPO switched off by the integrator: not judged, see trusted_base)."""
    recs = deg.get("records", [])
    tables = {r["config"]: {"provers": r["lists"]["provers"], "carried": r["lists"]["carried"],
                            "air_list": r["lists"]["air_list"], "prep_keys": r["lists"]["prep_keys"],
                            "accepted_by_next": r["accepted_by_next"], "aligned": r["aligned"]}
              for r in recs if "lists" in r}
    return {"tier": deg.get("tier"), "offered": deg.get("configurations", []), "tables": tables,
            "chains": [{"chain": r["chain"], "steps": r["steps"], "completed": r["completed"]} for r in recs if "steps" in r],
            "observations": [{k: r[k] for k in ("observation", "chain", "step", "detail")} for r in recs if "observation" in r]}


def run(ctx):
    tier, seed, work = ctx["tier"], ctx["seed"], ctx["work"]
    out = f"{work}/run0"
    violations = []
    empty = {"evaluations": 0, "distinct_nontrivial": 0, "rule": "", "samples": [], "input_distribution": {},
             "traces_validated_against_impl": 0, "disagreements_checked": 0}
    rc, o = ctx["build_harness"]("release")
    if rc != 0:
        return [{"class": "harness-build", "what": "release harness does not build against /repo working tree",
                 "replay": {"log": o[-2000:]}, "no_input": True}], empty
    harness = os.path.join(ctx["harness_dir"], "target/release/p3r-harness")
    if ctx.get("replay"):
        rp = json.load(open(ctx["replay"]))
        os.makedirs(f"{work}/replay_corpus", exist_ok=True)
        json.dump(rp.get("replay", rp), open(f"{work}/replay_corpus/r.json", "w"))
        corpus, generate, histories, real_n = f"{work}/replay_corpus", 0, 0, 0
        degrees = "tables"     # cheap, and the `chain` replays are run from the corpus directory
    else:
        degrees = tier
        corpus, generate = f"{ctx['root']}/corpus/c17", 1
        histories, real_n = (600, 6) if tier == "quick" else (20000, 150)
    cmd = [harness, "layers", "--seed", str(seed), "--histories", str(histories), "--real", tier,
           "--real-histories", str(real_n), "--corpus", corpus, "--generate", str(generate), "--degrees", degrees,
           "--out", out]
    rc, o = ctx["sh"](cmd, timeout=7200)
    if rc != 0 or not os.path.exists(f"{out}/c17.report.json"):
        violations.append({"class": "harness-crash", "what": f"harness layers exited {rc}: {o[-300:]}",
                           "replay": {"cmd": cmd}, "no_input": True})
        return violations, empty
    rep = json.load(open(f"{out}/c17.report.json"))
    seen = {}
    for v in rep["violations"]:
        # one report per (class, family): the same defect shows up in many generated histories
        key = (v["class"], v.get("family"))
        if str(v.get("family", "")).startswith(("tables:", "chain:")):
            seen[key] = seen.get(key, 0) + 1
            if seen[key] > 2:
                continue
            where = (f"step {v.get('step')} of the chain {v['replay'].get('plan')}" if "step" in v
                     else "table lists of the backend on its own verification circuit")
            violations.append({"class": v["class"],
                               "what": f"configuration {v.get('config')} ({where}): {v.get('detail', '')[:400]}",
                               "replay": v["replay"]})
            continue
        seen[key] = seen.get(key, 0) + 1
        if seen[key] > 2:
            continue
        what = (f"{v.get('family')} history, call {v.get('call')}: with the offered cache the call is "
                f"'{v.get('cached_outcome')}' ({v.get('cached_detail', '')[:80]}), without cache '{v.get('uncached_outcome')}'; "
                f"current circuit [{v.get('current_circuit')}] counters {v.get('fingerprint')}, cache prepared for "
                f"[{v.get('offered_circuit')}] counters {v.get('offered_fingerprint')}") if "call" in v else \
               f"{v['class']}: {json.dumps({k: v[k] for k in v if k not in ('replay', 'property', 'kind')})[:300]}"
        violations.append({"class": v["class"], "what": what, "replay": v["replay"]})
    # model side
    driver = os.path.join(ctx["driver_dir"], "p3r_driver_c17")
    with open(f"{out}/c17.cases") as fin:
        rc, mo = ctx["sh"]([driver], stdin=fin, timeout=3600)
    with open(f"{out}/c17.model", "w") as fh:
        fh.write(mo)
    impl, model = _read(f"{out}/c17.impl"), _read(f"{out}/c17.model")
    while model and model[-1] == "":
        model.pop()
    # the case line of output line k: circ blocks answer once (at endcirc), ext/hist answer per line
    answering = [l for l in _read(f"{out}/c17.cases") if l.startswith(("endcirc", "ext ", "hist", "tabs"))]
    disagreements = 0
    for k in range(max(len(impl), len(model))):
        a = impl[k] if k < len(impl) else None
        b = model[k] if k < len(model) else None
        if a is None or b is None or not _same(a, b):
            disagreements += 1
            if disagreements <= 3:
                violations.append({"class": "model-disagreement",
                                   "what": f"correspondence {CORRESPONDENCE} no longer checks: impl={a!r} model={b!r}",
                                   "replay": {"correspondence": CORRESPONDENCE,
                                              "case_line": answering[k] if k < len(answering) else "",
                                              "first_difference": [a, b], "cases_file": f"{out}/c17.cases"},
                                   "no_input": True})
    deg = _deg_cov(rep.get("degrees", {}))
    if not ctx.get("replay"):
        for cfgname in deg["offered"]:
            if cfgname not in deg["tables"]:
                violations.append({"class": "coverage-empty-cell", "what": f"no table-list record for backend configuration {cfgname}",
                                   "replay": {"config": cfgname}, "no_input": True})
            if not any(c["chain"].startswith(cfgname + ":") for c in deg["chains"]):
                violations.append({"class": "coverage-empty-cell", "what": f"no real chain was run for backend configuration {cfgname}",
                                   "replay": {"config": cfgname}, "no_input": True})
    hist = rep["hist"]
    nontrivial = len({l for l in answering if l.startswith("hist") and
                      any((t.startswith(("agg:", "cross:")) and not t.endswith(":-")) or
                          (t.startswith("next:") and not t.endswith(":-:-")) for t in l.split()[1:])})
    cov = {"evaluations": rep["evaluations"], "distinct_nontrivial": nontrivial,
           "rule": "one evaluation = one call of the real recursion API inside a history (each also re-run without cache as "
                   "reference, each output verified natively with verify_all_tables); stub family: histories of 2-5 calls over "
                   "{prove_aggregation_layer, prove_aggregation_layer_cross, prove_next_layer} x generated circuits (1-4 ALU ops, "
                   "neighbours with rewired operand / other operation / other constant / one more op, so that equal and unequal "
                   "counters both occur) x 3 parameter sets x cache pattern {none, empty variable, variable filled for the same "
                   "circuit / same circuit other params / other circuit with equal counters / other circuit with other counters; "
                   "next-layer prep: none, own, of an earlier call, of an arbitrary circuit}; real family: FRI backend, children "
                   "uni-STARK (AIRs x*x-z, x*y-z, x+y-z, x*y*y-z) and batch-STARK, depth <= 3, outputs of verified layers reused "
                   "as inputs (left or right), same cache patterns; distinct_nontrivial = distinct histories in which at least "
                   "one call is offered a cache; degrees family (c17_deg.rs): for each of the 8 backend configurations "
                   "{KoalaBear D4, BabyBear D4, Goldilocks D2, KoalaBear quintic D5} x {Poseidon2, Poseidon1 challenger} x recompose "
                   "NPO {on, off}: the real plugins of the backend on the real verification circuit of a base proof (provers, "
                   "preprocessor keys, air-builder acceptance, batch_instance on the real traces; no proof made), judged by the "
                   "chaining condition and diffed against P3R.Tables; plus real chains base -> layer 1 -> layer 2 (quick: all 8; "
                   "aggregation(l1, l1) -> layer 3 for Goldilocks D2 and quintic D5; thorough: 6-step mixed-depth plan for all 8), "
                   "every output verified natively and offered to the next step",
           "samples": rep["samples"][:6], "input_distribution": hist,
           "traces_validated_against_impl": len(impl), "disagreements_checked": disagreements,
           "histories": sum(1 for l in answering if l.startswith("hist")),
           "circuits_compared_fingerprint_and_prep_class": sum(1 for l in answering if l.startswith("endcirc")),
           "corpus_witnesses_reproduced": rep.get("corpus_witnesses_reproduced", []),
           "harness_seconds": rep.get("seconds"),
           "backend_configurations": _deg_cov(rep.get("degrees", {})),
           "known_not_reproduced": []}
    return violations, cov


CHECK = {
    "lean_modules": ["P3R.Props.C17", "P3R.Witness.C17", "P3R.Props.C17Tables", "P3R.Witness.C17Tables"],
    "lean_exes": ["p3r_driver_c17"],
    "theorems": [
        "P3R.C17.cache_refines_uncached_digest", "P3R.C17.cache_refines_uncached_partial",
        "P3R.C17.cache_refines_uncached", "P3R.C17.cached_verdict_eq_uncached_partial",
        "P3R.C17.refused_iff", "P3R.C17.keyDeterminesPrep_of_digest", "P3R.C17.prepData_congr",
        "P3R.C17.different_job_recomputed", "P3R.C17.agg_hit_iff", "P3R.C17.agg_used_correct_iff",
        "P3R.C17.circuit_part_refines_partial", "P3R.C17.slotsWF_run",
        "P3R.Witness.C17.counters_not_injective", "P3R.Witness.C17.witness_now_recomputed",
        "P3R.Witness.C17.witness_next_now_refused", "P3R.Witness.C17.witness_satisfies_digest_hypothesis",
        "P3R.Witness.C17.counters_only_key_insufficient", "P3R.Witness.C17.constant_digest_insufficient",
        "P3R.Witness.C17.params_stale",
        "P3R.C17Tables.accepts_iff", "P3R.C17Tables.accepts_carried_iff", "P3R.C17Tables.runChain_isSome_iff",
        "P3R.C17Tables.chain_ok", "P3R.C17Tables.chain_refused", "P3R.C17Tables.chain_output",
        "P3R.C17Tables.agg_ok_iff", "P3R.C17Tables.base_always_ok", "P3R.C17Tables.airList_singletons",
        "P3R.Witness.C17Tables.consistent_chain", "P3R.Witness.C17Tables.split_flag_mismatch_depth1_ok",
        "P3R.Witness.C17Tables.split_flag_mismatch_refused", "P3R.Witness.C17Tables.split_flag_mismatch_agg_refused",
        "P3R.Witness.C17Tables.recompose_off_refused",
    ],
    "run": run,
    "trusted_base": [
        "that a proof made from an honest run of the verification circuit with the preparation data of that very circuit "
        "verifies and is accepted as input by the next layer is not proved (C01 + C10 + the cryptographic layer); it is "
        "exercised on the real code by the real-family histories of every run",
        "harness stub backend (harness/src/c17.rs StubBackend): a PcsRecursionBackend without non-primitive tables that "
        "takes the circuit's public inputs from the RecursionInput; the functions under test are the unchanged ones",
        "real verification circuits are registered with the model by their counters and by a digest class of the "
        "preprocessed columns the real preparation computes (too large to be re-compiled by the model)",
    ],
    "assumptions": [
        "DigestInjOn (the only hypothesis of cache_refines_uncached_digest): the 64-bit FNV-1a structure digest of the "
        "repaired fingerprint does not collide on the verification circuits of one call history (its own circuits, those of "
        "the preparations handed in, those stored in the cache variables). Not a theorem and not true of all circuits "
        "(pigeonhole); FNV-1a is not collision resistant against an adversarial caller, the cache API is a prover-side "
        "convenience, not a verifier-side check. KeyDeterminesPrep is derived from it (keyDeterminesPrep_of_digest), "
        "CallerPrepsMatch is enforced by the code (refused_iff)",
        "the digest is computed from the Debug rendering of (ops, public_rows, private_input_rows); the model takes the "
        "structure itself as digest. That the rendering separates different op lists and is equal for equal ones is "
        "observed by the correspondence (hit / miss / refusal lines of every history), not proved",
        "the same config (PCS, FRI parameters, ZK seed) is used for every call that shares a cache (documented requirement "
        "of the API; the config is a fixed value in all histories); ProveNextLayerParams may change: a hit then proves with "
        "the stored params and the proof, which records its packing, still verifies (observed per run, Witness.C17.params_stale)",
        "ZK (HidingFriPcs) configurations are not run. D = 2 (Goldilocks) and D = 5 (KoalaBear quintic) are run through "
        "plain chains (base -> layers -> aggregations, no cache); the cache histories use KoalaBear D = 4 only (the cache "
        "logic of recursion.rs is generic in D)",
        "chaining condition of P3R.C17Tables.runChain_isSome_iff: every table prover the backend lists finds a trace in "
        "every verification circuit of that backend. Checked per run on the real plugins for the 8 configurations the "
        "library is instantiated for (tables leg); it FAILS when the integrator's prepare_circuit_for_verification does "
        "not enable the recompose NPO (noop_enable_recompose, the examples' --disable-recompose-npo) because the backend "
        "has no switch for that: layer outputs then verify natively and are refused as the next input. Recorded as "
        "observation (coverage.backend_configurations.observations), not judged: the configuration is outside the "
        "library's own set-up",
    ],
}

MANIFEST_ENTRY = {
    "property_id": "C17",
    "quick_cmd": "bin/check C17 --tier quick",
    "thorough_cmd": "bin/check C17 --tier thorough",
    "evidence_file": "evidence/C17.json",
    "replay_cmd_template": "bin/check C17 --replay {path}",
    "engine": "lean-models",
    "technique": "Lean 4 refinement theorem over the cache state machine for arbitrary call sequences + negation witnesses; "
                 "differential correspondence of the real cache logic (hit/miss/fill/data used) against the model on generated "
                 "histories; real prove/verify chains as implementation oracle",
    "level_claimed": {
        "category": "proof",
        "text": "for every sequence of next-layer / aggregation / cross-aggregation calls, every number of cache variables, "
                "every initial cache content and every pattern of cache arguments: each call proves with the preparation data "
                "of its own circuit (hence has the uncached outcome) or, for prove_next_layer handed a preparation with another "
                "fingerprint, is refused with an error — under the single assumption that the structure digest does not collide "
                "on the circuits of the history (KeyDeterminesPrep derived, CallerPrepsMatch enforced by the repaired code); the "
                "witnesses of the repaired findings F10 / F10b are regression cases on the real code every run; "
                "chaining (output verifies natively and is accepted by a further layer, uni/batch, left/right) is exercised on "
                "the real code for every extension degree the FRI backend offers (D = 2, 4, 5); its table-list part is proved "
                "in the model (P3R.C17Tables.runChain_isSome_iff: a chain goes through iff the verifier-side table list of step "
                "k+1 equals the prover-side list of step k) and the condition is checked on the real plugins of all 8 "
                "configurations every run; the cryptographic part is not proved",
        "design_ref": "4/C17",
    },
    "level_note": "Lean kernel + 3 standard axioms; the model is tied to recursion.rs by line-exact comparison of what the real "
                  "functions did on every generated history; soundness/completeness of the STARK layer assumed; digest collision-freeness assumed; F10, F10b fixed",
}
