/-
Line-protocol driver for C13 (`p3r_driver_c13`): runs the L12 model (`P3R.Model.SymCompile`) on
the cases written by `harness/src/c13.rs`, over `BinomialExtensionField<BabyBear, 4>`.

One command per line, one result line per command (none for pure declarations):
  case <id>                       -> `case <id>`            (resets everything)
  pub | const a b c d | add l r | sub l r | mul l r | muladd a b c   -> `r <id>`   (pre-program)
  sel f l t | alpha id | cat <name> ids..                    (targets; no output)
  bn f|l|t | bn v <entry> i | bc a b c d | bneg x | badd x y | bsub x y | bmul x y     (base nodes)
  xn v <entry> i | xb r | xc a b c d | xneg x | xadd x y | xsub x y | xmul x y          (ext nodes)
                                  nodes are given in index order; no output
  em b<r> x<r> ..                                            (emission order; no output)
  fold                            -> `ids .. | acc A probe N` or `fold panic`
  in v..                          -> `val a b c d` then `nat a b c d`   (or `.. none`)
Anything else answers `bad-op`.
-/
import P3R.Model.SymCompile
import P3R.Model.ExtField13

open P3R

abbrev KK := BabyBearExt4

structure St where
  b : BState KK
  sel : Option (Nat × Nat × Nat)
  alpha : Option Nat
  cats : List (String × Array Nat)
  bdag : Array (BNode KK)
  xdag : Array (XNode KK)
  em : Option Emission
  folded : Option (FoldSt KK)

def St.init : St :=
  { b := BState.init, sel := none, alpha := none, cats := [], bdag := #[], xdag := #[], em := none,
    folded := none }

def catNames : List (String × Cat) :=
  [("challenges", .challenges), ("pubs", .pubs), ("permLocal", .permLocal), ("permNext", .permNext),
   ("permVals", .permVals), ("prepLocal", .prepLocal), ("prepNext", .prepNext),
   ("periodic", .periodic), ("locals", .locals), ("nexts", .nexts)]

def catName (c : Cat) : String :=
  match catNames.find? (fun p => p.2 == c) with
  | some p => p.1
  | none => ""

def parseNats (ws : List String) : Option (List Nat) := ws.mapM String.toNat?

def mkExt : List Nat → Option KK
  | [a, b, c, d] => some ⟨PF.ofNat a, PF.ofNat b, PF.ofNat c, PF.ofNat d⟩
  | _ => none

def baseEntry : String → Option BaseEntry
  | "per" => some .periodic
  | "pub" => some .pub
  | s =>
    match s.toList with
    | 'p' :: rest => (String.ofList rest).toNat?.map .prep
    | 'm' :: rest => (String.ofList rest).toNat?.map .main
    | _ => none

def extEntry : String → Option ExtEntry
  | "ch" => some .challenge
  | "pv" => some .permValue
  | s =>
    match s.toList with
    | 'q' :: rest => (String.ofList rest).toNat?.map .perm
    | _ => none

def parseEm (ws : List String) : Option Emission :=
  ws.mapM fun w =>
    match w.toList with
    | 'b' :: rest => (String.ofList rest).toNat?.map fun n => (false, n)
    | 'x' :: rest => (String.ofList rest).toNat?.map fun n => (true, n)
    | _ => none

/-- The targets as declared; `none` unless every category and the selectors were given. -/
def St.targets (st : St) : Option (Cols Nat) := do
  let (f, l, t) ← st.sel
  let arrs ← catNames.mapM fun p => (st.cats.lookup p.1).map fun a => (p.2, a)
  some { isFirst := f, isLast := l, isTrans := t,
         cat := fun c => match arrs.find? (fun q => q.1 == c) with
           | some q => q.2
           | none => #[] }

def chunk4 : List Nat → Option (List KK)
  | [] => some []
  | a :: b :: c :: d :: rest => do
    let x ← mkExt [a, b, c, d]
    let xs ← chunk4 rest
    some (x :: xs)
  | _ => none

private def ret (st : St) (r : BState KK × Nat) : St × List String :=
  ({ st with b := r.1 }, [s!"r {r.2}"])

def step (st : St) (line : String) : St × List String :=
  let ws := (line.trimAscii.toString.splitOn " ").filter (· ≠ "")
  match ws with
  | [] => (st, [])
  | "#" :: _ => (st, [])
  | ["case", id] => (St.init, [s!"case {id}"])
  | ["pub"] => ret st st.b.allocPublic
  | "cat" :: name :: args =>
    match parseNats args, catNames.lookup name with
    | some ns, some _ => ({ st with cats := (name, ns.toArray) :: st.cats }, [])
    | _, _ => (st, ["bad-op"])
  | "em" :: args =>
    match parseEm args with
    | some em => ({ st with em := some em }, [])
    | none => (st, ["bad-op"])
  | ["bn", "f"] => ({ st with bdag := st.bdag.push .isFirst }, [])
  | ["bn", "l"] => ({ st with bdag := st.bdag.push .isLast }, [])
  | ["bn", "t"] => ({ st with bdag := st.bdag.push .isTrans }, [])
  | ["bn", "v", e, i] =>
    match baseEntry e, i.toNat? with
    | some e, some i => ({ st with bdag := st.bdag.push (.var e i) }, [])
    | _, _ => (st, ["bad-op"])
  | ["xn", "v", e, i] =>
    match extEntry e, i.toNat? with
    | some e, some i => ({ st with xdag := st.xdag.push (.var e i) }, [])
    | _, _ => (st, ["bad-op"])
  | ["fold"] =>
    match st.targets, st.alpha, st.em with
    | some T, some alpha, some em =>
      if wfB st.bdag && wfX st.xdag then
        match evalFoldedAir st.bdag st.xdag T alpha em st.b with
        | some fs =>
          ({ st with folded := some fs },
           [s!"ids {" ".intercalate (fs.ids.map toString)} | acc {fs.acc} probe {fs.b.nodes.size}"])
        | none => ({ st with folded := none }, ["fold panic"])
      else (st, ["bad-op"])
    | _, _, _ => (st, ["bad-op"])
  | cmd :: args =>
    match parseNats args with
    | none => (st, ["bad-op"])
    | some ns =>
      match cmd, ns with
      | "const", [a, b, c, d] =>
        match mkExt [a, b, c, d] with
        | some v => ret st (st.b.defineConst v)
        | none => (st, ["bad-op"])
      | "add", [l, r] => ret st (st.b.add l r)
      | "sub", [l, r] => ret st (st.b.sub l r)
      | "mul", [l, r] => ret st (st.b.mul l r)
      | "muladd", [a, b, c] => ret st (st.b.mulAdd a b c)
      | "sel", [f, l, t] => ({ st with sel := some (f, l, t) }, [])
      | "alpha", [a] => ({ st with alpha := some a }, [])
      | "bn", _ => (st, ["bad-op"])
      | "xn", _ => (st, ["bad-op"])
      | "bc", [a, b, c, d] =>
        match mkExt [a, b, c, d] with
        | some v => ({ st with bdag := st.bdag.push (.const v) }, [])
        | none => (st, ["bad-op"])
      | "bneg", [x] => ({ st with bdag := st.bdag.push (.neg x) }, [])
      | "badd", [x, y] => ({ st with bdag := st.bdag.push (.add x y) }, [])
      | "bsub", [x, y] => ({ st with bdag := st.bdag.push (.sub x y) }, [])
      | "bmul", [x, y] => ({ st with bdag := st.bdag.push (.mul x y) }, [])
      | "xb", [r] => ({ st with xdag := st.xdag.push (.base r) }, [])
      | "xc", [a, b, c, d] =>
        match mkExt [a, b, c, d] with
        | some v => ({ st with xdag := st.xdag.push (.const v) }, [])
        | none => (st, ["bad-op"])
      | "xneg", [x] => ({ st with xdag := st.xdag.push (.neg x) }, [])
      | "xadd", [x, y] => ({ st with xdag := st.xdag.push (.add x y) }, [])
      | "xsub", [x, y] => ({ st with xdag := st.xdag.push (.sub x y) }, [])
      | "xmul", [x, y] => ({ st with xdag := st.xdag.push (.mul x y) }, [])
      | "in", vs =>
        match chunk4 vs, st.targets, st.alpha, st.em with
        | some inputs, some T, some alpha, some em =>
          if inputs.length ≠ st.b.pubCount then (st, ["bad-op"]) else
          let arr := inputs.toArray
          let ρ : Nat → KK := fun pos => arr.getD pos 0
          -- circuit side: denotation of the folded target in the model's builder state
          let valLine := match st.folded with
            | some fs => match fs.b.val ρ fs.acc with
              | some v => s!"val {v.toStr}"
              | none => "val none"
            | none => "val none"
          -- native side: the opened values are whatever the targets evaluate to
          let tv : Nat → Option KK := fun id => st.b.val ρ id
          let envOpt : Option (Cols KK) := do
            let f ← tv T.isFirst
            let l ← tv T.isLast
            let t ← tv T.isTrans
            let cols ← catNames.mapM fun p => ((T.cat p.2).toList.mapM tv).map fun vs => (p.2, vs.toArray)
            some { isFirst := f, isLast := l, isTrans := t,
                   cat := fun c => match cols.find? (fun q => q.1 == c) with
                     | some q => q.2
                     | none => #[] }
          let natLine := match envOpt, tv alpha with
            | some E, some a => match nativeFoldedT st.bdag st.xdag E a em with
              | some v => s!"nat {v.toStr}"
              | none => "nat none"
            | _, _ => "nat none"
          (st, [valLine, natLine])
        | _, _, _, _ => (st, ["bad-op"])
      | _, _ => (st, ["bad-op"])

partial def loop (h : IO.FS.Stream) (st : St) : IO Unit := do
  let line ← h.getLine
  if line.isEmpty then return ()
  let (st', outs) := step st line
  for o in outs do IO.println o
  loop h st'

def main : IO Unit := do
  loop (← IO.getStdin) St.init
