/-
C15 witnesses, batch path. Every theorem evaluates the model (`P3R.Shape.verifyBatch` /
`verifyP3Batch`) on a concrete shape vector that differs from an honest one of the correspondence
bases (`P3R.C15Batch.honest_*`) by ONE alteration (two where stated); the harness enumerates the
same alterations on the real builders on every run and the outcomes are compared line by line.

* the full statements are false of the batch builders (`no_panic_full_false`,
  `malformed_rejected_full_false`);
* every conjunct of `batchPanicGuards_necessary` is necessary: a shape / environment on which only
  that conjunct fails panics (`*_panics`);
* what validation does not pin down: number of queries, cap sizes (F9g / F9f, as in the uni path),
  and the declared degree of an instance without preprocessed metadata (`free_degree_accepted` —
  the native batch verifier accepts every in-range value too, so this one is not a finding; the
  degree of an instance WITH preprocessed metadata is pinned: `pinned_degree_rejected`,
  `C15Batch.batch_ok_prep`);
* regression facts for the repaired findings F9j / F9k / F9l (`terminals_*_rejected`,
  `instances_long_rejected`) and, since /repo ca07f07 / fc0321f / 069da9d / c030fca, for the
  repaired part of F9a and for F9d, F9e, F9i on the batch path (`degree_bits_out_of_range_rejected`,
  `log_arity_rejected`, `cap_rejected`, `log_blowup_rejected`: the model says `.err`, as the real
  builders do on the same alterations).
-/
import P3R.Props.C15Batch

namespace P3R.Witness.C15Batch
open P3R.Shape P3R.C15 P3R.C15Batch

def e2 := env_gbatch_2
def g2 := honest_gbatch_2
def e4 := env_gbatch_4
def g4 := honest_gbatch_4

/-- F9a, batch path, what is left after ca07f07: `degree_bits[i] + log_qd` is bounded by the field's
bit width (31) before the shifts, but `natural_domain_for_degree(..)` needs the two-adicity (27):
28 ..= 31 - log_qd still panic (instance 0 has `log_qd = 1`, instance 1 `log_qd = 0`). -/
theorem degree_bits_panics :
    verifyBatch e2 { g2 with degreeBits := [28, 4] } = .panic ∧
    verifyBatch e2 { g2 with degreeBits := [30, 4] } = .panic ∧
    verifyBatch e2 { g2 with degreeBits := [3, 28] } = .panic ∧
    verifyBatch e2 { g2 with degreeBits := [3, 31] } = .panic := by
  refine ⟨?_, ?_, ?_, ?_⟩ <;> decide +kernel

/-- F9a-1 repaired (ca07f07), batch path: a `degree_bits` entry at or above the word size (the old
shift overflow), or whose quotient domain exceeds the field's bit width, is rejected with an error
(`C15Batch.batch_degree_out_of_range_err` for every shape). The last shape is the one that used
to overflow `1 << (base_db + log_qd)` under a two-adicity above the word size. -/
theorem degree_bits_out_of_range_rejected :
    verifyBatch e2 { g2 with degreeBits := [64, 4] } = .err ∧
    verifyBatch e2 { g2 with degreeBits := [63, 4] } = .err ∧
    verifyBatch e2 { g2 with degreeBits := [2 ^ 64 - 1, 4] } = .err ∧
    verifyBatch e2 { g2 with degreeBits := [31, 4] } = .err ∧
    verifyBatch e2 { g2 with degreeBits := [3, 32] } = .err ∧
    verifyBatch { e2 with base := { e2.base with twoAdicity := 100 } } { g2 with degreeBits := [63, 4] } = .err := by
  refine ⟨?_, ?_, ?_, ?_, ?_, ?_⟩ <;> decide +kernel

/-- … and `create_disjoint_domain(1 << (base_db + log_qd))`: a degree inside the two-adicity whose
quotient domain is not (27 + 1 = 28: within the bit width, so the range test of ca07f07 lets it
through). -/
theorem quotient_domain_panics :
    verifyBatch e2 { g2 with degreeBits := [27, 4] } = .panic := by
  decide +kernel

/-- The AIR's own symbolic evaluation is called with the common data's preprocessed width and
lookup contexts (`declares_interactions`, `get_log_num_quotient_chunks`, batch_stark.rs:485-498);
if it panics (F9m: lookups of another instance), the builder panics. `1 << log_qd` likewise. -/
theorem air_eval_panics :
    verifyBatch { e2 with airs := [{ width := 2, opensNext := true, declares := none, logQd := some 1 }, e2.air 1] } g2 = .panic ∧
    verifyBatch { e2 with airs := [{ width := 2, opensNext := true, declares := some false, logQd := none }, e2.air 1] } g2 = .panic ∧
    verifyBatch { e2 with airs := [{ width := 2, opensNext := true, declares := some false, logQd := some 64 }, e2.air 1] } g2 = .panic := by
  refine ⟨?_, ?_, ?_⟩ <;> decide +kernel

def q2 : QueryShape :=
  { inputProof := [[2, 3], [4, 4, 4], [4]], steps := [1, 1, 1, 1], siblings := [1, 1, 1, 1] }

/-- F9d repaired (fc0321f), batch path: an out-of-range `log_arity`, or a sibling count that is not
`2^log_arity - 1`, is an error (before: shift overflow / 2^30-target allocation while the targets
were allocated in `BatchProofTargets::new`). -/
theorem log_arity_rejected :
    verifyBatch e2 { g2 with fri := { g2.fri with queries := [{ q2 with steps := [255, 1, 1, 1] }, q2] } } = .err ∧
    verifyBatch e2 { g2 with fri := { g2.fri with queries := [{ q2 with steps := [28, 1, 1, 1] }, q2] } } = .err ∧
    verifyBatch e2 { g2 with fri := { g2.fri with queries := [q2, { q2 with siblings := [1, 1, 1, 2] }] } } = .err := by
  refine ⟨?_, ?_, ?_⟩ <;> decide +kernel

/-- F9e repaired (069da9d), batch path: empty / non-power-of-two caps of the trace / quotient /
global preprocessed commitment are errors. -/
theorem cap_rejected :
    verifyBatch e2 { g2 with traceCap := 0 } = .err ∧
    verifyBatch e2 { g2 with quotientCap := 3 } = .err ∧
    verifyBatch e2 { g2 with prep := g2.prep.map fun g => { g with cap := 0 } } = .err := by
  refine ⟨?_, ?_, ?_⟩ <;> decide +kernel

/-- F9i repaired (c030fca), batch path: `log_blowup = 27` (log_max_height 31) passes the field-width
check and is now refused by the two-adicity check (before: `two_adic_generator`'s assertion). -/
theorem log_blowup_rejected :
    verifyBatch { e2 with base := { e2.base with logBlowup := 27 } } g2 = .err := by decide +kernel

/-- F9n: the circuit-table AIRs are rebuilt from the proof's table metadata before anything bounds
the counts (`rows = usize::MAX`: `num_ops * preprocessed_lane_width()` overflows). The metadata
itself passes `validate()`. -/
theorem airs_build_panics :
    verifyP3Batch { p3_batch with airsBuild := false } { env_batch with airs := [] }
      { meta_batch with rows := [2, 2, 2 ^ 64 - 1] } honest_batch = .panic := by decide +kernel

/-- F9g / F9f, batch path: a query fewer, or a cap of another power-of-two size, is accepted. -/
theorem query_dropped_accepted :
    verifyBatch e2 { g2 with fri := { g2.fri with queries := [q2] } } = .ok := by decide +kernel

theorem cap_resized_accepted :
    verifyBatch e2 { g2 with traceCap := 2 } = .ok := by decide +kernel

/-- The declared degree of an instance without preprocessed metadata is not pinned by anything
(instance 0 of `gbatch-4`, an 8-row table declared with 1, 2 or 4 rows; the tallest instance still
reaches the FRI height). Native `verify_batch` accepts these shapes as well (`validate_degree_bits`
only bounds the value), so the circuit is the well-formed one for the declared heights. -/
theorem free_degree_accepted :
    verifyBatch e4 { g4 with degreeBits := [0, 4, 3, 3] } = .ok ∧
    verifyBatch e4 { g4 with degreeBits := [2, 4, 3, 3] } = .ok ∧
    verifyBatch e4 { g4 with degreeBits := [3, 4, 0, 3] } = .ok := by
  refine ⟨?_, ?_, ?_⟩ <;> decide +kernel

/-- … whereas the degree of an instance with preprocessed columns is pinned by its metadata, and
the metadata by the instance (`batch_ok_prep`). -/
theorem pinned_degree_rejected :
    verifyBatch e4 { g4 with degreeBits := [3, 3, 3, 3] } = .err ∧
    verifyBatch e4 { g4 with degreeBits := [3, 4, 3, 2] } = .err ∧
    verifyBatch e2 { g2 with degreeBits := [2, 4] } = .err := by
  refine ⟨?_, ?_, ?_⟩ <;> decide +kernel

/-- F9j / F9k repaired (fix C15-2): a `lookup_terminals` list one short / one long is an error. -/
theorem terminals_short_rejected :
    verifyP3Batch p3_batch env_batch meta_batch { honest_batch with terminals := [true, true] } = .err := by
  decide +kernel

theorem terminals_long_rejected :
    verifyP3Batch p3_batch env_batch meta_batch { honest_batch with terminals := [true, true, true, true] } = .err := by
  decide +kernel

/-- F9l repaired (fix C15-2): an instance added to / removed from the opened values is an error
before `allocate`. -/
theorem instances_long_rejected :
    verifyP3Batch p3_batch env_batch meta_batch
      { honest_batch with instances := honest_batch.instances ++ [honest_batch.inst 2] } = .err ∧
    verifyP3Batch p3_batch env_batch meta_batch
      { honest_batch with instances := honest_batch.instances.take 2 } = .err := by
  refine ⟨?_, ?_⟩ <;> decide +kernel

/-- Single alterations of the components `batch_ok_*` pin down are rejected (samples of the
enumeration: widths, chunk counts, optional parts, common-data metadata, permutation openings). -/
theorem single_alterations_rejected :
    verifyBatch e2 { g2 with lookups := [0] } = .err ∧
    verifyBatch e2 { g2 with permCap := some 1 } = .err ∧
    verifyBatch e2 { g2 with randomCap := some 1 } = .err ∧
    verifyBatch e2 { g2 with terminals := [true, false] } = .err ∧
    verifyBatch e2 { g2 with prep := none } = .err ∧
    verifyBatch e2 { g2 with prep := g2.prep.map fun g => { g with matrixToInstance := [2] } } = .err ∧
    verifyBatch e2 { g2 with prep := g2.prep.map fun g => { g with matrixToInstance := [1] } } = .err ∧
    verifyBatch e2 { g2 with prep := g2.prep.map fun g => { g with matrixToInstance := [0, 0] } } = .err ∧
    verifyBatch e2 { g2 with prep := g2.prep.map fun g => { g with instances := [some { matrixIndex := 1, width := 4, degreeBits := 3 }, none] } } = .err ∧
    verifyBatch e2 { g2 with prep := g2.prep.map fun g => { g with instances := [some { matrixIndex := 0, width := 5, degreeBits := 3 }, none] } } = .err ∧
    verifyBatch e2 { g2 with instances := [{ g2.inst 0 with quotientChunks := [4] }, g2.inst 1] } = .err ∧
    verifyBatch e2 { g2 with instances := [{ g2.inst 0 with traceNext := 0 }, g2.inst 1] } = .err ∧
    verifyBatch e2 { g2 with instances := [g2.inst 0, { g2.inst 1 with traceNext := 3 }] } = .err ∧
    verifyBatch e2 { g2 with instances := [g2.inst 0, { g2.inst 1 with permLocal := 4 }] } = .err ∧
    verifyP3Batch p3_batch env_batch meta_batch
      { honest_batch with instances := [honest_batch.inst 0, honest_batch.inst 1, { honest_batch.inst 2 with permNext := 20 }] } = .err ∧
    verifyP3Batch p3_batch env_batch { meta_batch with hornerSteps := 1 } honest_batch = .err ∧
    verifyP3Batch p3_batch env_batch { meta_batch with extDegree := 4 } honest_batch = .err ∧
    verifyP3Batch p3_batch env_batch { meta_batch with nonPrimLanes := [1] } honest_batch = .err := by
  refine ⟨?_, ?_, ?_, ?_, ?_, ?_, ?_, ?_, ?_, ?_, ?_, ?_, ?_, ?_, ?_, ?_, ?_, ?_⟩ <;> decide +kernel

/-- The full statements of the property are false of the batch builders. -/
theorem no_panic_full_false : ¬ ∀ (e : BatchEnv) (s : BatchShape), verifyBatch e s ≠ .panic :=
  fun h => h e2 { g2 with degreeBits := [28, 4] } degree_bits_panics.1

theorem malformed_rejected_full_false :
    ¬ ∀ (e : BatchEnv) (s : BatchShape), s ≠ g2 → verifyBatch e s = .err := by
  intro h
  have := h e2 { g2 with fri := { g2.fri with queries := [q2] } } (by decide +kernel)
  rw [query_dropped_accepted] at this
  exact absurd this (by decide)

/-- The panic witnesses falsify the guard hypothesis, the accepted ones satisfy it, and so do the
shapes of the repaired cap / `log_arity` findings (plain errors now). -/
theorem witnesses_falsify_guards :
    BatchPanicGuards e2 { g2 with degreeBits := [28, 4] } = false ∧
    BatchPanicGuards e2 { g2 with degreeBits := [27, 4] } = false ∧
    BatchPanicGuards e2 { g2 with traceCap := 0 } = true ∧
    BatchPanicGuards e2 { g2 with fri := { g2.fri with queries := [{ q2 with steps := [255, 1, 1, 1] }, q2] } } = true ∧
    BatchPanicGuards { e2 with airs := [{ width := 2, opensNext := true, declares := none, logQd := some 1 }, e2.air 1] } g2 = false ∧
    P3PanicGuards { p3_batch with airsBuild := false } env_batch meta_batch honest_batch = false ∧
    BatchPanicGuards e2 { g2 with fri := { g2.fri with queries := [q2] } } = true ∧
    BatchPanicGuards e4 { g4 with degreeBits := [0, 4, 3, 3] } = true := by
  refine ⟨?_, ?_, ?_, ?_, ?_, ?_, ?_, ?_⟩ <;> decide +kernel

end P3R.Witness.C15Batch
