"""C04: soundness of the circuit proof system against forged traces (shares the prove harness)."""
from checks_c10 import prove_run, sched_violations

PROPERTY = "C04"


def c04_run(ctx):
    violations, cov = prove_run(ctx, "C04", 4)
    if not ctx.get("replay"):
        # matrix-level forgeries: tampered cells of honest scheduled ALU matrices (incl. intermediate / b^2 columns)
        # that the real AluAir::eval accepts although the decoded rows violate their relation
        v2, n = sched_violations(ctx, {"accepts-invalid-row"})
        violations += v2
        if cov:
            cov["evaluations"] += n
            cov["rule"] += "; plus single-cell tampering of scheduled ALU matrices (real trace_to_matrix + real AluAir::eval through a recording builder), judged by an independent relation decoder"
    return violations, cov

CHECK = {
    "lean_modules": ["P3R.Props.C04", "P3R.Props.C04Full", "P3R.Props.C04Packed", "P3R.Witness.C04"],
    "theorems": ["P3R.C04.readers_agree", "P3R.C04.row_sat_add", "P3R.C04.row_sat_mul", "P3R.C04.row_sat_bool",
                 "P3R.C04.row_sat_muladd", "P3R.C04.row_sat_horner", "P3R.C04.accepted_alu_sat_partial", "P3R.C04.const_not_bound",
                 # composition: balanced bus + single creator (C09) + row constraints on cells => a satisfying assignment exists
                 "P3R.C04.bus_single_valued", "P3R.C04.genPrep_slots", "P3R.C04.rowsOk_sat", "P3R.C04.accepted_sat",
                 "P3R.C04.accepted_sat_genPrep", "P3R.Witness.C04.accepted_sat_nonvacuous", "P3R.Witness.C04.unchained_accepted_not_sat",
                 # packed rows: the unpacking argument (tuple-level bus equivalence of a packed row and its k steps; composition on any equivalent bus)
                 "P3R.C04.packed_tuple_net", "P3R.C04.accepted_sat_bus_equiv"],
    "run": c04_run,
    "trusted_base": ["ideal STARK/LogUp: an accepted proof implies row constraints hold on some committed trace and the WitnessChecks bus is balanced as a signed multiset (DESIGN §2)"],
    "assumptions": ["D = 1 and single-step Horner rows in the Lean composition theorem (packed arities are covered by C11's packed2/3_iff); accepted_sat assumes no ALU operand is off the bus (role `skip`; 0 of 36k generated rows in the C09 run) and that a Const row's cell is the circuit's constant (false today: finding F4); permutation / recompose rows are not modelled"],
}

MANIFEST_ENTRY = {
    "property_id": "C04", "quick_cmd": "bin/check C04 --tier quick", "thorough_cmd": "bin/check C04 --tier thorough",
    "evidence_file": "evidence/C04.json", "replay_cmd_template": "bin/check C04 --replay {path}", "engine": "lean-models",
    "technique": "Lean 4 proof that balanced bus + vanishing row constraints imply the op relations (partial: constants, Horner) + forged-trace prove/verify",
    "level_claimed": {"category": "proof", "text": "accepted_sat: a balanced WitnessChecks bus over the roles of the role scan (single creator proved in C09) together with vanishing row constraints (ADD/MUL/BOOL/MUL_ADD/single-step HORNER, D=1) yields an assignment satisfying every op relation — proved for every circuit and trace, with readers_agree / bus_single_valued / row_sat_* as steps; const_not_bound proves the acceptance conditions do not bind constants (finding F4, replayed on the real prover every run); forged traces through the real prover judged by an independent sat check.", "design_ref": "4/C04"},
    "level_note": "cryptographic soundness assumed ideal; constants (F4) are a known finding; NPO rows not modelled",
}
