/-
Witnesses for `P3R.C09T` (Props/C09Total.lean).

Non-vacuity:
* `good_*` — a reachable builder program with a public and a private input, a hint output that is
  range-checked (`assert_bool`, which makes the `BoolCheck` row's `out` its creator) and then used
  in the `b` position of a forward row, a subtraction (backward row) and a fusable `mul`+`add`: it
  compiles, `genPrep` succeeds, every stage carries the certificate, and the bus balances.
Necessity of the certificate (the excluded point):
* `bad_*` — `h = hint(x); y = x + h` (reachable through `push_non_primitive_op_with_outputs` with an
  unconstrained executor): the hint output is first — and only — used in the `b` position of a
  forward row. The builder model accepts it and compiles it, `genPrep` succeeds, the certificate
  fails, the scan makes the operand a *reader* (`bad_role`), the slot has one reader and no
  creator, and the net multiplicity of the slot is −1: the honest bus does not balance.
  Against the real code this is finding F-C09N-2 (a hinted recompose coefficient used only in `b`
  positions; replay corpus/c09n/f_c09n_2_hint_coeff_b_position_bb4.json: `read-without-creator`,
  honest proof fails with net multiplicity p−1 on the coefficient's tuple).
* `bad_then_a_*` — the same program followed by `h * x` (first `a`-position use comes later): the
  certificate fails (the read precedes the creation) although the bus balances in the end — the
  certificate is sufficient, not necessary; what is necessary is that the slot is created at all.
-/
import P3R.Props.C09Total
import P3R.Props.C02BuilderOk
open P3R P3R.C02T

namespace P3R.Witness.C09Total

/-! ### Non-vacuity -/

def g1 : BState Int := (BState.init : BState Int).allocPublic.1       -- x = e1
def g2 : BState Int := g1.allocPrivate.1                               -- y = e2
def g3 : BState Int := (g2.pushNp .hintBits [[1]] 1).1                 -- call e3, h = e4
def g4 : BState Int := g3.assertBool 4                                 -- e5 = bool(h); h == e5
def g5 : BState Int := (g4.mul 1 4).1                                  -- e6 = x * h   (h in b)
def g6 : BState Int := (g5.add 6 2).1                                  -- e7 = e6 + y  (fusable)
def g7 : BState Int := (g6.sub 7 1).1                                  -- e8 = e7 - x  (backward row)
def bGood : BState Int := (g7.add 1 8).1                               -- e9 = x + e8  (sub result in b)

theorem good_reachable : Reachable bGood := by
  have h1 : Reachable g1 := Reachable.allocPublic Reachable.init
  have h2 : Reachable g2 := Reachable.allocPrivate h1
  have h3 : Reachable g3 := Reachable.pushNp h2 _ _ _
  have h4 : Reachable g4 := Reachable.assertBool h3 (by decide +kernel)
  have h5 : Reachable g5 := Reachable.mul h4 (by decide +kernel) (by decide +kernel)
  have h6 : Reachable g6 := Reachable.add h5 (by decide +kernel) (by decide +kernel)
  have h7 : Reachable g7 := Reachable.sub h6 (by decide +kernel) (by decide +kernel)
  exact Reachable.add h7 (by decide +kernel) (by decide +kernel)

/-- The example compiles, the role scan succeeds, the certificate holds (also for the lowering's
output and the de-duplicated list), a `MulAdd` row was fused, and every slot balances. -/
theorem good_balanced :
    (match compile bGood with
     | .ok c =>
       c.defUse &&
       (c.ops.toList.any fun op => match op with | .alu .mulAdd _ _ _ _ _ => true | _ => false) &&
       (match genPrep c with
        | some p => (List.range c.witnessCount).all fun s => p.net s == 0
        | none => false)
     | .error _ => false) = true ∧
    (match lower bGood with
     | .ok l => defUse l.privRows.toList l.ops.toList &&
         defUse (l.privRows.toList.map (resolve (dedup l.ops).2)) (dedup l.ops).1.toList
     | .error _ => false) = true := by
  decide +kernel

/-- `compiled_bus_balanced_of_defuse` applies to the example (all slots, not only `< witnessCount`). -/
example (c : Circuit Int) (p : Prep) (hc : compile bGood = .ok c) (hp : genPrep c = some p)
    (hd : c.defUse = true) (s : Nat) : p.net s = 0 :=
  P3R.C09T.compiled_bus_balanced_of_defuse c p hp hd s

/-! ### The excluded point: a hint output first used in the `b` position of a forward row -/

def d1 : BState Int := (BState.init : BState Int).allocPublic.1       -- x = e1
def d2 : BState Int := (d1.pushNp .hintBits [[1]] 1).1                 -- call e2, h = e3
def bBad : BState Int := (d2.add 1 3).1                                -- e4 = x + h

theorem bad_reachable : Reachable bBad :=
  Reachable.add (Reachable.pushNp (Reachable.allocPublic Reachable.init) _ _ _)
    (by decide +kernel) (by decide +kernel)

/-- The builder accepts the program, it compiles to `[Const 0, Public x, Hint → h, Add x h y]`,
`genPrep` succeeds; the certificate fails; the hint output's slot (2) has one reader, no creator,
is not in `defined`, and its net multiplicity is −1. -/
theorem bad_unbalanced :
    (match compile bBad with
     | .ok c =>
       c.ops.toList == [.const 0 0, .pub 1 0, .hint [1] [2] .hintBits, .alu .add 1 2 none 3 none] &&
       !c.defUse &&
       (match genPrep c with
        | some p => p.net 2 == -1 && readsOf p.reads 2 == 1 && !p.defined.contains 2 &&
            p.events == [(0, .creator), (1, .creator), (3, .creator), (1, .reader), (2, .reader)]
        | none => false)
     | .error _ => false) = true := by
  decide +kernel

/-- What the scan does at the excluded point, for every state: a `b` request of a forward row whose
operand is not a private input may not create, so it is served as a reader whether or not the
slot is defined. -/
theorem bad_role (defined : List Nat) (b : Nat) :
    (⟨b, false, false⟩ : Request).role defined = .reader := by
  unfold Request.role
  split <;> simp

/-- Hence the certificate cannot be dropped from `compiled_bus_balanced_of_defuse`. -/
theorem defuse_hypothesis_needed :
    ∃ (c : Circuit Int) (p : Prep), compile bBad = .ok c ∧ genPrep c = some p ∧ c.defUse = false ∧
      p.net 2 ≠ 0 := by
  have h := bad_unbalanced
  cases hc : compile bBad with
  | error e => rw [hc] at h; simp at h
  | ok c =>
    rw [hc] at h
    dsimp only at h
    cases hp : genPrep c with
    | none => rw [hp] at h; simp at h
    | some p =>
      rw [hp] at h
      dsimp only at h
      simp only [Bool.and_eq_true, Bool.not_eq_true', beq_iff_eq] at h
      obtain ⟨⟨_, hdu⟩, ⟨⟨hnet, _⟩, _⟩, _⟩ := h
      refine ⟨c, p, rfl, hp, hdu, ?_⟩
      rw [hnet]; decide

/-! ### The certificate is sufficient, not necessary -/

def bLate : BState Int := (bBad.mul 3 1).1                              -- e5 = h * x  (h in a, later)

/-- The read in the `b` position precedes the creating `a`-position use: the certificate fails,
the bus still balances (the slot is created in the end). -/
theorem bad_then_a_balanced :
    (match compile bLate with
     | .ok c =>
       !c.defUse &&
       (match genPrep c with
        | some p => (List.range c.witnessCount).all fun s => p.net s == 0
        | none => false)
     | .error _ => false) = true := by
  decide +kernel

end P3R.Witness.C09Total
