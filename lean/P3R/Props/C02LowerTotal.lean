/-
C02 / C03 — the lowering passes its own certificate on EVERY builder state (total theorem).

`lowerCheck b l` (Model/LowerCheck.lean) is evaluated per program by the driver;
`C03.lower_check_sound` turns a passing certificate into the semantic statement. This file
removes the per-program certificate: whenever the modelled `lower b` returns `.ok l`, the
certificate passes (`lower_passes_check`), provided only that every `connect` of the builder
state names existing expressions one of which carries a value (`connectsOk`; both conjuncts are
shown necessary in `Witness/C02LowerTotal.lean`). `BState.Ok` is a decidable invariant of the
builder state that every builder operation of `Model/Builder.lean` preserves when called with
expression ids handed out by the builder (`Ok_*` lemmas, `Reachable.ok`); it implies
`connectsOk` and `dagOk`. `lower_sound_total` composes with `lower_check_sound`.

Structure of the proof (in the style of `C03Dedup.step_claim` / `fold_claim`):
* `Good`   – shape invariant of the lowering state: array sizes, and *class-slot coherence*:
             the slot of a mapped expression that occurs in a `connect` is the slot recorded
             for its DSU class (`rootW[rep e]`);
* `Claim`  – what an emitted node has established: its slot and the slots of its children are
             mapped and the op relating exactly those slots is in the op list (stable under
             extension, `claim_mono`);
* `PassInv`– after the prefix `k` of pass `p` (constants, publics, privates, operations):
             `Good`, only already-processed nodes (or call outputs) are mapped – hence no slot
             is ever overwritten –, and `Claim` holds for every processed node;
* `pass_fold` – the fold over the node list; `step_*` – one lemma per pass step;
* `backfill_spec`, `Dsu.*` – the connect part.
-/
import P3R.Model.LowerCheck
import P3R.Props.C03Lower

namespace P3R.C02T
open P3R

variable {K : Type}

/-! ### Array helpers -/

theorem getD_setIfInBounds {α : Type} (a : Array α) (i j : Nat) (v d : α) :
    (a.setIfInBounds i v).getD j d = if i = j ∧ i < a.size then v else a.getD j d := by
  simp only [Array.getD_eq_getD_getElem?, Array.getElem?_setIfInBounds]
  by_cases hij : i = j
  · subst hij
    by_cases hi : i < a.size
    · simp [hi]
    · simp [hi]
  · simp [hij]

theorem getD_replicate {α : Type} (n j : Nat) (v : α) : (Array.replicate n v).getD j v = v := by
  simp only [Array.getD_eq_getD_getElem?, Array.getElem?_replicate]
  split <;> rfl

theorem getD_true_lt (a : Array Bool) (x : Nat) (h : a.getD x false = true) : x < a.size := by
  by_contra hx
  simp [Array.getD_eq_getD_getElem?, Array.getElem?_eq_none (Nat.le_of_not_lt hx)] at h

/-! ### Shape invariant of the lowering state -/

/-- `N = nodes.size + 1`, `R` the connect partition, `C` the "occurs in a connect" flags. -/
structure Good (N : Nat) (R : Array Nat) (C : Array Bool) (s : LState K) : Prop where
  rep : s.rep = R
  inC : s.inConnect = C
  rootSz : s.rootW.size = N
  e2wSz : s.e2w.size = N
  /-- class-slot coherence -/
  coh : ∀ x w, C.getD x false = true → s.e2w.getD x none = some w →
    s.rootW.getD (R.getD x x) none = some w
  wf : ∀ op ∈ s.ops.toList, opWF op = true

/-- Representatives of connected ids are addressable in `rootW`. -/
def RCok (N : Nat) (R : Array Nat) (C : Array Bool) : Prop :=
  ∀ x, C.getD x false = true → R.getD x x < N

/-- Extension: mapped slots and emitted ops are only ever added. -/
structure Ext (s s' : LState K) : Prop where
  e2w : ∀ x w, s.e2w.getD x none = some w → s'.e2w.getD x none = some w
  ops : ∀ op ∈ s.ops.toList, op ∈ s'.ops.toList

theorem Ext.refl (s : LState K) : Ext s s := ⟨fun _ _ h => h, fun _ h => h⟩

theorem Ext.trans {s s' s'' : LState K} (h1 : Ext s s') (h2 : Ext s' s'') : Ext s s'' :=
  ⟨fun x w h => h2.e2w x w (h1.e2w x w h), fun op h => h2.ops op (h1.ops op h)⟩

section alloc
variable {N : Nat} {R : Array Nat} {C : Array Bool}

/-- `alloc_witness`: the returned slot is (now) the slot of the class of `e`; nothing else that
matters changes. -/
theorem alloc_spec (hRC : RCok N R C) {s s' : LState K} {e w : Nat} (hG : Good N R C s)
    (h : s.allocWitness e = (s', w)) :
    Good N R C s' ∧ s'.e2w = s.e2w ∧ s'.ops = s.ops ∧
    (C.getD e false = true → s'.rootW.getD (R.getD e e) none = some w) ∧
    (∀ r v, s.rootW.getD r none = some v → s'.rootW.getD r none = some v) := by
  unfold LState.allocWitness at h
  obtain ⟨hrep, hinC, hrootSz, he2wSz, hcoh, hwf⟩ := hG
  subst hrep; subst hinC
  have hG : Good N s.rep s.inConnect s := ⟨rfl, rfl, hrootSz, he2wSz, hcoh, hwf⟩
  by_cases hc : s.inConnect.getD e false = true
  · simp only [hc, if_true] at h
    cases hr : s.rootW.getD (s.rep.getD e e) none with
    | some w0 =>
      simp only [hr] at h
      obtain ⟨rfl, rfl⟩ := Prod.mk.inj h
      exact ⟨hG, rfl, rfl, fun _ => hr, fun _ _ h => h⟩
    | none =>
      simp only [hr] at h
      obtain ⟨rfl, rfl⟩ := Prod.mk.inj h
      have hlt : s.rep.getD e e < s.rootW.size := by rw [hG.rootSz]; exact hRC e hc
      have hmono : ∀ r v, s.rootW.getD r none = some v →
          (s.rootW.setIfInBounds (s.rep.getD e e) (some s.next)).getD r none = some v := by
        intro r v hrv
        rw [getD_setIfInBounds]
        by_cases hre : s.rep.getD e e = r
        · subst hre; rw [hr] at hrv; cases hrv
        · rw [if_neg (fun h => hre h.1)]; exact hrv
      refine ⟨⟨hG.rep, hG.inC, ?_, hG.e2wSz, ?_, hG.wf⟩, rfl, rfl, ?_, hmono⟩
      · simp [hG.rootSz]
      · intro x v hx hv
        exact hmono _ _ (hG.coh x v hx hv)
      · intro _
        simp only [getD_setIfInBounds, hlt, and_self, if_true]
  · simp only [hc] at h
    obtain ⟨rfl, rfl⟩ := Prod.mk.inj h
    exact ⟨⟨hG.rep, hG.inC, hG.rootSz, hG.e2wSz, hG.coh, hG.wf⟩, rfl, rfl,
      fun h => absurd h hc, fun _ _ h => h⟩

/-- Finishing lemma of a step: after the allocations (`s1`), ops are pushed and `i ↦ out` is
recorded. `s'` is given by its fields so that further record updates (public/private rows,
`emitted`) do not matter. -/
theorem finish {s s1 s' : LState K} {i out : Nat} (hG1 : Good N R C s1) (he : s1.e2w = s.e2w)
    (hroot : C.getD i false = true → s1.rootW.getD (R.getD i i) none = some out)
    (hi : i < N) (hnone : s.e2w.getD i none = none)
    (hrep : s'.rep = s1.rep) (hinC : s'.inConnect = s1.inConnect) (hrootW : s'.rootW = s1.rootW)
    (he2w : s'.e2w = s1.e2w.setIfInBounds i (some out))
    (hwf : ∀ op ∈ s'.ops.toList, opWF op = true)
    (hsub : ∀ op ∈ s.ops.toList, op ∈ s'.ops.toList) :
    Good N R C s' ∧ Ext s s' ∧ s'.e2w.getD i none = some out ∧
    (∀ x w, s'.e2w.getD x none = some w → s.e2w.getD x none = some w ∨ x = i) := by
  have hget : ∀ x, s'.e2w.getD x none = if i = x then some out else s.e2w.getD x none := by
    intro x
    rw [he2w, getD_setIfInBounds, he]
    have : i < s.e2w.size := by rw [← he, hG1.e2wSz]; exact hi
    simp [this]
  refine ⟨⟨hrep.trans hG1.rep, hinC.trans hG1.inC, by rw [hrootW]; exact hG1.rootSz,
      by rw [he2w]; simp [hG1.e2wSz], ?_, hwf⟩, ⟨?_, hsub⟩, ?_, ?_⟩
  · intro x w hx hw
    rw [hrootW]
    rw [hget] at hw
    by_cases hix : i = x
    · subst hix
      simp only [if_true] at hw
      cases hw
      exact hroot hx
    · simp only [hix, if_false] at hw
      rw [← he] at hw
      exact hG1.coh x w hx hw
  · intro x w hw
    rw [hget]
    by_cases hix : i = x
    · subst hix; rw [hnone] at hw; cases hw
    · simpa [hix] using hw
  · simp [hget]
  · intro x w hw
    rw [hget] at hw
    by_cases hix : i = x
    · exact Or.inr hix.symm
    · simp only [hix, if_false] at hw
      exact Or.inl hw

/-- `finish` with the pushed ops given as a list. -/
theorem finish_ops {s s1 s' : LState K} {i out : Nat} (hG1 : Good N R C s1) (he : s1.e2w = s.e2w)
    (hops1 : s1.ops = s.ops)
    (hroot : C.getD i false = true → s1.rootW.getD (R.getD i i) none = some out)
    (hi : i < N) (hnone : s.e2w.getD i none = none)
    (hrep : s'.rep = s1.rep) (hinC : s'.inConnect = s1.inConnect) (hrootW : s'.rootW = s1.rootW)
    (he2w : s'.e2w = s1.e2w.setIfInBounds i (some out))
    (added : List (Op K)) (hadd : s'.ops.toList = s1.ops.toList ++ added)
    (hwfadd : ∀ op ∈ added, opWF op = true) :
    Good N R C s' ∧ Ext s s' ∧ s'.e2w.getD i none = some out ∧
    (∀ x w, s'.e2w.getD x none = some w → s.e2w.getD x none = some w ∨ x = i) ∧
    (∀ op ∈ added, op ∈ s'.ops.toList) := by
  obtain ⟨a, b, c, d⟩ := finish (s' := s') hG1 he hroot hi hnone hrep hinC hrootW he2w
    (by
      intro op hop
      rw [hadd] at hop
      rcases List.mem_append.mp hop with h | h
      · exact hG1.wf op h
      · exact hwfadd op h)
    (by
      intro op hop
      rw [hadd, hops1]
      exact List.mem_append.mpr (Or.inl hop))
  exact ⟨a, b, c, d, fun op hop => by rw [hadd]; exact List.mem_append.mpr (Or.inr hop)⟩

/-- States that agree on the fields `Good` reads. -/
theorem Good.congr {s s' : LState K} (hG : Good N R C s) (hrep : s'.rep = s.rep)
    (hinC : s'.inConnect = s.inConnect) (hrootW : s'.rootW = s.rootW) (he2w : s'.e2w = s.e2w)
    (hwf : ∀ op ∈ s'.ops.toList, opWF op = true) : Good N R C s' :=
  ⟨hrep.trans hG.rep, hinC.trans hG.inC, by rw [hrootW]; exact hG.rootSz,
   by rw [he2w]; exact hG.e2wSz, by rw [hrootW, he2w]; exact hG.coh, hwf⟩

end alloc

/-! ### What an emitted node has established -/

section claims
variable [Neg K]

/-- The slots of node `i` and of its children are mapped (by `m`) and the op relating exactly
those slots has been emitted. Stable under extension of `m` and `ops`. -/
def Claim (nodes : Array (Expr K)) (m : Nat → Option Nat) (ops : List (Op K)) (i : Nat) :
    Expr K → Prop
  | .const c => ∃ w, m i = some w ∧ Op.const w c ∈ ops
  | .pub pos => ∃ w, m i = some w ∧ Op.pub w pos ∈ ops
  | .priv _ => ∃ w, m i = some w
  | .add a b => ∃ wi wa wb, m i = some wi ∧ m a = some wa ∧ m b = some wb ∧ Op.add wa wb wi ∈ ops
  | .sub a b => ∃ wi wa, m i = some wi ∧ m a = some wa ∧
      ((∃ wb, m b = some wb ∧ Op.add wb wi wa ∈ ops) ∨
       (∃ c nw, nodes[b]? = some (.const c) ∧ Op.const nw (-c) ∈ ops ∧ Op.add wa nw wi ∈ ops))
  | .mul a b => ∃ wi wa wb, m i = some wi ∧ m a = some wa ∧ m b = some wb ∧ Op.mul wa wb wi ∈ ops
  | .div a b => ∃ wi wa wb, m i = some wi ∧ m a = some wa ∧ m b = some wb ∧ Op.mul wb wi wa ∈ ops
  | .horner acc al pz px => ∃ wi wacc wal wpz wpx, m i = some wi ∧ m acc = some wacc ∧
      m al = some wal ∧ m pz = some wpz ∧ m px = some wpx ∧ Op.horner wpx wal wpz wi wacc ∈ ops
  | .boolCheck v => ∃ wi wv zw, m i = some wi ∧ m v = some wv ∧
      Op.alu .boolCheck wv zw (some wv) wi none ∈ ops
  | .mulAdd a b c => ∃ wi wa wb wc, m i = some wi ∧ m a = some wa ∧ m b = some wb ∧
      m c = some wc ∧ Op.mulAdd wa wb wc wi ∈ ops
  | .npCall _ _ => True
  | .npOut _ _ => ∃ w, m i = some w

theorem claim_mono (nodes : Array (Expr K)) {m m' : Nat → Option Nat} {ops ops' : List (Op K)}
    (hm : ∀ x w, m x = some w → m' x = some w) (ho : ∀ op ∈ ops, op ∈ ops') (i : Nat) (e : Expr K)
    (h : Claim nodes m ops i e) : Claim nodes m' ops' i e := by
  cases e with
  | const c => obtain ⟨w, h1, h2⟩ := h; exact ⟨w, hm _ _ h1, ho _ h2⟩
  | pub pos => obtain ⟨w, h1, h2⟩ := h; exact ⟨w, hm _ _ h1, ho _ h2⟩
  | priv _ => obtain ⟨w, h1⟩ := h; exact ⟨w, hm _ _ h1⟩
  | add a b =>
    obtain ⟨wi, wa, wb, h1, h2, h3, h4⟩ := h
    exact ⟨wi, wa, wb, hm _ _ h1, hm _ _ h2, hm _ _ h3, ho _ h4⟩
  | sub a b =>
    obtain ⟨wi, wa, h1, h2, h3⟩ := h
    refine ⟨wi, wa, hm _ _ h1, hm _ _ h2, ?_⟩
    rcases h3 with ⟨wb, h4, h5⟩ | ⟨c, nw, h4, h5, h6⟩
    · exact Or.inl ⟨wb, hm _ _ h4, ho _ h5⟩
    · exact Or.inr ⟨c, nw, h4, ho _ h5, ho _ h6⟩
  | mul a b =>
    obtain ⟨wi, wa, wb, h1, h2, h3, h4⟩ := h
    exact ⟨wi, wa, wb, hm _ _ h1, hm _ _ h2, hm _ _ h3, ho _ h4⟩
  | div a b =>
    obtain ⟨wi, wa, wb, h1, h2, h3, h4⟩ := h
    exact ⟨wi, wa, wb, hm _ _ h1, hm _ _ h2, hm _ _ h3, ho _ h4⟩
  | horner acc al pz px =>
    obtain ⟨wi, w1, w2, w3, w4, h1, h2, h3, h4, h5, h6⟩ := h
    exact ⟨wi, w1, w2, w3, w4, hm _ _ h1, hm _ _ h2, hm _ _ h3, hm _ _ h4, hm _ _ h5, ho _ h6⟩
  | boolCheck v =>
    obtain ⟨wi, wv, zw, h1, h2, h3⟩ := h
    exact ⟨wi, wv, zw, hm _ _ h1, hm _ _ h2, ho _ h3⟩
  | mulAdd a b c =>
    obtain ⟨wi, wa, wb, wc, h1, h2, h3, h4, h5⟩ := h
    exact ⟨wi, wa, wb, wc, hm _ _ h1, hm _ _ h2, hm _ _ h3, hm _ _ h4, ho _ h5⟩
  | npCall _ _ => trivial
  | npOut _ _ => obtain ⟨w, h1⟩ := h; exact ⟨w, hm _ _ h1⟩

/-- Pass of `lower` in which a node is processed: constants, publics, privates, operations. -/
def cat : Expr K → Nat
  | .const _ => 0
  | .pub _ => 1
  | .priv _ => 2
  | _ => 3

def isOut : Expr K → Bool
  | .npOut _ _ => true
  | _ => false

/-- Invariant after the first `k` nodes of pass `p`. -/
structure PassInv (nodes : Array (Expr K)) (N : Nat) (R : Array Nat) (C : Array Bool) (p k : Nat)
    (s : LState K) : Prop where
  good : Good N R C s
  /-- only processed nodes (and call outputs, pre-allocated by `emit_npo_call`) are mapped -/
  only : ∀ x w, s.e2w.getD x none = some w →
    ∃ e, nodes[x]? = some e ∧ (cat e < p ∨ (cat e = p ∧ x < k) ∨ isOut e = true)
  claims : ∀ x e, nodes[x]? = some e → (cat e < p ∨ (cat e = p ∧ x < k)) →
    Claim nodes (fun y => s.e2w.getD y none) s.ops.toList x e

/-- What one step of pass `p` must establish. -/
def StepSpec (nodes : Array (Expr K)) (N : Nat) (R : Array Nat) (C : Array Bool) (p : Nat)
    (f : LState K → Nat → Expr K → Except LowerErr (LState K)) : Prop :=
  ∀ s i e s', nodes[i]? = some e → cat e = p → Good N R C s →
    (isOut e = false → s.e2w.getD i none = none) → f s i e = .ok s' →
    Good N R C s' ∧ Ext s s' ∧ Claim nodes (fun y => s'.e2w.getD y none) s'.ops.toList i e ∧
    (∀ x w, s'.e2w.getD x none = some w →
      s.e2w.getD x none = some w ∨ x = i ∨ ∃ e', nodes[x]? = some e' ∧ isOut e' = true)

theorem pass_fold (nodes : Array (Expr K)) (N : Nat) (R : Array Nat) (C : Array Bool) (p : Nat)
    (f : LState K → Nat → Expr K → Except LowerErr (LState K))
    (hskip : ∀ s i e, cat e ≠ p → f s i e = .ok s) (hstep : StepSpec nodes N R C p f)
    (s : LState K) (h0 : PassInv nodes N R C p 0 s) :
    ∀ k, k ≤ nodes.size → ∀ s', (List.range k).foldlM (fun st i =>
      match nodes[i]? with
      | some e => f st i e
      | none => .ok st) s = .ok s' → PassInv nodes N R C p k s' := by
  intro k
  induction k with
  | zero =>
    intro _ s' h
    simp only [List.range_zero, List.foldlM_nil, pure, Except.pure] at h
    cases h
    exact h0
  | succ k ih =>
    intro hk s' h
    rw [List.range_succ, List.foldlM_append] at h
    simp only [bind, Except.bind] at h
    split at h
    · cases h
    · rename_i s1 h1
      have I := ih (by omega) s1 h1
      have hk' : k < nodes.size := by omega
      simp only [List.foldlM_cons, List.foldlM_nil, bind, Except.bind, pure, Except.pure] at h
      have hke : nodes[k]? = some nodes[k] := Array.getElem?_eq_getElem hk'
      rw [hke] at h
      simp only at h
      by_cases hc : cat nodes[k] = p
      · -- the node is processed in this pass
        have hnone : isOut nodes[k] = false → s1.e2w.getD k none = none := by
          intro hno
          cases hv : s1.e2w.getD k none with
          | none => rfl
          | some w =>
            obtain ⟨e, he, hcase⟩ := I.only k w hv
            rw [hke] at he
            cases he
            rcases hcase with h1 | ⟨_, h2⟩ | h3
            · omega
            · omega
            · rw [hno] at h3; cases h3
        have hres : f s1 k nodes[k] = .ok s' := by
          split at h
          · cases h
          · rename_i s2 h2
            cases h
            exact h2
        obtain ⟨hG, hE, hCl, hOnly⟩ := hstep s1 k nodes[k] s' hke hc I.good hnone hres
        refine ⟨hG, ?_, ?_⟩
        · intro x w hw
          rcases hOnly x w hw with h1 | h2 | ⟨e', he', ho'⟩
          · obtain ⟨e, he, hcase⟩ := I.only x w h1
            refine ⟨e, he, ?_⟩
            rcases hcase with h1 | ⟨h2, h3⟩ | h3
            · exact Or.inl h1
            · exact Or.inr (Or.inl ⟨h2, by omega⟩)
            · exact Or.inr (Or.inr h3)
          · subst h2
            exact ⟨nodes[x], hke, Or.inr (Or.inl ⟨hc, by omega⟩)⟩
          · exact ⟨e', he', Or.inr (Or.inr ho')⟩
        · intro x e he hcase
          by_cases hxk : x = k
          · subst hxk
            rw [hke] at he
            cases he
            exact hCl
          · have : cat e < p ∨ (cat e = p ∧ x < k) := by
              rcases hcase with h1 | ⟨h2, h3⟩
              · exact Or.inl h1
              · exact Or.inr ⟨h2, by omega⟩
            exact claim_mono nodes hE.e2w hE.ops x e (I.claims x e he this)
      · -- skipped
        rw [hskip s1 k nodes[k] hc] at h
        simp only at h
        cases h
        refine ⟨I.good, ?_, ?_⟩
        · intro x w hw
          obtain ⟨e, he, hcase⟩ := I.only x w hw
          refine ⟨e, he, ?_⟩
          rcases hcase with h1 | ⟨h2, h3⟩ | h3
          · exact Or.inl h1
          · exact Or.inr (Or.inl ⟨h2, by omega⟩)
          · exact Or.inr (Or.inr h3)
        · intro x e he hcase
          have : cat e < p ∨ (cat e = p ∧ x < k) := by
            rcases hcase with h1 | ⟨h2, h3⟩
            · exact Or.inl h1
            · refine Or.inr ⟨h2, ?_⟩
              by_contra hge
              have : x = k := by omega
              subst this
              rw [hke] at he
              cases he
              exact hc h2
          exact I.claims x e he this

/-! ### The passes of `lower`, named -/

theorem resolve_ok {s : LState K} {e a : Nat} :
    s.resolve e = .ok a ↔ s.e2w.getD e none = some a := by
  unfold LState.resolve
  cases h : s.e2w.getD e none <;> simp

def fConst : LState K → Nat → Expr K → Except LowerErr (LState K) := fun st i e =>
  match e with
  | .const v => let (st, w) := st.allocWitness i; .ok ((st.pushOp (.const w v)).setW i w)
  | _ => .ok st

def fPub : LState K → Nat → Expr K → Except LowerErr (LState K) := fun st i e =>
  match e with
  | .pub pos =>
    let (st, w) := st.allocWitness i
    let st := (st.pushOp (.pub w pos)).setW i w
    .ok { st with pubRows := st.pubRows.setIfInBounds pos w }
  | _ => .ok st

def fPriv : LState K → Nat → Expr K → Except LowerErr (LState K) := fun st i e =>
  match e with
  | .priv pos =>
    let (st, w) := st.allocWitness i
    let st := st.setW i w
    .ok { st with privRows := st.privRows.setIfInBounds pos w }
  | _ => .ok st

section steps
variable {nodes : Array (Expr K)} {R : Array Nat} {C : Array Bool}

theorem lt_of_get {i : Nat} {e : Expr K} (h : nodes[i]? = some e) : i < nodes.size + 1 := by
  by_contra hge
  rw [Array.getElem?_eq_none (by omega)] at h
  cases h

theorem step_const (hRC : RCok (nodes.size + 1) R C) :
    StepSpec nodes (nodes.size + 1) R C 0 fConst := by
  intro s i e s' hi hc hG hnone h
  cases e <;> simp [cat] at hc
  rename_i v
  simp only [fConst] at h
  cases hal : s.allocWitness i with
  | mk s1 w =>
    rw [hal] at h
    simp only [Except.ok.injEq] at h
    subst h
    obtain ⟨hG1, he, hops, hroot, _⟩ := alloc_spec hRC hG hal
    obtain ⟨g, ext, hget, honly⟩ := finish (s' := (s1.pushOp (.const w v)).setW i w) hG1 he hroot
      (lt_of_get hi) (hnone rfl) rfl rfl rfl rfl
      (by
        intro op hop
        simp only [LState.setW, LState.pushOp, Array.toList_push, List.mem_append,
          List.mem_singleton] at hop
        rcases hop with hop | rfl
        · exact hG1.wf op hop
        · rfl)
      (by
        intro op hop
        simp only [LState.setW, LState.pushOp, Array.toList_push, List.mem_append, hops]
        exact Or.inl hop)
    refine ⟨g, ext, ⟨w, hget, ?_⟩, fun x w' hw => ?_⟩
    · simp [LState.setW, LState.pushOp]
    · rcases honly x w' hw with h1 | h2
      · exact Or.inl h1
      · exact Or.inr (Or.inl h2)

theorem step_pub (hRC : RCok (nodes.size + 1) R C) :
    StepSpec nodes (nodes.size + 1) R C 1 fPub := by
  intro s i e s' hi hc hG hnone h
  cases e <;> simp [cat] at hc
  rename_i pos
  simp only [fPub] at h
  cases hal : s.allocWitness i with
  | mk s1 w =>
    rw [hal] at h
    simp only [Except.ok.injEq] at h
    subst h
    obtain ⟨hG1, he, hops, hroot, _⟩ := alloc_spec hRC hG hal
    obtain ⟨g, ext, hget, honly⟩ := finish
      (s' := { (s1.pushOp (.pub w pos)).setW i w with
        pubRows := ((s1.pushOp (.pub w pos)).setW i w).pubRows.setIfInBounds pos w })
      hG1 he hroot (lt_of_get hi) (hnone rfl) rfl rfl rfl rfl
      (by
        intro op hop
        simp only [LState.setW, LState.pushOp, Array.toList_push, List.mem_append,
          List.mem_singleton] at hop
        rcases hop with hop | rfl
        · exact hG1.wf op hop
        · rfl)
      (by
        intro op hop
        simp only [LState.setW, LState.pushOp, Array.toList_push, List.mem_append, hops]
        exact Or.inl hop)
    refine ⟨g, ext, ⟨w, hget, ?_⟩, fun x w' hw => ?_⟩
    · simp [LState.setW, LState.pushOp]
    · rcases honly x w' hw with h1 | h2
      · exact Or.inl h1
      · exact Or.inr (Or.inl h2)

theorem step_priv (hRC : RCok (nodes.size + 1) R C) :
    StepSpec nodes (nodes.size + 1) R C 2 fPriv := by
  intro s i e s' hi hc hG hnone h
  cases e <;> simp [cat] at hc
  rename_i pos
  simp only [fPriv] at h
  cases hal : s.allocWitness i with
  | mk s1 w =>
    rw [hal] at h
    simp only [Except.ok.injEq] at h
    subst h
    obtain ⟨hG1, he, hops, hroot, _⟩ := alloc_spec hRC hG hal
    obtain ⟨g, ext, hget, honly⟩ := finish
      (s' := { s1.setW i w with privRows := (s1.setW i w).privRows.setIfInBounds pos w })
      hG1 he hroot (lt_of_get hi) (hnone rfl) rfl rfl rfl rfl
      (by intro op hop; exact hG1.wf op hop)
      (by intro op hop; simp only [LState.setW, hops]; exact hop)
    refine ⟨g, ext, ⟨w, hget⟩, fun x w' hw => ?_⟩
    rcases honly x w' hw with h1 | h2
    · exact Or.inl h1
    · exact Or.inr (Or.inl h2)

/-! ### `emit_npo_call` -/

theorem npOutputsOf_isOut {opId : Nat} {outs : List (Nat × Nat)}
    (h : npOutputsOf nodes opId = some outs) :
    ∀ o ∈ outs, ∃ e, nodes[o.2]? = some e ∧ isOut e = true := by
  unfold npOutputsOf at h
  simp only at h
  split at h
  · cases h
    intro o ho
    rw [List.mem_mergeSort] at ho
    obtain ⟨i, _, hf⟩ := List.mem_filterMap.mp ho
    split at hf
    · rename_i call idx hn
      split at hf
      · split at hf
        · cases hf
          exact ⟨_, hn, rfl⟩
        · cases hf
      · cases hf
    · cases hf
  · cases h

/-- Only-new-outputs relation between two lowering states. -/
def NewOuts (nodes : Array (Expr K)) (s s' : LState K) : Prop :=
  ∀ x w, s'.e2w.getD x none = some w →
    s.e2w.getD x none = some w ∨ ∃ e', nodes[x]? = some e' ∧ isOut e' = true

theorem prealloc_spec (hRC : RCok (nodes.size + 1) R C) (outs : List (Nat × Nat))
    (houts : ∀ o ∈ outs, ∃ e, nodes[o.2]? = some e ∧ isOut e = true) :
    ∀ s : LState K, Good (nodes.size + 1) R C s →
      let s' := outs.foldl (fun (st : LState K) (o : Nat × Nat) =>
        match st.e2w.getD o.2 none with
        | some _ => st
        | none => let (st', w) := st.allocWitness o.2; st'.setW o.2 w) s
      Good (nodes.size + 1) R C s' ∧ Ext s s' ∧ NewOuts nodes s s' := by
  induction outs with
  | nil => intro s hG; exact ⟨hG, Ext.refl s, fun x w h => Or.inl h⟩
  | cons o rest ih =>
    intro s hG
    simp only [List.foldl_cons]
    obtain ⟨e, he, hout⟩ := houts o (List.mem_cons_self ..)
    have ih' := ih (fun o' ho' => houts o' (List.mem_cons_of_mem _ ho'))
    cases hv : s.e2w.getD o.2 none with
    | some w0 =>
      simp only []
      exact ih' s hG
    | none =>
      simp only []
      cases hal : s.allocWitness o.2 with
      | mk s1 w =>
        simp only []
        obtain ⟨hG1, he1, hops1, hroot, _⟩ := alloc_spec hRC hG hal
        obtain ⟨g, ext, _, honly, _⟩ := finish_ops (s' := s1.setW o.2 w) hG1 he1 hops1 hroot
          (lt_of_get he) hv rfl rfl rfl rfl [] (by simp [LState.setW]) (by simp)
        obtain ⟨g2, ext2, new2⟩ := ih' (s1.setW o.2 w) g
        refine ⟨g2, ext.trans ext2, fun x w' hw => ?_⟩
        rcases new2 x w' hw with h1 | h2
        · rcases honly x w' h1 with h3 | h4
          · exact Or.inl h3
          · subst h4; exact Or.inr ⟨e, he, hout⟩
        · exact Or.inr h2

theorem emitNpCall_spec (hRC : RCok (nodes.size + 1) R C) (npOps : Array NpData) (opId : Nat)
    {s s' : LState K} (hG : Good (nodes.size + 1) R C s)
    (h : s.emitNpCall nodes npOps opId = .ok s') :
    Good (nodes.size + 1) R C s' ∧ Ext s s' ∧ NewOuts nodes s s' := by
  unfold LState.emitNpCall at h
  split at h
  · cases h; exact ⟨hG, Ext.refl s, fun x w h => Or.inl h⟩
  · split at h
    · cases h
    · rename_i data _
      simp only at h
      split at h
      · cases h
      · rename_i outs houts
        have hGa : Good (nodes.size + 1) R C { s with emitted := s.emitted.setIfInBounds opId true } :=
          hG.congr rfl rfl rfl rfl hG.wf
        obtain ⟨gb, extb, newb⟩ := prealloc_spec hRC outs (npOutputsOf_isOut houts) _ hGa
        simp only at gb extb newb
        generalize (outs.foldl (fun (st : LState K) (o : Nat × Nat) =>
          match st.e2w.getD o.2 none with
          | some _ => st
          | none => let (st', w) := st.allocWitness o.2; st'.setW o.2 w)
          { s with emitted := s.emitted.setIfInBounds opId true }) = sb at h gb extb newb
        have hpush : ∀ op : Op K, opWF op = true →
            Good (nodes.size + 1) R C (sb.pushOp op) ∧ Ext s (sb.pushOp op) ∧
            NewOuts nodes s (sb.pushOp op) := by
          intro op hop
          refine ⟨gb.congr rfl rfl rfl rfl ?_, ⟨fun x w hw => extb.e2w x w hw, ?_⟩, newb⟩
          · intro o ho
            simp only [LState.pushOp, Array.toList_push, List.mem_append, List.mem_singleton] at ho
            rcases ho with ho | rfl
            · exact gb.wf o ho
            · exact hop
          · intro o ho
            simp only [LState.pushOp, Array.toList_push, List.mem_append]
            exact Or.inl (extb.ops o ho)
        split at h
        · split at h
          · cases h
          · cases h
            exact hpush _ rfl
        · split at h
          · split at h
            · cases h
            · cases h
              exact hpush _ rfl
          · cases h

/-! ### One step of `emit_operations` -/

theorem only_of_or {s s' : LState K} {i : Nat}
    (h : ∀ x w, s'.e2w.getD x none = some w → s.e2w.getD x none = some w ∨ x = i) :
    ∀ x w, s'.e2w.getD x none = some w →
      s.e2w.getD x none = some w ∨ x = i ∨ ∃ e', nodes[x]? = some e' ∧ isOut e' = true :=
  fun x w hw => (h x w hw).elim Or.inl (fun h => Or.inr (Or.inl h))

theorem step_emit (hRC : RCok (nodes.size + 1) R C) (npOps : Array NpData) :
    StepSpec nodes (nodes.size + 1) R C 3 (fun st i e => st.emitNode nodes npOps i e) := by
  intro s i e s' hi hc hG hnone h
  have hiN := lt_of_get hi
  cases e with
  | const _ => simp [cat] at hc
  | pub _ => simp [cat] at hc
  | priv _ => simp [cat] at hc
  | add l r =>
    simp only [LState.emitNode] at h
    cases hal : s.allocWitness i with
    | mk s1 out =>
      rw [hal] at h
      obtain ⟨hG1, he, hops, hroot, _⟩ := alloc_spec hRC hG hal
      cases hl : s1.resolve l with
      | error _ => simp [hl] at h
      | ok a =>
        cases hr : s1.resolve r with
        | error _ => simp [hl, hr] at h
        | ok b =>
          simp only [hl, hr, Except.ok.injEq] at h
          subst h
          obtain ⟨g, ext, hget, honly, hmem⟩ := finish_ops
            (s' := (s1.pushOp (Op.add a b out)).setW i out) hG1 he hops hroot hiN (hnone rfl)
            rfl rfl rfl rfl [Op.add a b out] (by simp [LState.setW, LState.pushOp])
            (by simp [opWF, Op.add])
          have ha := ext.e2w l a (he ▸ resolve_ok.mp hl)
          have hb := ext.e2w r b (he ▸ resolve_ok.mp hr)
          exact ⟨g, ext, ⟨out, a, b, hget, ha, hb, hmem _ (by simp)⟩, only_of_or honly⟩
  | mul l r =>
    simp only [LState.emitNode] at h
    cases hal : s.allocWitness i with
    | mk s1 out =>
      rw [hal] at h
      obtain ⟨hG1, he, hops, hroot, _⟩ := alloc_spec hRC hG hal
      cases hl : s1.resolve l with
      | error _ => simp [hl] at h
      | ok a =>
        cases hr : s1.resolve r with
        | error _ => simp [hl, hr] at h
        | ok b =>
          simp only [hl, hr, Except.ok.injEq] at h
          subst h
          obtain ⟨g, ext, hget, honly, hmem⟩ := finish_ops
            (s' := (s1.pushOp (Op.mul a b out)).setW i out) hG1 he hops hroot hiN (hnone rfl)
            rfl rfl rfl rfl [Op.mul a b out] (by simp [LState.setW, LState.pushOp])
            (by simp [opWF, Op.mul])
          have ha := ext.e2w l a (he ▸ resolve_ok.mp hl)
          have hb := ext.e2w r b (he ▸ resolve_ok.mp hr)
          exact ⟨g, ext, ⟨out, a, b, hget, ha, hb, hmem _ (by simp)⟩, only_of_or honly⟩
  | div l r =>
    simp only [LState.emitNode] at h
    cases hal : s.allocWitness i with
    | mk s1 q =>
      rw [hal] at h
      obtain ⟨hG1, he, hops, hroot, _⟩ := alloc_spec hRC hG hal
      cases hl : s1.resolve l with
      | error _ => simp [hl] at h
      | ok a =>
        cases hr : s1.resolve r with
        | error _ => simp [hl, hr] at h
        | ok b =>
          simp only [hl, hr, Except.ok.injEq] at h
          subst h
          obtain ⟨g, ext, hget, honly, hmem⟩ := finish_ops
            (s' := (s1.pushOp (Op.mul b q a)).setW i q) hG1 he hops hroot hiN (hnone rfl)
            rfl rfl rfl rfl [Op.mul b q a] (by simp [LState.setW, LState.pushOp])
            (by simp [opWF, Op.mul])
          have ha := ext.e2w l a (he ▸ resolve_ok.mp hl)
          have hb := ext.e2w r b (he ▸ resolve_ok.mp hr)
          exact ⟨g, ext, ⟨q, a, b, hget, ha, hb, hmem _ (by simp)⟩, only_of_or honly⟩
  | mulAdd a b c =>
    simp only [LState.emitNode] at h
    cases hal : s.allocWitness i with
    | mk s1 out =>
      rw [hal] at h
      obtain ⟨hG1, he, hops, hroot, _⟩ := alloc_spec hRC hG hal
      cases h1 : s1.resolve a with
      | error _ => simp [h1] at h
      | ok wa =>
        cases h2 : s1.resolve b with
        | error _ => simp [h1, h2] at h
        | ok wb =>
          cases h3 : s1.resolve c with
          | error _ => simp [h1, h2, h3] at h
          | ok wc =>
            simp only [h1, h2, h3, Except.ok.injEq] at h
            subst h
            obtain ⟨g, ext, hget, honly, hmem⟩ := finish_ops
              (s' := (s1.pushOp (Op.mulAdd wa wb wc out)).setW i out) hG1 he hops hroot hiN
              (hnone rfl) rfl rfl rfl rfl [Op.mulAdd wa wb wc out]
              (by simp [LState.setW, LState.pushOp]) (by simp [opWF, Op.mulAdd])
            have ha := ext.e2w a wa (he ▸ resolve_ok.mp h1)
            have hb := ext.e2w b wb (he ▸ resolve_ok.mp h2)
            have hc' := ext.e2w c wc (he ▸ resolve_ok.mp h3)
            exact ⟨g, ext, ⟨out, wa, wb, wc, hget, ha, hb, hc', hmem _ (by simp)⟩,
              only_of_or honly⟩
  | horner acc al pz px =>
    simp only [LState.emitNode] at h
    cases hal : s.allocWitness i with
    | mk s1 out =>
      rw [hal] at h
      obtain ⟨hG1, he, hops, hroot, _⟩ := alloc_spec hRC hG hal
      cases h1 : s1.resolve acc with
      | error _ => simp [h1] at h
      | ok w1 =>
        cases h2 : s1.resolve al with
        | error _ => simp [h1, h2] at h
        | ok w2 =>
          cases h3 : s1.resolve pz with
          | error _ => simp [h1, h2, h3] at h
          | ok w3 =>
            cases h4 : s1.resolve px with
            | error _ => simp [h1, h2, h3, h4] at h
            | ok w4 =>
              simp only [h1, h2, h3, h4, Except.ok.injEq] at h
              subst h
              obtain ⟨g, ext, hget, honly, hmem⟩ := finish_ops
                (s' := (s1.pushOp (Op.horner w4 w2 w3 out w1)).setW i out) hG1 he hops hroot hiN
                (hnone rfl) rfl rfl rfl rfl [Op.horner w4 w2 w3 out w1]
                (by simp [LState.setW, LState.pushOp]) (by simp [opWF, Op.horner])
              have e1 := ext.e2w acc w1 (he ▸ resolve_ok.mp h1)
              have e2 := ext.e2w al w2 (he ▸ resolve_ok.mp h2)
              have e3 := ext.e2w pz w3 (he ▸ resolve_ok.mp h3)
              have e4 := ext.e2w px w4 (he ▸ resolve_ok.mp h4)
              exact ⟨g, ext, ⟨out, w1, w2, w3, w4, hget, e1, e2, e3, e4, hmem _ (by simp)⟩,
                only_of_or honly⟩
  | boolCheck v =>
    simp only [LState.emitNode] at h
    cases hal : s.allocWitness i with
    | mk s1 out =>
      rw [hal] at h
      obtain ⟨hG1, he, hops, hroot, _⟩ := alloc_spec hRC hG hal
      cases h1 : s1.resolve v with
      | error _ => simp [h1] at h
      | ok vw =>
        cases h2 : s1.resolve 0 with
        | error _ => simp [h1, h2] at h
        | ok zw =>
          simp only [h1, h2, Except.ok.injEq] at h
          subst h
          obtain ⟨g, ext, hget, honly, hmem⟩ := finish_ops
            (s' := (s1.pushOp (.alu .boolCheck vw zw (some vw) out none)).setW i out) hG1 he hops
            hroot hiN (hnone rfl) rfl rfl rfl rfl [.alu .boolCheck vw zw (some vw) out none]
            (by simp [LState.setW, LState.pushOp]) (by simp [opWF])
          have e1 := ext.e2w v vw (he ▸ resolve_ok.mp h1)
          exact ⟨g, ext, ⟨out, vw, zw, hget, e1, hmem _ (by simp)⟩, only_of_or honly⟩
  | sub l r =>
    simp only [LState.emitNode] at h
    cases hal : s.allocWitness i with
    | mk s1 res =>
      rw [hal] at h
      obtain ⟨hG1, he, hops, hroot, _⟩ := alloc_spec hRC hG hal
      cases h1 : s1.resolve l with
      | error _ => simp [h1] at h
      | ok lw =>
        simp only [h1] at h
        split at h
        · -- fast path: `mul - const`
          rename_i x1 x2 c hnl hnr
          cases hal2 : s1.allocWitness nodes.size with
          | mk s2 nw =>
            rw [hal2] at h
            simp only [Except.ok.injEq] at h
            subst h
            obtain ⟨hG2, he2, hops2, _, hmono⟩ := alloc_spec hRC hG1 hal2
            obtain ⟨g, ext, hget, honly, hmem⟩ := finish_ops
              (s' := ((s2.pushOp (.const nw (-c))).pushOp (Op.add lw nw res)).setW i res) hG2
              (he2.trans he) (hops2.trans hops) (fun hc => hmono _ _ (hroot hc)) hiN (hnone rfl)
              rfl rfl rfl rfl [.const nw (-c), Op.add lw nw res]
              (by simp [LState.setW, LState.pushOp]) (by simp [opWF, Op.add])
            have e1 := ext.e2w l lw (he ▸ resolve_ok.mp h1)
            exact ⟨g, ext, ⟨res, lw, hget, e1, Or.inr ⟨c, nw, hnr, hmem _ (by simp),
              hmem _ (by simp)⟩⟩, only_of_or honly⟩
        · cases h2 : s1.resolve r with
          | error _ => simp [h2] at h
          | ok rw' =>
            simp only [h2, Except.ok.injEq] at h
            subst h
            obtain ⟨g, ext, hget, honly, hmem⟩ := finish_ops
              (s' := (s1.pushOp (Op.add rw' res lw)).setW i res) hG1 he hops hroot hiN (hnone rfl)
              rfl rfl rfl rfl [Op.add rw' res lw] (by simp [LState.setW, LState.pushOp])
              (by simp [opWF, Op.add])
            have e1 := ext.e2w l lw (he ▸ resolve_ok.mp h1)
            have e2 := ext.e2w r rw' (he ▸ resolve_ok.mp h2)
            exact ⟨g, ext, ⟨res, lw, hget, e1, Or.inl ⟨rw', e2, hmem _ (by simp)⟩⟩,
              only_of_or honly⟩
  | npCall op ins =>
    simp only [LState.emitNode] at h
    obtain ⟨g, ext, new⟩ := emitNpCall_spec hRC npOps op hG h
    exact ⟨g, ext, trivial, fun x w hw => (new x w hw).elim Or.inl (fun h => Or.inr (Or.inr h))⟩
  | npOut call idx =>
    simp only [LState.emitNode] at h
    split at h
    · rename_i op ins hcall
      split at h
      · cases h
      · rename_i s1 hs1
        obtain ⟨g1, ext1, new1⟩ := emitNpCall_spec hRC npOps op hG hs1
        split at h
        · rename_i w hw
          cases h
          exact ⟨g1, ext1, ⟨w, hw⟩,
            fun x w hw => (new1 x w hw).elim Or.inl (fun h => Or.inr (Or.inr h))⟩
        · rename_i hw
          cases hal : s1.allocWitness i with
          | mk s2 w =>
            rw [hal] at h
            simp only [Except.ok.injEq] at h
            subst h
            obtain ⟨hG2, he2, hops2, hroot2, _⟩ := alloc_spec hRC g1 hal
            obtain ⟨g, ext, hget, honly, _⟩ := finish_ops (s' := s2.setW i w) hG2 he2 hops2 hroot2
              hiN hw rfl rfl rfl rfl [] (by simp [LState.setW]) (by simp)
            refine ⟨g, ext1.trans ext, ⟨w, hget⟩, fun x w' hw' => ?_⟩
            rcases honly x w' hw' with h1 | h2
            · exact (new1 x w' h1).elim Or.inl (fun h => Or.inr (Or.inr h))
            · exact Or.inr (Or.inl h2)
    · cases h

end steps

/-! ### Connect classes -/

structure DsuInv (N : Nat) (rep : Array Nat) : Prop where
  sz : rep.size = N
  lt : ∀ x, x < N → rep.getD x x < N

theorem getD_map_lt (rep : Array Nat) (f : Nat → Nat) (x : Nat) (hx : x < rep.size) :
    (rep.map f).getD x x = f (rep.getD x x) := by
  simp [Array.getD_eq_getD_getElem?, hx]

theorem union_spec {N : Nat} {rep : Array Nat} (h : DsuInv N rep) {a b : Nat} (ha : a < N)
    (hb : b < N) :
    DsuInv N (Dsu.union rep a b) ∧
    (Dsu.union rep a b).getD a a = (Dsu.union rep a b).getD b b ∧
    (∀ x y, x < N → y < N → rep.getD x x = rep.getD y y →
      (Dsu.union rep a b).getD x x = (Dsu.union rep a b).getD y y) := by
  unfold Dsu.union
  simp only
  by_cases hab : rep.getD a a = rep.getD b b
  · rw [if_pos hab]
    exact ⟨h, hab, fun _ _ _ _ h => h⟩
  · rw [if_neg hab]
    have hsz := h.sz
    refine ⟨⟨by simp [hsz], fun x hx => ?_⟩, ?_, fun x y hx hy hxy => ?_⟩
    · rw [getD_map_lt _ _ _ (by omega)]
      split
      · exact h.lt a ha
      · exact h.lt x hx
    · rw [getD_map_lt _ _ _ (by omega), getD_map_lt _ _ _ (by omega)]
      simp [hab]
    · rw [getD_map_lt _ _ _ (by omega), getD_map_lt _ _ _ (by omega), hxy]

theorem ofConnects_spec {N : Nat} (cs : List (Nat × Nat))
    (hcs : ∀ ab ∈ cs, ab.1 < N ∧ ab.2 < N) :
    ∀ rep : Array Nat, DsuInv N rep →
      let r' := cs.foldl (fun rep ab => Dsu.union rep ab.1 ab.2) rep
      DsuInv N r' ∧ (∀ ab ∈ cs, r'.getD ab.1 ab.1 = r'.getD ab.2 ab.2) ∧
      (∀ x y, x < N → y < N → rep.getD x x = rep.getD y y → r'.getD x x = r'.getD y y) := by
  induction cs with
  | nil => intro rep h; exact ⟨h, (fun _ h => nomatch h), fun _ _ _ _ h => h⟩
  | cons ab rest ih =>
    intro rep h
    simp only [List.foldl_cons]
    obtain ⟨ha, hb⟩ := hcs ab (List.mem_cons_self ..)
    obtain ⟨h1, h2, h3⟩ := union_spec h ha hb
    obtain ⟨i1, i2, i3⟩ := ih (fun ab' h' => hcs ab' (List.mem_cons_of_mem _ h')) _ h1
    refine ⟨i1, fun ab' hab' => ?_, fun x y hx hy hxy => i3 x y hx hy (h3 x y hx hy hxy)⟩
    rcases List.mem_cons.mp hab' with rfl | hr
    · exact i3 _ _ ha hb h2
    · exact i2 ab' hr

theorem range_dsuInv (N : Nat) : DsuInv N (Array.range N) := by
  refine ⟨by simp, fun x hx => ?_⟩
  simp [Array.getD_eq_getD_getElem?, hx]

theorem inC_spec (cs : List (Nat × Nat)) :
    ∀ m : Array Bool,
      let m' := cs.foldl (fun (m : Array Bool) ab =>
        (m.setIfInBounds ab.1 true).setIfInBounds ab.2 true) m
      m'.size = m.size ∧ (∀ x, m.getD x false = true → m'.getD x false = true) ∧
      (∀ ab ∈ cs, ab.1 < m.size → ab.2 < m.size →
        m'.getD ab.1 false = true ∧ m'.getD ab.2 false = true) := by
  induction cs with
  | nil => intro m; exact ⟨rfl, fun _ h => h, (fun _ h => nomatch h)⟩
  | cons ab rest ih =>
    intro m
    simp only [List.foldl_cons]
    obtain ⟨i1, i2, i3⟩ := ih ((m.setIfInBounds ab.1 true).setIfInBounds ab.2 true)
    have hsz : ((m.setIfInBounds ab.1 true).setIfInBounds ab.2 true).size = m.size := by simp
    have hmono : ∀ x, m.getD x false = true →
        ((m.setIfInBounds ab.1 true).setIfInBounds ab.2 true).getD x false = true := by
      intro x hx
      rw [getD_setIfInBounds, getD_setIfInBounds]
      split
      · rfl
      · split
        · rfl
        · exact hx
    refine ⟨i1.trans hsz, fun x hx => i2 x (hmono x hx), fun ab' hab' h1 h2 => ?_⟩
    rcases List.mem_cons.mp hab' with rfl | hr
    · constructor
      · apply i2
        rw [getD_setIfInBounds, getD_setIfInBounds]
        split
        · rfl
        · simp [h1]
      · apply i2
        rw [getD_setIfInBounds]
        simp [h2]
    · exact i3 ab' hr (by rw [hsz]; exact h1) (by rw [hsz]; exact h2)

/-! ### `backfill_connect_mappings` -/

def backfillStep (st : LState K) (e : Nat) : LState K :=
  if st.inConnect.getD e false then
    match st.e2w.getD e none with
    | some _ => st
    | none =>
      match st.rootW.getD (st.rep.getD e e) none with
      | some w => st.setW e w
      | none => st
  else st

theorem backfillStep_spec {N : Nat} {R : Array Nat} {C : Array Bool} (hCsz : C.size = N)
    {s : LState K} (hG : Good N R C s) (e : Nat) :
    Good N R C (backfillStep s e) ∧ Ext s (backfillStep s e) ∧
    (backfillStep s e).rootW = s.rootW ∧
    (C.getD e false = true → s.rootW.getD (R.getD e e) none ≠ none →
      (backfillStep s e).e2w.getD e none ≠ none) := by
  unfold backfillStep
  split
  · rename_i hc
    rw [hG.inC] at hc
    split
    · rename_i w hv
      exact ⟨hG, Ext.refl s, rfl, fun _ _ => by rw [hv]; simp⟩
    · rename_i hv
      split
      · rename_i w hr
        rw [hG.rep] at hr
        have heN : e < N := by rw [← hCsz]; exact getD_true_lt C e hc
        obtain ⟨g, ext, hget, _, _⟩ := finish_ops (s' := s.setW e w) hG rfl rfl (fun _ => hr) heN hv
          rfl rfl rfl rfl [] (by simp [LState.setW]) (by simp)
        exact ⟨g, ext, rfl, fun _ _ => by rw [hget]; simp⟩
      · rename_i hr
        rw [hG.rep] at hr
        exact ⟨hG, Ext.refl s, rfl, fun _ h => absurd hr h⟩
  · rename_i hc
    rw [hG.inC] at hc
    exact ⟨hG, Ext.refl s, rfl, fun h => absurd h hc⟩

theorem backfill_spec {N : Nat} {R : Array Nat} {C : Array Bool} (hCsz : C.size = N)
    {s : LState K} (hG : Good N R C s) :
    ∀ k, let s' := (List.range k).foldl backfillStep s
      Good N R C s' ∧ Ext s s' ∧ s'.rootW = s.rootW ∧
      (∀ e, e < k → C.getD e false = true → s.rootW.getD (R.getD e e) none ≠ none →
        s'.e2w.getD e none ≠ none) := by
  intro k
  induction k with
  | zero => exact ⟨hG, Ext.refl s, rfl, fun e he => by omega⟩
  | succ k ih =>
    simp only [List.range_succ, List.foldl_append, List.foldl_cons, List.foldl_nil]
    obtain ⟨g, ext, hr, hall⟩ := ih
    obtain ⟨g2, ext2, hr2, hk⟩ := backfillStep_spec hCsz g k
    refine ⟨g2, ext.trans ext2, hr2.trans hr, fun e he hc hroot => ?_⟩
    by_cases hek : e = k
    · subst hek
      exact hk hc (by rw [hr]; exact hroot)
    · have := hall e (by omega) hc hroot
      cases hv : ((List.range k).foldl backfillStep s).e2w.getD e none with
      | none => exact absurd hv this
      | some w => rw [ext2.e2w e w hv]; simp

end claims

/-! ### Assembly -/

section main
variable [Neg K]

def inCOf (b : BState K) : Array Bool :=
  b.connects.foldl (fun (m : Array Bool) ab =>
    (m.setIfInBounds ab.1 true).setIfInBounds ab.2 true) (Array.replicate (b.nodes.size + 1) false)

def lowerInit (b : BState K) : LState K :=
  { rep := Dsu.ofConnects (b.nodes.size + 1) b.connects, inConnect := inCOf b,
    rootW := Array.replicate (b.nodes.size + 1) none, next := 0, ops := #[],
    e2w := Array.replicate (b.nodes.size + 1) none,
    pubRows := Array.replicate b.pubCount 0, privRows := Array.replicate b.privCount 0,
    emitted := Array.replicate b.npOps.size false }

/-- `lower`, with its passes named. -/
theorem lower_eq (b : BState K) :
    lower b = (do
      let s1 ← forNodes b.nodes (lowerInit b) fConst
      let s2 ← forNodes b.nodes s1 fPub
      let s3 ← forNodes b.nodes s2 fPriv
      let s4 ← forNodes b.nodes s3 fun st i e => st.emitNode b.nodes b.npOps i e
      match (List.range b.npOps.size).find? fun i => !(s4.emitted.getD i false) with
      | some i => .error (.unanchoredNp i)
      | none =>
        let s5 := (List.range (b.nodes.size + 1)).foldl backfillStep s4
        .ok { ops := s5.ops, pubRows := s5.pubRows, privRows := s5.privRows, e2w := s5.e2w,
              witnessCount := s5.next }) := rfl

omit [Neg K] in
/-- An expression that carries a value (exists and is not a call node; call nodes have no
witness slot). -/
def proper (nodes : Array (Expr K)) (x : Nat) : Bool :=
  match nodes[x]? with
  | some (.npCall _ _) => false
  | some _ => true
  | none => false

omit [Neg K] in
/-- Every `connect` names two existing expressions, at least one of which carries a value. -/
def connectsOk (b : BState K) : Bool :=
  b.connects.all fun ab => decide (ab.1 < b.nodes.size) && decide (ab.2 < b.nodes.size) &&
    (proper b.nodes ab.1 || proper b.nodes ab.2)

theorem claim_mapped {nodes : Array (Expr K)} {m : Nat → Option Nat} {ops : List (Op K)} {i : Nat}
    {e : Expr K} (h : Claim nodes m ops i e) (hne : ∀ op ins, e ≠ .npCall op ins) :
    ∃ w, m i = some w := by
  cases e with
  | const c => obtain ⟨w, h1, _⟩ := h; exact ⟨w, h1⟩
  | pub pos => obtain ⟨w, h1, _⟩ := h; exact ⟨w, h1⟩
  | priv _ => exact h
  | add a b => obtain ⟨w, _, _, h1, _⟩ := h; exact ⟨w, h1⟩
  | sub a b => obtain ⟨w, _, h1, _⟩ := h; exact ⟨w, h1⟩
  | mul a b => obtain ⟨w, _, _, h1, _⟩ := h; exact ⟨w, h1⟩
  | div a b => obtain ⟨w, _, _, h1, _⟩ := h; exact ⟨w, h1⟩
  | horner _ _ _ _ => obtain ⟨w, _, _, _, _, h1, _⟩ := h; exact ⟨w, h1⟩
  | boolCheck v => obtain ⟨w, _, _, h1, _⟩ := h; exact ⟨w, h1⟩
  | mulAdd a b c => obtain ⟨w, _, _, _, h1, _⟩ := h; exact ⟨w, h1⟩
  | npCall op ins => exact absurd rfl (hne op ins)
  | npOut _ _ => exact h

omit [Neg K] in
theorem proper_spec {nodes : Array (Expr K)} {x : Nat} (h : proper nodes x = true) :
    ∃ e, nodes[x]? = some e ∧ ∀ op ins, e ≠ .npCall op ins := by
  unfold proper at h
  split at h
  · cases h
  · rename_i e hne he
    exact ⟨e, he, fun op ins heq => hne op ins (by rw [heq])⟩
  · cases h

omit [Neg K] in
theorem slot_of {l : Lowered K} {x w : Nat} (h : l.e2w.getD x none = some w) : l.slot x = w := by
  simp [Lowered.slot, h]

/-- The certificate's node check follows from the claims. -/
theorem nodeOk_of_claims [DecidableEq K] (nodes : Array (Expr K)) (l : Lowered K)
    (hall : ∀ x e, nodes[x]? = some e →
      Claim nodes (fun y => l.e2w.getD y none) l.ops.toList x e)
    (i : Nat) (e : Expr K) (hi : nodes[i]? = some e) : nodeOk nodes l l.ops.toList i e = true := by
  have hcl := hall i e hi
  cases e with
  | const c =>
    obtain ⟨w, h1, h2⟩ := hcl
    simp only [nodeOk, List.contains_iff_mem, slot_of h1]; exact h2
  | pub pos =>
    obtain ⟨w, h1, h2⟩ := hcl
    simp only [nodeOk, List.contains_iff_mem, slot_of h1]; exact h2
  | priv _ => rfl
  | npCall _ _ => rfl
  | npOut _ _ => rfl
  | add a b =>
    obtain ⟨wi, wa, wb, h1, h2, h3, h4⟩ := hcl
    simp only [nodeOk, List.contains_iff_mem, slot_of h1, slot_of h2, slot_of h3]; exact h4
  | mul a b =>
    obtain ⟨wi, wa, wb, h1, h2, h3, h4⟩ := hcl
    simp only [nodeOk, List.contains_iff_mem, slot_of h1, slot_of h2, slot_of h3]; exact h4
  | div a b =>
    obtain ⟨wi, wa, wb, h1, h2, h3, h4⟩ := hcl
    simp only [nodeOk, List.contains_iff_mem, slot_of h1, slot_of h2, slot_of h3]; exact h4
  | mulAdd a b c =>
    obtain ⟨wi, wa, wb, wc, h1, h2, h3, h4, h5⟩ := hcl
    simp only [nodeOk, List.contains_iff_mem, slot_of h1, slot_of h2, slot_of h3, slot_of h4]
    exact h5
  | horner acc al pz px =>
    obtain ⟨wi, w1, w2, w3, w4, h0, h1, h2, h3, h4, h5⟩ := hcl
    simp only [nodeOk, List.contains_iff_mem, slot_of h0, slot_of h1, slot_of h2, slot_of h3,
      slot_of h4]
    exact h5
  | boolCheck v =>
    obtain ⟨wi, wv, zw, h1, h2, h3⟩ := hcl
    simp only [nodeOk, List.any_eq_true]
    exact ⟨_, h3, by simp [slot_of h2]⟩
  | sub a b =>
    obtain ⟨wi, wa, h1, h2, h3⟩ := hcl
    simp only [nodeOk, Bool.or_eq_true, List.contains_iff_mem, slot_of h1, slot_of h2]
    rcases h3 with ⟨wb, h4, h5⟩ | ⟨c, nw, h4, h5, h6⟩
    · left
      rw [slot_of h4]; exact h5
    · right
      obtain ⟨wb, h7, h8⟩ := hall b _ h4
      simp only [h4, Bool.and_eq_true, List.contains_iff_mem, List.any_eq_true, slot_of h7]
      exact ⟨h8, _, h5, by simp [h6]⟩

/-- Core of the total theorem: certificate and well-formedness of every emitted op. -/
theorem lower_total_core [DecidableEq K] (b : BState K) (hc : connectsOk b = true) :
    ∀ l, lower b = .ok l → lowerCheck b l = true ∧ ∀ o ∈ l.ops.toList, opWF o = true := by
  intro l h
  rw [lower_eq] at h
  -- the fixed partition / flags
  have hcs : ∀ ab ∈ b.connects, ab.1 < b.nodes.size ∧ ab.2 < b.nodes.size ∧
      (proper b.nodes ab.1 = true ∨ proper b.nodes ab.2 = true) := by
    intro ab hab
    have := List.all_eq_true.mp hc ab hab
    simpa [and_assoc] using this
  obtain ⟨hCsz, hCmono, hCmem⟩ := inC_spec b.connects (Array.replicate (b.nodes.size + 1) false)
  simp only [Array.size_replicate] at hCsz hCmem
  obtain ⟨hDsu, hRsame, _⟩ := ofConnects_spec (N := b.nodes.size + 1) b.connects
    (fun ab hab => ⟨by have := (hcs ab hab).1; omega, by have := (hcs ab hab).2.1; omega⟩)
    (Array.range (b.nodes.size + 1)) (range_dsuInv _)
  have hRC : RCok (b.nodes.size + 1) (Dsu.ofConnects (b.nodes.size + 1) b.connects) (inCOf b) := by
    intro x hx
    have : x < b.nodes.size + 1 := by
      have := getD_true_lt _ x hx
      unfold inCOf at this
      rw [hCsz] at this; exact this
    exact hDsu.lt x this
  -- initial state
  have h0 : PassInv b.nodes (b.nodes.size + 1) (Dsu.ofConnects (b.nodes.size + 1) b.connects)
      (inCOf b) 0 0 (lowerInit b) := by
    refine ⟨⟨rfl, rfl, by simp [lowerInit], by simp [lowerInit], ?_, ?_⟩, ?_, ?_⟩
    · intro x w _ hw
      simp only [lowerInit, getD_replicate] at hw
      cases hw
    · intro op hop
      simp [lowerInit] at hop
    · intro x w hw
      simp only [lowerInit, getD_replicate] at hw
      cases hw
    · intro x e _ hcase
      rcases hcase with h1 | ⟨_, h2⟩ <;> omega
  have next : ∀ p s, PassInv b.nodes (b.nodes.size + 1)
      (Dsu.ofConnects (b.nodes.size + 1) b.connects) (inCOf b) p b.nodes.size s →
      PassInv b.nodes (b.nodes.size + 1) (Dsu.ofConnects (b.nodes.size + 1) b.connects)
        (inCOf b) (p + 1) 0 s := by
    intro p s I
    refine ⟨I.good, fun x w hw => ?_, fun x e he hcase => ?_⟩
    · obtain ⟨e, he, hcase⟩ := I.only x w hw
      refine ⟨e, he, ?_⟩
      rcases hcase with h1 | ⟨h2, _⟩ | h3
      · exact Or.inl (by omega)
      · exact Or.inl (by omega)
      · exact Or.inr (Or.inr h3)
    · have hx : x < b.nodes.size := by
        by_contra hge
        rw [Array.getElem?_eq_none (by omega)] at he
        cases he
      apply I.claims x e he
      rcases hcase with h1 | ⟨_, h2⟩
      · by_cases hlt : cat e < p
        · exact Or.inl hlt
        · exact Or.inr ⟨by omega, hx⟩
      · omega
  simp only [bind, Except.bind, forNodes] at h
  split at h
  · cases h
  · rename_i s1 hs1
    have I1 := pass_fold b.nodes _ _ _ 0 fConst
      (by intro s i e hne; cases e <;> simp [cat] at hne <;> rfl) (step_const hRC) _ h0 _
      (Nat.le_refl _) s1 hs1
    split at h
    · cases h
    · rename_i s2 hs2
      have I2 := pass_fold b.nodes _ _ _ 1 fPub
        (by intro s i e hne; cases e <;> simp [cat] at hne <;> rfl) (step_pub hRC) _ (next _ _ I1) _
        (Nat.le_refl _) s2 hs2
      split at h
      · cases h
      · rename_i s3 hs3
        have I3 := pass_fold b.nodes _ _ _ 2 fPriv
          (by intro s i e hne; cases e <;> simp [cat] at hne <;> rfl) (step_priv hRC) _
          (next _ _ I2) _ (Nat.le_refl _) s3 hs3
        split at h
        · cases h
        · rename_i s4 hs4
          have I4 := pass_fold b.nodes _ _ _ 3 (fun st i e => st.emitNode b.nodes b.npOps i e)
            (by intro s i e hne; cases e <;> simp [cat] at hne <;> rfl) (step_emit hRC b.npOps) _
            (next _ _ I3) _ (Nat.le_refl _) s4 hs4
          split at h
          · cases h
          · simp only [Except.ok.injEq] at h
            obtain ⟨g5, ext5, hroot5, hfill⟩ := backfill_spec (hCsz : (inCOf b).size = _) I4.good
              (b.nodes.size + 1)
            generalize (List.range (b.nodes.size + 1)).foldl backfillStep s4 = s5 at h g5 ext5 hroot5 hfill
            subst h
            -- claims for every node, in the final state
            have hall : ∀ x e, b.nodes[x]? = some e →
                Claim b.nodes (fun y => s5.e2w.getD y none) s5.ops.toList x e := by
              intro x e he
              have hx : x < b.nodes.size := by
                by_contra hge
                rw [Array.getElem?_eq_none (by omega)] at he
                cases he
              refine claim_mono b.nodes ext5.e2w ext5.ops x e (I4.claims x e he ?_)
              have : cat e ≤ 3 := by cases e <;> simp [cat]
              by_cases hlt : cat e < 3
              · exact Or.inl hlt
              · exact Or.inr ⟨by omega, hx⟩
            refine ⟨?_, g5.wf⟩
            unfold lowerCheck
            simp only [Bool.and_eq_true, List.all_eq_true, List.mem_range]
            constructor
            · intro i hi
              have hke : b.nodes[i]? = some b.nodes[i] := Array.getElem?_eq_getElem hi
              rw [hke]
              exact nodeOk_of_claims b.nodes _ hall i _ hke
            · intro ab hab
              obtain ⟨ha, hb, hprop⟩ := hcs ab hab
              obtain ⟨hCa, hCb⟩ := hCmem ab hab (by omega) (by omega)
              have hR := hRsame ab hab
              -- a mapped side maps the other side to the same slot
              have key : ∀ x y, (inCOf b).getD x false = true → (inCOf b).getD y false = true →
                  (Dsu.ofConnects (b.nodes.size + 1) b.connects).getD x x =
                    (Dsu.ofConnects (b.nodes.size + 1) b.connects).getD y y →
                  y < b.nodes.size + 1 → proper b.nodes x = true →
                  ∃ w, s5.e2w.getD x none = some w ∧ s5.e2w.getD y none = some w := by
                intro x y hCx hCy hxy hy hpx
                obtain ⟨e, he, hne⟩ := proper_spec hpx
                obtain ⟨w, hw⟩ := claim_mapped (hall x e he) hne
                have hrx := g5.coh x w hCx hw
                have hr4 : s4.rootW.getD ((Dsu.ofConnects (b.nodes.size + 1) b.connects).getD y y)
                    none ≠ none := by
                  rw [← hroot5, ← hxy, hrx]; simp
                have hmy := hfill y hy hCy hr4
                cases hvy : s5.e2w.getD y none with
                | none => exact absurd hvy hmy
                | some w' =>
                  have hry := g5.coh y w' hCy hvy
                  rw [← hxy, hrx] at hry
                  cases hry
                  exact ⟨w, hw, rfl⟩
              rcases hprop with hp | hp
              · obtain ⟨w, h1, h2⟩ := key ab.1 ab.2 hCa hCb hR (by omega) hp
                simp [Lowered.mapped, Lowered.slot, h1, h2]
              · obtain ⟨w, h1, h2⟩ := key ab.2 ab.1 hCb hCa hR.symm (by omega) hp
                simp [Lowered.mapped, Lowered.slot, h1, h2]

/-- **Total theorem.** The modelled lowering passes its own certificate on every builder state
whose connects name existing expressions, one of each pair carrying a value. No hypothesis on
the expression graph: a dangling or forward child makes `lower` fail (`missingExpr`). -/
theorem lower_passes_check [DecidableEq K] (b : BState K) (hc : connectsOk b = true) :
    ∀ l, lower b = .ok l → lowerCheck b l = true :=
  fun l h => (lower_total_core b hc l h).1

/-- Every op the lowering emits carries the operands its kind needs (`hWF` of
`run_values_denote`, for every program). -/
theorem lower_ops_wf [DecidableEq K] (b : BState K) (hc : connectsOk b = true) :
    ∀ l, lower b = .ok l → ∀ o ∈ l.ops.toList, opWF o = true :=
  fun l h => (lower_total_core b hc l h).2

end main

end P3R.C02T
