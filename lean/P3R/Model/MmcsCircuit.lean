/-
L9 (circuit side): model of the in-circuit MMCS verification gadget
(`recursion/src/pcs/mmcs.rs`: `add_hash_base_coeffs_overwrite`, `add_hash_extension_elements`,
`verify_batch_circuit`, `verify_batch_circuit_from_extension_opened`, `select_cap_entry`,
`arity4_path_schedule`, `arity4_prepare`, `arity4_emit_path`, `verify_batch_circuit_arity4`;
`circuit/src/ops/mmcs.rs::add_mmcs_verify`) together with the runner semantics of the
permutation rows it emits (`circuit/src/ops/poseidon_perm/executor.rs::execute`:
`init_chain_state`, `place_arity4_running_hash`, `fill_sibling_data`, `apply_witness_values`,
`apply_merkle_swap`, `update_chain_state`) and of the final `connect` to the selected cap entry.

Abstraction level. Builder and runner are fused: the gadget is evaluated in emission order
(non-primitive ops run in program order), each permutation row acting on the executor's two
chain slots. Everything is at base-coefficient level: an extension limb is its `D`
coefficients, so `recompose`/`decompose` are the identity and a partially absorbed limb that
the Rust completes with the previous output (or zeros on the first row) is `none` = "inherit".
Import-free apart from the native model (shared `Dim`, `npt`, `tallestFirst`).
-/
import P3R.Model.MmcsNative

namespace P3R.Mmcs

/-- Base-coefficient view of a `PermConfig`: state width, rate, capacity (all in base
coefficients) and `is_arity4_shape`. -/
structure PermCfg where
  W : Nat
  rate : Nat
  capw : Nat
  arity4 : Bool
deriving Repr

/-- Which build-time shape checks the gadget performs (one flag per repair of /repo):
`heights` = `validate_heights_on_ladder` (native geometry gate, fixes/C08-3),
`widths` = `check_opened_widths` (native `check_widths`, fixes/C08-2),
`capBits` = a cap taller than the index (`cap_height > index_bits.len()`) is a build error instead
of an arithmetic-overflow panic (fixes/C08-4, arity 2 only). `Checks.none` is the gadget before
any of these repairs. -/
structure Checks where
  heights : Bool
  widths : Bool
  capBits : Bool
deriving Repr, DecidableEq

def Checks.none : Checks := ⟨false, false, false⟩
def Checks.all : Checks := ⟨true, true, true⟩

/-- The gadget's copy of the native geometry gate. -/
def heightsOk (dims : List Dim) : Bool :=
  match validateHeights (dims.map (·.height)) with
  | .ok _ => true
  | .error _ => false

/-- The gadget's copy of the native width check (`streams` in the inner view). -/
def widthsOk {K : Type} (dims : List Dim) (streams : List (List K)) : Bool :=
  (dims.zip streams).all (fun x => x.2.length == x.1.width)

inductive CVerdict
  | ok | reject | buildErr | panic
deriving DecidableEq, Repr

/-- One permutation row as the runner sees it. `inputs[i] = some v`: CTL-fed witness value. -/
structure Row (K : Type) where
  newStart : Bool
  merkle : Bool
  bit : K
  bit2 : K
  inputs : List (Option K)
  sibling : Option (List K)

/-- Executor chain state (`PoseidonExecutionState::{last_output_normal, last_output_merkle}`)
plus the ordered permutation inputs (most recent first), used by the correspondence only. -/
structure ExecSt (K : Type) where
  normal : Option (List K)
  merkle : Option (List K)
  trace : List (List K)

def ExecSt.init {K : Type} : ExecSt K := ⟨none, none, []⟩

section
variable {K : Type} [Zero K] [One K] [DecidableEq K]

def toBool? (b : K) : Option Bool := if b = 0 then some false else if b = 1 then some true else none

/-- `state[off .. off + v.length] = v`. -/
def writeAt (st : List K) (off : Nat) (v : List K) : List K :=
  st.take off ++ v ++ st.drop (off + v.length)

/-- `fill_sibling_data`, arity-4 branch: private limbs go to the chunks other than `pos`, in
ascending chunk order, `capw` per chunk, until exhausted. -/
def fillSiblings4 (capw pos : Nat) : List Nat → List K → List K → List K
  | [], st, _ => st
  | k :: ks, st, priv =>
    if k = pos then fillSiblings4 capw pos ks st priv
    else if priv.isEmpty then st
    else fillSiblings4 capw pos ks (writeAt st (k * capw) (priv.take capw)) (priv.drop capw)

def applyInputs (st : List K) (inputs : List (Option K)) : List K :=
  (st.zip (inputs ++ List.replicate (st.length - inputs.length) none)).map fun x => x.2.getD x.1

/-- `PoseidonPermExecutor::execute` (extension layout). Returns the new chain state and the
permutation output; `none` = runner error (non-boolean direction bit, missing chain). -/
def execRow (perm : List K → List K) (pc : PermCfg) (st : ExecSt K) (r : Row K) :
    Option (ExecSt K × List K) :=
  match (if r.merkle then toBool? r.bit else some false),
        (if r.merkle && pc.arity4 then toBool? r.bit2 else some false) with
  | some b1, some b2 =>
    let chain := if r.merkle then st.merkle else st.normal
    let zeros : List K := List.replicate pc.W 0
    -- 1. init_chain_state
    let s1 : Option (List K) :=
      if r.newStart then some zeros
      else match chain with
        | none => none
        | some prev =>
          if r.merkle then
            if pc.arity4 then some zeros else some (writeAt zeros 0 (prev.take pc.rate))
          else some (writeAt zeros 0 (prev.take pc.W))
    match s1 with
    | none => none
    | some s1 =>
      let pos := (if b1 then 1 else 0) + 2 * (if b2 then 1 else 0)
      -- 2a. place_arity4_running_hash
      let s2 :=
        if r.merkle && pc.arity4 && !r.newStart then
          match chain with
          | some prev => writeAt s1 (pos * pc.capw) (prev.take pc.capw)
          | none => s1
        else s1
      -- 2b. fill_sibling_data
      let s3 :=
        match r.sibling with
        | none => s2
        | some priv =>
          if !r.merkle then s2
          else if pc.arity4 then fillSiblings4 pc.capw pos [0, 1, 2, 3] s2 priv
          else writeAt s2 pc.rate (priv.take pc.capw)
      -- 3. apply_witness_values
      let s4 := applyInputs s3 r.inputs
      -- 4. apply_merkle_swap
      let s5 := if r.merkle && !pc.arity4 && b1 then s4.drop pc.rate ++ s4.take pc.rate else s4
      let out := perm s5
      -- update_chain_state
      let st' : ExecSt K :=
        if r.merkle then { st with merkle := some out, trace := s5 :: st.trace }
        else if pc.arity4 then { normal := some out, merkle := some out, trace := s5 :: st.trace }
        else { st with normal := some out, trace := s5 :: st.trace }
      some (st', out)
  | _, _ => none

/-- `add_hash_base_coeffs_overwrite` / `add_hash_extension_elements` with `reset = true`:
one row per chunk of `rate` coefficients; the first row starts a chain, later rows inherit;
`seed` = `single_chunk_seed` (the row is a Merkle-mode row). Returns the last output. -/
def hashRows (perm : List K → List K) (pc : PermCfg) (seed : Bool) :
    Nat → Bool → ExecSt K → List K → List K → Option (ExecSt K × List K)
  | 0, _, st, _, last => some (st, last)
  | f + 1, first, st, inp, last =>
    if inp.isEmpty then some (st, last)
    else
      let chunk := inp.take pc.rate
      let row : Row K :=
        { newStart := first, merkle := seed, bit := 0, bit2 := 0
          inputs := chunk.map some ++ List.replicate (pc.W - chunk.length) none, sibling := none }
      match execRow perm pc st row with
      | none => none
      | some (st', out) => hashRows perm pc seed f false st' (inp.drop pc.rate) out

/-- Digest of a coefficient stream: `rate` limbs of the last row's output (zeros for no input). -/
def hashStream (perm : List K → List K) (pc : PermCfg) (merkleSeed : Bool) (st : ExecSt K)
    (inp : List K) : Option (ExecSt K × List K) :=
  if inp.isEmpty then some (st, List.replicate pc.capw 0)
  else
    let seed := merkleSeed && decide (inp.length ≤ pc.rate)
    match hashRows perm pc seed inp.length true st inp [] with
    | none => none
    | some (st', out) => some (st', out.take pc.rate)

end

section
variable {K : Type} [Add K] [Sub K] [Mul K]

/-- One level of `select_cap_entry`: `left + bit * (right - left)` per coefficient. -/
def muxPairs (b : K) : List (List K) → List (List K)
  | l :: r :: rest => (List.zipWith (fun x y => b * (y - x) + x) l r) :: muxPairs b rest
  | _ => []

/-- `select_cap_entry`. -/
def selectCapEntry (cap : List (List K)) (bits : List K) : List K :=
  if cap.length = 1 then cap.headD []
  else (bits.foldl (fun cur b => muxPairs b cur) cap).headD []

end

/-- `log2_strict_usize`. -/
def log2Strict? (n : Nat) : Option Nat := if n ≠ 0 ∧ 2 ^ Nat.log2 n = n then some (Nat.log2 n) else none

section
variable {K : Type} [Zero K] [One K] [Add K] [Sub K] [Mul K] [DecidableEq K]

/-- The per-level leaf digests of `verify_batch_circuit`: level `i` hashes the streams of the
matrices whose height rounds up to `2^(L - i)`, `[]` when there is none. -/
def levelDigests (perm : List K → List K) (pc : PermCfg) (L : Nat) (streams : List (List K)) :
    List Nat → List (Nat × Dim) → ExecSt K → Option (ExecSt K × List (List K))
  | [], _, st => some (st, [])
  | i :: is, sorted, st =>
    let (grp, rest) := sorted.span (fun x => npt x.2.height == 1 <<< (L - i))
    let data := (grp.map (fun x => streams.getD x.1 [])).flatten
    if data.isEmpty then
      (levelDigests perm pc L streams is rest st).map fun r => (r.1, [] :: r.2)
    else
      match hashStream perm pc false st data with
      | none => none
      | some (st', d) => (levelDigests perm pc L streams is rest st').map fun r => (r.1, d :: r.2)

/-- Injection row of `add_mmcs_verify`: the level digest in the capacity limbs, bit 0. -/
def injectRow (pc : PermCfg) (d : List K) : Row K :=
  { newStart := false, merkle := true, bit := 0, bit2 := 0
    inputs := List.replicate pc.rate none ++ (d.take pc.rate).map some, sibling := none }

/-- The path loop of `add_mmcs_verify` (arity 2). `digs` = level digests of the remaining
levels, `dirs` = remaining direction bits, `sibs` = remaining sibling digests. -/
def pathLoop (perm : List K → List K) (pc : PermCfg) :
    Bool → List (List K) → List K → List (Option (List K)) → ExecSt K → List K →
    Option (ExecSt K × List K)
  | _, _, [], _, st, out => some (st, out)
  | first, digs, dir :: dirs, sibs, st, _ =>
    let rowDigest := digs.headD []
    let st1 : Option (ExecSt K) :=
      if !first && !rowDigest.isEmpty then (execRow perm pc st (injectRow pc rowDigest)).map (·.1)
      else some st
    match st1 with
    | none => none
    | some st1 =>
      let inputs : List (Option K) := if first then (rowDigest.take pc.rate).map some else []
      let row : Row K :=
        { newStart := first, merkle := true, bit := dir, bit2 := 0, inputs := inputs
          sibling := sibs.headD none }
      match execRow perm pc st1 row with
      | none => none
      | some (st2, out) => pathLoop perm pc false digs.tail dirs sibs.tail st2 out

/-- `add_mmcs_verify` + the runner's verdict on the final `connect`s. -/
def mmcsVerify (perm : List K → List K) (pc : PermCfg) (digs : List (List K)) (dirs : List K)
    (sibs : List (List K)) (root : List K) (st : ExecSt K) : CVerdict × ExecSt K :=
  if dirs.isEmpty then
    let leaf := digs.headD []
    if leaf.length ≠ root.length then (.buildErr, st)
    else (if leaf = root then .ok else .reject, st)
  else
    let tail := digs.getD dirs.length []
    match pathLoop perm pc true digs dirs (sibs.map some ++ List.replicate dirs.length none) st [] with
    | none => (.reject, st)
    | some (st1, out) =>
      let fin : Option (ExecSt K × List K) :=
        if tail.isEmpty then some (st1, out) else execRow perm pc st1 (injectRow pc tail)
      match fin with
      | none => (.reject, st1)
      | some (st2, out) =>
        let o := out.take pc.rate
        if o.length ≠ root.length then (.buildErr, st2)
        else (if o = root then .ok else .reject, st2)

/-- `verify_batch_circuit` / `verify_batch_circuit_from_extension_opened` followed by a run.
`streams[m]` = base coefficients of matrix `m`'s opened row followed by its salt. -/
def verifyCircuit2 (chk : Checks) (perm : List K → List K) (pc : PermCfg) (cap : List (List K)) (dims : List Dim)
    (bits : List K) (streams : List (List K)) (sibs : List (List K)) : CVerdict × ExecSt K :=
  let st0 : ExecSt K := ExecSt.init
  if dims.length ≠ streams.length then (.buildErr, st0) else
  if chk.widths && !widthsOk dims streams then (.buildErr, st0) else
  if chk.heights && !heightsOk dims then (.buildErr, st0) else
  if cap.isEmpty then (.panic, st0) else
  match (if cap.length = 1 then some 0 else log2Strict? cap.length) with
  | none => (.panic, st0)
  | some capHeight =>
    let L := bits.length
    if L < capHeight then (if chk.capBits then .buildErr else .panic, st0) else
    let pathDepth := L - capHeight
    let root := selectCapEntry cap (bits.drop pathDepth)
    match levelDigests perm pc L streams (List.range (pathDepth + 1)) (tallestFirst dims) st0 with
    | none => (.reject, st0)
    | some (st1, digs) => mmcsVerify perm pc digs (bits.take pathDepth) sibs root st1

/-! ### Arity 4 -/

structure Step4 where
  step : Nat
  inj : List Nat
deriving Repr

/-- The `while curr_height_padded > num_roots` loop of `arity4_path_schedule`. -/
def schedule4Loop (numRoots : Nat) : Nat → Nat → List (Nat × Dim) → Option (List Step4)
  | 0, _, _ => none
  | f + 1, curr, rem =>
    if curr ≤ numRoots then some []
    else
      let step :=
        if curr < 4 then 2
        else if (rem.map (·.2.height)).any (fun h => npt h > npt (curr / 4)) then 2 else 4
      let logicalNext := curr / step
      let (grp, rem') := takeInjection logicalNext rem
      (schedule4Loop numRoots f (paddedLen logicalNext 4) rem').map (⟨step, grp.map (·.1)⟩ :: ·)

/-- Compression row of `add_arity4_compression_row`. -/
def compRow4 (pc : PermCfg) (b1 b2 : K) (step : Nat) (inj : Option (List K)) (sib : Option (List K)) : Row K :=
  let active := if inj.isSome then 2 else step
  let chunk (k : Nat) : List (Option K) :=
    if k ≥ active then List.replicate pc.capw (some 0)
    else if k = 1 then
      match inj with
      | some d => d.map some
      | none => List.replicate pc.capw none
    else List.replicate pc.capw none
  { newStart := false, merkle := true, bit := b1, bit2 := b2
    inputs := chunk 0 ++ chunk 1 ++ chunk 2 ++ chunk 3, sibling := sib }

/-- `arity4_emit_path` (rows only). `sibs` = remaining native proof digests; a level takes
`step - 1` of them, flattened and zero-padded to three digests (`set_arity4_opening_private_data`). -/
def emit4 (perm : List K → List K) (pc : PermCfg) :
    List Step4 → List K → Nat → List (List K) → List (List K) → ExecSt K → List K →
    Option (ExecSt K × List K)
  | [], _, _, _, _, st, out => some (st, out)
  | s :: ss, bits, used, injDigs, sibs, st, _ =>
    let b1 := bits.getD used 0
    let b2 := if s.step = 4 then bits.getD (used + 1) 0 else 0
    let nsib := s.step - 1
    let priv := (sibs.take nsib).flatten ++ List.replicate ((3 - nsib) * pc.capw) 0
    match execRow perm pc st (compRow4 pc b1 b2 s.step none (some priv)) with
    | none => none
    | some (st1, out1) =>
      let used' := used + (if s.step = 4 then 2 else 1)
      if s.inj.isEmpty then emit4 perm pc ss bits used' injDigs (sibs.drop nsib) st1 out1
      else
        match execRow perm pc st1 (compRow4 pc 0 0 s.step (some (injDigs.headD [])) none) with
        | none => none
        | some (st2, out2) => emit4 perm pc ss bits used' injDigs.tail (sibs.drop nsib) st2 out2

/-- Digests of the injected groups, hashed before the leaf (`merkle_seed = false`). -/
def injDigests4 (perm : List K → List K) (pc : PermCfg) (streams : List (List K)) :
    List Step4 → ExecSt K → Option (ExecSt K × List (List K))
  | [], st => some (st, [])
  | s :: ss, st =>
    if s.inj.isEmpty then injDigests4 perm pc streams ss st
    else
      match hashStream perm pc false st (s.inj.map (fun m => streams.getD m [])).flatten with
      | none => none
      | some (st', d) => (injDigests4 perm pc streams ss st').map fun r => (r.1, d.take pc.capw :: r.2)

/-- "heights that round up to the same power of two must be equal" on the sorted heights. -/
def heightsCompatible : List Nat → Bool
  | a :: b :: rest => (a == b || npt a != npt b) && heightsCompatible (b :: rest)
  | _ => true

/-- `verify_batch_circuit_arity4` / `…_from_extension_opened_arity4` followed by a run. -/
def verifyCircuit4 (chk : Checks) (perm : List K → List K) (pc : PermCfg) (cap : List (List K)) (dims : List Dim)
    (bits : List K) (streams : List (List K)) (sibs : List (List K)) : CVerdict × ExecSt K :=
  let st0 : ExecSt K := ExecSt.init
  if dims.length ≠ streams.length then (.buildErr, st0) else
  if chk.widths && !widthsOk dims streams then (.buildErr, st0) else
  if !pc.arity4 then (.buildErr, st0) else
  if cap.isEmpty then (.panic, st0) else
  let sorted := tallestFirst dims
  if !heightsCompatible (sorted.map (·.2.height)) then (.buildErr, st0) else
  if chk.heights && !heightsOk dims then (.buildErr, st0) else
  let maxHeight := (sorted.headD (0, ⟨0, 0⟩)).2.height
  if maxHeight = 0 then (.buildErr, st0) else
  match (if cap.length = 1 then some 0 else log2Strict? cap.length) with
  | none => (.panic, st0)
  | some capLog =>
    let leafNpt := npt maxHeight
    let (leaf, rem) := sorted.span (fun x => npt x.2.height == leafNpt)
    match schedule4Loop cap.length (2 * (paddedLen maxHeight 4 + dims.length) + 2) (paddedLen maxHeight 4) rem with
    | none => (.panic, st0)
    | some sched =>
      let pathBits := (sched.map (fun s => if s.step = 4 then 2 else 1)).sum
      let capBits := if capLog = 0 then [] else (List.range capLog).map fun i => bits.getD (pathBits + i) 0
      let root := selectCapEntry cap capBits
      match injDigests4 perm pc streams sched st0 with
      | none => (.reject, st0)
      | some (st1, injDigs) =>
        match hashStream perm pc true st1 (leaf.map (fun x => streams.getD x.1 [])).flatten with
        | none => (.reject, st1)
        | some (st2, leafDig) =>
          match emit4 perm pc sched bits 0 injDigs sibs st2 (leafDig.take pc.capw) with
          | none => (.reject, st2)
          | some (st3, out) =>
            let o := out.take pc.capw
            -- `zip`: only the common prefix is connected
            let n := min o.length root.length
            (if o.take n = root.take n then .ok else .reject, st3)

/-! ### Prover-chosen private payloads

`CircuitRunner::set_private_data(op_id, data)` takes any op id of the circuit and any limb vector: the
private payload of every permutation row is the prover's, not only the sibling digests that
`set_*_mmcs_private_data` derives from an honest opening proof (which zero-fills the two unused chunks of an
arity-4 bridge row and sets nothing on injection rows). `pays` lists `(j, limbs)`: the payload of path row
`j`, rows counted in emission order from the first row of the Merkle path (= the order of the native
verifier's `compress` calls). A row without an entry keeps the honest payload. -/

/-- Payload of path row `j`: the prover's entry when there is one, `dflt` otherwise. -/
def payAt {K : Type} (pays : List (Nat × List K)) (j : Nat) (dflt : Option (List K)) : Option (List K) :=
  match pays.find? (fun p => p.1 == j) with
  | some p => some p.2
  | none => dflt

/-- `pathLoop` with prover-chosen payloads; `j` = index of the next path row; also returns the index
after the loop (the tail row's). -/
def pathLoopP (perm : List K → List K) (pc : PermCfg) (pays : List (Nat × List K)) :
    Bool → Nat → List (List K) → List K → List (Option (List K)) → ExecSt K → List K →
    Option (ExecSt K × List K × Nat)
  | _, j, _, [], _, st, out => some (st, out, j)
  | first, j, digs, dir :: dirs, sibs, st, _ =>
    let rowDigest := digs.headD []
    let hasInj := !first && !rowDigest.isEmpty
    let st1 : Option (ExecSt K) :=
      if hasInj then
        (execRow perm pc st { injectRow pc rowDigest with sibling := payAt pays j none }).map (·.1)
      else some st
    let j1 := if hasInj then j + 1 else j
    match st1 with
    | none => none
    | some st1 =>
      let inputs : List (Option K) := if first then (rowDigest.take pc.rate).map some else []
      let row : Row K :=
        { newStart := first, merkle := true, bit := dir, bit2 := 0, inputs := inputs
          sibling := payAt pays j1 (sibs.headD none) }
      match execRow perm pc st1 row with
      | none => none
      | some (st2, out) => pathLoopP perm pc pays false (j1 + 1) digs.tail dirs sibs.tail st2 out

/-- `mmcsVerify` with prover-chosen payloads. -/
def mmcsVerifyP (perm : List K → List K) (pc : PermCfg) (pays : List (Nat × List K)) (digs : List (List K))
    (dirs : List K) (sibs : List (List K)) (root : List K) (st : ExecSt K) : CVerdict × ExecSt K :=
  if dirs.isEmpty then
    let leaf := digs.headD []
    if leaf.length ≠ root.length then (.buildErr, st)
    else (if leaf = root then .ok else .reject, st)
  else
    let tail := digs.getD dirs.length []
    match pathLoopP perm pc pays true 0 digs dirs (sibs.map some ++ List.replicate dirs.length none) st [] with
    | none => (.reject, st)
    | some (st1, out, j) =>
      let fin : Option (ExecSt K × List K) :=
        if tail.isEmpty then some (st1, out)
        else execRow perm pc st1 { injectRow pc tail with sibling := payAt pays j none }
      match fin with
      | none => (.reject, st1)
      | some (st2, out) =>
        let o := out.take pc.rate
        if o.length ≠ root.length then (.buildErr, st2)
        else (if o = root then .ok else .reject, st2)

/-- `verifyCircuit2` with prover-chosen payloads. -/
def verifyCircuit2P (chk : Checks) (perm : List K → List K) (pc : PermCfg) (pays : List (Nat × List K))
    (cap : List (List K)) (dims : List Dim) (bits : List K) (streams : List (List K)) (sibs : List (List K)) :
    CVerdict × ExecSt K :=
  let st0 : ExecSt K := ExecSt.init
  if dims.length ≠ streams.length then (.buildErr, st0) else
  if chk.widths && !widthsOk dims streams then (.buildErr, st0) else
  if chk.heights && !heightsOk dims then (.buildErr, st0) else
  if cap.isEmpty then (.panic, st0) else
  match (if cap.length = 1 then some 0 else log2Strict? cap.length) with
  | none => (.panic, st0)
  | some capHeight =>
    let L := bits.length
    if L < capHeight then (if chk.capBits then .buildErr else .panic, st0) else
    let pathDepth := L - capHeight
    let root := selectCapEntry cap (bits.drop pathDepth)
    match levelDigests perm pc L streams (List.range (pathDepth + 1)) (tallestFirst dims) st0 with
    | none => (.reject, st0)
    | some (st1, digs) => mmcsVerifyP perm pc pays digs (bits.take pathDepth) sibs root st1

/-- `emit4` with prover-chosen payloads; `j` = index of the next path row. -/
def emit4P (perm : List K → List K) (pc : PermCfg) (pays : List (Nat × List K)) :
    List Step4 → List K → Nat → Nat → List (List K) → List (List K) → ExecSt K → List K →
    Option (ExecSt K × List K)
  | [], _, _, _, _, _, st, out => some (st, out)
  | s :: ss, bits, used, j, injDigs, sibs, st, _ =>
    let b1 := bits.getD used 0
    let b2 := if s.step = 4 then bits.getD (used + 1) 0 else 0
    let nsib := s.step - 1
    let priv := (sibs.take nsib).flatten ++ List.replicate ((3 - nsib) * pc.capw) 0
    match execRow perm pc st (compRow4 pc b1 b2 s.step none (payAt pays j (some priv))) with
    | none => none
    | some (st1, out1) =>
      let used' := used + (if s.step = 4 then 2 else 1)
      if s.inj.isEmpty then emit4P perm pc pays ss bits used' (j + 1) injDigs (sibs.drop nsib) st1 out1
      else
        match execRow perm pc st1
            (compRow4 pc 0 0 s.step (some (injDigs.headD [])) (payAt pays (j + 1) none)) with
        | none => none
        | some (st2, out2) =>
          emit4P perm pc pays ss bits used' (j + 2) injDigs.tail (sibs.drop nsib) st2 out2

/-- `verifyCircuit4` with prover-chosen payloads. -/
def verifyCircuit4P (chk : Checks) (perm : List K → List K) (pc : PermCfg) (pays : List (Nat × List K))
    (cap : List (List K)) (dims : List Dim) (bits : List K) (streams : List (List K)) (sibs : List (List K)) :
    CVerdict × ExecSt K :=
  let st0 : ExecSt K := ExecSt.init
  if dims.length ≠ streams.length then (.buildErr, st0) else
  if chk.widths && !widthsOk dims streams then (.buildErr, st0) else
  if !pc.arity4 then (.buildErr, st0) else
  if cap.isEmpty then (.panic, st0) else
  let sorted := tallestFirst dims
  if !heightsCompatible (sorted.map (·.2.height)) then (.buildErr, st0) else
  if chk.heights && !heightsOk dims then (.buildErr, st0) else
  let maxHeight := (sorted.headD (0, ⟨0, 0⟩)).2.height
  if maxHeight = 0 then (.buildErr, st0) else
  match (if cap.length = 1 then some 0 else log2Strict? cap.length) with
  | none => (.panic, st0)
  | some capLog =>
    let leafNpt := npt maxHeight
    let (leaf, rem) := sorted.span (fun x => npt x.2.height == leafNpt)
    match schedule4Loop cap.length (2 * (paddedLen maxHeight 4 + dims.length) + 2) (paddedLen maxHeight 4) rem with
    | none => (.panic, st0)
    | some sched =>
      let pathBits := (sched.map (fun s => if s.step = 4 then 2 else 1)).sum
      let capBits := if capLog = 0 then [] else (List.range capLog).map fun i => bits.getD (pathBits + i) 0
      let root := selectCapEntry cap capBits
      match injDigests4 perm pc streams sched st0 with
      | none => (.reject, st0)
      | some (st1, injDigs) =>
        match hashStream perm pc true st1 (leaf.map (fun x => streams.getD x.1 [])).flatten with
        | none => (.reject, st1)
        | some (st2, leafDig) =>
          match emit4P perm pc pays sched bits 0 0 injDigs sibs st2 (leafDig.take pc.capw) with
          | none => (.reject, st2)
          | some (st3, out) =>
            let o := out.take pc.capw
            let n := min o.length root.length
            (if o.take n = root.take n then .ok else .reject, st3)

end
end P3R.Mmcs
