/-
Facts about the native evaluation of symbolic DAGs (`evalB` / `evalX` of
`Model/SymCompile.lean`) for DAGs whose children precede their parents:
the recursion depth `i + 1` is enough for node `i` (`nvB_step`, `nvX_step` give the one-step
unfolding), and the bottom-up tables the driver runs compute the same values.
-/
import P3R.Model.SymCompile
import Mathlib.Algebra.Ring.Basic

set_option linter.unusedSectionVars false

namespace P3R
variable {K : Type} [CommRing K]

/-- Children precede parents (Prop form of `wfB`). -/
def WfB (dag : Array (BNode K)) : Prop := ∀ (i : Nat) (nd : BNode K), dag[i]? = some nd → nd.childrenLt i = true
def WfX (dag : Array (XNode K)) : Prop := ∀ (i : Nat) (nd : XNode K), dag[i]? = some nd → nd.childrenLt i = true

theorem wfB_sound {dag : Array (BNode K)} (h : wfB dag = true) : WfB dag := by
  intro i nd hi
  have hlt : i < dag.size := by
    by_contra hc
    rw [Array.getElem?_eq_none (by omega)] at hi; cases hi
  have := (List.all_eq_true.mp h) i (List.mem_range.mpr hlt)
  simpa [hi] using this

theorem wfX_sound {dag : Array (XNode K)} (h : wfX dag = true) : WfX dag := by
  intro i nd hi
  have hlt : i < dag.size := by
    by_contra hc
    rw [Array.getElem?_eq_none (by omega)] at hi; cases hi
  have := (List.all_eq_true.mp h) i (List.mem_range.mpr hlt)
  simpa [hi] using this

theorem stepBf_congr (E : Cols K) {g g' : Nat → Option K} {i : Nat} {nd : BNode K}
    (hc : nd.childrenLt i = true) (hg : ∀ x, x < i → g x = g' x) :
    stepBf E g (some nd) = stepBf E g' (some nd) := by
  cases nd <;> simp_all [stepBf, BNode.childrenLt]

theorem stepXf_congr (E : Cols K) (gb : Nat → Option K) {g g' : Nat → Option K} {i : Nat}
    {nd : XNode K} (hc : nd.childrenLt i = true) (hg : ∀ x, x < i → g x = g' x) :
    stepXf E gb g (some nd) = stepXf E gb g' (some nd) := by
  cases nd <;> simp_all [stepXf, XNode.childrenLt]

theorem evalB_fuel {dag : Array (BNode K)} (hwf : WfB dag) (E : Cols K) (i : Nat) :
    ∀ f, i + 1 ≤ f → evalB dag E f i = evalB dag E (i + 1) i := by
  induction i using Nat.strong_induction_on with
  | _ i ih =>
    intro f hf
    obtain ⟨f', rfl⟩ : ∃ f', f = f' + 1 := ⟨f - 1, by omega⟩
    simp only [evalB]
    cases hnd : dag[i]? with
    | none => rfl
    | some nd =>
      apply stepBf_congr E (i := i) (hwf i nd hnd)
      intro x hx
      rw [ih x hx f' (by omega), ih x hx i (by omega)]

/-- One-step unfolding of the native value of a base node. -/
theorem nvB_step {dag : Array (BNode K)} (hwf : WfB dag) (E : Cols K) (i : Nat) :
    nvB dag E i = stepBf E (nvB dag E) dag[i]? := by
  simp only [nvB, evalB]
  cases hnd : dag[i]? with
  | none => rfl
  | some nd =>
    apply stepBf_congr E (i := i) (hwf i nd hnd)
    intro x hx
    exact evalB_fuel hwf E x i (by omega)

theorem evalX_fuel (bdag : Array (BNode K)) {xdag : Array (XNode K)} (hwf : WfX xdag) (E : Cols K)
    (i : Nat) : ∀ f, i + 1 ≤ f → evalX bdag xdag E f i = evalX bdag xdag E (i + 1) i := by
  induction i using Nat.strong_induction_on with
  | _ i ih =>
    intro f hf
    obtain ⟨f', rfl⟩ : ∃ f', f = f' + 1 := ⟨f - 1, by omega⟩
    simp only [evalX]
    cases hnd : xdag[i]? with
    | none => rfl
    | some nd =>
      apply stepXf_congr E _ (i := i) (hwf i nd hnd)
      intro x hx
      rw [ih x hx f' (by omega), ih x hx i (by omega)]

theorem nvX_step (bdag : Array (BNode K)) {xdag : Array (XNode K)} (hwf : WfX xdag) (E : Cols K)
    (i : Nat) : nvX bdag xdag E i = stepXf E (nvB bdag E) (nvX bdag xdag E) xdag[i]? := by
  simp only [nvX, evalX]
  cases hnd : xdag[i]? with
  | none => rfl
  | some nd =>
    apply stepXf_congr E _ (i := i) (hwf i nd hnd)
    intro x hx
    exact evalX_fuel bdag hwf E x i (by omega)

/-! ### The bottom-up tables equal the recursive evaluation -/

theorem getv_push_lt (t : Array (Option K)) (x : Option K) {i : Nat} (h : i < t.size) :
    getv (t.push x) i = getv t i := by
  simp [getv, Array.getElem?_push, Nat.ne_of_lt h]

theorem getv_push_size (t : Array (Option K)) (x : Option K) : getv (t.push x) t.size = x := by
  simp only [getv, Array.getElem?_push_size]
  cases x <;> rfl

theorem tableB_spec {dag : Array (BNode K)} (hwf : WfB dag) (E : Cols K) (n : Nat) :
    (tableB dag E n).size = n ∧ ∀ i, i < n → getv (tableB dag E n) i = nvB dag E i := by
  induction n with
  | zero => exact ⟨rfl, fun i h => by omega⟩
  | succ n ih =>
    obtain ⟨hsz, hval⟩ := ih
    simp only [tableB]
    refine ⟨by simp [hsz], ?_⟩
    intro i hi
    by_cases hlt : i < n
    · rw [getv_push_lt _ _ (by omega)]; exact hval i hlt
    · have : i = n := by omega
      subst this
      have h1 := getv_push_size (tableB dag E i) (stepB E (tableB dag E i) dag[i]?)
      rw [hsz] at h1
      rw [h1, nvB_step hwf E i]
      unfold stepB
      cases hnd : dag[i]? with
      | none => rfl
      | some nd => exact stepBf_congr E (hwf i nd hnd) hval

theorem tableX_spec (bdag : Array (BNode K)) {xdag : Array (XNode K)} (hwf : WfX xdag) (E : Cols K)
    (tb : Array (Option K)) (htb : ∀ r, getv tb r = nvB bdag E r) (n : Nat) :
    (tableX xdag E tb n).size = n ∧ ∀ i, i < n → getv (tableX xdag E tb n) i = nvX bdag xdag E i := by
  induction n with
  | zero => exact ⟨rfl, fun i h => by omega⟩
  | succ n ih =>
    obtain ⟨hsz, hval⟩ := ih
    simp only [tableX]
    refine ⟨by simp [hsz], ?_⟩
    intro i hi
    by_cases hlt : i < n
    · rw [getv_push_lt _ _ (by omega)]; exact hval i hlt
    · have : i = n := by omega
      subst this
      have h1 := getv_push_size (tableX xdag E tb i) (stepX E tb (tableX xdag E tb i) xdag[i]?)
      rw [hsz] at h1
      rw [h1, nvX_step bdag hwf E i]
      unfold stepX
      have hgb : getv tb = nvB bdag E := funext htb
      rw [hgb]
      cases hnd : xdag[i]? with
      | none => rfl
      | some nd => exact stepXf_congr E _ (hwf i nd hnd) hval

/-- Out of range nodes have no native value. -/
theorem nvB_none_of_size {dag : Array (BNode K)} (hwf : WfB dag) (E : Cols K) {i : Nat}
    (h : dag.size ≤ i) : nvB dag E i = none := by
  rw [nvB_step hwf, Array.getElem?_eq_none h]; rfl

theorem nvX_none_of_size (bdag : Array (BNode K)) {xdag : Array (XNode K)} (hwf : WfX xdag)
    (E : Cols K) {i : Nat} (h : xdag.size ≤ i) : nvX bdag xdag E i = none := by
  rw [nvX_step bdag hwf, Array.getElem?_eq_none h]; rfl

theorem getv_none_of_size (t : Array (Option K)) {i : Nat} (h : t.size ≤ i) : getv t i = none := by
  simp [getv, Array.getElem?_eq_none h]

theorem tableB_eq {dag : Array (BNode K)} (hwf : WfB dag) (E : Cols K) (i : Nat) :
    getv (tableB dag E dag.size) i = nvB dag E i := by
  obtain ⟨hsz, hval⟩ := tableB_spec hwf E dag.size
  by_cases h : i < dag.size
  · exact hval i h
  · rw [nvB_none_of_size hwf E (by omega), getv_none_of_size _ (by omega)]

theorem tableX_eq {bdag : Array (BNode K)} (hwfb : WfB bdag) {xdag : Array (XNode K)} (hwf : WfX xdag)
    (E : Cols K) (i : Nat) :
    getv (tableX xdag E (tableB bdag E bdag.size) xdag.size) i = nvX bdag xdag E i := by
  obtain ⟨hsz, hval⟩ := tableX_spec bdag hwf E (tableB bdag E bdag.size) (tableB_eq hwfb E) xdag.size
  by_cases h : i < xdag.size
  · exact hval i h
  · rw [nvX_none_of_size bdag hwf E (by omega), getv_none_of_size _ (by omega)]

end P3R
