/-
C02 — "the run succeeds whenever every asserted relation holds and every divisor is non-zero".

What the runner model can fail with falls in two classes: *value* errors (`conflict`: a slot would
receive two different values; `divByZero`) and *structural* errors (an operand is not defined when
an op needs it, an index is out of range, an unsupported op). This file proves that on an input
that satisfies the circuit no value error can occur:

* `Agree t w` — every value already in the table `t` is the value the assignment `w` gives the slot;
* `execOp_agree` — one step from a table agreeing with a satisfying assignment either succeeds, and
  the new table still agrees, or fails structurally;
* `run_satisfying_no_value_error` — hence `runFrom` on a table agreeing with a satisfying assignment
  (which also respects the de-duplication rewrite) either succeeds or fails structurally; and when
  it succeeds the returned witness *is* the assignment on every slot.
Structural failures do not depend on the input values (which slots are defined when is decided by
the op list alone); whether a given circuit has one is exercised by the correspondence run, which
executes every generated circuit on satisfying inputs (`run-fails-on-satisfying-input`).
-/
import P3R.Props.C02Run

namespace P3R.C02
open P3R

variable {K : Type} [Field K] [DecidableEq K]

def Agree (t : Array (Option K)) (w : Nat → K) : Prop := ∀ j x, slot t j = some x → x = w j

/-- Errors that do not depend on the input values. -/
def Structural : RunErr → Prop
  | .witnessNotSet _ => True
  | .publicNotSet _ => True
  | .outOfBounds _ => True
  | .notSetForIndex _ => True
  | .unsupported => True
  | _ => False

/-- Outcome of a step from an agreeing table: success with an agreeing table, or a structural error. -/
def GoodW (w : Nat → K) : Except RunErr (Array (Option K)) → Prop
  | .ok t => Agree t w
  | .error e => Structural e

theorem setW_good (t : Array (Option K)) (w : Nat → K) (i : Nat) (v : K) (h : Agree t w) (hv : v = w i) :
    GoodW w (setW t i v) := by
  unfold setW
  split
  · trivial
  · rename_i old ho
    have : slot t i = some old := by unfold slot; rw [ho]
    have := h i old this
    rw [if_pos (by rw [this, hv])]
    exact h
  · rename_i hn
    intro j x hj
    by_cases hji : j = i
    · subst hji
      have hlt : j < t.size := by
        by_contra hge
        have : t[j]? = none := Array.getElem?_eq_none (by omega)
        rw [this] at hn; cases hn
      unfold slot at hj
      simp [Array.setIfInBounds, hlt] at hj
      rw [← hj, hv]
    · have : slot (t.setIfInBounds i (some v)) j = slot t j := by
        unfold slot
        simp [Array.getElem?_setIfInBounds_ne (Ne.symm hji)]
      rw [this] at hj
      exact h j x hj

theorem getW_good (t : Array (Option K)) (w : Nat → K) (i : Nat) (h : Agree t w) :
    (∃ x, getW t i = .ok x ∧ x = w i) ∨ (∃ e, getW t i = .error e ∧ Structural e) := by
  unfold getW
  cases hs : slot t i with
  | some x => exact Or.inl ⟨x, rfl, h i x hs⟩
  | none => exact Or.inr ⟨_, rfl, trivial⟩

/-- The relation an op needs for the runner's own writes (beyond `Op.holds`): the fused product slot
and a bool check's `out` copy are written by the runner although no row constrains them. -/
def RunnerWrites (w : Nat → K) : Op K → Prop
  | .alu .mulAdd a b _ _ (some i) => w i = w a * w b
  | .alu .boolCheck a _ _ out _ => w out = w a
  | .alu .mul a _ _ _ _ => w a ≠ 0   -- divisor of a backward `mul` (the property's own premise)
  | _ => True

def GoodS (w : Nat → K) : Except RunErr (RState K) → Prop
  | .ok s => Agree s.w w
  | .error e => Structural e

theorem bind_good {α} (w : Nat → K) (x : Except RunErr (Array (Option K))) (f : Array (Option K) → Except RunErr α)
    (P : Except RunErr α → Prop) (hx : GoodW w x) (herr : ∀ e, Structural e → P (.error e))
    (hf : ∀ t, Agree t w → P (f t)) : P (x >>= f) := by
  cases x with
  | error e => exact herr e hx
  | ok t => exact hf t hx

theorem ok_bind' {ε α β} (a : α) (f : α → Except ε β) : (Except.ok a >>= f) = f a := rfl

theorem err_bind' {ε α β} (e : ε) (f : α → Except ε β) : ((Except.error e : Except ε α) >>= f) = .error e := rfl

def GoodA (w : Nat → K) : Except RunErr (Array (Option K) × AluRec K) → Prop
  | .ok tr => Agree tr.1 w
  | .error e => Structural e

theorem goodA_of_setW (w : Nat → K) (x : Except RunErr (Array (Option K))) (r : AluRec K)
    (hx : GoodW w x) : GoodA w (x >>= fun t => pure (t, r)) := by
  cases x with
  | error e => exact hx
  | ok t => exact hx

theorem execAlu_good (t : Array (Option K)) (w pub : Nat → K) (k : AluKind) (a b : Nat) (c : Option Nat)
    (out : Nat) (io : Option Nat) (h : Agree t w)
    (hh : (Op.alu k a b c out io : Op K).holds w pub)
    (hrw : RunnerWrites w (Op.alu k a b c out io : Op K)) :
    GoodA w (execAlu t k a b c out io) := by
  cases k with
  | add =>
    simp only [execAlu]
    rcases getW_good t w a h with ⟨av, hav, rfl⟩ | ⟨e, he, hs⟩
    · rw [hav]
      simp only [ok_bind']
      cases hsb : slot t b with
      | some bv =>
        have hbv := h b bv hsb
        simp only
        apply goodA_of_setW
        exact setW_good t w out _ h (by rw [hbv]; simpa [Op.holds] using hh)
      | none =>
        simp only
        rcases getW_good t w out h with ⟨ov, hov, rfl⟩ | ⟨e, he, hs⟩
        · rw [hov]
          simp only [ok_bind']
          apply goodA_of_setW
          exact setW_good t w b _ h (by simp only [Op.holds] at hh; rw [← hh]; ring)
        · rw [he]; exact hs
    · rw [he]; exact hs
  | mul =>
    simp only [execAlu]
    rcases getW_good t w a h with ⟨av, hav, rfl⟩ | ⟨e, he, hs⟩
    · rw [hav]
      simp only [ok_bind']
      cases hsb : slot t b with
      | some bv =>
        have hbv := h b bv hsb
        simp only
        apply goodA_of_setW
        exact setW_good t w out _ h (by rw [hbv]; simpa [Op.holds] using hh)
      | none =>
        simp only
        rcases getW_good t w out h with ⟨ov, hov, rfl⟩ | ⟨e, he, hs⟩
        · rw [hov]
          simp only [ok_bind']
          have hne : w a ≠ 0 := hrw
          rw [if_neg hne]
          apply goodA_of_setW
          exact setW_good t w b _ h (by
            simp only [Op.holds] at hh
            rw [← hh]; field_simp)
        · rw [he]; exact hs
    · rw [he]; exact hs
  | boolCheck =>
    simp only [execAlu]
    rcases getW_good t w a h with ⟨av, hav, rfl⟩ | ⟨e, he, hs⟩
    · rw [hav]
      simp only [ok_bind']
      apply goodA_of_setW
      exact setW_good t w out _ h (by simpa [RunnerWrites] using hrw.symm)
    · rw [he]; exact hs
  | mulAdd =>
    -- after the optional write of the product slot
    have tail : ∀ t1, Agree t1 w →
        GoodA w (do
          let cv ← (match c with
            | some ci => getW t1 ci
            | none => pure 0)
          let ov := w a * w b + cv
          let w2 ← setW t1 out ov
          pure (w2, (⟨.mulAdd, a, b, c.getD 0, out, w a, w b, cv, ov⟩ : AluRec K))) := by
      intro t1 h1
      cases c with
      | none =>
        simp only [pure, Except.pure, ok_bind']
        apply goodA_of_setW
        exact setW_good t1 w out _ h1 (by simp only [Op.holds] at hh; rw [← hh]; ring)
      | some ci =>
        rcases getW_good t1 w ci h1 with ⟨cv, hcv, rfl⟩ | ⟨e, he, hs⟩
        · simp only [hcv, ok_bind']
          apply goodA_of_setW
          exact setW_good t1 w out _ h1 (by simpa [Op.holds] using hh)
        · simp only [he, err_bind']; exact hs
    simp only [execAlu]
    rcases getW_good t w a h with ⟨av, hav, rfl⟩ | ⟨e, he, hs⟩
    · rw [hav]
      simp only [ok_bind']
      rcases getW_good t w b h with ⟨bv, hbv, rfl⟩ | ⟨e, he, hs⟩
      · rw [hbv]
        simp only [ok_bind']
        cases io with
        | none =>
          simp only [pure, Except.pure, ok_bind']
          exact tail t h
        | some i =>
          have hio := setW_good t w i (w a * w b) h (by simpa [RunnerWrites] using hrw.symm)
          cases hx : setW t i (w a * w b) with
          | error e =>
            rw [hx] at hio
            show GoodA w (setW t i (w a * w b) >>= _)
            rw [hx]; exact hio
          | ok t1 =>
            rw [hx] at hio
            show GoodA w (setW t i (w a * w b) >>= _)
            rw [hx]
            exact tail t1 hio
      · rw [he]; exact hs
    · rw [he]; exact hs
  | horner =>
    simp only [execAlu]
    cases io with
    | none => exact trivial
    | some acc =>
      cases c with
      | none => exact trivial
      | some cId =>
        simp only
        rcases getW_good t w acc h with ⟨accv, hacc, rfl⟩ | ⟨e, he, hs⟩
        · rw [hacc]; simp only [ok_bind']
          rcases getW_good t w a h with ⟨av, hav, rfl⟩ | ⟨e, he, hs⟩
          · rw [hav]; simp only [ok_bind']
            rcases getW_good t w b h with ⟨bv, hbv, rfl⟩ | ⟨e, he, hs⟩
            · rw [hbv]; simp only [ok_bind']
              rcases getW_good t w cId h with ⟨cv, hcv, rfl⟩ | ⟨e, he, hs⟩
              · rw [hcv]; simp only [ok_bind']
                apply goodA_of_setW
                exact setW_good t w out _ h (by simpa [Op.holds] using hh)
              · rw [he]; exact hs
            · rw [he]; exact hs
          · rw [he]; exact hs
        · rw [he]; exact hs

theorem foldlM_setW_good {α} (w : Nat → K) (f : α → Nat) (g : α → K)
    (l : List α) : ∀ (t : Array (Option K)), Agree t w → (∀ x ∈ l, g x = w (f x)) →
      GoodW w (l.foldlM (fun t x => setW t (f x) (g x)) t) := by
  induction l with
  | nil => intro t h _; exact h
  | cons x xs ih =>
    intro t h hv
    simp only [List.foldlM_cons]
    have h1 := setW_good t w (f x) (g x) h (hv x (by simp))
    cases hx : setW t (f x) (g x) with
    | error e => rw [hx] at h1; exact h1
    | ok t1 =>
      rw [hx] at h1
      exact ih t1 h1 (fun y hy => hv y (by simp [hy]))

/-- A hint's outputs carry no relation: the assignment must simply hold what the executor computes. -/
def HintAgrees (canon : K → Nat) (w : Nat → K) : Op K → Prop
  | .hint [x] outs .hintBits =>
    ∀ oi ∈ outs.zipIdx, (if (canon (w x) >>> oi.2) % 2 = 1 then (1 : K) else 0) = w oi.1
  | .hint [x] [o] .hintExt => w x = w o
  | _ => True

theorem execOp_good (canon : K → Nat) (s : RState K) (w pub : Nat → K) (op : Op K) (h : Agree s.w w)
    (hh : op.holds w pub) (hrw : RunnerWrites w op) (hhint : HintAgrees canon w op) :
    GoodS w (execOp canon s op) := by
  cases op with
  | const out v =>
    simp only [execOp]
    have := setW_good s.w w out v h (by simpa [Op.holds] using hh.symm)
    cases hx : setW s.w out v with
    | error e => rw [hx] at this; exact this
    | ok t1 => rw [hx] at this; exact this
  | pub out pos =>
    simp only [execOp]
    split
    · exact h
    · trivial
  | alu k a b c out io =>
    simp only [execOp]
    have := execAlu_good s.w w pub k a b c out io h hh hrw
    cases hx : execAlu s.w k a b c out io with
    | error e => rw [hx] at this; exact this
    | ok tr => rw [hx] at this; exact this
  | npo _ _ _ _ => trivial
  | hint ins outs kd =>
    cases kd with
    | table _ => trivial
    | hintBits =>
      simp only [execOp, execHintBits]
      match ins, hhint with
      | [], _ => trivial
      | [x], hhint =>
        simp only
        rcases getW_good s.w w x h with ⟨xv, hxv, rfl⟩ | ⟨e, he, hs⟩
        · rw [hxv]; simp only [ok_bind']
          have := foldlM_setW_good w (fun (oi : Nat × Nat) => oi.1)
            (fun oi => if (canon (w x) >>> oi.2) % 2 = 1 then (1 : K) else 0) outs.zipIdx s.w h
            (by intro oi hoi; exact hhint oi hoi)
          cases hx : (outs.zipIdx.foldlM (fun t (oi : Nat × Nat) =>
              setW t oi.1 (if (canon (w x) >>> oi.2) % 2 = 1 then (1 : K) else 0)) s.w) with
          | error e => rw [hx] at this; exact this
          | ok t1 => rw [hx] at this; exact this
        · rw [he]; exact hs
      | _ :: _ :: _, _ => trivial
    | hintExt =>
      simp only [execOp, execHintExt]
      match ins, outs, hhint with
      | [x], [o], hhint =>
        simp only
        rcases getW_good s.w w x h with ⟨xv, hxv, rfl⟩ | ⟨e, he, hs⟩
        · rw [hxv]; simp only [ok_bind']
          have := setW_good s.w w o (w x) h hhint
          cases hx : setW s.w o (w x) with
          | error e => rw [hx] at this; exact this
          | ok t1 => rw [hx] at this; exact this
        · rw [he]; exact hs
      | [], _, _ => trivial
      | [_], [], _ => trivial
      | [_], _ :: _ :: _, _ => trivial
      | _ :: _ :: _, _, _ => trivial

theorem execAll_good (canon : K → Nat) (w pub : Nat → K) :
    ∀ (ops : List (Op K)) (s : RState K), Agree s.w w →
      (∀ op ∈ ops, op.holds w pub ∧ RunnerWrites w op ∧ HintAgrees canon w op) →
      GoodS w (ops.foldlM (execOp canon) s) := by
  intro ops
  induction ops with
  | nil => intro s h _; exact h
  | cons op ops ih =>
    intro s h hall
    simp only [List.foldlM_cons]
    obtain ⟨h1, h2, h3⟩ := hall op (by simp)
    have := execOp_good canon s w pub op h h1 h2 h3
    cases hx : execOp canon s op with
    | error e => rw [hx] at this; exact this
    | ok s1 =>
      rw [hx] at this
      exact ih s1 this (fun o ho => hall o (by simp [ho]))

theorem postpass_good (w : Nat → K) (g : Nat → Nat) :
    ∀ (l : List (Nat × Nat)) (t : Array (Option K)), Agree t w → (∀ dc ∈ l, w dc.1 = w (g dc.2)) →
      GoodW w (l.foldlM (fun t (dc : Nat × Nat) =>
        match slot t (g dc.2) with
        | some v => setW t dc.1 v
        | none => pure t) t) := by
  intro l
  induction l with
  | nil => intro t h _; exact h
  | cons dc rest ih =>
    intro t h hv
    simp only [List.foldlM_cons]
    cases hs : slot t (g dc.2) with
    | none =>
      simp only [pure, Except.pure, ok_bind']
      exact ih t h (fun d hd => hv d (by simp [hd]))
    | some v =>
      simp only
      have hvw : v = w dc.1 := by rw [h _ v hs, hv dc (by simp)]
      have h1 := setW_good t w dc.1 v h hvw
      cases hx : setW t dc.1 v with
      | error e => rw [hx] at h1; exact h1
      | ok t1 =>
        rw [hx] at h1
        simp only [ok_bind']
        exact ih t1 h1 (fun d hd => hv d (by simp [hd]))

theorem mapM_ok_length' {α β ε} (f : α → Except ε β) :
    ∀ (l : List α) (r : List β), l.mapM f = .ok r → r.length = l.length := by
  intro l
  induction l with
  | nil => intro r h; simp [List.mapM_nil, pure, Except.pure] at h; subst h; rfl
  | cons a l ih =>
    intro r h
    rw [List.mapM_cons] at h
    cases ha : f a with
    | error e => rw [ha] at h; simp only [err_bind'] at h; cases h
    | ok b =>
      rw [ha] at h
      simp only [ok_bind'] at h
      cases hl : l.mapM f with
      | error e => rw [hl] at h; simp only [err_bind'] at h; cases h
      | ok bs =>
        rw [hl] at h
        simp only [ok_bind', pure, Except.pure, Except.ok.injEq] at h
        subst h
        simp [ih bs hl]

theorem mapM_slot_structural (t : Array (Option K)) :
    ∀ (idx : List Nat) (e : RunErr),
      idx.mapM (fun i => match slot t i with
        | some v => (pure v : Except RunErr K)
        | none => .error (.notSetForIndex i)) = .error e → Structural e := by
  intro idx
  induction idx with
  | nil => intro e h; simp [List.mapM_nil, pure, Except.pure] at h
  | cons i rest ih =>
    intro e h
    rw [List.mapM_cons] at h
    cases hs : slot t i with
    | none => simp only [hs, err_bind'] at h; cases h; trivial
    | some v =>
      simp only [hs, pure, Except.pure, ok_bind'] at h
      cases hr : rest.mapM (fun i => match slot t i with
        | some v => (pure v : Except RunErr K)
        | none => .error (.notSetForIndex i)) with
      | error e' =>
        simp only [pure, Except.pure] at hr
        rw [hr] at h
        simp only [err_bind', Except.error.injEq] at h
        subst h
        exact ih _ hr
      | ok vs =>
        simp only [pure, Except.pure] at hr
        rw [hr] at h
        simp only [ok_bind'] at h
        cases h

/-- **C02 / no value error on satisfying inputs.** If the assignment `w` satisfies every op of the
circuit (`holds`, the runner's own writes, hint outputs), respects the de-duplication rewrite, and
the table the run starts from (the supplied inputs) agrees with `w`, then the modelled `run` either
succeeds — returning exactly `w` on every slot — or fails with a *structural* error; it never reports
a conflict or a division by zero. -/
theorem run_satisfying_no_value_error (canon : K → Nat) (c : Circuit K) (w0 : Array (Option K))
    (w pub : Nat → K) (h0 : Agree w0 w)
    (hall : ∀ op ∈ c.ops.toList, op.holds w pub ∧ RunnerWrites w op ∧ HintAgrees canon w op)
    (hrw : ∀ dc ∈ c.rewrite, w dc.1 = w (resolve c.rewrite dc.2)) :
    match runFrom canon c w0 with
    | .ok t => ∀ j, j < t.witness.size → t.witness.getD j 0 = w j
    | .error e => Structural e := by
  unfold runFrom
  have h1 := execAll_good canon w pub c.ops.toList { w := w0, recs := #[] } h0 hall
  cases hx : c.ops.toList.foldlM (execOp canon) ({ w := w0, recs := #[] } : RState K) with
  | error e => rw [hx] at h1; simp only [err_bind']; exact h1
  | ok s =>
    rw [hx] at h1
    simp only [ok_bind']
    have h2 := postpass_good w (fun d => resolve c.rewrite d) c.rewrite s.w h1 hrw
    cases hy : (c.rewrite.foldlM (fun t (dc : Nat × Nat) =>
        match slot t (resolve c.rewrite dc.2) with
        | some v => setW t dc.1 v
        | none => pure t) s.w) with
    | error e => rw [hy] at h2; simp only [err_bind']; exact h2
    | ok w3 =>
      rw [hy] at h2
      simp only [ok_bind']
      cases hz : ((List.range w3.size).mapM fun i => match slot w3 i with
          | some v => (pure v : Except RunErr K)
          | none => .error (.notSetForIndex i)) with
      | error e =>
        simp only [err_bind']
        exact mapM_slot_structural w3 _ e hz
      | ok vals =>
        simp only [ok_bind', pure, Except.pure]
        intro j hj
        have hlen : vals.length = w3.size := by
          have := mapM_ok_length' (fun i => match slot w3 i with
            | some v => (pure v : Except RunErr K)
            | none => .error (.notSetForIndex i)) (List.range w3.size) vals hz
          simpa using this
        have hjlt : j < w3.size := by simpa [hlen] using hj
        have := mapM_slot_getD w3 (List.range w3.size) vals hz j (by simpa using hjlt)
        have hr : (List.range w3.size).getD j 0 = j := by
          simp [List.getD, List.getElem?_range hjlt]
        rw [hr] at this
        exact h2 j _ this

end P3R.C02
