/-
Driver for C11: evaluates the model of the ALU table's constraints / interactions on concrete
windows. One case per line:
  alu <D> <lanes> <kmax> <kind:base|bin|quint> <w> | <main local> | <main next> | <prep local> | <prep next>
Answer: `c <constraint values>` then `i <interactions>` (`f1,f2,..:mult` each).
-/
import P3R.Model.AluAir
import P3R.Model.AluSchedule
import P3R.Model.NpoLanes
import P3R.Model.Field

open P3R

abbrev F := PF babyBearP

def parseVec (s : String) : List F :=
  ((s.trimAscii.toString.splitOn " ").filter (· ≠ "")).filterMap fun t => t.toNat?.map (PF.ofNat (p := babyBearP))

def showVec (l : List F) : String := " ".intercalate (l.map toString)

def chunk13 : Nat → List F → List (List F)
  | 0, _ => []
  | _, [] => []
  | fuel + 1, l => l.take 13 :: chunk13 fuel (l.drop 13)

def showEntry : SchedEntry → String
  | .op i => s!"O{i}"
  | .packed f k => s!"P{f}:{k}"
  | .sep => "S"

/-- `sched <lanes> <kmax> | <13 values per op>`: the schedule and the scheduled preprocessed rows. -/
def handleSched (lanes kmax : Nat) (vals : List F) : List String :=
  let preps := chunk13 (vals.length + 1) vals
  let sched := match computeSchedule preps lanes kmax with
    | some s => s
    | none => (List.range preps.length).map SchedEntry.op
  let rows := scheduledPrepRows preps lanes kmax sched
  let rows := (rows.reverse.dropWhile fun r => r.all (· == 0)).reverse
  -- certificate: the interactions the AIR declares on the scheduled rows (`aluInteractions`) are, as a
  -- multiset of non-zero `(index, multiplicity)` pairs, the `entryInters` of the schedule entries — the
  -- link between the matrix and the statement of `P3R.C11.schedule_preserves_bus`
  let norm := fun (l : List (F × F)) =>
    ((l.filter fun im => im.2 != 0).map fun im => (im.1.val, im.2.val)).mergeSort
      (fun a b => a.1 < b.1 || (a.1 == b.1 && a.2 ≤ b.2))
  let fromRows := norm ((scheduledPrepRows preps lanes kmax sched).flatMap (rowIdxMults lanes kmax))
  let fromEntries := norm (sched.flatMap (entryInters preps))
  [s!"s {" ".intercalate (sched.map showEntry)}",
   s!"m {rows.length} {" ; ".intercalate (rows.map showVec)}",
   if fromRows == fromEntries then "ichk ok" else "ichk FAIL"]

def showInters (is : List (List F × F)) : String :=
  " ".intercalate (is.map fun (f, m) => s!"{",".intercalate (f.map toString)}:{m}")

def handle (line : String) : List String :=
  match line.trimAscii.toString.splitOn "|" with
  | [hd, ml, pl] =>
    match (hd.trimAscii.toString.splitOn " ").filter (· ≠ "") with
    | ["send", d, lanes] =>
      match d.toNat?, lanes.toNat? with
      | some d, some lanes =>
        let (ml, pl) := (parseVec ml, parseVec pl)
        [s!"c {showVec (sendConstraints d lanes ml pl)}", s!"i {showInters (sendInteractions d lanes ml pl)}"]
      | _, _ => ["bad-op"]
    | ["recompose", d, lanes, coeff] =>
      match d.toNat?, lanes.toNat?, coeff.toNat? with
      | some d, some lanes, some coeff =>
        let (ml, pl) := (parseVec ml, parseVec pl)
        ["c ", s!"i {showInters (recomposeInteractions d lanes (coeff == 1) ml pl)}"]
      | _, _, _ => ["bad-op"]
    | _ => ["bad-op"]
  | [hd, vals] =>
    match (hd.trimAscii.toString.splitOn " ").filter (· ≠ "") with
    | ["lanemat", lanes, w] =>
      -- `lanemat <lanes> <w> | <w values per op>`: the main trace of a lane-packed NPO table
      -- (Model/NpoLanes.laneMatrix, theorems Props/C10Lanes), one `r <cells>` line per row
      match lanes.toNat?, w.toNat? with
      | some lanes, some w =>
        if lanes == 0 || w == 0 then ["bad-op"] else
        let flat := parseVec vals
        let ops := (List.range (flat.length / w)).map fun i => (flat.drop (i * w)).take w
        let m := NpoLanes.laneMatrix lanes w ops
        s!"h {m.length}" :: m.map fun r => s!"r {showVec r}"
      | _, _ => ["bad-op"]
    | ["sched", lanes, kmax] =>
      match lanes.toNat?, kmax.toNat? with
      | some lanes, some kmax => if lanes == 0 || kmax < 2 then ["bad-op"] else handleSched lanes kmax (parseVec vals)
      | _, _ => ["bad-op"]
    | _ => ["bad-op"]
  | [hd, ml, mn, pl, pn] =>
    match (hd.trimAscii.toString.splitOn " ").filter (· ≠ "") with
    | ["alu", d, lanes, kmax, kind, w] =>
      match d.toNat?, lanes.toNat?, kmax.toNat?, w.toNat? with
      | some d, some lanes, some kmax, some w =>
        let k : Option (ExtKind F) := match kind with
          | "base" => some .base
          | "bin" => some (.binomial (PF.ofNat w))
          | "quint" => some .quintic
          | _ => none
        match k with
        | none => ["bad-op"]
        | some k =>
          let (ml, mn, pl, pn) := (parseVec ml, parseVec mn, parseVec pl, parseVec pn)
          let cs := aluConstraints d lanes kmax k ml mn pl pn
          let is := aluInteractions d lanes kmax ml pl
          [s!"c {showVec cs}",
           s!"i {" ".intercalate (is.map fun (f, m) => s!"{",".intercalate (f.map toString)}:{m}")}"]
      | _, _, _, _ => ["bad-op"]
    | _ => ["bad-op"]
  | _ => if line.trimAscii.toString.isEmpty then [] else ["bad-op"]

partial def loop (h : IO.FS.Stream) : IO Unit := do
  let line ← h.getLine
  if line.isEmpty then return ()
  for o in handle line do IO.println o
  loop h

def main : IO Unit := do loop (← IO.getStdin)
