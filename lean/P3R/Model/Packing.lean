/-
L13 (part) — proof-shape records and the three traversals of the `Recursive` trait (C14).
Import-free.

For every target structure of `recursion/src/types/proof.rs`, `recursion/src/pcs/fri/targets.rs`
and the two input builders of `recursion/src/public_inputs.rs` this file transcribes, *separately*:

* `…Alloc` — `Recursive::new` / `…InputsBuilder::allocate`: the sequence of
  `alloc_public_input*` / `alloc_private_input*` calls in program order, each call tagged with the
  name (field path inside the *target* structure) of the target it returns;
* `…Pub`   — `Recursive::get_values` / `pack_public_values`: the sequence of proof elements (field
  path inside the *proof* structure) pushed onto the public vector;
* `…Priv`  — `Recursive::get_private_values` / `pack_private_values`: likewise for the private vector.

A target and a proof element carry the same name exactly when the target is the circuit
representation of that element (`trace_local_targets[i]` ↔ `opened_values.trace_local[i]`, …), so
"packed in allocation order" is: the public labels of `…Alloc`, in order, equal `…Pub`, and the
private labels equal `…Priv` (`P3R.C14.packing_aligned`).

`CircuitBuilder` keeps two independent counters (`public_tracker`, `private_input_tracker`); a
public allocation takes the next public position, a private one the next private position, and
`Circuit::public_flat_len` / `private_flat_len` are the final counter values. So position `i` of
the public vector lands on the `i`-th *public* allocation regardless of interleaved private ones —
which is why the statement filters `…Alloc` by visibility.

A *shape* is everything the traversals depend on: lengths, options and counts. Values never matter.

The last section models which inputs the in-circuit verifier *consumes* (`…Uses`): transcript
observations and PCS / constraint operands of `verify_batch_circuit`, `verify_circuit`
(uni-STARK), `get_challenges_circuit`, `observe_opened_values_circuit` and `verify_fri_circuit`,
by block of inputs, with the conditions under which each block is consumed.
-/
namespace P3R.Packing

abbrev Label := String

inductive Vis | pub | priv
  deriving DecidableEq, Repr

/-- One `alloc_*_input` call: which counter it advances and which target it produces. -/
structure Slot where
  vis : Vis
  lab : Label
  deriving DecidableEq, Repr

/-- Labels of the public (resp. private) allocations, in allocation order. -/
def pubOf : List Slot → List Label
  | [] => []
  | s :: l => if s.vis = Vis.pub then s.lab :: pubOf l else pubOf l

def privOf : List Slot → List Label
  | [] => []
  | s :: l => if s.vis = Vis.priv then s.lab :: privOf l else privOf l

/-! ### Building blocks -/

/-- `pre.i` for `i = k, …, k+n-1`. -/
def idxFrom (pre : String) : Nat → Nat → List Label
  | _, 0 => []
  | k, n + 1 => s!"{pre}.{k}" :: idxFrom pre (k + 1) n

/-- `pre.0 … pre.(n-1)`: the names of a length-`n` vector field. -/
def idx (pre : String) (n : Nat) : List Label := idxFrom pre 0 n

def mkPub (l : List Label) : List Slot := l.map (Slot.mk Vis.pub)
def mkPriv (l : List Label) : List Slot := l.map (Slot.mk Vis.priv)

/-- `alloc_public_inputs(n, _)` for the vector field `pre`. -/
def allocPub (pre : String) (n : Nat) : List Slot := mkPub (idx pre n)
/-- `alloc_private_inputs(n, _)` for the vector field `pre`. -/
def allocPriv (pre : String) (n : Nat) : List Slot := mkPriv (idx pre n)

/-- `opt.as_ref().map(f)` / `if let Some(x) = opt { extend(f x) }`. -/
def optL {α β : Type} (o : Option α) (f : α → List β) : List β :=
  match o with
  | none => []
  | some a => f a

/-- `xs.iter().enumerate().flat_map(|(i, x)| f i x)` starting at index `i`. -/
def flatMapIdx {α β : Type} (f : Nat → α → List β) : Nat → List α → List β
  | _, [] => []
  | i, a :: as => f i a ++ flatMapIdx f (i + 1) as

/-! ### Shapes -/

/-- `p3_uni_stark::OpenedValues`. -/
structure OVShape where
  traceLocal : Nat
  traceNext : Option Nat
  prepLocal : Option Nat
  prepNext : Option Nat
  chunks : List Nat
  random : Option Nat

/-- `p3_batch_stark::OpenedValuesWithLookups`. -/
structure OVLShape where
  base : OVShape
  permLocal : Nat
  permNext : Nat

/-- An MMCS opening proof as far as circuit inputs go: the salt length per opened matrix
    (`MerkleTreeHidingMmcs`); `[]` for the non-hiding `MerkleTreeMmcs`, whose sibling digests are
    never circuit inputs (`HashProofTargets::new` allocates nothing; they travel as NPO private
    data, outside the packed vectors). -/
abbrev MmcsProofShape := List Nat

/-- `p3_commit::BatchOpening`. -/
structure BatchOpeningShape where
  opened : List Nat
  proof : MmcsProofShape

/-- `p3_fri::CommitPhaseProofStep`. `siblings` is `sibling_values.len()`. -/
structure StepShape where
  logArity : Nat
  siblings : Nat
  proof : MmcsProofShape

/-- `p3_fri::QueryProof`. -/
structure QueryShape where
  input : List BatchOpeningShape
  steps : List StepShape

/-- `p3_fri::FriProof`: commit-phase caps (number of roots each), number of per-round PoW
    witnesses, query proofs, final polynomial length (the query PoW witness is always there). -/
structure FriShape where
  commits : List Nat
  commitPow : Nat
  queries : List QueryShape
  finalPoly : Nat

/-- PCS proof: `TwoAdicFriPcs` (`hid = none`) or `HidingFriPcs` (random opened values
    rounds → matrices → points → length, then the inner FRI proof). -/
structure PcsShape where
  hid : Option (List (List (List Nat)))
  fri : FriShape

/-- `p3_batch_stark::BatchCommitments` (number of cap roots each). -/
structure ComsShape where
  main : Nat
  perm : Option Nat
  quot : Nat
  rand : Option Nat

/-- Everything `StarkVerifierInputsBuilder::allocate` / `pack_values` look at. -/
structure UniShape where
  airPub : Nat
  coms : ComsShape
  ov : OVShape
  pcs : PcsShape
  prep : Option Nat

/-- Everything `BatchStarkVerifierInputsBuilder::allocate` / `pack_values` look at. -/
structure BatchShape where
  airPub : List Nat
  coms : ComsShape
  ovs : List OVLShape
  pcs : PcsShape
  terminals : List Bool
  prep : Option Nat

/-! ### `MerkleCapTargets` (digest of `E` words per root) -/

def capAlloc (E : Nat) (pre : String) (roots : Nat) : List Slot :=
  flatMapIdx (fun r _ => allocPub s!"{pre}.r{r}" E) 0 (List.replicate roots ())

def capPub (E : Nat) (pre : String) (roots : Nat) : List Label :=
  flatMapIdx (fun r _ => idx s!"{pre}.r{r}" E) 0 (List.replicate roots ())

/-! ### `CommitmentTargets` -/

def comsAlloc (E : Nat) (c : ComsShape) : List Slot :=
  capAlloc E "com.main" c.main ++ optL c.perm (capAlloc E "com.perm")
    ++ capAlloc E "com.quot" c.quot ++ optL c.rand (capAlloc E "com.rand")

def comsPub (E : Nat) (c : ComsShape) : List Label :=
  capPub E "com.main" c.main ++ optL c.perm (capPub E "com.perm")
    ++ capPub E "com.quot" c.quot ++ optL c.rand (capPub E "com.rand")

/-! ### `OpenedValuesTargets` / `…WithLookups` / `BatchOpenedValuesTargets` -/

def ovAlloc (pre : String) (o : OVShape) : List Slot :=
  allocPriv s!"{pre}.tl" o.traceLocal
    ++ allocPriv s!"{pre}.tn" (o.traceNext.getD 0)          -- `map_or(0, len)`: always a call
    ++ optL o.prepLocal (allocPriv s!"{pre}.pl")
    ++ optL o.prepNext (allocPriv s!"{pre}.pn")
    ++ flatMapIdx (fun j n => allocPriv s!"{pre}.q{j}" n) 0 o.chunks
    ++ optL o.random (allocPriv s!"{pre}.rnd")

def ovPriv (pre : String) (o : OVShape) : List Label :=
  idx s!"{pre}.tl" o.traceLocal
    ++ optL o.traceNext (idx s!"{pre}.tn")
    ++ optL o.prepLocal (idx s!"{pre}.pl")
    ++ optL o.prepNext (idx s!"{pre}.pn")
    ++ flatMapIdx (fun j n => idx s!"{pre}.q{j}" n) 0 o.chunks
    ++ optL o.random (idx s!"{pre}.rnd")

def ovlAlloc (pre : String) (o : OVLShape) : List Slot :=
  ovAlloc pre o.base ++ allocPriv s!"{pre}.prl" o.permLocal ++ allocPriv s!"{pre}.prn" o.permNext

def ovlPriv (pre : String) (o : OVLShape) : List Label :=
  ovPriv pre o.base ++ idx s!"{pre}.prl" o.permLocal ++ idx s!"{pre}.prn" o.permNext

def ovsAlloc (l : List OVLShape) : List Slot := flatMapIdx (fun i o => ovlAlloc s!"ov{i}" o) 0 l
def ovsPriv (l : List OVLShape) : List Label := flatMapIdx (fun i o => ovlPriv s!"ov{i}" o) 0 l

/-! ### MMCS proofs, batch openings, commit-phase steps, queries -/

/-- `HidingHashProofTargets::new` (and `HashProofTargets::new` for `[]`). -/
def mmcsAlloc (pre : String) (p : MmcsProofShape) : List Slot :=
  flatMapIdx (fun m n => allocPriv s!"{pre}.salt{m}" n) 0 p

def mmcsPriv (pre : String) (p : MmcsProofShape) : List Label :=
  flatMapIdx (fun m n => idx s!"{pre}.salt{m}" n) 0 p

def boAlloc (pre : String) (b : BatchOpeningShape) : List Slot :=
  flatMapIdx (fun m n => allocPriv s!"{pre}.m{m}" n) 0 b.opened ++ mmcsAlloc pre b.proof

def boPriv (pre : String) (b : BatchOpeningShape) : List Label :=
  flatMapIdx (fun m n => idx s!"{pre}.m{m}" n) 0 b.opened ++ mmcsPriv pre b.proof

/-- `CommitPhaseProofStepTargets::new`: `sibling_values.len()·D` coefficient targets (one group of
    `EF::DIMENSION` per sibling value the proof carries — the same field `get_private_values`
    reads; `log_arity` is *not* used to size the allocation since /repo fc0321f), then the proof. -/
def stepAlloc (D : Nat) (pre : String) (s : StepShape) : List Slot :=
  allocPriv s!"{pre}.sib" (s.siblings * D) ++ mmcsAlloc pre s.proof

/-- Coefficients `c = 0..D-1` of sibling `j`, named by their flat position `j·D + c`. -/
def sibCoeffs (D : Nat) (pre : String) : Nat → Nat → List Label
  | _, 0 => []
  | j, n + 1 => idxFrom s!"{pre}.sib" (j * D) D ++ sibCoeffs D pre (j + 1) n

/-- `get_private_values`: for each of the `sibling_values.len()` siblings its `D` coefficients,
    then the proof's private values. -/
def stepPriv (D : Nat) (pre : String) (s : StepShape) : List Label :=
  sibCoeffs D pre 0 s.siblings ++ mmcsPriv pre s.proof

def queryAlloc (D : Nat) (pre : String) (q : QueryShape) : List Slot :=
  flatMapIdx (fun b bo => boAlloc s!"{pre}.in{b}" bo) 0 q.input
    ++ flatMapIdx (fun k st => stepAlloc D s!"{pre}.ph{k}" st) 0 q.steps

def queryPriv (D : Nat) (pre : String) (q : QueryShape) : List Label :=
  flatMapIdx (fun b bo => boPriv s!"{pre}.in{b}" bo) 0 q.input
    ++ flatMapIdx (fun k st => stepPriv D s!"{pre}.ph{k}" st) 0 q.steps

/-! ### `FriProofTargets`, `HidingFriProofTargets` -/

def friAlloc (D E : Nat) (f : FriShape) : List Slot :=
  flatMapIdx (fun k roots => capAlloc E s!"fri.cpc{k}" roots) 0 f.commits
    ++ allocPub "fri.cpow" f.commitPow                      -- one `Witness::new` per entry
    ++ flatMapIdx (fun q qs => queryAlloc D s!"fri.q{q}" qs) 0 f.queries
    ++ allocPub "fri.final" f.finalPoly
    ++ allocPub "fri.qpow" 1

def friPub (E : Nat) (f : FriShape) : List Label :=
  flatMapIdx (fun k roots => capPub E s!"fri.cpc{k}" roots) 0 f.commits
    ++ idx "fri.cpow" f.commitPow
    -- query proofs contribute no public values (every leaf `get_values` is empty)
    ++ idx "fri.final" f.finalPoly
    ++ idx "fri.qpow" 1

def friPriv (D : Nat) (f : FriShape) : List Label :=
  flatMapIdx (fun q qs => queryPriv D s!"fri.q{q}" qs) 0 f.queries

def hidAlloc (h : List (List (List Nat))) : List Slot :=
  flatMapIdx (fun r round => flatMapIdx (fun m mat =>
    flatMapIdx (fun p n => allocPriv s!"hid.r{r}.m{m}.p{p}" n) 0 mat) 0 round) 0 h

def hidPriv (h : List (List (List Nat))) : List Label :=
  flatMapIdx (fun r round => flatMapIdx (fun m mat =>
    flatMapIdx (fun p n => idx s!"hid.r{r}.m{m}.p{p}" n) 0 mat) 0 round) 0 h

def pcsAlloc (D E : Nat) (p : PcsShape) : List Slot := optL p.hid hidAlloc ++ friAlloc D E p.fri
def pcsPub (E : Nat) (p : PcsShape) : List Label := friPub E p.fri
def pcsPriv (D : Nat) (p : PcsShape) : List Label := optL p.hid hidPriv ++ friPriv D p.fri

/-! ### `ProofTargets` + `StarkVerifierInputsBuilder` (uni-STARK) -/

def uniAlloc (D E : Nat) (s : UniShape) : List Slot :=
  allocPub "air0" s.airPub
    ++ (comsAlloc E s.coms ++ ovAlloc "ov0" s.ov ++ pcsAlloc D E s.pcs)
    ++ optL s.prep (capAlloc E "prep")

def uniPub (E : Nat) (s : UniShape) : List Label :=
  idx "air0" s.airPub ++ (comsPub E s.coms ++ pcsPub E s.pcs) ++ optL s.prep (capPub E "prep")

def uniPriv (D : Nat) (s : UniShape) : List Label := ovPriv "ov0" s.ov ++ pcsPriv D s.pcs

/-! ### `BatchProofTargets` + `CommonDataTargets` + `BatchStarkVerifierInputsBuilder` -/

/-- `lookup_terminals.iter().map(|t| t.map(|_| alloc_public_input))`, named by instance. -/
def termLabels : Nat → List Bool → List Label
  | _, [] => []
  | i, true :: l => s!"term.{i}" :: termLabels (i + 1) l
  | i, false :: l => termLabels (i + 1) l

def batchAlloc (D E : Nat) (s : BatchShape) : List Slot :=
  flatMapIdx (fun i n => allocPub s!"air{i}" n) 0 s.airPub
    ++ (comsAlloc E s.coms ++ ovsAlloc s.ovs ++ pcsAlloc D E s.pcs ++ mkPub (termLabels 0 s.terminals))
    ++ optL s.prep (capAlloc E "prep")

def batchPub (E : Nat) (s : BatchShape) : List Label :=
  flatMapIdx (fun i n => idx s!"air{i}" n) 0 s.airPub
    ++ (comsPub E s.coms ++ pcsPub E s.pcs ++ termLabels 0 s.terminals)
    ++ optL s.prep (capPub E "prep")

def batchPriv (D : Nat) (s : BatchShape) : List Label := ovsPriv s.ovs ++ pcsPriv D s.pcs

/-! ### Well-formedness of sibling counts

Not needed for `packed = allocated` any more (both traversals read `sibling_values.len()`); it is
what the *verifier* requires: `verify_fri_circuit` refuses to build a circuit for any other count
(`friSibCheck` below), as native `verify_query` rejects any other length. -/

/-- Every commit-phase step carries `2^log_arity − 1` sibling values. -/
def StepShape.wf (s : StepShape) : Bool := s.siblings == 2 ^ s.logArity - 1
def QueryShape.wf (q : QueryShape) : Bool := q.steps.all StepShape.wf
def FriShape.wf (f : FriShape) : Bool := f.queries.all QueryShape.wf
def PcsShape.wf (p : PcsShape) : Bool := p.fri.wf

/-! ### The build-time shape check of `verify_fri_circuit` on the per-query folding data

Transcription of the loop at the head of `verify_fri_circuit` (`recursion/src/pcs/fri/verifier.rs`)
that runs *before any constraint is emitted*:

    if let Some(phase) = log_arities.iter().position(|&la| la == 0) { return Err(..) }
    for (q, query_proof) in query_proofs.iter().enumerate() {
        if query_proof.commit_phase_openings.len() != num_phases { return Err(..) }
        for (phase, opening) in query_proof.commit_phase_openings.iter().enumerate() {
            let expected_log_arity = log_arities[phase];
            if opening.log_arity != expected_log_arity { return Err(..) }
            let expected_coeffs = u32::try_from(expected_log_arity).ok()
                .and_then(|log_arity| 1usize.checked_shl(log_arity))
                .and_then(|arity| (arity - 1).checked_mul(ef_dim));
            if expected_coeffs != Some(opening.sibling_coefficients.len()) { return Err(..) }
        } }

`log_arities` is the schedule of the first query proof (`FriProofTargets::new`);
`sibling_coefficients.len()` is what `CommitPhaseProofStepTargets::new` allocated: `siblings · D`. -/

/-- `usize::BITS` (64-bit targets). -/
def usizeBits : Nat := 64

/-- `u32::try_from(la).ok().and_then(|la| 1usize.checked_shl(la)).and_then(|a| (a - 1).checked_mul(D))`:
    `checked_shl` is `None` exactly for a shift amount `≥ usize::BITS` (and `u32::try_from` cannot
    fail below that), `checked_mul` is `None` exactly when the product does not fit a `usize`. -/
def expectedCoeffs (D la : Nat) : Option Nat :=
  if la < usizeBits then
    (if (2 ^ la - 1) * D < 2 ^ usizeBits then some ((2 ^ la - 1) * D) else none)
  else none

/-- Which check of the loop fired (`InvalidProofShape`, no circuit is built). -/
inductive SibErr
  /-- `phase k: log_arity must be at least 1` (schedule entry 0) -/
  | zero (k : Nat)
  /-- `query q: commit-phase opening count must equal number of phases` -/
  | count (q : Nat)
  /-- `query q phase k: log_arity disagrees with global FRI schedule` -/
  | arity (q k : Nat)
  /-- `query q phase k: sibling coefficient count must be (2^log_arity - 1) * EF::DIMENSION` -/
  | siblings (q k : Nat)
  deriving DecidableEq, Repr

def SibErr.name : SibErr → String
  | .zero k => s!"zero:{k}"
  | .count q => s!"count:{q}"
  | .arity q k => s!"arity:{q}:{k}"
  | .siblings q k => s!"sib:{q}:{k}"

/-- `log_arities.iter().position(|&la| la == 0)`, from phase index `k`. -/
def zeroPos : Nat → List Nat → Option Nat
  | _, [] => none
  | k, la :: las => if la = 0 then some k else zeroPos (k + 1) las

/-- The inner loop over the openings of query `q`, from phase `k` (the lists have equal length). -/
def stepsCheck (D q : Nat) : Nat → List Nat → List StepShape → Except SibErr Unit
  | k, la :: las, st :: sts =>
    if st.logArity ≠ la then .error (.arity q k)
    else if expectedCoeffs D la ≠ some (st.siblings * D) then .error (.siblings q k)
    else stepsCheck D q (k + 1) las sts
  | _, _, _ => .ok ()

def queryCheck (D : Nat) (sched : List Nat) (q : Nat) (qs : QueryShape) : Except SibErr Unit :=
  if qs.steps.length ≠ sched.length then .error (.count q) else stepsCheck D q 0 sched qs.steps

def queriesCheck (D : Nat) (sched : List Nat) : Nat → List QueryShape → Except SibErr Unit
  | _, [] => .ok ()
  | q, qs :: rest =>
    match queryCheck D sched q qs with
    | .error e => .error e
    | .ok _ => queriesCheck D sched (q + 1) rest

/-- `FriProofTargets::new`: `log_arities` = the `log_arity` sequence of the first query proof. -/
def FriShape.schedule (f : FriShape) : List Nat :=
  match f.queries with
  | [] => []
  | q :: _ => q.steps.map StepShape.logArity

/-- The whole check for a FRI proof shape with extension degree `D`. -/
def friSibCheck (D : Nat) (f : FriShape) : Except SibErr Unit :=
  match zeroPos 0 f.schedule with
  | some k => .error (.zero k)
  | none => queriesCheck D f.schedule 0 f.queries

/-! ### What the in-circuit verifier consumes -/

/-- Commitment caps: observed into the transcript and passed to the PCS as MMCS roots.
    The permutation cap is observed iff present. -/
def comsUses (E : Nat) (c : ComsShape) : List Label := comsPub E c

/-- Opened values of one instance, as consumed by `observe_opened_values_circuit` (which also
    feeds them to the PCS as claimed evaluations and to the constraint folder): random (if
    present), trace local, trace next, quotient chunks, then preprocessed local/next **only when
    the verifier was given a preprocessed commitment** (`hasPrep`), then permutation local/next. -/
def ovUses (hasPrep : Bool) (pre : String) (o : OVShape) : List Label :=
  optL o.random (idx s!"{pre}.rnd")
    ++ idx s!"{pre}.tl" o.traceLocal
    ++ optL o.traceNext (idx s!"{pre}.tn")
    ++ flatMapIdx (fun j n => idx s!"{pre}.q{j}" n) 0 o.chunks
    ++ (if hasPrep then optL o.prepLocal (idx s!"{pre}.pl") ++ optL o.prepNext (idx s!"{pre}.pn") else [])

def ovlUses (hasPrep : Bool) (pre : String) (o : OVLShape) : List Label :=
  ovUses hasPrep pre o.base ++ idx s!"{pre}.prl" o.permLocal ++ idx s!"{pre}.prn" o.permNext

/-- FRI: caps, PoW witnesses and final polynomial are observed (`get_challenges_circuit`); every
    query's batch openings, salts and sibling coefficients are operands of `verify_fri_circuit`
    (leaf hashes, reduced openings, folds); hiding random openings are merged into the opened
    values (`merge_hiding_random_openings`). -/
-- `stepUses`: the fold of a phase of log-arity `a` reads `2^a − 1` packed siblings
-- (`sibling_values_packed`: `chunks_exact(D)` of the coefficient targets, whose number `friSibCheck`
-- has pinned to `(2^a − 1)·D`), i.e. the coefficient targets `0 … (2^a − 1)·D − 1`.
def stepUses (D : Nat) (pre : String) (st : StepShape) : List Label :=
  idx s!"{pre}.sib" ((2 ^ st.logArity - 1) * D) ++ mmcsPriv pre st.proof

def queryUses (D : Nat) (pre : String) (q : QueryShape) : List Label :=
  flatMapIdx (fun b bo => boPriv s!"{pre}.in{b}" bo) 0 q.input
    ++ flatMapIdx (fun k st => stepUses D s!"{pre}.ph{k}" st) 0 q.steps

def pcsUses (D E : Nat) (p : PcsShape) : List Label :=
  friPub E p.fri ++ optL p.hid hidPriv
    ++ flatMapIdx (fun q qs => queryUses D s!"fri.q{q}" qs) 0 p.fri.queries

/-- `verify_circuit` (uni-STARK). -/
def uniUses (D E : Nat) (s : UniShape) : List Label :=
  comsUses E s.coms ++ idx "air0" s.airPub ++ optL s.prep (capPub E "prep")
    ++ ovUses s.prep.isSome "ov0" s.ov ++ pcsUses D E s.pcs

/-- `verify_batch_circuit`: lookup terminals are observed (and summed) **only when a permutation
    commitment is present** (`is_lookup`). -/
def batchUses (D E : Nat) (s : BatchShape) : List Label :=
  comsUses E s.coms
    ++ flatMapIdx (fun i n => idx s!"air{i}" n) 0 s.airPub
    ++ optL s.prep (capPub E "prep")
    ++ (if s.coms.perm.isSome then termLabels 0 s.terminals else [])
    ++ flatMapIdx (fun i o => ovlUses s.prep.isSome s!"ov{i}" o) 0 s.ovs
    ++ pcsUses D E s.pcs

/-- What the shape validation at the head of `verify_circuit` / `verify_batch_circuit` enforces and
    `no_dead_input` needs: preprocessed opened values only together with a preprocessed
    commitment; a lookup terminal only together with a permutation commitment. A shape violating
    it makes the verifier return `InvalidProofShape` (no circuit is built). -/
def OVShape.prepOk (hasPrep : Bool) (o : OVShape) : Bool :=
  hasPrep || ((o.prepLocal.getD 0 == 0) && (o.prepNext.getD 0 == 0))

def UniShape.validated (s : UniShape) : Bool := s.ov.prepOk s.prep.isSome

def BatchShape.validated (s : BatchShape) : Bool :=
  s.ovs.all (fun o => o.base.prepOk s.prep.isSome) && (s.coms.perm.isSome || s.terminals.all (· == false))

/-! ### Shape parser / printer for the driver (`MainC14.lean`) -/

abbrev P (α : Type) := List Nat → Option (α × List Nat)

def pNat : P Nat
  | [] => none
  | n :: r => some (n, r)

def pOpt {α : Type} (p : P α) : P (Option α)
  | 0 :: r => some (none, r)
  | 1 :: r => (p r).map fun (a, r') => (some a, r')
  | _ => none

def pRep {α : Type} (p : P α) : Nat → P (List α)
  | 0, r => some ([], r)
  | n + 1, r => do
    let (a, r1) ← p r
    let (as, r2) ← pRep p n r1
    pure (a :: as, r2)

def pList {α : Type} (p : P α) : P (List α) := fun r => do
  let (n, r1) ← pNat r
  if n > r1.length then none else pRep p n r1

def pBool : P Bool
  | 0 :: r => some (false, r)
  | 1 :: r => some (true, r)
  | _ => none

def pOV : P OVShape := fun r => do
  let (tl, r) ← pNat r
  let (tn, r) ← pOpt pNat r
  let (pl, r) ← pOpt pNat r
  let (pn, r) ← pOpt pNat r
  let (ch, r) ← pList pNat r
  let (rnd, r) ← pOpt pNat r
  pure (⟨tl, tn, pl, pn, ch, rnd⟩, r)

def pOVL : P OVLShape := fun r => do
  let (b, r) ← pOV r
  let (a, r) ← pNat r
  let (c, r) ← pNat r
  pure (⟨b, a, c⟩, r)

def pBO : P BatchOpeningShape := fun r => do
  let (o, r) ← pList pNat r
  let (p, r) ← pList pNat r
  pure (⟨o, p⟩, r)

def pStep : P StepShape := fun r => do
  let (la, r) ← pNat r
  let (sib, r) ← pNat r
  let (p, r) ← pList pNat r
  if la > 16 then none else pure (⟨la, sib, p⟩, r)

def pQuery : P QueryShape := fun r => do
  let (i, r) ← pList pBO r
  let (s, r) ← pList pStep r
  pure (⟨i, s⟩, r)

def pFri : P FriShape := fun r => do
  let (c, r) ← pList pNat r
  let (cp, r) ← pNat r
  let (q, r) ← pList pQuery r
  let (fp, r) ← pNat r
  pure (⟨c, cp, q, fp⟩, r)

def pPcs : P PcsShape := fun r => do
  let (h, r) ← pOpt (pList (pList (pList pNat))) r
  let (f, r) ← pFri r
  pure (⟨h, f⟩, r)

def pComs : P ComsShape := fun r => do
  let (m, r) ← pNat r
  let (p, r) ← pOpt pNat r
  let (q, r) ← pNat r
  let (rd, r) ← pOpt pNat r
  pure (⟨m, p, q, rd⟩, r)

def pUni : P UniShape := fun r => do
  let (a, r) ← pNat r
  let (c, r) ← pComs r
  let (o, r) ← pOV r
  let (p, r) ← pPcs r
  let (pr, r) ← pOpt pNat r
  pure (⟨a, c, o, p, pr⟩, r)

def pBatch : P BatchShape := fun r => do
  let (a, r) ← pList pNat r
  let (c, r) ← pComs r
  let (o, r) ← pList pOVL r
  let (p, r) ← pPcs r
  let (t, r) ← pList pBool r
  let (pr, r) ← pOpt pNat r
  pure (⟨a, c, o, p, t, pr⟩, r)

def showSlot (s : Slot) : String := (if s.vis = Vis.pub then "P:" else "S:") ++ s.lab

/-- Are all labels distinct? (Run-time check of the naming scheme; quadratic, shapes are small.
    Proved to return `true` on the allocation trace of every shape: `P3R.C14.allDistinct_uni`,
    `allDistinct_batch` in `Props/C14Labels.lean`, via the structured labels of
    `Model/PackingLabels.lean`.) -/
def allDistinct : List Label → Bool
  | [] => true
  | a :: l => !(l.contains a) && allDistinct l

end P3R.Packing
