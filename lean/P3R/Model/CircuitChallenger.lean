/-
L8 (circuit side) — value-level model of `recursion/src/challenger/circuit.rs`
(`CircuitChallenger<WIDTH, RATE, C>` and its `RecursiveChallenger` impl) together with the
pieces of the circuit crate it goes through when the circuit is *run*:

* `circuit_builder.rs`: `recompose_base_coeffs_to_ext` (NPO table closure of
  `enable_recompose`, or the ALU `mul_add` chain when the table is off),
  `decompose_ext_to_base_coeffs` (`ExtDecompositionHint` + recomposition `connect`),
  `decompose_to_bits` (`BinaryDecompositionHint` + `reconstruct_index_from_bits` + `connect`),
  `packed_perm_exec` / `base_perm_exec`;
* `ops/poseidon_perm/executor.rs`: `execute_base` (compact D=1 path: rate from the witness
  slots, capacity from `last_output_normal` or zeros on `new_start`, `absorb_len` tag added by
  the executor) and `execute` (extension path, `new_start = true`, all limbs from witnesses).

A value of a target is an element of the circuit field, represented by its `D` base
coefficients (`V K = List K`); `embed x = (x, 0, …, 0)` is `EF::from(x)`.
A `connect` / `assert_zero` whose two sides differ makes the run fail: that is the flag `ok`.
The permutation is a parameter. Import-free apart from `Model/Duplex`.

Not modelled: which builder ops are emitted (constant folding, the provenance cache of
`ext_recompose_coeffs`, CSE) — those change op lists, not values; lazy `init` (the state is
zero from the start; nothing reads it before `init`); multiplication in the extension field
other than by a basis element `Xⁱ` (`mulX`, binomial extension `X^D = W`) and of two embedded
base elements (bit reconstruction).
-/
import P3R.Model.Duplex

namespace P3R.CC
open P3R.Duplex

abbrev V (K : Type) := List K

structure Cfg (K : Type) where
  width : Nat
  rate : Nat
  /-- dimension of the circuit field over the base field (`EF::DIMENSION`) -/
  D : Nat
  /-- permutation config has `d() == 1`: compact base path -/
  base : Bool
  /-- recompose table disabled: recomposition by the ALU `mul_add` chain -/
  alu : Bool
  /-- binomial constant: `X^D = W` in the circuit field -/
  W : K
  /-- `BF::bits()` -/
  bfBits : Nat

section
variable {K : Type} [Zero K] [One K] [Add K] [Mul K] [DecidableEq K]

def zeroV (D : Nat) : V K := List.replicate D 0
/-- `EF::from(x)`. -/
def embed (D : Nat) (x : K) : V K := x :: List.replicate (D - 1) 0
/-- `as_basis_coefficients_slice()[0]`. -/
def coeff0 (v : V K) : K := v.headD 0
def vadd (a b : V K) : V K := List.zipWith (· + ·) a b

/-- Multiplication by `X` in `K[X]/(X^D − W)`. -/
def mulX (W : K) (a : V K) : V K := (W * a.getLastD 0) :: a.dropLast

def mulBasis (W : K) : Nat → V K → V K
  | 0, a => a
  | i + 1, a => mulX W (mulBasis W i a)

/-- ALU recomposition: `acc = mul_add(coeff_i, basis_i, acc)` starting from `0`. -/
def recomposeAluGo (W : K) : Nat → List (V K) → V K → V K
  | _, [], acc => acc
  | i, c :: cs, acc => recomposeAluGo W (i + 1) cs (vadd (mulBasis W i c) acc)

/-- `recompose_base_coeffs_to_ext`. -/
def recompose (c : Cfg K) (coeffs : List (V K)) : V K :=
  if c.alu then recomposeAluGo c.W 0 coeffs (zeroV c.D) else coeffs.map coeff0

/-- `ExtDecompositionHint`: each coefficient re-embedded. -/
def decompose (D : Nat) (v : V K) : List (V K) := v.map (embed D)

/-- `decompose_ext_to_base_coeffs`: hint outputs and whether `connect(x, recompose(coeffs))` holds. -/
def decomposeChecked (c : Cfg K) (v : V K) : List (V K) × Bool :=
  let cs := decompose c.D v
  (cs, recompose c cs == v)

structure St (K : Type) where
  state : List (V K)
  inBuf : List (V K)
  outBuf : List (V K)
  duplexedOnce : Bool
  /-- the Poseidon executor's `last_output_normal` -/
  chain : Option (List (V K))
  /-- every `connect` / `assert_zero` so far holds -/
  ok : Bool

def St.init (c : Cfg K) : St K :=
  ⟨List.replicate c.width (zeroV c.D), [], [], false, none, true⟩

/-- `circuit.add(state[RATE], const(num_absorbed as u8))` / executor `+= F::from_u8(absorb_len)`. -/
def addTagV (D : Nat) (n : Nat) (v : V K) : V K := vadd v (embed D (ofNatK (n % 256)))

/-- `chunk i` of a flat coefficient list. -/
def chunk {α : Type} (D : Nat) (l : List α) (i : Nat) : List α := (l.drop (i * D)).take D

/-- `CircuitChallenger::duplexing`; `none` = the executor's chain-missing error. -/
def duplexing (c : Cfg K) (perm : List K → List K) (st : St K) : Option (St K) :=
  let n := st.inBuf.length
  -- 1./2. overwrite, zero the rest of the rate (the tag is applied per path)
  let pre := preAbsorb (zeroV c.D) c.rate st.state st.inBuf
  if c.base then
    -- duplexing_base(_p1): inputs[i] = Some(state[i]) for i < RATE, None above
    let newStart := !st.duplexedOnce
    let init : Option (List (V K)) :=
      if newStart then some (List.replicate c.width (zeroV c.D)) else st.chain
    match init with
    | none => none
    | some i0 =>
      let resolved := tagAbsorb (addTagV c.D) c.rate n (pre.take c.rate ++ i0.drop c.rate)
      -- base_perm_exec over the circuit field (for D > 1: a permutation lifted lane-wise)
      let out := (perm (resolved.map coeff0)).map (embed c.D)
      some ⟨out, [], out.take c.rate, true, some out, st.ok⟩
  else
    -- extension path: tag on the tracked capacity element, recompose, permute, decompose
    let s2 := tagAbsorb (addTagV c.D) c.rate n pre
    let nl := c.width / c.D
    let limbs := (List.range nl).map fun i => recompose c (chunk c.D s2 i)
    let out := perm limbs.flatten                        -- packed_perm_exec
    let extOut := (List.range nl).map fun i => chunk c.D out i
    let dec := extOut.map (decomposeChecked c)
    let state' := (dec.map (·.1)).flatten
    some ⟨state', [], state'.take c.rate, st.duplexedOnce, st.chain, st.ok && dec.all (·.2)⟩

/-- `RecursiveChallenger::observe`. -/
def observe (c : Cfg K) (perm : List K → List K) (x : V K) (st : St K) : Option (St K) :=
  let st1 : St K := { st with outBuf := [], inBuf := st.inBuf ++ [x] }
  if st1.inBuf.length = c.rate then duplexing c perm st1 else some st1

def observeMany (c : Cfg K) (perm : List K → List K) : List (V K) → St K → Option (St K)
  | [], st => some st
  | x :: xs, st =>
    match observe c perm x st with
    | none => none
    | some st1 => observeMany c perm xs st1

/-- `RecursiveChallenger::sample`. -/
def sample (c : Cfg K) (perm : List K → List K) (st : St K) : Option (V K × St K) :=
  let st1? := if !st.inBuf.isEmpty || st.outBuf.isEmpty then duplexing c perm st else some st
  match st1? with
  | none => none
  | some st1 =>
    match st1.outBuf.getLast? with
    | none => none
    | some x => some (x, { st1 with outBuf := st1.outBuf.dropLast })

def sampleMany (c : Cfg K) (perm : List K → List K) : Nat → St K → Option (List (V K) × St K)
  | 0, st => some ([], st)
  | k + 1, st =>
    match sample c perm st with
    | none => none
    | some (x, st1) =>
      match sampleMany c perm k st1 with
      | none => none
      | some (xs, st2) => some (x :: xs, st2)

def bitK (b : Bool) : K := if b then 1 else 0

/-- `reconstruct_index_from_bits` for at most `BF::bits()` bits: `acc = mul_add(b, 2^j, acc)`
    (both factors are embedded base elements, so is the product). -/
def reconK : Nat → List Bool → K → K
  | _, [], acc => acc
  | j, b :: bs, acc => reconK (j + 1) bs (bitK b * pow2K j + acc)

/-- `RecursiveChallenger::sample_bits`; outer `none` = builder error
    (`BinaryDecompositionTooManyBits`) or a failed sample. -/
def sampleBits (c : Cfg K) (perm : List K → List K) (canon : K → Nat) (n : Nat) (st : St K) :
    Option (List Bool × St K) :=
  if n > c.bfBits then none
  else
    match sample c perm st with
    | none => none
    | some (x, st1) =>
      -- BinaryDecompositionHint: the first `bfBits` outputs are the bits of coefficient 0
      let bits := bitsOf (canon (coeff0 x)) c.bfBits
      let okc := embed c.D (reconK 0 bits (0 : K)) == x      -- connect(x, reconstructed)
      some (bits.take n, { st1 with ok := st1.ok && okc })

/-- What the circuit exposes for an operation (values of the returned targets). -/
inductive COut (K : Type) where
  | unit
  | val (x : V K)
  | ext (x : V K)
  | bits (bs : List (V K))
  | pow
deriving DecidableEq

def step (c : Cfg K) (perm : List K → List K) (canon : K → Nat) :
    Op K → St K → Option (COut K × St K)
  | .observe x, st =>
    -- the observed target is a public input holding `EF::from(x)`
    match observe c perm (embed c.D x) st with
    | none => none
    | some st1 => some (.unit, st1)
  | .observeExt xs, st =>
    -- `observe_ext`: decompose, then observe each coefficient
    let (cs, okc) := decomposeChecked c xs
    match observeMany c perm cs { st with ok := st.ok && okc } with
    | none => none
    | some st1 => some (.unit, st1)
  | .sample, st =>
    match sample c perm st with
    | none => none
    | some (x, st1) => some (.val x, st1)
  | .sampleExt, st =>
    match sampleMany c perm c.D st with
    | none => none
    | some (xs, st1) => some (.ext (recompose c xs), st1)
  | .sampleBits n, st =>
    match sampleBits c perm canon n st with
    | none => none
    | some (bs, st1) => some (.bits (bs.map fun b => embed c.D (bitK b)), st1)
  | .checkPow n w, st =>
    if n = 0 then some (.pow, st)
    else
      match observe c perm (embed c.D w) st with
      | none => none
      | some st1 =>
        match sampleBits c perm canon n st1 with
        | none => none
        | some (bs, st2) =>
          -- assert_zero on every returned bit
          some (.pow, { st2 with ok := st2.ok && bs.all (fun b => !b) })
  | .clear, st =>
    some (.unit, { St.init c with chain := st.chain, ok := st.ok })

def run (c : Cfg K) (perm : List K → List K) (canon : K → Nat) :
    List (Op K) → St K → Option (List (COut K) × St K)
  | [], st => some ([], st)
  | op :: ops, st =>
    match step c perm canon op st with
    | none => none
    | some (o, st1) =>
      match run c perm canon ops st1 with
      | none => none
      | some (os, st2) => some (o :: os, st2)

/-- The circuit output that corresponds to a native output (the statement of C05, per op). -/
def conv (D : Nat) : NOut K → COut K
  | .unit => .unit
  | .val x => .val (embed D x)
  | .ext xs => .ext xs
  | .bits n v => .bits ((bitsOf v n).map fun b => embed D (bitK b))
  | .pow _ => .pow

def accepted : NOut K → Bool
  | .pow ok => ok
  | _ => true

end
end P3R.CC
