/-
C18 — order-independence of every hash-container iteration on the compile / key-generation path.
Models: `P3R/Model/Order.lean`; inventory of the Rust sites: `design_notes/C18_sites.md`.

A *hash order* is any function `enum` with `∀ l, (enum l).Perm l`. Every theorem below quantifies
over all such functions (or, equivalently, over all pairs of permutation-related enumerations).
-/
import P3R.Model.Order
import P3R.Props.C18
import Mathlib.Data.List.Perm.Basic
import Mathlib.Data.List.Nodup
import Mathlib.Logic.Function.Basic

namespace P3R.C18
open P3R P3R.Order

/-! ## Generic shapes -/

/-- Two members of a list with pairwise distinct keys that share the key are the same member. -/
theorem eq_of_key_eq {α κ : Type} {key : α → κ} {l : List α} (hd : (l.map key).Nodup)
    {x y : α} (hx : x ∈ l) (hy : y ∈ l) (h : key x = key y) : x = y :=
  List.inj_on_of_nodup_map hd hx hy h

/-- `distinctNat` decides `Nodup`. -/
theorem distinctNat_iff (l : List Nat) : distinctNat l = true ↔ l.Nodup := by
  induction l with
  | nil => simp [distinctNat]
  | cons x xs ih => simp [distinctNat, ih, List.nodup_cons]

/-- **first-error loops.** Whether `for x in set { check(x)? }` fails does not depend on the order. -/
theorem firstErr_isSome_perm {α ε : Type} (chk : α → Option ε) {l₁ l₂ : List α} (h : l₁.Perm l₂) :
    (firstErr chk l₁).isSome = (firstErr chk l₂).isSome := by
  have : ∀ l : List α, (firstErr chk l).isSome = l.any fun a => (chk a).isSome := by
    intro l
    induction l with
    | nil => rfl
    | cons a l ih =>
      simp only [firstErr, List.findSome?_cons, List.any_cons] at *
      cases chk a <;> simp [ih]
  rw [this, this, h.any_eq]

/-- … and *which* error is reported does not depend on the order when at most one member fails. -/
theorem firstErr_perm_of_unique {α ε : Type} (chk : α → Option ε) {l₁ l₂ : List α} (h : l₁.Perm l₂)
    (huniq : ∀ x ∈ l₁, ∀ y ∈ l₁, (chk x).isSome → (chk y).isSome → x = y) :
    firstErr chk l₁ = firstErr chk l₂ := by
  induction h with
  | nil => rfl
  | cons a _ ih =>
    simp only [firstErr, List.findSome?_cons]
    cases chk a with
    | some _ => rfl
    | none => exact ih fun x hx y hy => huniq x (List.mem_cons_of_mem _ hx) y (List.mem_cons_of_mem _ hy)
  | swap a b l =>
    simp only [firstErr, List.findSome?_cons]
    cases ha : chk a with
    | none => cases chk b <;> rfl
    | some ea =>
      cases hb : chk b with
      | none => rfl
      | some eb =>
        have : b = a := huniq b (by simp) a (by simp) (by simp [hb]) (by simp [ha])
        subst this
        simp_all
  | trans h₁ _ ih₁ ih₂ =>
    rw [ih₁ huniq]
    exact ih₂ fun x hx y hy => huniq x (h₁.mem_iff.mpr hx) y (h₁.mem_iff.mpr hy)

/-- **insert into a map.** Inserting distinct-keyed entries into a hash map gives the same map
(same `get` for every key) whatever the insertion order. -/
theorem extendMap_lookup_perm {κ ν : Type} [BEq κ] [LawfulBEq κ] (base : List (κ × ν))
    {n₁ n₂ : List (κ × ν)} (h : n₁.Perm n₂) (hd : (n₁.map Prod.fst).Nodup) (k : κ) :
    (extendMap base n₁).lookup k = (extendMap base n₂).lookup k := by
  unfold extendMap
  have hp : (n₁.reverse ++ base).Perm (n₂.reverse ++ base) :=
    ((List.reverse_perm n₁).trans (h.trans (List.reverse_perm n₂).symm)).append_right base
  have key : ∀ (n : List (κ × ν)), (n.reverse ++ base).lookup k =
      match n.reverse.lookup k with | some v => some v | none => base.lookup k := by
    intro n
    induction n.reverse with
    | nil => rfl
    | cons x xs ih =>
      obtain ⟨a, b⟩ := x
      simp only [List.cons_append, List.lookup]
      cases k == a <;> simp [ih]
  rw [key, key]
  have hd' : (n₁.reverse.map Prod.fst).Nodup := by
    rw [List.map_reverse]; exact List.nodup_reverse.mpr hd
  rw [lookup_perm_nodup k ((List.reverse_perm n₁).trans (h.trans (List.reverse_perm n₂).symm)) hd']

/-! ## Union–find with path compression -/

theorem Dsu.iter_succ' (p : Nat → Nat) (k x : Nat) : Dsu.iter p (k + 1) x = p (Dsu.iter p k x) := by
  induction k generalizing x with
  | zero => rfl
  | succ k ih => show Dsu.iter p (k + 1) (p x) = _; rw [ih]; rfl

/-- Depth bound: after `n` parent steps every node is at a fixed point (acyclic forest of depth ≤ n). -/
def Dsu.Bounded (p : Nat → Nat) (n : Nat) : Prop := ∀ y, p (Dsu.iter p n y) = Dsu.iter p n y

theorem Dsu.iter_fixed {p : Nat → Nat} {r : Nat} (h : p r = r) (k : Nat) : Dsu.iter p k r = r := by
  induction k with
  | zero => rfl
  | succ k ih => show Dsu.iter p k (p r) = r; rw [h, ih]

theorem Dsu.root_parent {p : Nat → Nat} {n : Nat} (hb : Dsu.Bounded p n) (y : Nat) :
    Dsu.iter p n (p y) = Dsu.iter p n y := by
  have : Dsu.iter p n (p y) = Dsu.iter p (n + 1) y := rfl
  rw [this, Dsu.iter_succ', hb]

theorem Dsu.root_root {p : Nat → Nat} {n : Nat} (hb : Dsu.Bounded p n) (y : Nat) :
    Dsu.iter p n (Dsu.iter p n y) = Dsu.iter p n y := Dsu.iter_fixed (hb y) n

/-- **One compression step keeps every root.** Re-pointing `v` at its own root changes neither the
depth bound nor the root of any node. -/
theorem Dsu.setParent_root {p : Nat → Nat} {n : Nat} (hb : Dsu.Bounded p n) (v : Nat) :
    (∀ y, Dsu.iter (Dsu.setParent p v (Dsu.iter p n v)) n y = Dsu.iter p n y) ∧
    Dsu.Bounded (Dsu.setParent p v (Dsu.iter p n v)) n := by
  set R := Dsu.iter p n with hR
  set p' := Dsu.setParent p v (R v) with hp'
  have hfixR : ∀ y, p' (R y) = R y := by
    intro y
    simp only [hp', Dsu.setParent]
    split
    · next h => rw [← h]; exact Dsu.root_root hb y
    · exact hb y
  have main : ∀ k y, Dsu.iter p k y = R y → Dsu.iter p' k y = R y := by
    intro k
    induction k with
    | zero => intro y h; exact h
    | succ k ih =>
      intro y h
      show Dsu.iter p' k (p' y) = R y
      by_cases hy : y = v
      · have : p' y = R y := by simp [hp', Dsu.setParent, hy]
        rw [this]; exact Dsu.iter_fixed (hfixR y) k
      · have : p' y = p y := by simp [hp', Dsu.setParent, hy]
        rw [this]
        have h' : Dsu.iter p k (p y) = R (p y) := by
          have : R (p y) = R y := Dsu.root_parent hb y
          rw [this]; exact h
        rw [ih (p y) h']; exact Dsu.root_parent hb y
  have hall : ∀ y, Dsu.iter p' n y = R y := fun y => main n y rfl
  exact ⟨hall, fun y => by rw [hall y]; exact hfixR y⟩

/-- Pass 2 of `find` keeps every root, when it is started at a node `v` of the class of `root`. -/
theorem Dsu.compressPath_root {n : Nat} (k : Nat) :
    ∀ {p : Nat → Nat} (_ : Dsu.Bounded p n) (v : Nat),
      (∀ y, Dsu.iter (Dsu.compressPath p (Dsu.iter p n v) k v) n y = Dsu.iter p n y) ∧
      Dsu.Bounded (Dsu.compressPath p (Dsu.iter p n v) k v) n := by
  induction k with
  | zero => intro p hb v; exact ⟨fun _ => rfl, hb⟩
  | succ k ih =>
    intro p hb v
    simp only [Dsu.compressPath]
    split
    · exact ⟨fun _ => rfl, hb⟩
    · obtain ⟨h1, h2⟩ := Dsu.setParent_root hb v
      -- the walk continues at the *old* parent of `v`, which is in the same class
      have hroot : Dsu.iter (Dsu.setParent p v (Dsu.iter p n v)) n (p v) = Dsu.iter p n v := by
        rw [h1]; exact Dsu.root_parent hb v
      have := ih h2 (p v)
      rw [hroot] at this
      exact ⟨fun y => by rw [this.1 y, h1 y], this.2⟩

/-- **`ConnectDsu::find` is observationally pure**: it returns the root, and the compressed forest has
the same root for *every* node (and the same depth bound). -/
theorem Dsu.find_spec {p : Nat → Nat} {n : Nat} (hb : Dsu.Bounded p n) (x : Nat) :
    (Dsu.find p n x).2 = Dsu.iter p n x ∧
    (∀ y, Dsu.iter (Dsu.find p n x).1 n y = Dsu.iter p n y) ∧ Dsu.Bounded (Dsu.find p n x).1 n :=
  ⟨rfl, Dsu.compressPath_root n hb x⟩


/-- What the backfill pass computes, independently of any order: an unmapped member of the walked set
gets the slot of its class (if the class has one). -/
def backfillSpec (rootW : Nat → Option Nat) (R : Nat → Nat) (e2w : Nat → Option Nat) (l : List Nat) (y : Nat) : Option Nat :=
  match e2w y with
  | some w => some w
  | none => if y ∈ l then rootW (R y) else none

theorem backfillDsu_spec (rootW : Nat → Option Nat) (n : Nat) (l : List Nat) :
    ∀ (s : BackfillSt), Dsu.Bounded s.parents n →
      (∀ y, (backfillDsu rootW n s l).e2w y = backfillSpec rootW (Dsu.iter s.parents n) s.e2w l y) ∧
      (∀ y, Dsu.iter (backfillDsu rootW n s l).parents n y = Dsu.iter s.parents n y) := by
  induction l with
  | nil =>
    intro s _
    refine ⟨fun y => ?_, fun _ => rfl⟩
    simp only [backfillDsu, List.foldl_nil, backfillSpec, List.not_mem_nil, if_false]
    cases s.e2w y <;> rfl
  | cons e l ih =>
    intro s hb
    obtain ⟨hr, hroots, hb'⟩ := Dsu.find_spec hb e
    show (∀ y, (backfillDsu rootW n (backfillDsuStep rootW n s e) l).e2w y = _) ∧
         (∀ y, Dsu.iter (backfillDsu rootW n (backfillDsuStep rootW n s e) l).parents n y = _)
    -- the state after the step: same roots, bounded, and e2w updated at `e` only
    have hstep : Dsu.Bounded (backfillDsuStep rootW n s e).parents n ∧
        (∀ y, Dsu.iter (backfillDsuStep rootW n s e).parents n y = Dsu.iter s.parents n y) ∧
        (∀ y, (backfillDsuStep rootW n s e).e2w y =
          match s.e2w y with
          | some w => some w
          | none => if y = e then rootW (Dsu.iter s.parents n e) else none) := by
      unfold backfillDsuStep
      cases he : s.e2w e with
      | some w =>
        refine ⟨hb, fun _ => rfl, fun y => ?_⟩
        cases hy : s.e2w y with
        | some _ => rfl
        | none =>
          have : y ≠ e := fun h => by rw [h, he] at hy; cases hy
          simp [this]
      | none =>
        simp only []
        rw [show (Dsu.find s.parents n e) = ((Dsu.find s.parents n e).1, (Dsu.find s.parents n e).2) from rfl]
        simp only [hr]
        cases hw : rootW (Dsu.iter s.parents n e) with
        | some w =>
          refine ⟨hb', hroots, fun y => ?_⟩
          simp only []
          by_cases hy : y = e
          · subst hy; simp [he]
          · simp only [hy, if_false]; cases s.e2w y <;> rfl
        | none =>
          refine ⟨hb', hroots, fun y => ?_⟩
          simp only []
          by_cases hy : y = e
          · subst hy; simp [he]
          · simp only [hy, if_false]; cases s.e2w y <;> rfl
    obtain ⟨hb1, hroots1, he1⟩ := hstep
    obtain ⟨ih1, ih2⟩ := ih _ hb1
    refine ⟨fun y => ?_, fun y => by rw [ih2 y, hroots1 y]⟩
    rw [ih1 y]
    simp only [backfillSpec, he1 y, hroots1, List.mem_cons]
    cases s.e2w y with
    | some w => rfl
    | none =>
      by_cases hy : y = e
      · subst hy
        simp only [if_true, true_or]
        cases rootW (Dsu.iter s.parents n y) <;> simp
      · simp [hy]

/-- **C18, `backfill_connect_mappings` at the level of the real union–find.** Whatever order the
hash set `in_connect` is walked in — and although every `find` on the way rewrites parent pointers —
the resulting `expr_to_widx` is the same map. (The parent pointers differ, but the forest is dropped
when lowering ends; its roots do not differ either.) -/
theorem backfillDsu_order_independent (rootW : Nat → Option Nat) (n : Nat) (s : BackfillSt)
    (hb : Dsu.Bounded s.parents n) {l₁ l₂ : List Nat} (h : l₁.Perm l₂) :
    (backfillDsu rootW n s l₁).e2w = (backfillDsu rootW n s l₂).e2w ∧
    ∀ y, Dsu.iter (backfillDsu rootW n s l₁).parents n y = Dsu.iter (backfillDsu rootW n s l₂).parents n y := by
  obtain ⟨a1, a2⟩ := backfillDsu_spec rootW n l₁ s hb
  obtain ⟨b1, b2⟩ := backfillDsu_spec rootW n l₂ s hb
  refine ⟨funext fun y => ?_, fun y => by rw [a2, b2]⟩
  rw [a1, b1]
  simp only [backfillSpec, h.mem_iff]

/-! ## Backfill in the lowering model -/

section
variable {K : Type}

/-- A backfill step only touches `e2w`, at its own index. -/
theorem backfillStep_fields (st : LState K) (e : Nat) :
    (backfillStep st e).inConnect = st.inConnect ∧ (backfillStep st e).rootW = st.rootW ∧
    (backfillStep st e).rep = st.rep ∧ (backfillStep st e).ops = st.ops ∧
    (backfillStep st e).pubRows = st.pubRows ∧ (backfillStep st e).privRows = st.privRows ∧
    (backfillStep st e).next = st.next ∧ (backfillStep st e).emitted = st.emitted := by
  unfold backfillStep LState.setW
  split
  · split
    · simp
    · split <;> simp
  · simp

/-- The slot a backfill step at `x` assigns, if any. -/
def backfillVal (st : LState K) (x : Nat) : Option Nat :=
  if st.inConnect.getD x false then
    match st.e2w.getD x none with
    | some _ => none
    | none => st.rootW.getD (st.rep.getD x x) none
  else none

theorem backfillStep_eq (st : LState K) (x : Nat) :
    backfillStep st x = match backfillVal st x with | some w => st.setW x w | none => st := by
  unfold backfillStep backfillVal
  cases st.inConnect.getD x false
  · simp
  · simp only [if_true]
    cases st.e2w.getD x none
    · simp only []
      cases st.rootW.getD (st.rep.getD x x) none <;> rfl
    · rfl

theorem backfillVal_setW (st : LState K) (a b w : Nat) (hab : a ≠ b) :
    backfillVal (st.setW a w) b = backfillVal st b := by
  unfold backfillVal LState.setW
  simp [Array.getD_eq_getD_getElem?, hab]

theorem backfillStep_comm (st : LState K) (a b : Nat) :
    backfillStep (backfillStep st a) b = backfillStep (backfillStep st b) a := by
  by_cases hab : a = b
  · subst hab; rfl
  · rw [backfillStep_eq st a, backfillStep_eq st b]
    cases ha : backfillVal st a with
    | none =>
      cases hb : backfillVal st b with
      | none => simp only [backfillStep_eq, ha, hb]
      | some wb => simp only [backfillStep_eq, backfillVal_setW st b a wb (Ne.symm hab), ha, hb]
    | some wa =>
      cases hb : backfillVal st b with
      | none => simp only [backfillStep_eq, backfillVal_setW st a b wa hab, ha, hb]
      | some wb =>
        simp only [backfillStep_eq, backfillVal_setW st a b wa hab, backfillVal_setW st b a wb (Ne.symm hab), ha, hb]
        unfold LState.setW
        simp only [Array.setIfInBounds_comm _ _ hab]

/-- Walking a permutation of the set gives the same state. -/
theorem backfill_perm (st : LState K) {l₁ l₂ : List Nat} (h : l₁.Perm l₂) :
    l₁.foldl backfillStep st = l₂.foldl backfillStep st :=
  h.foldl_eq' (fun x _ y _ z => backfillStep_comm z x y) st

/-- Non-members of `in_connect` are no-ops, so walking `0..m` equals walking the member set. -/
theorem backfill_filter (m : List Nat) : ∀ (st : LState K),
    (m.filter fun e => st.inConnect.getD e false).foldl backfillStep st = m.foldl backfillStep st := by
  induction m with
  | nil => intro st; rfl
  | cons e m ih =>
    intro st
    simp only [List.filter_cons, List.foldl_cons]
    cases he : st.inConnect.getD e false with
    | false =>
      have : backfillStep st e = st := by unfold backfillStep; simp [he]
      simp only [Bool.false_eq_true, if_false, this]; exact ih st
    | true =>
      simp only [if_true, List.foldl_cons]
      have hi : (backfillStep st e).inConnect = st.inConnect := (backfillStep_fields st e).1
      have := ih (backfillStep st e)
      rw [hi] at this
      exact this

theorem backfill_enum (enum : List Nat → List Nat) (hperm : ∀ l, (enum l).Perm l) (st : LState K) (m : Nat) :
    (enum (connectMembers st m)).foldl backfillStep st = (List.range m).foldl backfillStep st := by
  rw [backfill_perm st (hperm _)]
  exact backfill_filter (List.range m) st

end

section
variable {K : Type} [Neg K]

/-- **C18, lowering.** `lower` with the hash set `in_connect` walked in *any* order is `lower`. -/
theorem lowerOrd_eq_lower (enum : List Nat → List Nat) (hperm : ∀ l, (enum l).Perm l) (b : BState K) :
    lowerOrd enum b = lower b := by
  unfold lowerOrd lower
  simp only [backfill_enum enum hperm]
  rfl

end

/-! ## Mul+Add fusion -/

section
variable {K : Type}

/-- `fused_positions` is the same map for every enumeration of the valid set. -/
theorem fusedPos_lookup_eq {v₁ v₂ : List (Cand K)} (h : v₁.Perm v₂)
    (hd : (v₁.map (·.out)).Nodup) (k : Nat) :
    (extendMap [] (v₁.map fun c => (c.out, c.mulIdx))).lookup k =
      ((v₂.map fun c => (c.out, c.mulIdx)).reverse).lookup k := by
  have h0 : ((v₂.map fun c => (c.out, c.mulIdx)).reverse) = extendMap [] (v₂.map fun c => (c.out, c.mulIdx)) := by
    simp [extendMap]
  rw [h0]
  apply extendMap_lookup_perm [] (h.map _)
  simpa [List.map_map, Function.comp_def] using hd

theorem filterRoundOrd_perm (f : Fusion K) (ord : FuseOrders K) (hord : ord.Valid)
    {v₁ v₂ : List (Cand K)} (h : v₁.Perm v₂) (hd : (v₁.map (·.out)).Nodup) :
    (filterRoundOrd f ord v₁).Perm (f.filterRound v₂) := by
  unfold filterRoundOrd Fusion.filterRound
  have hd' : ((ord.fusedPos v₁).map (·.out)).Nodup := ((hord.fusedPos v₁).map _).nodup_iff.mpr hd
  have hl : ∀ k, (extendMap [] ((ord.fusedPos v₁).map fun c => (c.out, c.mulIdx))).lookup k =
      ((v₂.map fun c => (c.out, c.mulIdx)).reverse).lookup k :=
    fun k => fusedPos_lookup_eq ((hord.fusedPos v₁).trans h) hd' k
  simp only [hl]
  exact (hord.retain _).trans (h.filter _)

theorem filterRound_sublist (f : Fusion K) (v : List (Cand K)) : (f.filterRound v).Sublist v := by
  unfold Fusion.filterRound; exact List.filter_sublist

theorem filterValid_sublist (f : Fusion K) : ∀ (fuel : Nat) (v : List (Cand K)), (f.filterValid fuel v).Sublist v := by
  intro fuel
  induction fuel with
  | zero => intro v; exact List.Sublist.refl _
  | succ n ih =>
    intro v
    simp only [Fusion.filterValid]
    split
    · exact List.Sublist.refl _
    · exact (ih _).trans (filterRound_sublist f v)

/-- **The `filter_valid` fixpoint reaches the same set** whatever orders the hash set is read and
rebuilt in (the sets are compared as multisets: `Perm`). -/
theorem filterValidOrd_perm (f : Fusion K) (ord : FuseOrders K) (hord : ord.Valid) :
    ∀ (fuel : Nat) {v₁ v₂ : List (Cand K)}, v₁.Perm v₂ → (v₁.map (·.out)).Nodup →
      (filterValidOrd f ord fuel v₁).Perm (f.filterValid fuel v₂) := by
  intro fuel
  induction fuel with
  | zero => intro v₁ v₂ h _; exact h
  | succ n ih =>
    intro v₁ v₂ h hd
    simp only [filterValidOrd, Fusion.filterValid]
    have hr := filterRoundOrd_perm f ord hord h hd
    rw [hr.length_eq, h.length_eq]
    split
    · exact h
    · apply ih hr
      have hd2 : (v₂.map (·.out)).Nodup := (h.map _).nodup_iff.mp hd
      have : ((f.filterRound v₂).map (·.out)).Nodup := ((filterRound_sublist f v₂).map _).nodup hd2
      exact (hr.map _).nodup_iff.mpr this

/-- With distinct mul positions `apply`'s "first candidate per position wins" keeps every candidate. -/
theorem chosen_eq (v : List (Cand K)) : ∀ (acc : List (Cand K)),
    (v.map (·.mulIdx)).Nodup → (∀ c ∈ v, ∀ d ∈ acc, d.mulIdx ≠ c.mulIdx) →
    v.foldl (fun (acc : List (Cand K)) c =>
      if acc.any (fun d => d.mulIdx = c.mulIdx) then acc else acc ++ [c]) acc = acc ++ v := by
  induction v with
  | nil => intro acc _ _; simp
  | cons c v ih =>
    intro acc hd hacc
    simp only [List.map_cons, List.nodup_cons] at hd
    have hnot : (acc.any fun d => decide (d.mulIdx = c.mulIdx)) = false := by
      simp only [List.any_eq_false, decide_eq_true_eq]
      exact fun d hdm => hacc c (by simp) d hdm
    simp only [List.foldl_cons, hnot, Bool.false_eq_true, if_false]
    rw [ih (acc ++ [c]) hd.2]
    · simp
    · intro c' hc' d hdm
      simp only [List.mem_append, List.mem_singleton] at hdm
      rcases hdm with hdm | rfl
      · exact hacc c' (List.mem_cons_of_mem _ hc') d hdm
      · intro heq; exact hd.1 (by rw [heq]; exact List.mem_map_of_mem hc')

theorem find?_perm_of_unique {α : Type} (p : α → Bool) {l₁ l₂ : List α} (h : l₁.Perm l₂)
    (huniq : ∀ x ∈ l₁, ∀ y ∈ l₁, p x → p y → x = y) : l₁.find? p = l₂.find? p := by
  have : ∀ l : List α, l.find? p = firstErr (fun a => if p a then some a else none) l := by
    intro l
    induction l with
    | nil => rfl
    | cons a l ih =>
      simp only [firstErr, List.find?_cons, List.findSome?_cons] at *
      cases p a <;> simp [ih]
  rw [this, this]
  apply firstErr_perm_of_unique _ h
  intro x hx y hy hpx hpy
  apply huniq x hx y hy
  · cases hp : p x <;> simp_all
  · cases hp : p y <;> simp_all

/-- **`apply` builds the same op list** for every enumeration of the valid set. -/
theorem apply_perm (ops : Array (Op K)) {v₁ v₂ : List (Cand K)} (h : v₁.Perm v₂)
    (hd : (v₁.map (·.mulIdx)).Nodup) : Fusion.apply ops v₁ = Fusion.apply ops v₂ := by
  have hd₂ : (v₂.map (·.mulIdx)).Nodup := (h.map _).nodup_iff.mp hd
  unfold Fusion.apply
  have c1 := chosen_eq v₁ [] hd (by simp)
  have c2 := chosen_eq v₂ [] hd₂ (by simp)
  simp only [List.nil_append] at c1 c2
  simp only [c1, c2]
  congr 1
  apply List.filterMap_congr
  intro p _
  rw [h.any_eq]
  have : v₁.find? (fun c => decide (c.mulIdx = p.2)) = v₂.find? (fun c => decide (c.mulIdx = p.2)) := by
    apply find?_perm_of_unique _ h
    intro x hx y hy hpx hpy
    apply eq_of_key_eq hd hx hy
    simp only [decide_eq_true_eq] at hpx hpy
    rw [hpx, hpy]
  rw [this]

theorem candsDistinct_iff (cands : List (Cand K)) :
    candsDistinct cands = true ↔ (cands.map (·.out)).Nodup ∧ (cands.map (·.mulIdx)).Nodup := by
  simp [candsDistinct, distinctNat_iff]

/-- **C18, fusion.** `MulAddFusion::run` with its three hash iterations in *any* orders produces the
op list of the fixed-order model, for every op list whose candidates have distinct outputs and
distinct mul positions (`fusionInvariant`, evaluated per program by the driver). -/
theorem fuseOrd_eq_fuse (ord : FuseOrders K) (hord : ord.Valid) (ops : Array (Op K)) (inputs : List Nat)
    (hinv : fusionInvariant ops inputs = true) : fuseOrd ord ops inputs = fuse ops inputs := by
  unfold fusionInvariant at hinv
  obtain ⟨hout, hmul⟩ := (candsDistinct_iff _).mp hinv
  unfold fuseOrd fuse
  simp only []
  set f := Fusion.new ops inputs
  set cands := f.candidates ops
  have h0 : (ord.retain cands).Perm cands := hord.retain _
  have hout0 : ((ord.retain cands).map (·.out)).Nodup := (h0.map _).nodup_iff.mpr hout
  have hp := filterValidOrd_perm f ord hord (cands.length + 1) h0 hout0
  have hp' := (hord.apply _).trans hp
  apply apply_perm ops hp'
  have : ((f.filterValid (cands.length + 1) cands).map (·.mulIdx)).Nodup :=
    ((filterValid_sublist f _ cands).map _).nodup hmul
  exact (hp'.map _).nodup_iff.mpr this

end

/-! ## `build_with_public_mapping` -/

/-- **`expr_to_widx` re-collection.** Collecting the resolved pairs of a distinct-keyed map gives the
same map for every iteration order. -/
theorem e2wCollect_perm (n : Nat) (f : Nat → Nat) {p₁ p₂ : List (Nat × Nat)} (h : p₁.Perm p₂)
    (hd : (p₁.map Prod.fst).Nodup) : e2wCollect n f p₁ = e2wCollect n f p₂ := by
  unfold e2wCollect
  apply h.foldl_eq'
  intro x hx y hy a
  by_cases hxy : x.1 = y.1
  · have : x = y := eq_of_key_eq hd hx hy hxy
    subst this; rfl
  · exact Array.setIfInBounds_comm _ _ hxy

theorem e2wPairs_nodup (a : Array (Option Nat)) : ((e2wPairs a).map Prod.fst).Nodup := by
  unfold e2wPairs
  have key : ∀ (l : List (Option Nat × Nat)),
      ((l.filterMap fun (wi : Option Nat × Nat) => wi.1.map fun w => (wi.2, w)).map Prod.fst).Sublist (l.map Prod.snd) := by
    intro l
    induction l with
    | nil => simp
    | cons x l ih =>
      obtain ⟨w, i⟩ := x
      cases w with
      | none => simpa [List.filterMap_cons] using ih.trans (List.sublist_cons_self _ _)
      | some w => simpa [List.filterMap_cons] using ih
  apply (key _).nodup
  rw [List.zipIdx_map_snd]
  exact List.nodup_range'

/-- **`gen_order`.** Collect-then-sort does not depend on the order the keys were collected in. -/
theorem genOrder_perm {l₁ l₂ : List Nat} (h : l₁.Perm l₂) : genOrder l₁ = genOrder l₂ := by
  unfold genOrder
  have ht : ∀ (a b c : Nat), decide (a ≤ b) = true → decide (b ≤ c) = true → decide (a ≤ c) = true := by
    intro a b c h1 h2; simp only [decide_eq_true_eq] at *; omega
  have htot : ∀ (a b : Nat), (decide (a ≤ b) || decide (b ≤ a)) = true := by
    intro a b; simp only [Bool.or_eq_true, decide_eq_true_eq]; omega
  apply List.Perm.eq_of_pairwise (le := fun a b => decide (a ≤ b) = true)
  · intro a b _ _ h1 h2; simp only [decide_eq_true_eq] at *; omega
  · exact List.pairwise_mergeSort ht htot _
  · exact List.pairwise_mergeSort ht htot _
  · exact (List.mergeSort_perm _ _).trans (h.trans (List.mergeSort_perm _ _).symm)

/-- The canonical form of a distinct-keyed hash map does not depend on the insertion order. -/
theorem canonMap_perm {m₁ m₂ : List (Nat × Nat)} (h : m₁.Perm m₂) (hd : (m₁.map Prod.fst).Nodup) :
    canonMap m₁ = canonMap m₂ := by
  unfold canonMap
  have ht : ∀ (a b c : Nat × Nat), decide (a.1 ≤ b.1) = true → decide (b.1 ≤ c.1) = true → decide (a.1 ≤ c.1) = true := by
    intro a b c h1 h2; simp only [decide_eq_true_eq] at *; omega
  have htot : ∀ (a b : Nat × Nat), (decide (a.1 ≤ b.1) || decide (b.1 ≤ a.1)) = true := by
    intro a b; simp only [Bool.or_eq_true, decide_eq_true_eq]; omega
  apply List.Perm.eq_of_pairwise (le := fun (a b : Nat × Nat) => decide (a.1 ≤ b.1) = true)
  · intro a b ha hb h1 h2
    simp only [decide_eq_true_eq] at h1 h2
    have ha' : a ∈ m₁ := (List.mergeSort_perm _ _).mem_iff.mp ha
    have hb' : b ∈ m₁ := h.mem_iff.mpr ((List.mergeSort_perm _ _).mem_iff.mp hb)
    exact eq_of_key_eq hd ha' hb' (by omega)
  · exact List.pairwise_mergeSort ht htot _
  · exact List.pairwise_mergeSort ht htot _
  · exact (List.mergeSort_perm _ _).trans (h.trans (List.mergeSort_perm _ _).symm)

/-- The tag loop, characterised: first unmapped tag, else the map of all tags. -/
theorem tagTransfer_spec {τ : Type} (e2w : Nat → Option Nat) : ∀ (l acc : List (τ × Nat)),
    tagTransfer e2w acc l =
      match firstErr (fun te : τ × Nat => if (e2w te.2).isNone then some te else none) l with
      | some te => .error te
      | none => .ok (extendMap acc (l.filterMap fun te => (e2w te.2).map fun w => (te.1, w))) := by
  intro l
  induction l with
  | nil => intro acc; simp [tagTransfer, firstErr, extendMap]
  | cons x l ih =>
    intro acc
    obtain ⟨t, e⟩ := x
    simp only [tagTransfer, firstErr, List.findSome?_cons]
    cases he : e2w e with
    | none => simp
    | some w =>
      simp only [Option.isNone_some, Bool.false_eq_true, if_false]
      rw [ih]
      simp only [firstErr]
      cases List.findSome? (fun te : τ × Nat => if (e2w te.2).isNone then some te else none) l with
      | some te => rfl
      | none =>
        simp only [List.filterMap_cons, he, Option.map_some, extendMap, List.reverse_cons,
          List.append_assoc, List.singleton_append]

/-- **Tag transfer.** Success does not depend on the order of `tag_to_expr`; on success the resulting
`tag_to_witness` is the same map; and the reported error is the same when at most one tag is unmapped. -/
theorem tagTransfer_perm (e2w : Nat → Option Nat) {t₁ t₂ : List (Nat × Nat)} (h : t₁.Perm t₂)
    (hd : (t₁.map Prod.fst).Nodup)
    (huniq : ∀ x ∈ t₁, ∀ y ∈ t₁, e2w x.2 = none → e2w y.2 = none → x = y) :
    (tagTransfer e2w [] t₁).map canonMap = (tagTransfer e2w [] t₂).map canonMap := by
  rw [tagTransfer_spec, tagTransfer_spec]
  have herr := firstErr_perm_of_unique (fun te : Nat × Nat => if (e2w te.2).isNone then some te else none) h
    (by
      intro x hx y hy h1 h2
      apply huniq x hx y hy
      · cases hx' : e2w x.2 <;> simp_all
      · cases hy' : e2w y.2 <;> simp_all)
  rw [herr]
  cases firstErr (fun te : Nat × Nat => if (e2w te.2).isNone then some te else none) t₂ with
  | some te => rfl
  | none =>
    simp only [Except.map, extendMap, List.append_nil]
    congr 1
    have hp : (t₁.filterMap fun te => (e2w te.2).map fun w => (te.1, w)).Perm
        (t₂.filterMap fun te => (e2w te.2).map fun w => (te.1, w)) := h.filterMap _
    apply canonMap_perm ((List.reverse_perm _).trans (hp.trans (List.reverse_perm _).symm))
    rw [List.map_reverse]
    apply List.nodup_reverse.mpr
    have key : ∀ (l : List (Nat × Nat)),
        ((l.filterMap fun te => (e2w te.2).map fun w => (te.1, w)).map Prod.fst).Sublist (l.map Prod.fst) := by
      intro l
      induction l with
      | nil => simp
      | cons x l ih =>
        cases hx : e2w x.2 with
        | none => simpa [List.filterMap_cons, hx] using ih.trans (List.sublist_cons_self _ _)
        | some w => simpa [List.filterMap_cons, hx] using ih
    exact (key _).nodup hd

/-! ## Key generation -/

/-- **AIR-builder loop** (`common.rs`). The AIR list (content *and* order) does not depend on the
iteration order of `non_primitive_base` when every builder can build at most one of its entries. -/
theorem airLoop_perm {β κ ν α : Type} (tryBuild : β → κ → ν → Option α) (builders : List β)
    {base₁ base₂ : List (κ × ν)} (h : base₁.Perm base₂)
    (hone : ∀ b ∈ builders, ∀ x ∈ base₁, ∀ y ∈ base₁,
      (tryBuild b x.1 x.2).isSome → (tryBuild b y.1 y.2).isSome → x = y) :
    airLoop tryBuild builders base₁ = airLoop tryBuild builders base₂ := by
  unfold airLoop
  apply List.filterMap_congr
  intro b hb
  exact firstErr_perm_of_unique (fun kv : κ × ν => tryBuild b kv.1 kv.2) h (hone b hb)

/-- Sorting a hash map's entries by key gives the same list for every iteration order. -/
theorem sortedEntries_perm {ν : Type} {base₁ base₂ : List (Nat × ν)} (h : base₁.Perm base₂)
    (hk : (base₁.map Prod.fst).Nodup) :
    base₁.mergeSort (fun a b => decide (a.1 ≤ b.1)) = base₂.mergeSort (fun a b => decide (a.1 ≤ b.1)) := by
  have htr : ∀ a b c : Nat × ν, decide (a.1 ≤ b.1) = true → decide (b.1 ≤ c.1) = true → decide (a.1 ≤ c.1) = true := by
    intro a b c h1 h2; simp only [decide_eq_true_eq] at *; omega
  have htot : ∀ a b : Nat × ν, (decide (a.1 ≤ b.1) || decide (b.1 ≤ a.1)) = true := by
    intro a b; simp only [Bool.or_eq_true, decide_eq_true_eq]; omega
  have p1 := List.pairwise_mergeSort htr htot base₁
  have p2 := List.pairwise_mergeSort htr htot base₂
  have hp : (base₁.mergeSort fun a b => decide (a.1 ≤ b.1)).Perm (base₂.mergeSort fun a b => decide (a.1 ≤ b.1)) :=
    (List.mergeSort_perm _ _).trans (h.trans (List.mergeSort_perm _ _).symm)
  refine List.Perm.eq_of_pairwise ?_ p1 p2 hp
  intro a b ha hb hab hba
  simp only [decide_eq_true_eq] at hab hba
  have hkey : a.1 = b.1 := by omega
  have ha' : a ∈ base₁ := (List.mergeSort_perm _ _).subset ha
  have hb' : b ∈ base₁ := h.symm.subset ((List.mergeSort_perm _ _).subset hb)
  exact List.inj_on_of_nodup_map hk ha' hb' hkey

/-- **AIR-builder loop after the repair (F-C18-1, /repo 9b88fce).** With the entries visited in sorted
op-type order the AIR list does not depend on the map's iteration order — for *every* family of
builders, including one that can build several entries (no `hone` hypothesis). -/
theorem airLoop_sorted {β ν α : Type} (tryBuild : β → Nat → ν → Option α) (builders : List β)
    {base₁ base₂ : List (Nat × ν)} (h : base₁.Perm base₂) (hk : (base₁.map Prod.fst).Nodup) :
    airLoopSorted tryBuild builders base₁ = airLoopSorted tryBuild builders base₂ := by
  unfold airLoopSorted
  rw [sortedEntries_perm h hk]

/-- Whether a builder finds *some* table to build never depends on the order — only *which* one. -/
theorem airLoop_length_perm {β κ ν α : Type} (tryBuild : β → κ → ν → Option α) (builders : List β)
    {base₁ base₂ : List (κ × ν)} (h : base₁.Perm base₂) :
    (airLoop tryBuild builders base₁).length = (airLoop tryBuild builders base₂).length := by
  unfold airLoop
  induction builders with
  | nil => rfl
  | cons b bs ih =>
    have := firstErr_isSome_perm (fun kv : κ × ν => tryBuild b kv.1 kv.2) h
    simp only [firstErr] at this
    simp only [List.filterMap_cons]
    cases h1 : List.findSome? (fun kv : κ × ν => tryBuild b kv.1 kv.2) base₁ <;>
      cases h2 : List.findSome? (fun kv : κ × ν => tryBuild b kv.1 kv.2) base₂ <;>
      simp_all

theorem Reads.bump_comm (r : Reads) (i j : Nat) : (r.bump i).bump j = (r.bump j).bump i := by
  unfold Reads.bump
  congr 1
  · simp only []; omega
  · funext k
    simp only []
    by_cases hi : k = i <;> by_cases hj : k = j
    · subst hi; subst hj; simp
    · subst hi; simp [hj]
    · subst hj; simp [hi]
    · simp [hi, hj]

theorem Reads.foldl_bump_perm (r : Reads) {l₁ l₂ : List Nat} (h : l₁.Perm l₂) :
    l₁.foldl Reads.bump r = l₂.foldl Reads.bump r :=
  h.foldl_eq' (fun x _ y _ z => Reads.bump_comm z x y) r

/-- **Poseidon preprocessing, phase 1.** `ext_reads` after the pass is the same vector for every
iteration order of `preprocessed.non_primitive` (increments commute). -/
theorem phase1_perm {κ ν : Type} (readsOf : κ → ν → List Nat) (r : Reads) {e₁ e₂ : List (κ × ν)}
    (h : e₁.Perm e₂) : phase1 readsOf r e₁ = phase1 readsOf r e₂ := by
  unfold phase1
  apply h.foldl_eq'
  intro x _ y _ z
  rw [← List.foldl_append, ← List.foldl_append]
  exact Reads.foldl_bump_perm z List.perm_append_comm

/-- **Phase 2 / `extend`.** The produced map is the same for every iteration order (distinct keys). -/
theorem phase2_lookup_perm {κ ν μ : Type} [BEq κ] [LawfulBEq κ] (g : κ → ν → μ) {e₁ e₂ : List (κ × ν)}
    (h : e₁.Perm e₂) (hd : (e₁.map Prod.fst).Nodup) (k : κ) :
    (phase2 g e₁).lookup k = (phase2 g e₂).lookup k := by
  unfold phase2
  apply extendMap_lookup_perm [] (h.map _)
  simpa [List.map_map, Function.comp_def] using hd

/-! ## Runner post-pass -/

section
variable {V : Type} [DecidableEq V]

theorem rewriteStep_none (root : Nat → Nat) (dc : Nat × Nat) :
    rewriteStep (V := V) root none dc = none := rfl

/-- Two steps of the rewrite post-pass commute when their targets differ and neither target is a
source (`root(canon)` is never a key of the rewrite map: it is where the chain ends). -/
theorem rewriteStep_comm (root : Nat → Nat) (x y : Nat × Nat) (hxy : x.1 ≠ y.1)
    (hx : root x.2 ≠ y.1) (hy : root y.2 ≠ x.1) 
    (w : Option (Nat → Option V)) :
    rewriteStep root (rewriteStep root w x) y = rewriteStep root (rewriteStep root w y) x := by
  cases w with
  | none => rfl
  | some w =>
    simp only [rewriteStep]
    cases hrx : w (root x.2) with
    | none =>
      cases hry : w (root y.2) with
      | none => simp [hrx, hry]
      | some vy =>
        cases hwy : w y.1 with
        | none => simp [hrx, hry, hwy, hx]
        | some vy' => by_cases hv : vy' = vy <;> simp [hrx, hry, hwy, hv]
    | some vx =>
      cases hry : w (root y.2) with
      | none =>
        cases hwx : w x.1 with
        | none => simp [hrx, hry, hwx, hy]
        | some vx' => by_cases hv : vx' = vx <;> simp [hrx, hry, hwx, hv]
      | some vy =>
        cases hwx : w x.1 with
        | none =>
          cases hwy : w y.1 with
          | none =>
            simp only [hrx, hry, hwx, hwy, hx, hy, hxy, Ne.symm hxy, if_false]
            congr 1; funext k
            by_cases h1 : k = x.1 <;> by_cases h2 : k = y.1 <;> simp_all
          | some vy' =>
            by_cases hv : vy' = vy <;>
              simp [hrx, hry, hwx, hwy, hv, hx, hy, hxy, Ne.symm hxy]
        | some vx' =>
          cases hwy : w y.1 with
          | none =>
            by_cases hv : vx' = vx <;>
              simp [hrx, hry, hwx, hwy, hv, hx, hy, hxy, Ne.symm hxy]
          | some vy' =>
            by_cases hv : vx' = vx <;> by_cases hv' : vy' = vy <;>
              simp [hrx, hry, hwx, hwy, hv, hv']

/-- **Runner rewrite post-pass.** The filled-in witness table (and whether a conflict is hit at all)
does not depend on the iteration order of the rewrite map, for maps with distinct keys whose chain
ends are not keys (true of every map `Deduplicator::run` builds: `resolve` stops at a non-key). -/
theorem rewritePass_perm (root : Nat → Nat) (w : Nat → Option V) {r₁ r₂ : List (Nat × Nat)}
    (h : r₁.Perm r₂) (hd : (r₁.map Prod.fst).Nodup)
    (hroot : ∀ x ∈ r₁, ∀ y ∈ r₁, root x.2 ≠ y.1) :
    rewritePass root w r₁ = rewritePass root w r₂ := by
  unfold rewritePass
  apply h.foldl_eq'
  intro x hx y hy z
  by_cases hxy : x.1 = y.1
  · have : x = y := eq_of_key_eq hd hx hy hxy
    subst this; rfl
  · exact rewriteStep_comm root x y hxy (hroot x hx y hy) (hroot y hy x hx) z

end

/-! ## The whole compile path -/

theorem optimizeOrd_eq {K : Type} (ord : FuseOrders K) (hord : ord.Valid) (ops : Array (Op K)) (privRows : List Nat)
    (hinv : fusionInvariant (dedup ops).1 (privRows.map (resolve (dedup ops).2)) = true) :
    optimizeOrd ord ops privRows = optimize ops privRows := by
  unfold optimizeOrd optimize
  rw [show dedup ops = ((dedup ops).1, (dedup ops).2) from rfl]
  simp only [fuseOrd_eq_fuse ord hord _ _ hinv]

section
variable {K : Type} [Neg K] [Zero K] [DecidableEq K]

/-- **C18 — `compile_order_independent`.** For every builder program `b` (with its registered
trace-generator ids and wire tags) and any two assignments of iteration orders to *all* the hash
containers that are iterated on the way — `in_connect`, the fusion pass's `valid` set (three
times per round), `expr_to_widx`, `non_primitive_trace_generators`, `tag_to_expr` — the build
returns the same value: same op list, witness count and numbering, public / private rows, rewrite
map, `expr_to_widx`, generator order and tag map, or the same error.

Hypotheses, all decidable and about the *program*, not about the orders:
* `hfuse` — the fusion candidates have distinct outputs and mul positions (the invariant of
  `identify_candidates`; checked per program by the driver, `c18inv`);
* `htags` — tags are distinct (enforced by `CircuitBuilder::tag`: `DuplicateTag`);
* `htagErr` — at most one tag points at an expression without a witness. Without it the build fails
  for every order, but *which* tag the error names follows the hash order
  (`P3R.Witness.C18Order.tag_error_order_dependent`). -/
theorem compile_order_independent (o₁ o₂ : Orders K) (h₁ : o₁.Valid) (h₂ : o₂.Valid)
    (b : BState K) (genKeys : List Nat) (tags : List (Nat × Nat))
    (hfuse : ∀ l, lower b = .ok l → fusionInvariantOf l = true)
    (htags : (tags.map Prod.fst).Nodup)
    (htagErr : ∀ l, lower b = .ok l → ∀ x ∈ tags, ∀ y ∈ tags,
      (finalE2w l).getD x.2 none = none → (finalE2w l).getD y.2 none = none → x = y) :
    compileOrd o₁ b genKeys tags = compileOrd o₂ b genKeys tags := by
  unfold compileOrd
  rw [lowerOrd_eq_lower _ h₁.backfill, lowerOrd_eq_lower _ h₂.backfill]
  cases hl : lower b with
  | error e => rfl
  | ok l =>
    have hf := hfuse l hl
    unfold fusionInvariantOf at hf
    simp only []
    rw [optimizeOrd_eq _ h₁.fuse _ _ hf, optimizeOrd_eq _ h₂.fuse _ _ hf]
    rw [show optimize l.ops l.privRows.toList = ((optimize l.ops l.privRows.toList).1, (optimize l.ops l.privRows.toList).2) from rfl]
    simp only []
    split
    · rfl
    · have hrw : (optimize l.ops l.privRows.toList).2 = (dedup l.ops).2 := rfl
      have he : ∀ (o : Orders K), o.Valid →
          e2wCollect l.e2w.size (resolve (optimize l.ops l.privRows.toList).2) (o.e2w (e2wPairs l.e2w)) = finalE2w l := by
        intro o ho
        rw [hrw]
        exact e2wCollect_perm _ _ (ho.e2w _) (((ho.e2w _).map _).nodup_iff.mpr (e2wPairs_nodup _))
      rw [he o₁ h₁, he o₂ h₂]
      have ht : ∀ (o : Orders K), o.Valid →
          (tagTransfer (fun e => (finalE2w l).getD e none) [] (o.tags tags)).map canonMap =
          (tagTransfer (fun e => (finalE2w l).getD e none) [] tags).map canonMap := by
        intro o ho
        apply tagTransfer_perm _ (ho.tags _) (((ho.tags _).map _).nodup_iff.mpr htags)
        intro x hx y hy
        exact htagErr l hl x ((ho.tags _).mem_iff.mp hx) y ((ho.tags _).mem_iff.mp hy)
      rw [ht o₁ h₁, ht o₂ h₂, genOrder_perm ((h₁.genKeys genKeys).trans (h₂.genKeys genKeys).symm)]

/-- … and its primitive part is the fixed-order model `P3R.compile` that C02/C03/C09 verify and
the harness compares with the real build line by line (everything but `expr_to_widx`, which
`compile` keeps as an array and the ordered model re-collects). -/
theorem compileOrd_core (o : Orders K) (h : o.Valid) (b : BState K) (genKeys : List Nat) (tags : List (Nat × Nat))
    (hfuse : ∀ l, lower b = .ok l → fusionInvariantOf l = true) (cx : CircuitX K)
    (hc : compileOrd o b genKeys tags = .ok cx) :
    ∃ c, compile b = .ok c ∧ cx.core.ops = c.ops ∧ cx.core.witnessCount = c.witnessCount ∧
      cx.core.pubRows = c.pubRows ∧ cx.core.privRows = c.privRows ∧ cx.core.rewrite = c.rewrite := by
  unfold compileOrd at hc
  rw [lowerOrd_eq_lower _ h.backfill] at hc
  unfold compile
  cases hl : lower b with
  | error e => rw [hl] at hc; cases hc
  | ok l =>
    rw [hl] at hc
    have hf := hfuse l hl
    unfold fusionInvariantOf at hf
    simp only [] at hc ⊢
    rw [optimizeOrd_eq _ h.fuse _ _ hf] at hc
    rw [show optimize l.ops l.privRows.toList = ((optimize l.ops l.privRows.toList).1, (optimize l.ops l.privRows.toList).2) from rfl] at hc ⊢
    simp only [] at hc ⊢
    split at hc
    · cases hc
    · rename_i hh
      simp only [hh]
      split at hc
      · cases hc
      · injection hc with hc
        subst hc
        exact ⟨_, rfl, rfl, rfl, rfl, rfl, rfl⟩

end

end P3R.C18

#print axioms P3R.C18.compile_order_independent
#print axioms P3R.C18.compileOrd_core
#print axioms P3R.C18.lowerOrd_eq_lower
#print axioms P3R.C18.fuseOrd_eq_fuse
#print axioms P3R.C18.backfillDsu_order_independent
#print axioms P3R.C18.Dsu.find_spec
#print axioms P3R.C18.airLoop_perm
#print axioms P3R.C18.phase1_perm
#print axioms P3R.C18.rewritePass_perm
