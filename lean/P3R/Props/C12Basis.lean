/-
C12 — basis independence for genuine field extensions (Mathlib algebra), tying the hypothesis
`PrimeIndep` of `P3R.Props.C12Multi` and the statement "coefficient vectors over the base field
are unique" to the power basis `1, θ, …, θ^{D-1}` of an extension defined by a monic polynomial
of degree `D` (any `D ≥ 1`; binomial `X^D - W`, the quintic trinomial `X^5 + X^2 - 1`, …).

* `basis_coeffs_unique` — `Σ cᵢ·eᵢ = Σ c'ᵢ·eᵢ → c = c'` for every `K`-linearly independent
  family `e`;
* `powerBasis_coeffs_unique`, `adjoinRoot_coeffs_unique` — in particular for the power basis of
  `K[X]/(g)`, `g` monic of degree `D`: **decompose_ext_to_base_coeffs has exactly one
  base-field answer**;
* `primeIndep_of_linearIndependent`, `primeIndep_adjoinRoot` — the prime-field independence
  the multi-limb bit gadget needs holds for that basis;
* `multi_canonical_adjoinRoot` — `multi_canonical` instantiated at `L = F_p[X]/(g)`, `g` monic
  irreducible (so `L` is a field and the `BoolCheck` rows force 0/1).
-/
import P3R.Props.C12Multi
import Mathlib.RingTheory.AdjoinRoot
import Mathlib.RingTheory.PowerBasis
import Mathlib.Algebra.CharP.Algebra
import Mathlib.Algebra.Field.ZMod
import Mathlib.LinearAlgebra.LinearIndependent.Lemmas

set_option linter.unusedSectionVars false

namespace P3R.C12
open P3R.Decomp Polynomial

section Basis
variable {K L : Type} [Field K] [CommRing L] [Algebra K L]

/-- **C12 / basis independence.** Coefficient vectors over the base field with respect to a
linearly independent family are unique. -/
theorem basis_coeffs_unique (D : ℕ) (e : ℕ → L)
    (hli : LinearIndependent K (fun i : Fin D => e i)) (c c' : ℕ → K)
    (h : ∑ i ∈ Finset.range D, e i * algebraMap K L (c i) =
      ∑ i ∈ Finset.range D, e i * algebraMap K L (c' i)) : ∀ i < D, c i = c' i := by
  have h0 : ∑ i : Fin D, (c i - c' i) • e i = 0 := by
    have : ∀ i : Fin D, (c i - c' i) • e i = e i * algebraMap K L (c i) - e i * algebraMap K L (c' i) := by
      intro i; rw [Algebra.smul_def, map_sub]; ring
    rw [Finset.sum_congr rfl fun i _ => this i, Finset.sum_sub_distrib, sub_eq_zero,
      ← Finset.sum_range (fun i => e i * algebraMap K L (c i)),
      ← Finset.sum_range (fun i => e i * algebraMap K L (c' i))]
    exact h
  intro i hi
  have := Fintype.linearIndependent_iff.1 hli (fun i : Fin D => c i - c' i) h0 ⟨i, hi⟩
  exact sub_eq_zero.1 this

/-- … for the power basis of any extension that has one. -/
theorem powerBasis_coeffs_unique (pb : PowerBasis K L) (c c' : ℕ → K)
    (h : ∑ i ∈ Finset.range pb.dim, pb.gen ^ i * algebraMap K L (c i) =
      ∑ i ∈ Finset.range pb.dim, pb.gen ^ i * algebraMap K L (c' i)) :
    ∀ i < pb.dim, c i = c' i := by
  refine basis_coeffs_unique pb.dim (fun i => pb.gen ^ i) ?_ c c' h
  have := pb.basis.linearIndependent
  rwa [pb.coe_basis] at this

/-- … for `K[X]/(g)`, `g` monic of degree `D`: `Σ cᵢ·θⁱ = Σ c'ᵢ·θⁱ → c = c'`. -/
theorem adjoinRoot_coeffs_unique (g : K[X]) (hg : g.Monic) (c c' : ℕ → K)
    (h : ∑ i ∈ Finset.range g.natDegree, AdjoinRoot.root g ^ i * AdjoinRoot.of g (c i) =
      ∑ i ∈ Finset.range g.natDegree, AdjoinRoot.root g ^ i * AdjoinRoot.of g (c' i)) :
    ∀ i < g.natDegree, c i = c' i := by
  have := powerBasis_coeffs_unique (AdjoinRoot.powerBasis' hg) c c'
  simp only [AdjoinRoot.powerBasis'_dim, AdjoinRoot.powerBasis'_gen] at this
  exact this h

end Basis

section Prime
variable (p : ℕ) [Fact p.Prime] {L : Type} [CommRing L] [Algebra (ZMod p) L]

/-- Linear independence over `F_p` gives the independence the bit gadget needs. -/
theorem primeIndep_of_linearIndependent (D : ℕ) (e : ℕ → L)
    (hli : LinearIndependent (ZMod p) (fun i : Fin D => e i)) : PrimeIndep e D := by
  intro a b h i hi
  have hc : ∀ n : ℕ, (n : L) = algebraMap (ZMod p) L (n : ZMod p) := fun n => (map_natCast _ n).symm
  simp only [hc] at h
  have := basis_coeffs_unique D e hli (fun i => (a i : ZMod p)) (fun i => (b i : ZMod p)) h i hi
  rw [hc, hc, this]

/-- The power basis of any extension of `F_p` that has one. -/
theorem primeIndep_powerBasis (pb : PowerBasis (ZMod p) L) :
    PrimeIndep (fun i => pb.gen ^ i) pb.dim := by
  refine primeIndep_of_linearIndependent p pb.dim _ ?_
  have := pb.basis.linearIndependent
  rwa [pb.coe_basis] at this

/-- The power basis of `F_p[X]/(g)`, `g` monic of degree `D`. -/
theorem primeIndep_adjoinRoot (g : (ZMod p)[X]) (hg : g.Monic) :
    PrimeIndep (fun i => (AdjoinRoot.root g) ^ i) g.natDegree := by
  have := primeIndep_powerBasis p (AdjoinRoot.powerBasis' hg)
  simpa only [AdjoinRoot.powerBasis'_dim, AdjoinRoot.powerBasis'_gen] using this

/-- **C12 / bits, all limbs, in the field `F_p[X]/(g)`** (`g` monic irreducible of degree `D`,
power basis `θ^i`): the only accepted slot contents are the canonical chunks. -/
theorem multi_canonical_adjoinRoot (g : (ZMod p)[X]) (hg : g.Monic) [Fact (Irreducible g)]
    [DecidableEq (AdjoinRoot g)] (w : ℕ) (hw : 0 < w) (hlow : 2 ^ (w - 1) ≤ p) (hp : p < 2 ^ w)
    (bits : List (AdjoinRoot g)) (hn : bits.length ≤ w * g.natDegree) (v : ℕ → ℕ)
    (hv : ∀ i < g.natDegree, v i < p)
    (hacc : bitsAcceptMulti p w g.natDegree (fun i => (AdjoinRoot.root g) ^ i)
      (∑ i ∈ Finset.range g.natDegree, (AdjoinRoot.root g) ^ i * (v i : AdjoinRoot g)) bits = true) :
    ∀ i < g.natDegree, chunkAt w i bits = canonBits (chunkAt w i bits).length (v i) := by
  have : CharP (AdjoinRoot g) p := charP_of_injective_algebraMap (algebraMap (ZMod p) (AdjoinRoot g)).injective p
  exact multi_canonical p w g.natDegree hw hlow hp _ (primeIndep_adjoinRoot p g hg) bits hn v hv hacc

end Prime

end P3R.C12
