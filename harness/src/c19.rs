//! C19: the runner's behaviour on missing / extra / conflicting inputs, printed as one outcome
//! line per case so that the same case list can be run by the debug and the release build of
//! this harness (and by the Lean model for the primitive-op circuits) and compared.
//!
//! Each case: a circuit (a generated primitive program, or a Poseidon2 permutation circuit
//! whose inputs are private inputs) and an input-supply variant.

use std::io::Write;
use std::panic::{AssertUnwindSafe, catch_unwind};

use p3_baby_bear::{BabyBear, default_babybear_poseidon2_16};
use p3_circuit::ops::poseidon2_perm::Poseidon2PermCallBase;
use p3_circuit::ops::{Poseidon2Config, generate_poseidon2_trace};
use p3_circuit::{Circuit, CircuitBuilder, WitnessId};
use p3_field::{PrimeCharacteristicRing, PrimeField64};
use p3_poseidon2_circuit_air::BabyBearD1Width16;
use p3_symmetric::Permutation;

use crate::prog::*;
use crate::rng::Rng;

type F = BabyBear;

#[derive(Clone, Copy, Debug, PartialEq)]
pub enum Variant {
    Full,
    NoPrivate,
    NoPublic,
    PublicShort,
    PublicLong,
    PrivateShort,
    PrivateLong,
    PublicTwice,
    PerturbedPublic,
    PerturbedPrivate,
}

pub const VARIANTS: [Variant; 10] = [
    Variant::Full,
    Variant::NoPrivate,
    Variant::NoPublic,
    Variant::PublicShort,
    Variant::PublicLong,
    Variant::PrivateShort,
    Variant::PrivateLong,
    Variant::PublicTwice,
    Variant::PerturbedPublic,
    Variant::PerturbedPrivate,
];

/// The input-supplying calls of a variant: (is_public, values) in order.
pub fn variant_calls(pubs: &[F], privs: &[F], v: Variant) -> Vec<(bool, Vec<F>)> {
    let mut pu = pubs.to_vec();
    let mut pr = privs.to_vec();
    match v {
        Variant::PublicShort => {
            pu.pop();
        }
        Variant::PublicLong => pu.push(F::ONE),
        Variant::PrivateShort => {
            pr.pop();
        }
        Variant::PrivateLong => pr.push(F::ONE),
        Variant::PerturbedPublic => {
            if let Some(x) = pu.last_mut() {
                *x += F::ONE;
            }
        }
        Variant::PerturbedPrivate => {
            if let Some(x) = pr.last_mut() {
                *x += F::ONE;
            }
        }
        _ => {}
    }
    let mut calls = vec![];
    if v != Variant::NoPublic {
        calls.push((true, pu.clone()));
    }
    if v == Variant::PublicTwice {
        let mut pu2 = pu.clone();
        if let Some(x) = pu2.first_mut() {
            *x += F::ONE;
        }
        calls.push((true, pu2));
    }
    if v != Variant::NoPrivate {
        calls.push((false, pr));
    }
    calls
}

/// Run a session and print it in the Lean driver's `run ...` format.
pub fn run_session_line(c: &Circuit<F>, calls: &[(bool, Vec<F>)]) -> String {
    let r = catch_unwind(AssertUnwindSafe(|| -> Result<Vec<F>, String> {
        let mut runner = c.runner();
        let e = |e: p3_circuit::CircuitError| err_name(&e);
        for (is_pub, vals) in calls {
            if *is_pub {
                runner.set_public_inputs(vals).map_err(e)?;
            } else {
                runner.set_private_inputs(vals).map_err(e)?;
            }
        }
        let t = runner.run().map_err(e)?;
        Ok((0..c.witness_count).map(|i| *t.witness_trace.get_value(WitnessId(i)).unwrap()).collect())
    }));
    match r {
        Err(_) => "run panic".into(),
        Ok(Err(e)) => format!("run err {e}"),
        Ok(Ok(w)) => format!("run ok {}", w.iter().map(|x| x.as_canonical_u64().to_string()).collect::<Vec<_>>().join(" ")),
    }
}

/// Run one variant; the outcome line is `ok <digest of the witness>` or `err <ErrorName>`.
pub fn run_variant(c: &Circuit<F>, pubs: &[F], privs: &[F], v: Variant) -> String {
    let r = catch_unwind(AssertUnwindSafe(|| -> Result<Vec<F>, String> {
        let mut runner = c.runner();
        let e = |e: p3_circuit::CircuitError| err_name(&e);
        let mut pu = pubs.to_vec();
        let mut pr = privs.to_vec();
        match v {
            Variant::PublicShort => {
                pu.pop();
            }
            Variant::PublicLong => pu.push(F::ONE),
            Variant::PrivateShort => {
                pr.pop();
            }
            Variant::PrivateLong => pr.push(F::ONE),
            Variant::PerturbedPublic => {
                if let Some(x) = pu.last_mut() {
                    *x += F::ONE;
                }
            }
            Variant::PerturbedPrivate => {
                if let Some(x) = pr.last_mut() {
                    *x += F::ONE;
                }
            }
            _ => {}
        }
        if v != Variant::NoPublic {
            runner.set_public_inputs(&pu).map_err(e)?;
        }
        if v == Variant::PublicTwice {
            // second supply with a different value must conflict (or be identical → fine)
            let mut pu2 = pu.clone();
            if let Some(x) = pu2.first_mut() {
                *x += F::ONE;
            }
            runner.set_public_inputs(&pu2).map_err(e)?;
        }
        if v != Variant::NoPrivate {
            runner.set_private_inputs(&pr).map_err(e)?;
        }
        let t = runner.run().map_err(e)?;
        Ok((0..c.witness_count).map(|i| *t.witness_trace.get_value(WitnessId(i)).unwrap()).collect())
    }));
    match r {
        Err(_) => "panic".into(),
        Ok(Err(e)) => format!("err {e}"),
        Ok(Ok(w)) => {
            let mut h = 0xcbf29ce484222325u64;
            for x in &w {
                h = (h ^ x.as_canonical_u64()).wrapping_mul(0x100000001b3);
            }
            format!("ok {h:016x}")
        }
    }
}

/// Poseidon2 (BabyBear, D=1, width 16) permutation whose rate inputs are private inputs and
/// whose first two outputs are compared with public inputs.
pub fn perm_circuit(n_priv_inputs: usize, alu_use: bool) -> (Circuit<F>, Vec<F>, Vec<F>) {
    perm_circuit_with(n_priv_inputs, alu_use, false)
}

/// `via_connect`: the first output is `connect`ed to the expected-digest public input, so the
/// non-primitive op *writes into a slot that already holds the caller's value* (the conflict is
/// detected — or not — by the executor's own `ExecutionContext::set_witness`, a different code path
/// from the runner's `set_witness` used by ALU ops).
pub fn perm_circuit_with(n_priv_inputs: usize, alu_use: bool, via_connect: bool) -> (Circuit<F>, Vec<F>, Vec<F>) {
    let perm = default_babybear_poseidon2_16();
    let mut b = CircuitBuilder::<F>::new();
    b.enable_poseidon2_perm_base::<BabyBearD1Width16, _>(generate_poseidon2_trace::<F, BabyBearD1Width16>, perm.clone());
    let mut inputs: [Option<_>; 16] = [None; 16];
    let mut privs = vec![];
    let mut state = [F::ZERO; 16];
    for (i, slot) in inputs.iter_mut().enumerate().take(n_priv_inputs) {
        *slot = Some(b.alloc_private_input("x"));
        let v = F::from_u64(100 + i as u64);
        privs.push(v);
        state[i] = v;
    }
    let out = perm.permute(state);
    let (_id, outs) = b
        .add_poseidon2_perm_base(&Poseidon2PermCallBase {
            config: Poseidon2Config::BABY_BEAR_D1_W16,
            new_start: true,
            inputs,
            out_ctl: [true; 8],
            return_all_outputs: false,
            absorb_len: 0,
        })
        .unwrap();
    let e0 = b.public_input();
    if via_connect {
        b.connect(outs[0].unwrap(), e0);
    } else {
        let d = b.sub(outs[0].unwrap(), e0);
        b.assert_zero(d);
    }
    let mut pubs = vec![out[0]];
    if alu_use {
        // the private inputs also participate in an ALU op
        let s = b.add(inputs[0].unwrap(), inputs[0].unwrap());
        let e1 = b.public_input();
        b.connect(s, e1);
        pubs.push(privs[0] + privs[0]);
    }
    let c = b.build().unwrap();
    (c, pubs, privs)
}

/// `failsafe --seed S --programs N --skip K --out DIR`: prints `case <k> <variant> <outcome>`
/// lines to `<out>/failsafe.<profile>`; the model's input lines go to `<out>/failsafe.cases`.
pub fn main(args: &crate::Args) {
    let seed = args.u64("seed", 1);
    let nprog = args.u64("programs", 50) as usize;
    let skip = args.u64("skip", 0) as usize;
    let out = args.str("out", "/tmp/p3r");
    let profile = if cfg!(debug_assertions) { "debug" } else { "release" };
    std::fs::create_dir_all(&out).unwrap();
    let mut f = std::fs::OpenOptions::new().create(true).append(skip > 0).write(true).truncate(skip == 0).open(format!("{out}/failsafe.{profile}")).unwrap();
    let mut cases = if profile == "debug" && skip == 0 { Some(std::fs::File::create(format!("{out}/failsafe.cases")).unwrap()) } else { None };
    let mut implo = if profile == "debug" && skip == 0 { Some(std::fs::File::create(format!("{out}/failsafe.impl")).unwrap()) } else { None };
    let mut rng = Rng::new(seed ^ 0xc19);
    let mut k = 0usize;
    let mut emit = |k: &mut usize, line: String, f: &mut std::fs::File| {
        if *k >= skip {
            // announce before running so that a crash identifies the case
            writeln!(f, "{line}").unwrap();
            f.flush().unwrap();
        }
        *k += 1;
    };
    // NPO circuits first (where the profiles can differ)
    for (n, alu_use, via_connect) in [(1usize, true, false), (2, true, false), (8, true, false), (1, false, false), (3, false, false), (8, false, false),
                                      (2, true, true), (8, false, true)] {
        let (c, pubs, privs) = perm_circuit_with(n, alu_use, via_connect);
        let n = format!("{n}{}{}", if alu_use { "a" } else { "" }, if via_connect { "c" } else { "" });
        for v in VARIANTS {
            if k >= skip {
                writeln!(f, "begin {k} perm{n} {v:?}").unwrap();
                f.flush().unwrap();
                let o = run_variant(&c, &pubs, &privs, v);
                let line = format!("case {k} perm{n} {v:?} {o}");
                emit(&mut k, line, &mut f);
            } else {
                k += 1;
            }
        }
    }
    for i in 0..nprog {
        let mut r = rng.fork();
        let Some((prog, builder)) = generate::<F>(&mut r, &GenCfg { max_calls: 25, allow_zero_div: false }) else { continue };
        let Ok(Ok(c)) = catch_unwind(AssertUnwindSafe(|| builder.build())) else { continue };
        let pubs: Vec<F> = prog.pubs0.iter().map(|x| F::from_u64(*x)).collect();
        let privs: Vec<F> = prog.privs0.iter().map(|x| F::from_u64(*x)).collect();
        if let Some(cf) = cases.as_mut() {
            writeln!(cf, "prog bb").unwrap();
            for c in &prog.calls {
                writeln!(cf, "{}", c.line()).unwrap();
            }
            writeln!(cf, "build").unwrap();
        }
        for v in VARIANTS {
            if let Some(cf) = cases.as_mut() {
                let calls = variant_calls(&pubs, &privs, v);
                let mut line = String::from("sess");
                for (is_pub, vals) in &calls {
                    line.push_str(&format!(" {} {}", *is_pub as u8, vals.len()));
                    for x in vals {
                        line.push_str(&format!(" {}", x.as_canonical_u64()));
                    }
                }
                writeln!(cf, "{line}").unwrap();
                if let Some(io) = implo.as_mut() {
                    writeln!(io, "{}", run_session_line(&c, &calls)).unwrap();
                }
            }
            if k >= skip {
                writeln!(f, "begin {k} gen{i} {v:?}").unwrap();
                f.flush().unwrap();
                let o = run_variant(&c, &pubs, &privs, v);
                let line = format!("case {k} gen{i} {v:?} {o}");
                emit(&mut k, line, &mut f);
            } else {
                k += 1;
            }
        }
    }
    writeln!(f, "end {k}").unwrap();
    println!("failsafe[{profile}]: cases={k}");
}
