/-
C04 — the lane-0 discipline `SchedWF` of the ALU schedule, DERIVED from the model of
`AluAir::compute_schedule` (`Model/AluSchedule.computeSchedule`) for every op list.

`C04.scheduled_accepted_sat_bus` had `SchedWF lanes kmax (isHorner preps) sched` as a hypothesis. Here:

* `splitChains_good` — what the chain splitter produces: every chain `(start, len)` consists of Horner
  ops only and is maximal on the left (`start = 0` or op `start − 1` is not a Horner op); every
  non-chain op is not a Horner op (fold invariant over `range n`, as `C11.splitChains_cover`);
* `fillRow_ext` / `fillRow_len` / `fillRow_aligned` — `fill_row` only appends separators and non-chain
  ops, does nothing on a complete row, and completes a row that has `c ≥ 1` entries;
* `wf_append_benign` / `wf_snoc` — `SchedWF` is kept by appending non-Horner entries anywhere and by
  appending a Horner entry at lane 0 of a row ≥ 1 whose lane-0 predecessor is `predOK`;
* `placeChain_wf` — the `while i < chain.len()` loop: positional invariant (rows complete, `R ≥ 1`
  rows, lane-0 entry of the last row is what the next chain step must see);
* `chainsFold_wf` — the loop over the chains (separator row before every chain but the first, which
  sees the leading separator);
* **`computeSchedule_wf`** — `computeSchedule preps lanes kmax = some sched → SchedWF lanes kmax
  (isHorner preps) sched`, for every `preps`, `lanes ≥ 1` and every `kmax` (no lower bound on `kmax`
  is needed: for `kmax < 2` nothing is packed);
* `scheduled_accepted_sat_bus'`, `scheduled_accepted_sat_D1'` — the main theorems without the
  `SchedWF` hypothesis.
-/
import P3R.Props.C04SchedBus

set_option linter.unusedSectionVars false
set_option linter.unusedVariables false

namespace P3R.C04
open P3R P3R.C09 P3R.C11

/-! ## 1. `SchedWF` under appending -/
section Append
variable (lanes kmax : ℕ) (isH : ℕ → Bool)

/-- Entries `fill_row` and the tail of `compute_schedule` append: separators and non-Horner ops. -/
def Benign (isH : ℕ → Bool) (e : SchedEntry) : Prop := e = .sep ∨ ∃ i, e = .op i ∧ isH i = false

theorem entryAt_append_left (a b : List SchedEntry) (p : ℕ) (h : p < a.length) :
    entryAt (a ++ b) p = entryAt a p := by
  unfold entryAt
  rw [List.getD_eq_getElem?_getD, List.getD_eq_getElem?_getD, List.getElem?_append_left h]

theorem entryAt_append_ge (a b : List SchedEntry) (p : ℕ) (h : a.length ≤ p) :
    entryAt (a ++ b) p = entryAt b (p - a.length) := by
  unfold entryAt
  rw [List.getD_eq_getElem?_getD, List.getD_eq_getElem?_getD, List.getElem?_append_right h]

theorem entryAt_mem (s : List SchedEntry) (p : ℕ) (h : p < s.length) : entryAt s p ∈ s := by
  unfold entryAt
  rw [List.getD_eq_getElem?_getD, List.getElem?_eq_getElem h]
  exact List.getElem_mem h

theorem wf_nil : SchedWF lanes kmax isH [] :=
  ⟨fun p j hp => absurd hp (by simp), fun p f k hp => absurd hp (by simp)⟩

/-- Appending separators / non-Horner ops (at any lane) keeps the discipline. -/
theorem wf_append_benign (s ext : List SchedEntry) (h : SchedWF lanes kmax isH s)
    (hb : ∀ e ∈ ext, Benign isH e) : SchedWF lanes kmax isH (s ++ ext) := by
  have hnew : ∀ p, p < (s ++ ext).length → ¬ p < s.length → Benign isH (entryAt (s ++ ext) p) := by
    intro p hp hlt
    rw [entryAt_append_ge _ _ _ (by omega)]
    apply hb
    apply entryAt_mem
    rw [List.length_append] at hp
    omega
  constructor
  · intro p j hp he hj
    by_cases hlt : p < s.length
    · rw [entryAt_append_left _ _ _ hlt] at he
      have := h.opH p j hlt he hj
      rwa [entryAt_append_left _ _ _ (by omega)]
    · exfalso
      have hbn := hnew p hp hlt
      rw [he] at hbn
      rcases hbn with hbn | ⟨i, hi, hf⟩
      · cases hbn
      · cases hi
        rw [hj] at hf
        cases hf
  · intro p f k hp he
    by_cases hlt : p < s.length
    · rw [entryAt_append_left _ _ _ hlt] at he
      have := h.packed p f k hlt he
      rwa [entryAt_append_left _ _ _ (by omega)]
    · exfalso
      have hbn := hnew p hp hlt
      rw [he] at hbn
      rcases hbn with hbn | ⟨i, hi, _⟩
      · cases hbn
      · cases hi

theorem rows_pred (R : ℕ) (hR : 1 ≤ R) (hl : 0 < lanes) :
    (R * lanes) % lanes = 0 ∧ lanes ≤ R * lanes ∧ R * lanes - lanes = (R - 1) * lanes ∧
      (R - 1) * lanes < R * lanes := by
  refine ⟨Nat.mul_mod_left _ _, Nat.le_mul_of_pos_left _ hR, ?_, ?_⟩
  · rw [Nat.sub_mul, Nat.one_mul]
  · exact Nat.mul_lt_mul_of_pos_right (by omega) hl

/-- Appending one entry at lane 0 of row `R ≥ 1`: a Horner op / packed row must find `predOK` one row
up on lane 0 (position `(R − 1) · lanes`). -/
theorem wf_snoc (s : List SchedEntry) (e : SchedEntry) (R : ℕ) (h : SchedWF lanes kmax isH s)
    (hlen : s.length = R * lanes) (hR : 1 ≤ R) (hl : 0 < lanes)
    (hop : ∀ j, e = .op j → isH j = true → predOK isH j (entryAt s ((R - 1) * lanes)))
    (hpk : ∀ f k, e = .packed f k → 2 ≤ k ∧ k ≤ kmax ∧ (∀ t, t < k → isH (f + t) = true) ∧
      predOK isH f (entryAt s ((R - 1) * lanes))) :
    SchedWF lanes kmax isH (s ++ [e]) := by
  obtain ⟨hm, hle, hsub, hlt'⟩ := rows_pred lanes R hR hl
  have hlast : ∀ p, p < (s ++ [e]).length → ¬ p < s.length →
      p = R * lanes ∧ entryAt (s ++ [e]) p = e ∧
        entryAt (s ++ [e]) (p - lanes) = entryAt s ((R - 1) * lanes) := by
    intro p hp hlt
    rw [List.length_append, List.length_singleton] at hp
    have hpe : p = R * lanes := by omega
    subst hpe
    refine ⟨rfl, ?_, ?_⟩
    · rw [entryAt_append_ge _ _ _ (by omega), hlen, Nat.sub_self]; rfl
    · rw [hsub, entryAt_append_left _ _ _ (by omega)]
  constructor
  · intro p j hp he hj
    by_cases hlt : p < s.length
    · rw [entryAt_append_left _ _ _ hlt] at he
      have := h.opH p j hlt he hj
      rwa [entryAt_append_left _ _ _ (by omega)]
    · obtain ⟨hpe, hee, hprev⟩ := hlast p hp hlt
      rw [hee] at he
      rw [hprev, hpe]
      exact ⟨hm, hle, hop j he hj⟩
  · intro p f k hp he
    by_cases hlt : p < s.length
    · rw [entryAt_append_left _ _ _ hlt] at he
      have := h.packed p f k hlt he
      rwa [entryAt_append_left _ _ _ (by omega)]
    · obtain ⟨hpe, hee, hprev⟩ := hlast p hp hlt
      rw [hee] at he
      rw [hprev, hpe]
      obtain ⟨h1, h2, h3, h4⟩ := hpk f k he
      exact ⟨hm, hle, h1, h2, h3, h4⟩

end Append

/-! ## 2. `fill_row` -/
section Fill
variable (lanes : ℕ) (isH : ℕ → Bool)

/-- `fill_row` only appends separators and non-chain ops. -/
theorem fillRow_ext (nonChain : List ℕ) (hnc : ∀ i ∈ nonChain, isH i = false) :
    ∀ fuel (s : SchedState), ∃ ext, (fillRow lanes nonChain fuel s).sched = s.sched ++ ext ∧
      ∀ e ∈ ext, Benign isH e := by
  intro fuel
  induction fuel with
  | zero => intro s; exact ⟨[], by simp [fillRow], by simp⟩
  | succ fuel ih =>
    intro s
    unfold fillRow
    split
    · split
      · rename_i i hi
        obtain ⟨ext, he, hb⟩ := ih { sched := s.sched ++ [.op i], nc := s.nc + 1 }
        refine ⟨.op i :: ext, by rw [he]; simp, ?_⟩
        intro e hm
        rcases List.mem_cons.mp hm with hm | hm
        · exact Or.inr ⟨i, hm, hnc i (List.mem_of_getElem? hi)⟩
        · exact hb e hm
      · obtain ⟨ext, he, hb⟩ := ih { s with sched := s.sched ++ [.sep] }
        refine ⟨.sep :: ext, by rw [he]; simp, ?_⟩
        intro e hm
        rcases List.mem_cons.mp hm with hm | hm
        · exact Or.inl hm
        · exact hb e hm
    · exact ⟨[], by simp, by simp⟩

/-- On a complete row `fill_row` does nothing. -/
theorem fillRow_aligned (nonChain : List ℕ) (fuel : ℕ) (s : SchedState) (R : ℕ)
    (hlen : s.sched.length = R * lanes) : fillRow lanes nonChain fuel s = s := by
  cases fuel with
  | zero => rfl
  | succ fuel =>
    unfold fillRow
    rw [hlen, Nat.mul_mod_left]
    simp

/-- A row holding `c ≥ 1` entries is completed (`lanes − c` entries are appended). -/
theorem fillRow_len (hl : 0 < lanes) (nonChain : List ℕ) :
    ∀ fuel (s : SchedState) (R c : ℕ), s.sched.length = R * lanes + c → 1 ≤ c → c ≤ lanes →
      lanes - c ≤ fuel → (fillRow lanes nonChain fuel s).sched.length = (R + 1) * lanes := by
  intro fuel
  induction fuel with
  | zero =>
    intro s R c hlen h1 h2 hf
    have : c = lanes := by omega
    subst this
    simp only [fillRow]
    rw [hlen, Nat.succ_mul]
  | succ fuel ih =>
    intro s R c hlen h1 h2 hf
    by_cases hc : c = lanes
    · subst hc
      have : s.sched.length = (R + 1) * c := by rw [hlen, Nat.succ_mul]
      rw [fillRow_aligned c nonChain _ s (R + 1) this, this]
    · have hmod : s.sched.length % lanes = c := by
        rw [hlen, Nat.mul_add_mod_self_right, Nat.mod_eq_of_lt (by omega)]
      unfold fillRow
      rw [hmod]
      have hne : (c != 0) = true := by simp; omega
      rw [if_pos hne]
      split
      · exact ih _ R (c + 1) (by simp [hlen]; omega) (by omega) (by omega) (by omega)
      · exact ih _ R (c + 1) (by simp [hlen]; omega) (by omega) (by omega) (by omega)

end Fill

/-! ## 3. What `splitChains` produces -/
section Split
variable {K : Type} [Field K] [DecidableEq K]

/-- A chain `(start, len)`: Horner ops only, and maximal on the left. -/
def GoodChain (isH : ℕ → Bool) (c : ℕ × ℕ) : Prop :=
  (∀ t, t < c.2 → isH (c.1 + t) = true) ∧ ¬ (1 ≤ c.1 ∧ isH (c.1 - 1) = true)

theorem splitChains_good (preps : List (List K)) :
    (∀ c ∈ (splitChains preps).1, GoodChain (isHorner preps) c) ∧
      (∀ i ∈ (splitChains preps).2, isHorner preps i = false) := by
  unfold splitChains
  have key : ∀ n, ∀ (acc : List (Nat × Nat) × Option (Nat × Nat) × List Nat),
      acc = (List.range n).foldl
        (fun (acc : List (Nat × Nat) × Option (Nat × Nat) × List Nat) i =>
          if isHorner preps i then
            match acc.2.1 with
            | some (s, l) => (acc.1, some (s, l + 1), acc.2.2)
            | none => (acc.1, some (i, 1), acc.2.2)
          else
            match acc.2.1 with
            | some c => (acc.1 ++ [c], none, acc.2.2 ++ [i])
            | none => (acc.1, none, acc.2.2 ++ [i]))
        ([], none, []) →
      (∀ c ∈ acc.1, GoodChain (isHorner preps) c) ∧ (∀ i ∈ acc.2.2, isHorner preps i = false) ∧
        (∀ c, acc.2.1 = some c → GoodChain (isHorner preps) c ∧ c.1 + c.2 = n) ∧
        (acc.2.1 = none → ¬ (1 ≤ n ∧ isHorner preps (n - 1) = true)) := by
    intro n
    induction n with
    | zero =>
      intro acc h; subst h
      refine ⟨by simp, by simp, by simp, fun _ h => by omega⟩
    | succ n ih =>
      intro acc h
      rw [List.range_succ, List.foldl_append] at h
      simp only [List.foldl_cons, List.foldl_nil] at h
      obtain ⟨h1, h2, h3, h4⟩ := ih _ rfl
      generalize (List.range n).foldl _ ([], none, []) = prev at h h1 h2 h3 h4
      obtain ⟨chains, cur, nonChain⟩ := prev
      simp only at h h1 h2 h3 h4
      by_cases hh : isHorner preps n = true
      · rw [if_pos hh] at h
        cases cur with
        | some c =>
          obtain ⟨st, l⟩ := c
          try simp only at h
          subst h
          obtain ⟨⟨hg1, hg2⟩, hst⟩ := h3 (st, l) rfl
          simp only at hg1 hg2 hst
          refine ⟨h1, h2, ?_, fun hc => by cases hc⟩
          intro c hc
          cases hc
          refine ⟨⟨?_, hg2⟩, by simp only; omega⟩
          intro t ht
          simp only at ht ⊢
          by_cases htl : t < l
          · exact hg1 t htl
          · have : st + t = n := by omega
            rw [this]; exact hh
        | none =>
          try simp only at h
          subst h
          refine ⟨h1, h2, ?_, fun hc => by cases hc⟩
          intro c hc
          cases hc
          refine ⟨⟨?_, h4 rfl⟩, rfl⟩
          intro t ht
          simp only at ht ⊢
          have : t = 0 := by omega
          subst this
          exact hh
      · rw [if_neg hh] at h
        have hf : isHorner preps n = false := by simpa using hh
        cases cur with
        | some c =>
          try simp only at h
          subst h
          refine ⟨?_, ?_, (fun c hc => by cases hc), fun _ hc => ?_⟩
          · intro c' hc'
            rcases List.mem_append.mp hc' with hc' | hc'
            · exact h1 c' hc'
            · rw [List.mem_singleton] at hc'; rw [hc']
              exact (h3 c rfl).1
          · intro i hi
            rcases List.mem_append.mp hi with hi | hi
            · exact h2 i hi
            · rw [List.mem_singleton] at hi; subst hi; exact hf
          · rw [Nat.add_sub_cancel, hf] at hc; cases hc.2
        | none =>
          try simp only at h
          subst h
          refine ⟨h1, ?_, (fun c hc => by cases hc), fun _ hc => ?_⟩
          · intro i hi
            rcases List.mem_append.mp hi with hi | hi
            · exact h2 i hi
            · rw [List.mem_singleton] at hi; subst hi; exact hf
          · rw [Nat.add_sub_cancel, hf] at hc; cases hc.2
  obtain ⟨h1, h2, h3, _⟩ := key preps.length _ rfl
  generalize (List.range preps.length).foldl _ ([], none, []) = fin at h1 h2 h3 ⊢
  obtain ⟨chains, cur, nonChain⟩ := fin
  cases cur with
  | some c =>
    simp only at h1 h2 h3 ⊢
    refine ⟨?_, h2⟩
    intro c' hc'
    rcases List.mem_append.mp hc' with hc' | hc'
    · exact h1 c' hc'
    · rw [List.mem_singleton] at hc'; rw [hc']
      exact (h3 c rfl).1
  | none =>
    simp only at h1 h2 h3 ⊢
    exact ⟨h1, h2⟩

end Split

/-! ## 4. The scheduling loops -/
section Loops
variable {K : Type} [Field K] [DecidableEq K]

/-- After a lane-0 entry `e` was pushed on complete rows and `fill_row` ran: rows complete again, one
more row, `e` is the lane-0 entry of the last row, everything appended after `e` is benign. -/
theorem push_fill (preps : List (List K)) (lanes kmax : ℕ) (hl : 0 < lanes) (nonChain : List ℕ)
    (hnc : ∀ i ∈ nonChain, isHorner preps i = false) (s : SchedState) (R : ℕ) (e : SchedEntry)
    (hwf : SchedWF lanes kmax (isHorner preps) (s.sched ++ [e]))
    (hlen : s.sched.length = R * lanes) (nc' : ℕ) :
    SchedWF lanes kmax (isHorner preps)
        (fillRow lanes nonChain lanes { sched := s.sched ++ [e], nc := nc' }).sched ∧
      (fillRow lanes nonChain lanes { sched := s.sched ++ [e], nc := nc' }).sched.length =
        (R + 1) * lanes ∧
      entryAt (fillRow lanes nonChain lanes { sched := s.sched ++ [e], nc := nc' }).sched
        (R * lanes) = e := by
  obtain ⟨ext, hext, hb⟩ := fillRow_ext lanes (isHorner preps) nonChain hnc lanes
    { sched := s.sched ++ [e], nc := nc' }
  have hL := fillRow_len lanes hl nonChain lanes { sched := s.sched ++ [e], nc := nc' } R 1
    (by simp [hlen]) (Nat.le_refl _) hl (by omega)
  refine ⟨?_, hL, ?_⟩
  · rw [hext]; exact wf_append_benign lanes kmax _ _ _ hwf hb
  · rw [hext]
    simp only
    rw [List.append_assoc, entryAt_append_ge _ _ _ (by omega), hlen, Nat.sub_self]
    rfl

/-- **The `while i < chain.len()` loop keeps the discipline.** Positional invariant: rows complete,
`R ≥ 1` rows, and the lane-0 entry of the last row is what step `i` of the chain must find above it. -/
theorem placeChain_wf (preps : List (List K)) (lanes packK : ℕ) (hl : 0 < lanes) (nonChain : List ℕ)
    (hnc : ∀ i ∈ nonChain, isHorner preps i = false) (start len : ℕ)
    (hch : ∀ t, t < len → isHorner preps (start + t) = true) :
    ∀ fuel i (s : SchedState) (R : ℕ),
      SchedWF lanes packK (isHorner preps) s.sched → s.sched.length = R * lanes → 1 ≤ R →
      (i < len → predOK (isHorner preps) (start + i) (entryAt s.sched ((R - 1) * lanes))) →
      ∃ R', SchedWF lanes packK (isHorner preps)
          (placeChain preps lanes packK nonChain start len fuel i s).sched ∧
        (placeChain preps lanes packK nonChain start len fuel i s).sched.length = R' * lanes ∧
        1 ≤ R' := by
  intro fuel
  induction fuel with
  | zero => intro i s R hwf hlen hR _; exact ⟨R, by simpa [placeChain] using hwf, by simpa [placeChain] using hlen, hR⟩
  | succ fuel ih =>
    intro i s R hwf hlen hR hpred
    unfold placeChain
    split
    · rename_i hlt
      dsimp only
      obtain ⟨hb1, hb2⟩ := bestK_bounds preps (start + i) (min (len - i) packK)
      set k := bestK preps (start + i) (min (len - i) packK) with hk
      set e : SchedEntry := if k ≥ 2 then .packed (start + i) k else .op (start + i) with he
      have hs1 : (if k ≥ 2 then ({ s with sched := s.sched ++ [SchedEntry.packed (start + i) k] } : SchedState)
          else { s with sched := s.sched ++ [SchedEntry.op (start + i)] }) =
          { sched := s.sched ++ [e], nc := s.nc } := by
        rw [he]; split <;> rfl
      simp only [hs1]
      have hwf1 : SchedWF lanes packK (isHorner preps) (s.sched ++ [e]) := by
        apply wf_snoc lanes packK _ s.sched e R hwf hlen hR hl
        · intro j hj _
          rw [he] at hj
          split at hj
          · cases hj
          · cases hj; exact hpred hlt
        · intro f k' hfk
          rw [he] at hfk
          split at hfk
          · rename_i hk2
            cases hfk
            refine ⟨hk2, by omega, ?_, hpred hlt⟩
            intro t ht
            rw [Nat.add_assoc]
            exact hch (i + t) (by omega)
          · cases hfk
      obtain ⟨hwf2, hlen2, hat2⟩ := push_fill preps lanes packK hl nonChain hnc s R e hwf1 hlen s.nc
      apply ih (i + if k ≥ 2 then k else 1) _ (R + 1) hwf2 hlen2 (by omega)
      intro hnext
      rw [Nat.add_sub_cancel, hat2]
      unfold predOK
      by_cases hk2 : k ≥ 2
      · simp only [hk2, if_true] at hnext ⊢
        rw [if_pos ⟨by omega, by
          have : start + (i + k) - 1 = start + (i + k - 1) := by omega
          rw [this]; exact hch _ (by omega)⟩]
        rw [he, if_pos hk2]
        exact Or.inr ⟨start + i, k, rfl, by omega⟩
      · simp only [hk2, if_false] at hnext ⊢
        rw [if_pos ⟨by omega, by
          have : start + (i + 1) - 1 = start + i := by omega
          rw [this]; exact hch _ hlt⟩]
        rw [he, if_neg hk2]
        exact Or.inl (by congr 1)
    · exact ⟨R, hwf, hlen, hR⟩

/-- **The loop over the chains keeps the discipline** (`n` = index of the first chain of the list: the
chain of index 0 finds the leading separator, every later one gets its own separator row). -/
theorem chainsFold_wf (preps : List (List K)) (lanes packK : ℕ) (hl : 0 < lanes) (nonChain : List ℕ)
    (hnc : ∀ i ∈ nonChain, isHorner preps i = false) :
    ∀ (chains : List (ℕ × ℕ)) (n : ℕ) (s : SchedState) (R : ℕ),
      (∀ c ∈ chains, GoodChain (isHorner preps) c) →
      SchedWF lanes packK (isHorner preps) s.sched → s.sched.length = R * lanes → 1 ≤ R →
      (n = 0 → entryAt s.sched ((R - 1) * lanes) = .sep) →
      ∃ R', SchedWF lanes packK (isHorner preps)
          ((chains.zipIdx n).foldl (fun s (c : (Nat × Nat) × Nat) =>
            let s := if c.2 > 0 then
                let s := fillRow lanes nonChain lanes s
                fillRow lanes nonChain lanes { s with sched := s.sched ++ [.sep] }
              else s
            placeChain preps lanes packK nonChain c.1.1 c.1.2 c.1.2 0 s) s).sched ∧
        ((chains.zipIdx n).foldl (fun s (c : (Nat × Nat) × Nat) =>
            let s := if c.2 > 0 then
                let s := fillRow lanes nonChain lanes s
                fillRow lanes nonChain lanes { s with sched := s.sched ++ [.sep] }
              else s
            placeChain preps lanes packK nonChain c.1.1 c.1.2 c.1.2 0 s) s).sched.length = R' * lanes ∧
        1 ≤ R' := by
  intro chains
  induction chains with
  | nil => intro n s R _ hwf hlen hR _; exact ⟨R, by simpa using hwf, by simpa using hlen, hR⟩
  | cons c cs ih =>
    intro n s R hg hwf hlen hR hsep
    rw [List.zipIdx_cons, List.foldl_cons]
    obtain ⟨hc1, hc2⟩ := hg c (List.mem_cons_self)
    -- the state the chain is placed on
    have hpre : ∃ (s' : SchedState) (R' : ℕ),
        (if n > 0 then
          fillRow lanes nonChain lanes
            { sched := (fillRow lanes nonChain lanes s).sched ++ [.sep],
              nc := (fillRow lanes nonChain lanes s).nc }
         else s) = s' ∧ SchedWF lanes packK (isHorner preps) s'.sched ∧
          s'.sched.length = R' * lanes ∧ 1 ≤ R' ∧ entryAt s'.sched ((R' - 1) * lanes) = .sep := by
      by_cases hn : n > 0
      · rw [if_pos hn, fillRow_aligned lanes nonChain lanes s R hlen]
        have hwf1 : SchedWF lanes packK (isHorner preps) (s.sched ++ [.sep]) :=
          wf_append_benign lanes packK _ _ _ hwf (by
            intro e he; rw [List.mem_singleton] at he; exact Or.inl he)
        obtain ⟨h1, h2, h3⟩ := push_fill preps lanes packK hl nonChain hnc s R .sep hwf1 hlen s.nc
        exact ⟨_, R + 1, rfl, h1, h2, by omega, by rw [Nat.add_sub_cancel]; exact h3⟩
      · rw [if_neg hn]
        exact ⟨s, R, rfl, hwf, hlen, hR, hsep (by omega)⟩
    obtain ⟨s', R', hs', hwf', hlen', hR', hsep'⟩ := hpre
    have hplace := placeChain_wf preps lanes packK hl nonChain hnc c.1 c.2 hc1 c.2 0 s' R' hwf' hlen' hR'
      (by
        intro _
        unfold predOK
        rw [Nat.add_zero, if_neg hc2]
        exact hsep')
    obtain ⟨R'', hwf'', hlen'', hR''⟩ := hplace
    have := ih (n + 1) _ R'' (fun c' hc' => hg c' (List.mem_cons_of_mem _ hc')) hwf'' hlen'' hR''
      (by omega)
    simp only at this ⊢
    rw [hs']
    exact this

/-- **`compute_schedule` produces a schedule with the lane-0 discipline**, for every op list, every
lane count `≥ 1` and every packing arity. -/
theorem computeSchedule_wf (preps : List (List K)) (lanes packK : ℕ) (hl : 0 < lanes)
    (sched : List SchedEntry) (h : computeSchedule preps lanes packK = some sched) :
    SchedWF lanes packK (isHorner preps) sched := by
  unfold computeSchedule at h
  split at h
  · cases h
  · split at h
    · cases h
    · simp only [Option.some.injEq] at h
      subst h
      obtain ⟨hgood, hnc⟩ := splitChains_good preps
      set nonChain := (splitChains preps).2 with hncd
      set chains := (splitChains preps).1 with hch
      have hwf0 : SchedWF lanes packK (isHorner preps) ([] ++ [SchedEntry.sep]) :=
        wf_append_benign lanes packK _ _ _ (wf_nil lanes packK _) (by
          intro e he; rw [List.mem_singleton] at he; exact Or.inl he)
      obtain ⟨h01, h02, h03⟩ := push_fill preps lanes packK hl nonChain hnc
        { sched := [], nc := 0 } 0 .sep hwf0 (by simp) 0
      simp only [List.nil_append, Nat.zero_mul, Nat.zero_add] at h01 h02 h03
      obtain ⟨R1, h11, h12, h13⟩ := chainsFold_wf preps lanes packK hl nonChain hnc chains 0 _ 1
        hgood h01 h02 (Nat.le_refl _) (fun _ => by simpa using h03)
      obtain ⟨ext3, he3, hb3⟩ := fillRow_ext lanes (isHorner preps) nonChain hnc lanes
        { sched := (fillRow lanes nonChain lanes (chains.zipIdx.foldl (fun s (c : (Nat × Nat) × Nat) =>
            let s := if c.2 > 0 then
                let s := fillRow lanes nonChain lanes s
                fillRow lanes nonChain lanes { s with sched := s.sched ++ [.sep] }
              else s
            placeChain preps lanes packK nonChain c.1.1 c.1.2 c.1.2 0 s)
            (fillRow lanes nonChain lanes { sched := [SchedEntry.sep], nc := 0 }))).sched ++
            (nonChain.drop (fillRow lanes nonChain lanes (chains.zipIdx.foldl (fun s (c : (Nat × Nat) × Nat) =>
            let s := if c.2 > 0 then
                let s := fillRow lanes nonChain lanes s
                fillRow lanes nonChain lanes { s with sched := s.sched ++ [.sep] }
              else s
            placeChain preps lanes packK nonChain c.1.1 c.1.2 c.1.2 0 s)
            (fillRow lanes nonChain lanes { sched := [SchedEntry.sep], nc := 0 }))).nc).map SchedEntry.op,
          nc := nonChain.length }
      rw [he3]
      apply wf_append_benign lanes packK _ _ _ _ hb3
      simp only
      rw [fillRow_aligned lanes nonChain lanes _ R1 h12]
      apply wf_append_benign lanes packK _ _ _ h11
      intro e he
      obtain ⟨i, hi, rfl⟩ := List.mem_map.mp he
      exact Or.inr ⟨i, rfl, hnc i (List.mem_of_mem_drop hi)⟩

end Loops

/-! ## 5. The main theorems without the `SchedWF` hypothesis -/
section Final
variable {K L : Type} [Field K] [DecidableEq K] [CommRing L] [DecidableEq L]
  (φ : K →+* L) (α : L) (D lanes kmax : ℕ) (kind : ExtKind K) (Mr : ℕ → List K)
  (preps : List (List K)) (sched : List SchedEntry) (H : ℕ)

/-- **C04 — the scheduled ALU table, lane-0 discipline derived.** `scheduled_accepted_sat_bus` with the
hypothesis `SchedWF` discharged by `computeSchedule_wf`: for `sched = computeSchedule preps lanes kmax`,
(a) every constraint of `aluConstraints` vanishing on every window of (prover's main trace,
`scheduledPrepRows`) and (b) the packed bus `schedBus` balancing as a signed multiset of
`(slot, v_0 … v_{D−1})` tuples yield an assignment of extension-ring elements satisfying every op of the
circuit — every `D ≥ 1`, lane count `≥ 1`, `K_max`. -/
theorem scheduled_accepted_sat_bus' (hD : 0 < D) (hk : KindRoot φ D kind α) (hl : 0 < lanes)
    (pub : ℕ → L) (ops : List (Op L)) (rl : ℕ → Roles4) (reads : List (ℕ × ℕ))
    (hsched : computeSchedule preps lanes kmax = some sched)
    (hH : sched.length ≤ H * lanes)
    (hn : preps.length = (aluOps ops).length)
    (hsel : ∀ j k a b c out io, (aluOps ops)[j]? = some (.alu k a b c out io) → PrepSel preps j k)
    (hshape : ∀ k a b out io, Op.alu k a b none out io ∈ ops → k ≠ .mulAdd ∧ k ≠ .horner)
    (hw : WinOk D lanes kmax kind preps sched Mr H)
    (hchain : hornerChained ops = true)
    (hnoskip : ∀ j, (rl j).1 ≠ .skip ∧ (rl j).2.1 ≠ .skip ∧ (rl j).2.2.1 ≠ .skip ∧
      (rl j).2.2.2 ≠ .skip)
    (others : List (Cell (List K)))
    (hcre : ∀ s, nCreators ((others ++ schedCells D lanes kmax kind Mr sched ops rl).map evOf) s ≤ 1)
    (hpk : ∀ p f k, p < sched.length → entryAt sched p = .packed f k →
      1 ≤ k ∧
      (∀ t, t < k → opB ((aluOps ops).getD (f + t) dOp) = opB ((aluOps ops).getD f dOp)) ∧
      (∀ t, t + 1 < k →
        eventMult reads (opOut ((aluOps ops).getD (f + t) dOp), (rl (f + t)).1) = 0))
    (hbal : ∀ s v, tupleNet (schedBus D lanes kmax kind Mr sched reads others ops rl) s v = 0)
    (hconstC : ∀ out v, Op.const out v ∈ ops →
      ∃ c ∈ others, c.slot = out ∧ c.role ≠ .skip ∧ ev φ α D c.val = v)
    (hpubC : ∀ out pos, Op.pub out pos ∈ ops →
      ∃ c ∈ others, c.slot = out ∧ c.role ≠ .skip ∧ ev φ α D c.val = pub pos) :
    ∃ cv : ℕ → List K,
      (∀ c ∈ others ++ schedCells D lanes kmax kind Mr sched ops rl, c.role ≠ .skip →
        c.val = cv c.slot) ∧
      Sat (fun s => ev φ α D (cv s)) pub ops :=
  scheduled_accepted_sat_bus φ α D lanes kmax kind Mr preps sched H hD hk hl pub ops rl reads hsched hH
    hn hsel hshape (computeSchedule_wf preps lanes kmax hl sched hsched) hw hchain hnoskip others hcre
    hpk hbal hconstC hpubC

/-- **`D = 1` instance** without the `SchedWF` hypothesis. -/
theorem scheduled_accepted_sat_D1' {F : Type} [Field F] [DecidableEq F] (lanes kmax : ℕ)
    (Mr : ℕ → List F) (preps : List (List F)) (sched : List SchedEntry) (H : ℕ) (hl : 0 < lanes)
    (pub : ℕ → F) (ops : List (Op F)) (rl : ℕ → Roles4) (reads : List (ℕ × ℕ))
    (hsched : computeSchedule preps lanes kmax = some sched)
    (hH : sched.length ≤ H * lanes)
    (hn : preps.length = (aluOps ops).length)
    (hsel : ∀ j k a b c out io, (aluOps ops)[j]? = some (.alu k a b c out io) → PrepSel preps j k)
    (hshape : ∀ k a b out io, Op.alu k a b none out io ∈ ops → k ≠ .mulAdd ∧ k ≠ .horner)
    (hw : WinOk 1 lanes kmax ExtKind.base preps sched Mr H)
    (hchain : hornerChained ops = true)
    (hnoskip : ∀ j, (rl j).1 ≠ .skip ∧ (rl j).2.1 ≠ .skip ∧ (rl j).2.2.1 ≠ .skip ∧
      (rl j).2.2.2 ≠ .skip)
    (others : List (Cell (List F)))
    (hcre : ∀ s, nCreators ((others ++ schedCells 1 lanes kmax ExtKind.base Mr sched ops rl).map evOf) s ≤ 1)
    (hpk : ∀ p f k, p < sched.length → entryAt sched p = .packed f k →
      1 ≤ k ∧
      (∀ t, t < k → opB ((aluOps ops).getD (f + t) dOp) = opB ((aluOps ops).getD f dOp)) ∧
      (∀ t, t + 1 < k →
        eventMult reads (opOut ((aluOps ops).getD (f + t) dOp), (rl (f + t)).1) = 0))
    (hbal : ∀ s v, tupleNet (schedBus 1 lanes kmax ExtKind.base Mr sched reads others ops rl) s v = 0)
    (hconstC : ∀ out v, Op.const out v ∈ ops →
      ∃ c ∈ others, c.slot = out ∧ c.role ≠ .skip ∧ ev (RingHom.id F) 0 1 c.val = v)
    (hpubC : ∀ out pos, Op.pub out pos ∈ ops →
      ∃ c ∈ others, c.slot = out ∧ c.role ≠ .skip ∧ ev (RingHom.id F) 0 1 c.val = pub pos) :
    ∃ w : ℕ → F, Sat w pub ops :=
  scheduled_accepted_sat_D1 lanes kmax Mr preps sched H hl pub ops rl reads hsched hH hn hsel hshape
    (computeSchedule_wf preps lanes kmax hl sched hsched) hw hchain hnoskip others hcre hpk hbal
    hconstC hpubC

end Final

end P3R.C04
