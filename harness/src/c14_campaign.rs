// Included by the `bb_*` configuration modules of `c14.rs` after `c14_cfg.rs`: the perturbation
// campaign on real proofs. Additionally expects: make_config, enable_perm, perm_config,
// set_mmcs_private, and (bb_plain only) `tables`.

use p3_air::{Air, AirBuilder, BaseAir, WindowAccess};
use p3_matrix::dense::RowMajorMatrix;

/// Two small AIRs behind one type (`prove_batch` wants a single AIR type):
/// `Fib`: Fibonacci with 3 public values, reads the next row;
/// `Add(rows)`: `a + b = c` and `a = preprocessed index column`, reads no next row of the main
/// trace (so `trace_next` is absent from its openings). (The in-circuit batch verifier insists on
/// `preprocessed_next` of full width, so the preprocessed column keeps its default next-row opening.)
#[derive(Clone, Copy)]
pub enum CAir {
    Fib,
    Add(usize),
}

impl<V: Field> BaseAir<V> for CAir {
    fn width(&self) -> usize {
        match self {
            CAir::Fib => 2,
            CAir::Add(_) => 3,
        }
    }
    fn num_public_values(&self) -> usize {
        match self {
            CAir::Fib => 3,
            CAir::Add(_) => 0,
        }
    }
    fn main_next_row_columns(&self) -> Vec<usize> {
        match self {
            CAir::Fib => vec![0, 1],
            CAir::Add(_) => vec![],
        }
    }
    fn preprocessed_width(&self) -> usize {
        match self {
            CAir::Fib => 0,
            CAir::Add(_) => 1,
        }
    }
    fn preprocessed_trace(&self) -> Option<RowMajorMatrix<V>> {
        match self {
            CAir::Fib => None,
            CAir::Add(rows) => Some(RowMajorMatrix::new((0..*rows).map(V::from_usize).collect(), 1)),
        }
    }
}

impl<AB: AirBuilder> Air<AB> for CAir
where
    AB::F: Field,
{
    fn eval(&self, builder: &mut AB) {
        match self {
            CAir::Fib => {
                let main = builder.main();
                let pis = builder.public_values();
                let (a, b, x) = (pis[0], pis[1], pis[2]);
                let (local, next) = (main.current_slice(), main.next_slice());
                let (l0, l1, n0, n1) = (local[0], local[1], next[0], next[1]);
                builder.when_first_row().assert_eq(l0, a);
                builder.when_first_row().assert_eq(l1, b);
                builder.when_transition().assert_eq(l1, n0);
                builder.when_transition().assert_eq(l0 + l1, n1);
                builder.when_last_row().assert_eq(l1, x);
            }
            CAir::Add(_) => {
                let main = builder.main();
                let row = main.current_slice();
                let (a, b, c) = (row[0], row[1], row[2]);
                let prep = builder.preprocessed().clone();
                let p0 = prep.current_slice()[0];
                builder.assert_zero(a + b - c);
                builder.assert_zero(a - p0);
            }
        }
    }
}

fn fib_trace(n: usize) -> (RowMajorMatrix<F>, Vec<F>) {
    let mut v = Vec::with_capacity(2 * n);
    let (mut a, mut b) = (F::ZERO, F::ONE);
    for _ in 0..n {
        v.push(a);
        v.push(b);
        let c = a + b;
        a = b;
        b = c;
    }
    let last = v[2 * n - 1];
    (RowMajorMatrix::new(v, 2), vec![F::ZERO, F::ONE, last])
}

fn add_trace(n: usize) -> RowMajorMatrix<F> {
    let mut v = Vec::with_capacity(3 * n);
    for i in 0..n {
        let a = F::from_usize(i);
        let b = F::from_usize(3 * i + 1);
        v.extend([a, b, a + b]);
    }
    RowMajorMatrix::new(v, 3)
}

pub fn fri_verifier_params() -> p3_recursion::pcs::fri::FriVerifierParams {
    let s = p3_test_utils::test_fri_scalars();
    p3_recursion::pcs::fri::FriVerifierParams::with_mmcs(s.log_blowup, s.log_final_poly_len, s.commit_pow_bits, s.query_pow_bits, perm_config())
}

/// Correspondence with `P3R.Packing.hidMerge`: the real `RecursivePcs::verify_circuit` of this
/// configuration's PCS, called directly with a crafted opening structure (`open`: rounds →
/// matrices → number of opening points) and the targets of an opening proof whose hiding random
/// opened values have shape `hid` (rounds → matrices → points → length). The inner FRI proof has no
/// queries, so a merge that succeeds is followed by `verify_fri_circuit`'s "at least one query"
/// refusal: the answer is which shape check fired, in the driver's format.
pub fn hidmerge(open: &[Vec<usize>], hid: &[Vec<Vec<usize>>]) -> String {
    use p3_recursion::traits::{Recursive, RecursivePcs};
    use p3_uni_stark::StarkGenericConfig as _;
    type Dom = p3_field::coset::TwoAdicMultiplicativeCoset<F>;
    let r = std::panic::catch_unwind(std::panic::AssertUnwindSafe(|| {
        let config = make_config(1);
        let mut cb = p3_circuit::CircuitBuilder::<EF>::new();
        enable_perm(&mut cb);
        let shape = super::Pcs { hid: if HIDING { Some(hid.to_vec()) } else { None }, fri: super::Fri { commits: vec![], commit_pow: 0, queries: vec![], final_poly: 1 } };
        let opening = z_pcs(&shape);
        let opening_t = <OpeningT as Recursive<EF>>::new(&mut cb, &opening);
        let cap_t = <CapT as Recursive<EF>>::new(&mut cb, &p3_symmetric::MerkleCap::new(vec![[F::ZERO; DIGEST_ELEMS]]));
        let x = cb.alloc_const(EF::ONE, "x");
        let dom = Dom::new(F::ONE, 3).unwrap();
        let coms: Vec<(CapT, Vec<(Dom, Vec<(p3_recursion::Target, Vec<p3_recursion::Target>)>)>)> =
            open.iter().map(|mats| (cap_t.clone(), mats.iter().map(|&np| (dom, (0..np).map(|_| (x, vec![x])).collect())).collect())).collect();
        let mut ch = p3_recursion::CircuitChallenger::<WIDTH, RATE, _>::new(perm_config());
        let params = fri_verifier_params();
        <ThePcs as RecursivePcs<SC, InputT, OpeningT, CapT, Dom>>::verify_circuit::<WIDTH, RATE, _>(config.pcs(), &mut cb, &[x], &mut ch, &coms, &opening_t, &params)
            .map(|_| ())
            .map_err(|e| format!("{e:?}"))
    }));
    match r {
        Err(p) => format!("hidmerge panic:{}", super::panic_msg(p).chars().take(60).collect::<String>().replace(' ', "_")),
        Ok(Ok(())) => "hidmerge accepted".into(),
        Ok(Err(m)) => {
            if m.contains("random rounds count") {
                "hidmerge mismatch:rounds".into()
            } else if m.contains("random matrices count") {
                "hidmerge mismatch:matrices".into()
            } else if m.contains("random points count") {
                "hidmerge mismatch:points".into()
            } else if m.contains("at least one query") {
                "hidmerge ok".into()
            } else {
                format!("hidmerge other:{}", m.chars().filter(|c| c.is_alphanumeric() || *c == '_').take(60).collect::<String>())
            }
        }
    }
}


/// Correspondence with `P3R.Packing.friPhases`: the real `RecursivePcs::verify_circuit` of this
/// configuration's PCS on one FRI query over a single committed matrix (`width` columns) of maximal
/// height, with FRI parameters `lb` / `lf`, a cap of height `in_cap` on the input commitment and per
/// commit phase `(log_arity, cap height)`. The circuit is only built, never run: the answer is read
/// off its graph by `static_flags` — per opening, whether its values (and, for the salted MMCS, its
/// salt) have a dataflow path into a Poseidon permutation (`m`), or not (`f`: fold equation only,
/// salt an operand of nothing); anything else is `x`. A refusal names the opening that was refused.
pub fn friphase(lb: usize, lf: usize, in_cap: usize, phases: &[(usize, usize)], width: usize) -> String {
    use p3_recursion::traits::{Recursive, RecursivePcs};
    use p3_uni_stark::StarkGenericConfig as _;
    type Dom = p3_field::coset::TwoAdicMultiplicativeCoset<F>;
    let salted = salts_mut(&mut mk_mmcs(vec![])).is_some();
    let r = std::panic::catch_unwind(std::panic::AssertUnwindSafe(|| -> Result<String, String> {
        let config = make_config(1);
        let mut cb = p3_circuit::CircuitBuilder::<EF>::new();
        enable_perm(&mut cb);
        let salts = |n: usize| if salted { vec![4usize; n] } else { vec![] };
        let log_max: usize = phases.iter().map(|p| p.0).sum::<usize>() + lf + lb;
        let shape = super::Pcs {
            hid: if HIDING { Some(vec![vec![vec![0]]]) } else { None },
            fri: super::Fri {
                commits: phases.iter().map(|p| 1usize << p.1).collect(),
                commit_pow: phases.len(),
                queries: vec![super::Query {
                    input: vec![super::BO { opened: vec![width], salts: salts(1) }],
                    steps: phases.iter().map(|&(a, _)| super::Step { log_arity: a, siblings: (1usize << a) - 1, salts: salts(1) }).collect(),
                }],
                final_poly: 1usize << lf,
            },
        };
        let opening = z_pcs(&shape);
        let opening_t = <OpeningT as Recursive<EF>>::new(&mut cb, &opening);
        let cap_t = <CapT as Recursive<EF>>::new(&mut cb, &p3_symmetric::MerkleCap::new(vec![[F::ZERO; DIGEST_ELEMS]; 1usize << in_cap]));
        let z = cb.alloc_public_input("z");
        let vals: Vec<p3_recursion::Target> = (0..width).map(|_| cb.alloc_public_input("v")).collect();
        let challenges: Vec<p3_recursion::Target> = (0..1 + phases.len()).map(|_| cb.alloc_public_input("ch")).collect();
        let dom = Dom::new(F::ONE, log_max - lb).ok_or("domain")?;
        let coms: Vec<(CapT, Vec<(Dom, Vec<(p3_recursion::Target, Vec<p3_recursion::Target>)>)>)> = vec![(cap_t, vec![(dom, vec![(z, vals)])])];
        let mut ch = p3_recursion::CircuitChallenger::<WIDTH, RATE, _>::new(perm_config());
        let params = p3_recursion::pcs::fri::FriVerifierParams::with_mmcs(lb, lf, 1, 1, perm_config());
        if let Err(e) = <ThePcs as RecursivePcs<SC, InputT, OpeningT, CapT, Dom>>::verify_circuit::<WIDTH, RATE, _>(config.pcs(), &mut cb, &challenges, &mut ch, &coms, &opening_t, &params) {
            let m = format!("{e:?}");
            if m.contains("MMCS verification failed for batch") {
                return Ok("friphase error:in".into());
            }
            if let Some(i) = m.find("Commit-phase MMCS verification failed for query 0, phase ") {
                let k: String = m[i + "Commit-phase MMCS verification failed for query 0, phase ".len()..].chars().take_while(|c| c.is_ascii_digit()).collect();
                return Ok(format!("friphase error:ph{k}"));
            }
            return Err(m);
        }
        let circuit = cb.build().map_err(|e| format!("build:{e:?}"))?;
        let mut labelled: Labelled = vec![];
        tw_opening(&opening_t, &mut labelled);
        let (referenced, bound) = static_flags(&circuit);
        let flag = |l: &str| -> Option<(bool, bool)> {
            let t = labelled.iter().find(|x| x.0 == l)?.1;
            let w = circuit.expr_to_widx.get(&t)?.0 as usize;
            Some((referenced[w], bound[w]))
        };
        let verdict = |value: &str, salt: &str| -> char {
            let v = flag(value);
            let s = if salted { flag(salt) } else { None };
            match (v, salted, s) {
                (Some((_, true)), false, _) => 'm',
                (Some((_, false)), false, _) => 'f',
                (Some((_, true)), true, Some((true, true))) => 'm',
                (Some((_, false)), true, Some((false, _))) => 'f',
                _ => 'x',
            }
        };
        let vin = if width == 0 { 'm' } else { verdict("fri.q0.in0.m0.0", "fri.q0.in0.salt0.0") };
        let vph: Vec<String> = (0..phases.len()).map(|k| verdict(&format!("fri.q0.ph{k}.sib.0"), &format!("fri.q0.ph{k}.salt0.0")).to_string()).collect();
        Ok(format!("friphase in={vin} ph={}", vph.join(",")))
    }));
    let clean = |m: String| m.chars().filter(|c| c.is_alphanumeric() || *c == '_').take(60).collect::<String>();
    match r {
        Err(p) => format!("friphase panic:{}", clean(super::panic_msg(p))),
        Ok(Ok(a)) => a,
        Ok(Err(m)) => format!("friphase other:{}", clean(m)),
    }
}

/// Correspondence with `P3R.Packing.friSibCheck`: the shape loop at the head of the real
/// `verify_fri_circuit` on a FRI proof whose query proofs carry the given commit-phase steps
/// `(log_arity, sibling_values.len())`. Everything else about the proof is consistent with the
/// schedule of the first query (one committed matrix of width 1 and maximal height, `log_blowup = 1`,
/// constant final polynomial, single-root caps), so the answer is which check of that loop fired.
/// Route: the PCS's own `RecursivePcs::verify_circuit` (what `verify_p3_uni_proof_circuit` /
/// `verify_batch_circuit` call) whenever the schedule fits the field (`Σ log_arity + 1 <= 27`);
/// `sibcheck ok` then means the whole PCS verifier circuit was emitted. A schedule beyond that is
/// stopped by `verify_circuit`'s `log_max_height` bound before `verify_fri_circuit` runs, so for those
/// (log-arities up to 255: the region where the old code overflowed `1usize << log_arity`) the public
/// `verify_fri_circuit` is called directly with one index bit per query; getting past the loop then
/// shows as its next refusal ("log_max_height too small").
pub fn sibcheck(queries: &[Vec<(usize, usize)>]) -> String {
    use p3_recursion::traits::{Recursive, RecursivePcs};
    use p3_uni_stark::StarkGenericConfig as _;
    type Dom = p3_field::coset::TwoAdicMultiplicativeCoset<F>;
    let salted = salts_mut(&mut mk_mmcs(vec![])).is_some();
    let (lb, lf) = (1usize, 0usize);
    let sched: Vec<usize> = queries.first().map(|q| q.iter().map(|p| p.0).collect()).unwrap_or_default();
    let total: usize = sched.iter().sum();
    let direct = total + lf + lb > 27;
    let r = std::panic::catch_unwind(std::panic::AssertUnwindSafe(|| -> Result<(), String> {
        let config = make_config(1);
        let mut cb = p3_circuit::CircuitBuilder::<EF>::new();
        enable_perm(&mut cb);
        let salts = |n: usize| if salted { vec![4usize; n] } else { vec![] };
        let shape = super::Pcs {
            hid: if HIDING { Some(vec![vec![vec![0]]]) } else { None },
            fri: super::Fri {
                commits: vec![1; sched.len()],
                commit_pow: sched.len(),
                queries: queries
                    .iter()
                    .map(|q| super::Query {
                        input: vec![super::BO { opened: vec![1], salts: salts(1) }],
                        steps: q.iter().map(|&(a, s)| super::Step { log_arity: a, siblings: s, salts: salts(1) }).collect(),
                    })
                    .collect(),
                final_poly: 1usize << lf,
            },
        };
        let opening = z_pcs(&shape);
        let opening_t = <OpeningT as Recursive<EF>>::new(&mut cb, &opening);
        let cap_t = <CapT as Recursive<EF>>::new(&mut cb, &p3_symmetric::MerkleCap::new(vec![[F::ZERO; DIGEST_ELEMS]; 1]));
        let challenges: Vec<p3_recursion::Target> = (0..1 + sched.len()).map(|_| cb.alloc_public_input("ch")).collect();
        if direct {
            let (_, inner) = split_t(&opening_t);
            let bits: Vec<Vec<p3_recursion::Target>> = queries.iter().map(|_| vec![cb.alloc_public_input("bit")]).collect();
            let coms: Vec<(CapT, Vec<(Dom, Vec<(p3_recursion::Target, Vec<p3_recursion::Target>)>)>)> = vec![];
            return p3_recursion::pcs::fri::verify_fri_circuit::<F, EF, RecExt, RecVal, p3_recursion::pcs::fri::Witness<F>, CapT>(
                &mut cb,
                inner,
                challenges[0],
                &challenges[1..],
                &bits,
                &coms,
                lb,
                None,
            )
            .map(|_| ())
            .map_err(|e| format!("{e:?}"));
        }
        let z = cb.alloc_public_input("z");
        let vals = vec![cb.alloc_public_input("v")];
        let dom = Dom::new(F::ONE, total + lf).ok_or("domain")?;
        let coms: Vec<(CapT, Vec<(Dom, Vec<(p3_recursion::Target, Vec<p3_recursion::Target>)>)>)> = vec![(cap_t, vec![(dom, vec![(z, vals)])])];
        let mut ch = p3_recursion::CircuitChallenger::<WIDTH, RATE, _>::new(perm_config());
        let params = p3_recursion::pcs::fri::FriVerifierParams::with_mmcs(lb, lf, 1, 1, perm_config());
        <ThePcs as RecursivePcs<SC, InputT, OpeningT, CapT, Dom>>::verify_circuit::<WIDTH, RATE, _>(config.pcs(), &mut cb, &challenges, &mut ch, &coms, &opening_t, &params)
            .map_err(|e| format!("{e:?}"))?;
        cb.build().map(|_| ()).map_err(|e| format!("build:{e:?}"))
    }));
    let clean = |m: String| m.chars().filter(|c| c.is_alphanumeric() || *c == '_').take(60).collect::<String>();
    // `… query {q} phase {k}: …` / `… query {q}: …` / `phase {k}: …`
    let num_after = |m: &str, key: &str| -> String {
        m.find(key).map(|i| m[i + key.len()..].chars().take_while(|c| c.is_ascii_digit()).collect()).unwrap_or_default()
    };
    match r {
        Err(p) => format!("sibcheck panic:{}", clean(super::panic_msg(p))),
        Ok(Ok(())) => "sibcheck ok".into(),
        Ok(Err(m)) => {
            if m.contains("sibling coefficient count") {
                format!("sibcheck error:sib:{}:{}", num_after(&m, "query "), num_after(&m, " phase "))
            } else if m.contains("log_arity disagrees with global FRI schedule") {
                format!("sibcheck error:arity:{}:{}", num_after(&m, "query "), num_after(&m, " phase "))
            } else if m.contains("commit-phase opening count must equal") {
                format!("sibcheck error:count:{}", num_after(&m, "query "))
            } else if m.contains("log_arity must be at least 1") {
                format!("sibcheck error:zero:{}", num_after(&m, "phase "))
            } else if direct && m.contains("log_max_height too small") {
                "sibcheck ok".into()
            } else {
                format!("sibcheck other:{}", clean(m))
            }
        }
    }
}

pub enum Op<'a> {
    Walk(&'a mut dyn Vis),
    /// structural walk: enumerate / apply / undo one shape mutation (see `ShapeVis`)
    Shape(&'a mut ShapeVis),
    Native,
    /// run the circuit that was built for the honest proof on the packed (value-perturbed) proof
    Run,
    /// allocate + build the verifier circuit **for the current (shape-mutated) proof**, pack, run
    Rebuild,
}
pub enum Resp {
    Unit,
    Bool(bool),
    Res(Result<(), String>),
}

fn short<E: core::fmt::Debug>(e: E) -> String {
    let s = format!("{e:?}");
    s.chars().take_while(|c| c.is_alphanumeric() || *c == '_').take(40).collect()
}


// ------------------------------------------------------------------------ structural perturbation
//
// "Every input matters" also quantifies over proofs whose *shape* differs from the honest one: the
// verifier circuit is built from the proof at hand (`allocate(proof)`), so a container carrying a
// surplus element becomes surplus circuit inputs. Either the circuit construction refuses the
// shape, or the surplus inputs are wired to a check that fails — otherwise the packed vector
// contains positions nothing reads although the native verdict depends on them.
//
// `ShapeVis` visits every variable-length container / option / cap / arity field of the proof
// object (independently of `Recursive::new`) and can enumerate the applicable mutations, apply
// one, and undo it.

pub enum SMode {
    Enumerate,
    Apply(String, String),
    Undo(String, String),
}

pub struct ShapeVis {
    pub mode: SMode,
    pub sites: Vec<(String, &'static str)>,
    pub stash: Option<Box<dyn std::any::Any>>,
    pub hit: bool,
}

impl ShapeVis {
    pub fn new(mode: SMode) -> Self {
        ShapeVis { mode, sites: vec![], stash: None, hit: false }
    }
    /// a `Vec`: `push` (a copy of the last element, or `fill` when empty), `pop`, and — the same at
    /// the front, which shifts every later element — `ins0` (a copy of the first element inserted at
    /// index 0) and `rem0` (first element removed; only when there are at least two)
    pub fn seq_by<T: 'static>(&mut self, label: &str, v: &mut Vec<T>, dup: &dyn Fn(&T) -> T, fill: Option<T>) {
        match &self.mode {
            SMode::Enumerate => {
                if !v.is_empty() || fill.is_some() {
                    self.sites.push((label.to_string(), "push"));
                }
                if !v.is_empty() {
                    self.sites.push((label.to_string(), "pop"));
                    self.sites.push((label.to_string(), "ins0"));
                }
                if v.len() >= 2 {
                    self.sites.push((label.to_string(), "rem0"));
                }
            }
            SMode::Apply(l, op) if l == label => match op.as_str() {
                "ins0" => {
                    if let Some(e) = v.first().map(dup) {
                        v.insert(0, e);
                        self.hit = true;
                    }
                }
                "rem0" => {
                    if v.len() >= 2 {
                        self.stash = Some(Box::new(v.remove(0)));
                        self.hit = true;
                    }
                }
                "push" => {
                    if let Some(e) = v.last().map(dup).or(fill) {
                        v.push(e);
                        self.hit = true;
                    }
                }
                "pop" => {
                    if let Some(e) = v.pop() {
                        self.stash = Some(Box::new(e));
                        self.hit = true;
                    }
                }
                _ => {}
            },
            SMode::Undo(l, op) if l == label => match op.as_str() {
                "ins0" => {
                    v.remove(0);
                    self.hit = true;
                }
                "rem0" => {
                    if let Some(e) = self.stash.take().and_then(|b| b.downcast::<T>().ok()) {
                        v.insert(0, *e);
                        self.hit = true;
                    }
                }
                "push" => {
                    v.pop();
                    self.hit = true;
                }
                "pop" => {
                    if let Some(e) = self.stash.take().and_then(|b| b.downcast::<T>().ok()) {
                        v.push(*e);
                        self.hit = true;
                    }
                }
                _ => {}
            },
            _ => {}
        }
    }
    pub fn seq<T: Clone + 'static>(&mut self, label: &str, v: &mut Vec<T>, fill: Option<T>) {
        self.seq_by(label, v, &|x: &T| x.clone(), fill)
    }
    /// an `Option`: `none` (drop it) / `some` (supply `fill`)
    pub fn opt<T: 'static>(&mut self, label: &str, o: &mut Option<T>, fill: Option<T>) {
        match &self.mode {
            SMode::Enumerate => {
                if o.is_some() {
                    self.sites.push((label.to_string(), "none"));
                } else if fill.is_some() {
                    self.sites.push((label.to_string(), "some"));
                }
            }
            SMode::Apply(l, op) if l == label => match op.as_str() {
                "none" => {
                    if let Some(e) = o.take() {
                        self.stash = Some(Box::new(e));
                        self.hit = true;
                    }
                }
                "some" => {
                    if o.is_none() && fill.is_some() {
                        *o = fill;
                        self.hit = true;
                    }
                }
                _ => {}
            },
            SMode::Undo(l, op) if l == label => match op.as_str() {
                "none" => {
                    if let Some(e) = self.stash.take().and_then(|b| b.downcast::<T>().ok()) {
                        *o = Some(*e);
                        self.hit = true;
                    }
                }
                "some" => {
                    *o = None;
                    self.hit = true;
                }
                _ => {}
            },
            _ => {}
        }
    }
    /// a Merkle cap (power-of-two many roots): `double` / `halve`
    pub fn cap(&mut self, label: &str, c: &mut Com) {
        let roots: Vec<[F; DIGEST_ELEMS]> = c.roots().to_vec();
        match &self.mode {
            SMode::Enumerate => {
                self.sites.push((label.to_string(), "double"));
                if roots.len() >= 2 {
                    self.sites.push((label.to_string(), "halve"));
                }
            }
            SMode::Apply(l, op) if l == label => match op.as_str() {
                "double" => {
                    let mut r2 = roots.clone();
                    r2.extend(roots.iter().cloned());
                    *c = p3_symmetric::MerkleCap::new(r2);
                    self.hit = true;
                }
                "halve" if roots.len() >= 2 => {
                    self.stash = Some(Box::new(roots.clone()));
                    *c = p3_symmetric::MerkleCap::new(roots[..roots.len() / 2].to_vec());
                    self.hit = true;
                }
                _ => {}
            },
            SMode::Undo(l, op) if l == label => match op.as_str() {
                "double" => {
                    *c = p3_symmetric::MerkleCap::new(roots[..roots.len() / 2].to_vec());
                    self.hit = true;
                }
                "halve" => {
                    if let Some(r) = self.stash.take().and_then(|b| b.downcast::<Vec<[F; DIGEST_ELEMS]>>().ok()) {
                        *c = p3_symmetric::MerkleCap::new(*r);
                        self.hit = true;
                    }
                }
                _ => {}
            },
            _ => {}
        }
    }
    /// a small counter field (`log_arity`): `inc` / `dec`
    pub fn num(&mut self, label: &str, x: &mut u8) {
        match &self.mode {
            SMode::Enumerate => {
                self.sites.push((label.to_string(), "inc"));
                if *x > 0 {
                    self.sites.push((label.to_string(), "dec"));
                }
            }
            SMode::Apply(l, op) | SMode::Undo(l, op) if l == label => {
                let undo = matches!(self.mode, SMode::Undo(..));
                match (op.as_str(), undo) {
                    ("inc", false) | ("dec", true) => {
                        *x += 1;
                        self.hit = true;
                    }
                    ("dec", false) | ("inc", true) if *x > 0 => {
                        *x -= 1;
                        self.hit = true;
                    }
                    _ => {}
                }
            }
            _ => {}
        }
    }
}

fn s_opt_cap(label: &str, c: &mut Option<Com>, sv: &mut ShapeVis) {
    sv.opt(&format!("{label}?"), c, Some(p3_symmetric::MerkleCap::new(vec![[F::ZERO; DIGEST_ELEMS]])));
    if let Some(c) = c {
        sv.cap(label, c);
    }
}

fn s_opt_vec(label: &str, o: &mut Option<Vec<EF>>, width: usize, sv: &mut ShapeVis) {
    sv.opt(&format!("{label}?"), o, Some(vec![EF::ZERO; width]));
    if let Some(t) = o {
        sv.seq(label, t, Some(EF::ZERO));
    }
}

fn s_ov(pre: &str, o: &mut p3_uni_stark::OpenedValues<EF>, sv: &mut ShapeVis) {
    sv.seq(&format!("{pre}.tl"), &mut o.trace_local, Some(EF::ZERO));
    let w = o.trace_local.len();
    s_opt_vec(&format!("{pre}.tn"), &mut o.trace_next, w, sv);
    s_opt_vec(&format!("{pre}.pl"), &mut o.preprocessed_local, 1, sv);
    s_opt_vec(&format!("{pre}.pn"), &mut o.preprocessed_next, 1, sv);
    sv.seq(&format!("{pre}.q"), &mut o.quotient_chunks, Some(vec![]));
    for (j, c) in o.quotient_chunks.iter_mut().enumerate() {
        sv.seq(&format!("{pre}.q{j}"), c, Some(EF::ZERO));
    }
    s_opt_vec(&format!("{pre}.rnd"), &mut o.random, 1, sv);
}

fn s_mmcs(pre: &str, p: &mut MmcsProof, sv: &mut ShapeVis) {
    if let Some(s) = salts_mut(p) {
        sv.seq(&format!("{pre}.salt"), s, Some(vec![]));
        for (m, x) in s.iter_mut().enumerate() {
            sv.seq(&format!("{pre}.salt{m}"), x, Some(F::ZERO));
        }
    }
}

fn s_fri(f: &mut Fri, sv: &mut ShapeVis) {
    sv.seq("fri.cpc", &mut f.commit_phase_commits, None);
    for (k, c) in f.commit_phase_commits.iter_mut().enumerate() {
        sv.cap(&format!("fri.cpc{k}"), c);
    }
    sv.seq("fri.cpow", &mut f.commit_pow_witnesses, Some(F::ZERO));
    sv.seq("fri.q", &mut f.query_proofs, None);
    for (q, qp) in f.query_proofs.iter_mut().enumerate() {
        sv.seq(&format!("fri.q{q}.in"), &mut qp.input_proof, None);
        for (b, bo) in qp.input_proof.iter_mut().enumerate() {
            let pre = format!("fri.q{q}.in{b}");
            sv.seq(&format!("{pre}.m"), &mut bo.opened_values, Some(vec![]));
            for (m, row) in bo.opened_values.iter_mut().enumerate() {
                sv.seq(&format!("{pre}.m{m}"), row, Some(F::ZERO));
            }
            s_mmcs(&pre, &mut bo.opening_proof, sv);
        }
        sv.seq(&format!("fri.q{q}.ph"), &mut qp.commit_phase_openings, None);
        for (k, st) in qp.commit_phase_openings.iter_mut().enumerate() {
            let pre = format!("fri.q{q}.ph{k}");
            sv.num(&format!("{pre}.log_arity"), &mut st.log_arity);
            sv.seq(&format!("{pre}.sib"), &mut st.sibling_values, Some(EF::ZERO));
            s_mmcs(&pre, &mut st.opening_proof, sv);
        }
    }
    sv.seq("fri.final", &mut f.final_poly, Some(EF::ZERO));
}

fn s_opening(o: &mut Opening, sv: &mut ShapeVis) {
    let (hid, fri) = split_mut(o);
    if let Some(h) = hid {
        sv.seq("hid", h, Some(vec![]));
        for (r, round) in h.iter_mut().enumerate() {
            sv.seq(&format!("hid.r{r}"), round, Some(vec![]));
            for (m, mat) in round.iter_mut().enumerate() {
                sv.seq(&format!("hid.r{r}.m{m}"), mat, Some(vec![EF::ZERO]));
                for (p, pt) in mat.iter_mut().enumerate() {
                    sv.seq(&format!("hid.r{r}.m{m}.p{p}"), pt, Some(EF::ZERO));
                }
            }
        }
    }
    s_fri(fri, sv);
}

pub fn swalk_uni(pis: &mut Vec<F>, proof: &mut p3_uni_stark::Proof<SC>, sv: &mut ShapeVis) {
    sv.seq("air0", pis, Some(F::ZERO));
    sv.cap("com.main", &mut proof.commitments.trace);
    sv.cap("com.quot", &mut proof.commitments.quotient_chunks);
    s_opt_cap("com.rand", &mut proof.commitments.random, sv);
    s_ov("ov0", &mut proof.opened_values, sv);
    s_opening(&mut proof.opening_proof, sv);
}

fn dup_ovl(o: &p3_batch_stark::proof::OpenedValuesWithLookups<EF>) -> p3_batch_stark::proof::OpenedValuesWithLookups<EF> {
    let b = &o.base_opened_values;
    p3_batch_stark::proof::OpenedValuesWithLookups {
        base_opened_values: p3_uni_stark::OpenedValues {
            trace_local: b.trace_local.clone(),
            trace_next: b.trace_next.clone(),
            preprocessed_local: b.preprocessed_local.clone(),
            preprocessed_next: b.preprocessed_next.clone(),
            quotient_chunks: b.quotient_chunks.clone(),
            random: b.random.clone(),
        },
        permutation_local: o.permutation_local.clone(),
        permutation_next: o.permutation_next.clone(),
    }
}

/// `with_pis = false`: the air public values are not an input of the native verifier of this
/// setup (circuit tables: they are derived from the proof), so they are no mutation sites.
pub fn swalk_batch(pis: &mut Vec<Vec<F>>, with_pis: bool, proof: &mut p3_batch_stark::BatchProof<SC>, prep: &mut Option<Com>, sv: &mut ShapeVis) {
    if with_pis {
        sv.seq("air", pis, Some(vec![]));
        for (i, p) in pis.iter_mut().enumerate() {
            sv.seq(&format!("air{i}"), p, Some(F::ZERO));
        }
    }
    sv.cap("com.main", &mut proof.commitments.main);
    s_opt_cap("com.perm", &mut proof.commitments.permutation, sv);
    sv.cap("com.quot", &mut proof.commitments.quotient_chunks);
    s_opt_cap("com.rand", &mut proof.commitments.random, sv);
    sv.seq_by("ov", &mut proof.opened_values.instances, &dup_ovl, None);
    for (i, inst) in proof.opened_values.instances.iter_mut().enumerate() {
        let pre = format!("ov{i}");
        s_ov(&pre, &mut inst.base_opened_values, sv);
        sv.seq(&format!("{pre}.prl"), &mut inst.permutation_local, Some(EF::ZERO));
        sv.seq(&format!("{pre}.prn"), &mut inst.permutation_next, Some(EF::ZERO));
    }
    s_opening(&mut proof.opening_proof, sv);
    sv.seq_by(
        "term",
        &mut proof.lookup_terminals,
        &|t: &Option<p3_lookup::LookupTerminal<EF>>| t.as_ref().map(|t| p3_lookup::LookupTerminal(t.0)),
        Some(None),
    );
    for (i, t) in proof.lookup_terminals.iter_mut().enumerate() {
        sv.opt(&format!("term.{i}?"), t, Some(p3_lookup::LookupTerminal(EF::ZERO)));
    }
    if let Some(c) = prep {
        sv.cap("prep", c);
    }
}

/// Alter one element per chosen label; judge natively; pack and run.
pub fn drive(name: &str, seed: u64, per_kind: usize, positions: usize, statics: Vec<(String, String)>, f: &mut dyn FnMut(Op) -> Resp) -> super::CampaignRes {
    use std::panic::{AssertUnwindSafe, catch_unwind};
    let t0 = std::time::Instant::now();
    let mut col = Collect { items: vec![] };
    f(Op::Walk(&mut col));
    let labels: Vec<String> = col.items.iter().map(|x| x.0.clone()).collect();
    let mut native = |f: &mut dyn FnMut(Op) -> Resp| -> bool { matches!(catch_unwind(AssertUnwindSafe(|| f(Op::Native))), Ok(Resp::Bool(true))) };
    let mut run = |f: &mut dyn FnMut(Op) -> Resp| -> Result<(), String> {
        match catch_unwind(AssertUnwindSafe(|| f(Op::Run))) {
            Ok(Resp::Res(r)) => r,
            Ok(_) => Err("bad-op".into()),
            Err(p) => Err(format!("panic:{}", super::panic_msg(p).chars().take(60).collect::<String>())),
        }
    };
    let n0 = native(f);
    let c0 = run(f);
    let baseline_ok = n0 && c0.is_ok();
    let baseline_note = format!("native={} circuit={:?} elements={} packed_positions={}", n0, c0, labels.len(), positions);
    let mut perts = vec![];
    if baseline_ok {
        // per kind: the first element, the last, and (per_kind - 2) seeded picks; per_kind = 0 means every element
        let mut by_kind: std::collections::BTreeMap<String, Vec<String>> = Default::default();
        for l in &labels {
            by_kind.entry(super::kind_of(l)).or_default().push(l.clone());
        }
        let mut rng = crate::rng::Rng::new(seed ^ 0xC14);
        let mut chosen: Vec<String> = vec![];
        if let Some(l) = super::ONLY_LABEL.get() {
            chosen.push(l.clone());
            by_kind.clear();
        }
        for (_k, ls) in by_kind {
            if per_kind == 0 || ls.len() <= per_kind {
                chosen.extend(ls);
                continue;
            }
            let mut pick = std::collections::BTreeSet::new();
            pick.insert(0usize);
            if per_kind >= 2 {
                pick.insert(ls.len() - 1);
            }
            while pick.len() < per_kind {
                pick.insert(rng.usize(ls.len()));
            }
            chosen.extend(pick.into_iter().map(|i| ls[i].clone()));
        }
        for label in chosen {
            let mut m = Mutate { label: label.clone(), delta: F::ONE, hit: false };
            f(Op::Walk(&mut m));
            if !m.hit {
                continue;
            }
            let native_ok = native(f);
            let c = run(f);
            let mut back = Mutate { label: label.clone(), delta: -F::ONE, hit: false };
            f(Op::Walk(&mut back));
            perts.push(super::Pert { setup: name.to_string(), label, op: String::new(), elem: String::new(), native_ok, circuit_ok: c.is_ok(), circuit_err: c.err().unwrap_or_default() });
        }
        // the proof must be back to the honest one
        if !(native(f) && run(f).is_ok()) {
            perts.push(super::Pert { setup: name.to_string(), label: "restore".into(), op: String::new(), elem: String::new(), native_ok: true, circuit_ok: false, circuit_err: "proof not restored after perturbation".into() });
        }
    }
    // ---- structural perturbation: one container / option / cap / arity changed at a time; the
    // verifier circuit is rebuilt for the mutated proof (allocate → verify → build → pack → run)
    let mut shape_sites = 0usize;
    if baseline_ok {
        let mut rebuild = |f: &mut dyn FnMut(Op) -> Resp| -> Result<(), String> {
            match catch_unwind(AssertUnwindSafe(|| f(Op::Rebuild))) {
                Ok(Resp::Res(r)) => r,
                Ok(_) => Err("bad-op".into()),
                Err(p) => Err(format!("panic:{}", super::panic_msg(p).chars().take(60).collect::<String>())),
            }
        };
        let mut en = ShapeVis::new(SMode::Enumerate);
        f(Op::Shape(&mut en));
        let mut sites: Vec<(String, String)> = en.sites.iter().map(|(l, o)| (l.clone(), o.to_string())).collect();
        shape_sites = sites.len();
        match (super::ONLY_LABEL.get(), super::ONLY_OP.get()) {
            (Some(l), Some(o)) => sites.retain(|s| &s.0 == l && &s.1 == o),
            (Some(_), None) => sites.clear(), // replay of a value perturbation
            _ => {}
        }
        // the rebuilt circuit must accept the honest proof (otherwise `Rebuild` says nothing)
        let r0 = rebuild(f);
        if let Err(e) = &r0 {
            perts.push(super::Pert { setup: name.to_string(), label: "rebuild-baseline".into(), op: "none".into(), elem: String::new(), native_ok: true, circuit_ok: false, circuit_err: e.clone() });
            sites.clear();
        }
        for (label, op) in sites {
            let mut ap = ShapeVis::new(SMode::Apply(label.clone(), op.clone()));
            f(Op::Shape(&mut ap));
            if !ap.hit {
                continue;
            }
            let native_ok = native(f);
            let c = rebuild(f);
            if c.is_ok() {
                // The circuit built for the mutated proof accepts it. Every input of *that* circuit
                // must matter too: alter every surplus element (names the honest proof does not
                // have) and the first / last element of every other kind; the native verifier
                // rejects (it rejected the shape already, or the altered value), so a circuit that
                // still accepts has an input no check reads.
                let mut col2 = Collect { items: vec![] };
                f(Op::Walk(&mut col2));
                let honest: std::collections::HashSet<&String> = labels.iter().collect();
                let mut surplus: Vec<String> = vec![];
                let mut rest: std::collections::BTreeMap<String, Vec<String>> = Default::default();
                for (l, _) in &col2.items {
                    if honest.contains(l) {
                        rest.entry(super::kind_of(l)).or_default().push(l.clone());
                    } else {
                        surplus.push(l.clone());
                    }
                }
                let ns = surplus.len();
                let mut chosen: Vec<(String, bool)> = if ns <= 24 {
                    surplus.into_iter().map(|l| (l, true)).collect()
                } else {
                    (0..24).map(|i| (surplus[i * (ns - 1) / 23].clone(), true)).collect()
                };
                for (_k, ls) in rest {
                    chosen.push((ls[0].clone(), false));
                    if ls.len() > 1 {
                        chosen.push((ls[ls.len() - 1].clone(), false));
                    }
                }
                for (elem, is_surplus) in chosen {
                    let mut m = Mutate { label: elem.clone(), delta: F::ONE, hit: false };
                    f(Op::Walk(&mut m));
                    if !m.hit {
                        continue;
                    }
                    let n2 = native(f);
                    let c2 = rebuild(f);
                    let mut back = Mutate { label: elem.clone(), delta: -F::ONE, hit: false };
                    f(Op::Walk(&mut back));
                    perts.push(super::Pert {
                        setup: name.to_string(),
                        label: label.clone(),
                        op: op.clone(),
                        elem: format!("{}{elem}", if is_surplus { "+" } else { "" }),
                        native_ok: n2,
                        circuit_ok: c2.is_ok(),
                        circuit_err: c2.err().unwrap_or_default(),
                    });
                }
            }
            let mut un = ShapeVis::new(SMode::Undo(label.clone(), op.clone()));
            un.stash = ap.stash.take();
            f(Op::Shape(&mut un));
            perts.push(super::Pert { setup: name.to_string(), label, op, elem: String::new(), native_ok, circuit_ok: c.is_ok(), circuit_err: c.err().unwrap_or_default() });
        }
        if !(native(f) && run(f).is_ok()) {
            perts.push(super::Pert { setup: name.to_string(), label: "restore".into(), op: "shape".into(), elem: String::new(), native_ok: true, circuit_ok: false, circuit_err: "proof not restored after structural perturbation".into() });
        }
    }
    super::CampaignRes { setup: name.to_string(), positions, shape_sites, baseline_ok, baseline_note, perts, statics, secs: t0.elapsed().as_secs_f64() }
}


// ------------------------------------------------------------------------------- static oracles
//
// Two judgements on the *graph* of the verifier circuit built for the honest proof, independent of
// any value: (1) `unwired-input`: an allocated input (public or private) whose witness is an
// operand of no operation at all — nothing can depend on it; (2) `input-not-hash-bound`: an input
// from which no dataflow path leads into a Poseidon permutation (as an input, or as the expected
// value of an output). Every element of a STARK / FRI proof is either absorbed by the Fiat-Shamir
// transcript or hashed into a Merkle leaf that is compared with a commitment; an input that
// reaches neither is tied to the rest of the proof by arithmetic alone (for a commit-phase
// opening: by the fold equation only, i.e. the opening is not bound to its commitment).
// Both are decided by one forward pass (which operands does each op create) and one reverse pass.
/// per witness id: (operand of some op, dataflow path into a Poseidon permutation)
pub fn static_flags(circuit: &p3_circuit::Circuit<EF>) -> (Vec<bool>, Vec<bool>) {
    use p3_circuit::ops::Op as COp;
    let n = circuit.witness_count as usize;
    let mut referenced = vec![false; n];
    let mut defined = vec![false; n];
    for w in &circuit.private_input_rows {
        defined[w.0 as usize] = true;
    }
    // per op: (created, sources, is_hash)
    let mut edges: Vec<(Vec<u32>, Vec<u32>, bool)> = Vec::with_capacity(circuit.ops.len());
    for op in &circuit.ops {
        let mut operands: Vec<u32> = vec![];
        let mut is_hash = false;
        match op {
            COp::Const { out, .. } | COp::Public { out, .. } => {
                defined[out.0 as usize] = true;
                continue;
            }
            COp::Alu { a, b, c, out, intermediate_out, .. } => {
                operands.extend([a.0, b.0, out.0]);
                operands.extend(c.iter().map(|w| w.0));
                operands.extend(intermediate_out.iter().map(|w| w.0));
            }
            COp::Hint { inputs, outputs, .. } => {
                operands.extend(inputs.iter().map(|w| w.0));
                operands.extend(outputs.iter().map(|w| w.0));
            }
            COp::NonPrimitiveOpWithExecutor { inputs, outputs, executor, .. } => {
                is_hash = executor.op_type().as_str().starts_with("poseidon");
                operands.extend(inputs.iter().flatten().map(|w| w.0));
                operands.extend(outputs.iter().flatten().map(|w| w.0));
            }
        }
        let mut created = vec![];
        let mut sources = vec![];
        for w in operands {
            referenced[w as usize] = true;
            if defined[w as usize] { sources.push(w) } else { created.push(w) }
        }
        for w in &created {
            defined[*w as usize] = true;
        }
        edges.push((created, sources, is_hash));
    }
    let mut bound = vec![false; n];
    for (created, sources, is_hash) in edges.iter().rev() {
        if *is_hash || created.iter().any(|w| bound[*w as usize]) {
            for w in sources {
                bound[*w as usize] = true;
            }
        }
    }
    (referenced, bound)
}

pub fn static_oracles(circuit: &p3_circuit::Circuit<EF>, targets: &Labelled) -> Vec<(String, String)> {
    let (referenced, bound) = static_flags(circuit);
    let mut label_of: std::collections::HashMap<u32, String> = Default::default();
    for (l, t) in targets {
        if let Some(w) = circuit.expr_to_widx.get(t) {
            label_of.entry(w.0).or_insert_with(|| l.clone());
        }
    }
    let mut out = vec![];
    for (vis, rows) in [("public", &circuit.public_rows), ("private", &circuit.private_input_rows)] {
        for (pos, w) in rows.iter().enumerate() {
            let l = label_of.get(&w.0).cloned().unwrap_or_else(|| format!("unlabelled.{vis}.{pos}"));
            if l.starts_with("unlabelled") && vis == "private" {
                // every private input of the verifier circuit must be a named proof element
                out.push(("unnamed-private-input".to_string(), l.clone()));
            }
            if !referenced[w.0 as usize] {
                out.push(("unwired-input".to_string(), l));
            } else if !bound[w.0 as usize] {
                out.push(("input-not-hash-bound".to_string(), l));
            }
        }
    }
    out
}

fn run_circuit(
    circuit: &p3_circuit::Circuit<EF>,
    pubv: &[EF],
    privv: &[EF],
    op_ids: &[p3_circuit::NonPrimitiveOpId],
    opening: &Opening,
) -> Result<(), String> {
    let mut runner = circuit.runner();
    runner.set_public_inputs(pubv).map_err(short)?;
    runner.set_private_inputs(privv).map_err(short)?;
    set_mmcs_private(&mut runner, op_ids, opening).map_err(|e| format!("mmcs-private:{e}"))?;
    runner.run().map(|_| ()).map_err(short)
}

fn setup_name(part: &str, cap: usize) -> String {
    if cap == 0 { format!("{CFG}.{part}") } else { format!("{CFG}.{part}_cap{cap}") }
}

/// `cap`: height of the Merkle cap of both MMCSs (input and FRI commit phase). The native MMCS
/// clamps it per tree (`min(cap, layers - 1)`), so with the testing FRI parameters (blow-up 4,
/// constant final polynomial, arity 2) `cap = 2` puts the last commit-phase codeword (4 rows)
/// entirely inside its cap (empty Merkle path, leaf digest = cap entry), `cap = 3` the last two,
/// and a cap at least as high as the largest tree does so for every tree of the proof, input
/// commitments included.
fn campaign_uni(seed: u64, per_kind: usize, cap: usize) -> Vec<super::CampaignRes> {
    let name = setup_name("uni", cap);
    let config = make_config_cap(seed, cap);
    let air = CAir::Fib;
    let (trace, mut pis) = fib_trace(8);
    let mut proof = p3_uni_stark::prove(&config, &air, trace, &pis);
    let mut prep: Option<Com> = None;
    let params = fri_verifier_params();
    let build = |proof: &p3_uni_stark::Proof<SC>, npis: usize| -> Result<(UniBuilder, p3_circuit::Circuit<EF>, Vec<p3_circuit::NonPrimitiveOpId>), String> {
        let mut cb = p3_circuit::CircuitBuilder::<EF>::new();
        enable_perm(&mut cb);
        let vi = UniBuilder::allocate(&mut cb, proof, None, npis);
        let op_ids = p3_recursion::verify_p3_uni_proof_circuit::<CAir, SC, CapT, InputT, OpeningT, _, WIDTH, RATE>(
            &config,
            &air,
            &mut cb,
            &vi.proof_targets,
            &vi.air_public_targets,
            &None,
            &params,
            perm_config(),
        )
        .map_err(|e| format!("verifier-circuit:{}", short(e)))?;
        let circuit = cb.build().map_err(|e| format!("build:{}", short(e)))?;
        Ok((vi, circuit, op_ids))
    };
    let (vi, circuit, op_ids) = build(&proof, pis.len()).unwrap_or_else(|e| panic!("{e}"));
    let positions = circuit.public_flat_len + circuit.private_flat_len;
    let statics = static_oracles(&circuit, &tw_uni(&vi));
    let mut f = |op: Op| -> Resp {
        match op {
            Op::Walk(v) => {
                walk_uni(&mut pis, &mut proof, &mut prep, v);
                Resp::Unit
            }
            Op::Shape(sv) => {
                swalk_uni(&mut pis, &mut proof, sv);
                Resp::Unit
            }
            Op::Native => Resp::Bool(p3_uni_stark::verify(&config, &air, &proof, &pis).is_ok()),
            Op::Run => {
                let (pv, sv) = vi.pack_values(&pis, &proof, &prep);
                Resp::Res(run_circuit(&circuit, &pv, &sv, &op_ids, &proof.opening_proof))
            }
            Op::Rebuild => Resp::Res((|| {
                let (vi2, c2, ops2) = build(&proof, pis.len())?;
                let (pv, sv) = vi2.pack_values(&pis, &proof, &prep);
                run_circuit(&c2, &pv, &sv, &ops2, &proof.opening_proof)
            })()),
        }
    };
    vec![drive(&name, seed, per_kind, positions, statics, &mut f)]
}

fn campaign_batch(seed: u64, per_kind: usize, cap: usize) -> Vec<super::CampaignRes> {
    let name = setup_name("batch", cap);
    let config = make_config_cap(seed, cap);
    let airs = vec![CAir::Fib, CAir::Add(16)];
    let (t0, pv0) = fib_trace(16);
    let traces = vec![t0, add_trace(16)];
    let mut pvs: Vec<Vec<F>> = vec![pv0, vec![]];
    let instances: Vec<p3_batch_stark::StarkInstance<'_, SC, CAir>> = (0..2)
        .map(|i| p3_batch_stark::StarkInstance { air: &airs[i], trace: &traces[i], public_values: pvs[i].clone() })
        .collect();
    let prover_data = p3_batch_stark::ProverData::from_instances(&config, &instances);
    let mut proof = p3_batch_stark::prove_batch(&config, &instances, &prover_data);
    let base_common = &prover_data.common;
    let gp = base_common.preprocessed.as_ref();
    let mut prep: Option<Com> = gp.map(|g| g.commitment.clone());
    let mk_common = |prep: &Option<Com>| -> p3_batch_stark::CommonData<SC> {
        p3_batch_stark::CommonData::new(
            gp.map(|g| p3_batch_stark::common::GlobalPreprocessed {
                commitment: prep.clone().unwrap(),
                instances: g.instances.clone(),
                matrix_to_instance: g.matrix_to_instance.clone(),
            }),
            base_common.lookups.clone(),
        )
    };
    let params = fri_verifier_params();
    let lookup_gadget = p3_lookup::logup::LogUpGadget::new();
    let build = |proof: &p3_batch_stark::BatchProof<SC>, pvs: &[Vec<F>], prep: &Option<Com>| -> Result<(BatchBuilder, p3_circuit::Circuit<EF>, Vec<p3_circuit::NonPrimitiveOpId>), String> {
        let mut cb = p3_circuit::CircuitBuilder::<EF>::new();
        enable_perm(&mut cb);
        let counts: Vec<usize> = pvs.iter().map(|p| p.len()).collect();
        let common0 = mk_common(prep);
        let vi = BatchBuilder::allocate(&mut cb, proof, &common0, &counts);
        let op_ids = p3_recursion::verify_batch_circuit::<CAir, SC, CapT, InputT, OpeningT, p3_lookup::logup::LogUpGadget, _, WIDTH, RATE>(
            &config,
            &airs,
            &mut cb,
            &vi.proof_targets,
            &vi.air_public_targets,
            &params,
            &vi.common_data,
            &lookup_gadget,
            perm_config(),
        )
        .map_err(|e| format!("verifier-circuit:{}", short(e)))?;
        let circuit = cb.build().map_err(|e| format!("build:{}", short(e)))?;
        Ok((vi, circuit, op_ids))
    };
    let (vi, circuit, op_ids) = build(&proof, &pvs, &prep).unwrap_or_else(|e| panic!("{e}"));
    let positions = circuit.public_flat_len + circuit.private_flat_len;
    let statics = static_oracles(&circuit, &tw_batch(&vi, &proof));
    let mut f = |op: Op| -> Resp {
        match op {
            Op::Walk(v) => {
                walk_batch(&mut pvs, &mut proof, &mut prep, v);
                Resp::Unit
            }
            Op::Shape(sv) => {
                swalk_batch(&mut pvs, true, &mut proof, &mut prep, sv);
                Resp::Unit
            }
            Op::Rebuild => Resp::Res((|| {
                let (vi2, c2, ops2) = build(&proof, &pvs, &prep)?;
                let common = mk_common(&prep);
                let (pv, sv) = vi2.pack_values(&pvs, &proof, &common);
                run_circuit(&c2, &pv, &sv, &ops2, &proof.opening_proof)
            })()),
            Op::Native => {
                let common = mk_common(&prep);
                Resp::Bool(p3_batch_stark::verify_batch(&config, &airs, &proof, &pvs, &common).is_ok())
            }
            Op::Run => {
                let common = mk_common(&prep);
                let (pv, sv) = vi.pack_values(&pvs, &proof, &common);
                Resp::Res(run_circuit(&circuit, &pv, &sv, &op_ids, &proof.opening_proof))
            }
        }
    };
    vec![drive(&name, seed, per_kind, positions, statics, &mut f)]
}

pub fn campaign(seed: u64, per_kind: usize, which: &str) -> Vec<super::CampaignRes> {
    let (part, cap) = match which.split_once("_cap") {
        Some((p, c)) => (p, c.parse::<usize>().unwrap_or(0)),
        None => (which, 0),
    };
    let r = std::panic::catch_unwind(std::panic::AssertUnwindSafe(|| match part {
        "uni" => campaign_uni(seed, per_kind, cap),
        "batch" => campaign_batch(seed, per_kind, cap),
        "tables" => tables(seed, per_kind),
        _ => vec![],
    }));
    r.unwrap_or_else(|p| {
        vec![super::CampaignRes {
            setup: format!("{CFG}.{which}"),
            positions: 0,
            shape_sites: 0,
            baseline_ok: false,
            baseline_note: format!("setup panicked: {}", super::panic_msg(p).chars().take(200).collect::<String>()),
            perts: vec![],
            statics: vec![],
            secs: 0.0,
        }]
    })
}
