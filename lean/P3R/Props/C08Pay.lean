/-
C08 — prover-chosen private payloads of the Merkle-path rows (`P3R.Mmcs.verifyCircuit{2,4}P`).

`CircuitRunner::set_private_data` accepts any limbs for any op id, so the payload of a path row is the
prover's. The native verifier has no such input: in a bridge level (`step = 2` of an arity-4 tree) and in
an injection it fills the unused chunks with the default digest itself. The gadget agrees with it only
because `add_arity4_compression_row` pins those chunks to a CTL-loaded zero (`inputs[..] = Some(zero)`),
which `apply_witness_values` writes *after* `fill_sibling_data`.

PROVED HERE (every permutation, every state, every payload; no bound on sizes):
  * `verifyCircuit2P_nil`, `verifyCircuit4P_nil`  the payload-parametric models with no prover entry are
                                 the models of `P3R.Props.C08` (conservative extension)
  * `applyInputs_pinned`         a state position whose input slot is `some v` holds `v` after
                                 `apply_witness_values`, whatever `fill_sibling_data` wrote there
  * `bridge_row_pads_ignored`    arity 4, `step = 2`: the row's result depends on the payload only through
                                 its first `capw` limbs (the one real sibling); the two pad digests are ignored
  * `bridge_state_pads_ignored`  the same at the level of the permutation input (any `pos ≤ 1`, any pre-state)
The seeded change C08-c removes exactly the pins that `bridge_row_pads_ignored` rests on
(`compRow4`'s `k ≥ active` branch for `inj = none`): with them gone the statement is false
(`Witness.C08Pay.unpinned_bridge_pads_matter`).
-/
import P3R.Props.C08

namespace P3R.C08
open P3R P3R.Mmcs

set_option linter.unusedSectionVars false

section
variable {K : Type} [Zero K] [One K] [Add K] [Sub K] [Mul K] [DecidableEq K]

theorem payAt_nil (j : Nat) (d : Option (List K)) : payAt ([] : List (Nat × List K)) j d = d := rfl

theorem pathLoopP_nil (perm : List K → List K) (pc : PermCfg) :
    ∀ (dirs : List K) (first : Bool) (j : Nat) (digs : List (List K)) (sibs : List (Option (List K)))
      (st : ExecSt K) (out : List K),
      (pathLoopP perm pc [] first j digs dirs sibs st out).map (fun r => (r.1, r.2.1))
        = pathLoop perm pc first digs dirs sibs st out := by
  intro dirs
  induction dirs with
  | nil => intro first j digs sibs st out; simp [pathLoopP, pathLoop]
  | cons dir dirs ih =>
    intro first j digs sibs st out
    simp only [pathLoopP, pathLoop, payAt_nil]
    have hinj : ({ injectRow pc (digs.headD []) with sibling := none } : Row K) = injectRow pc (digs.headD []) := rfl
    rw [hinj]
    split
    · rfl
    · split
      · rfl
      · exact ih _ _ _ _ _ _

theorem mmcsVerifyP_nil (perm : List K → List K) (pc : PermCfg) (digs : List (List K)) (dirs : List K)
    (sibs : List (List K)) (root : List K) (st : ExecSt K) :
    mmcsVerifyP perm pc [] digs dirs sibs root st = mmcsVerify perm pc digs dirs sibs root st := by
  unfold mmcsVerifyP mmcsVerify
  split
  · rfl
  · have h := pathLoopP_nil perm pc dirs true 0 digs (sibs.map some ++ List.replicate dirs.length none) st []
    simp only [payAt_nil]
    have hinj : ({ injectRow pc (digs.getD dirs.length []) with sibling := none } : Row K)
        = injectRow pc (digs.getD dirs.length []) := rfl
    rw [hinj, ← h]
    cases pathLoopP perm pc [] true 0 digs dirs (sibs.map some ++ List.replicate dirs.length none) st [] with
    | none => rfl
    | some r => rfl

/-- Conservative extension, arity 2: without a prover entry the payload-parametric model is `verifyCircuit2`. -/
theorem verifyCircuit2P_nil (chk : Checks) (perm : List K → List K) (pc : PermCfg) (cap : List (List K))
    (dims : List Dim) (bits : List K) (streams sibs : List (List K)) :
    verifyCircuit2P chk perm pc [] cap dims bits streams sibs = verifyCircuit2 chk perm pc cap dims bits streams sibs := by
  unfold verifyCircuit2P verifyCircuit2
  simp only [mmcsVerifyP_nil]

theorem emit4P_nil (perm : List K → List K) (pc : PermCfg) :
    ∀ (sched : List Step4) (bits : List K) (used j : Nat) (injDigs sibs : List (List K)) (st : ExecSt K)
      (out : List K),
      emit4P perm pc [] sched bits used j injDigs sibs st out = emit4 perm pc sched bits used injDigs sibs st out := by
  intro sched
  induction sched with
  | nil => intro bits used j injDigs sibs st out; simp [emit4P, emit4]
  | cons s ss ih =>
    intro bits used j injDigs sibs st out
    simp only [emit4P, emit4, payAt_nil]
    split
    · rfl
    · split
      · exact ih _ _ _ _ _ _ _
      · split
        · rfl
        · exact ih _ _ _ _ _ _ _

/-- Conservative extension, arity 4. -/
theorem verifyCircuit4P_nil (chk : Checks) (perm : List K → List K) (pc : PermCfg) (cap : List (List K))
    (dims : List Dim) (bits : List K) (streams sibs : List (List K)) :
    verifyCircuit4P chk perm pc [] cap dims bits streams sibs = verifyCircuit4 chk perm pc cap dims bits streams sibs := by
  unfold verifyCircuit4P verifyCircuit4
  simp only [emit4P_nil]

/-! ### Pinned input slots override the payload -/

theorem writeAt_length (st : List K) (off : Nat) (v : List K) (h : off + v.length ≤ st.length) :
    (writeAt st off v).length = st.length := by
  unfold writeAt
  simp only [List.length_append, List.length_take, List.length_drop]
  omega

theorem writeAt_take_of_le (st : List K) (off n : Nat) (v : List K) (hn : n ≤ off) (hs : n ≤ st.length) :
    (writeAt st off v).take n = st.take n := by
  unfold writeAt
  rw [List.append_assoc, List.take_append_of_le_length (by simp only [List.length_take]; omega), List.take_take]
  congr 1
  omega

/-- Writing payload limbs into chunks `≥ 2` changes neither the length nor the first two chunks. -/
theorem fillSiblings4_tail (capw pos : Nat) :
    ∀ (ks : List Nat) (st priv : List K), (∀ k ∈ ks, 2 ≤ k ∧ (k + 1) * capw ≤ st.length) →
      (fillSiblings4 capw pos ks st priv).length = st.length ∧
      (fillSiblings4 capw pos ks st priv).take (2 * capw) = st.take (2 * capw) := by
  intro ks
  induction ks with
  | nil => intro st priv _; simp [fillSiblings4]
  | cons k ks ih =>
    intro st priv h
    have hk := h k (by simp)
    have hks : ∀ k' ∈ ks, 2 ≤ k' ∧ (k' + 1) * capw ≤ st.length := fun k' hk' => h k' (by simp [hk'])
    unfold fillSiblings4
    split
    · exact ih st priv hks
    · split
      · exact ⟨rfl, rfl⟩
      · have hlen : (writeAt st (k * capw) (priv.take capw)).length = st.length := by
          apply writeAt_length
          have : (priv.take capw).length ≤ capw := by simp only [List.length_take]; omega
          have : (k + 1) * capw = k * capw + capw := by ring
          omega
        have h2 : 2 * capw ≤ k * capw := Nat.mul_le_mul_right capw hk.1
        have hst : 2 * capw ≤ st.length := by
          have : (k + 1) * capw = k * capw + capw := by ring
          omega
        have := ih (writeAt st (k * capw) (priv.take capw)) (priv.drop capw) (by rw [hlen]; exact hks)
        rw [hlen] at this
        exact ⟨this.1, by rw [this.2]; exact writeAt_take_of_le _ _ _ _ h2 hst⟩

theorem zip_pinned (f : K → Option K → K) (hf : ∀ a a' v, v ≠ none → f a v = f a' v) :
    ∀ (tl : List (Option K)) (a a' : List K), a.length = a'.length → (∀ x ∈ tl, x ≠ none) →
      (a.zip tl).map (fun x => f x.1 x.2) = (a'.zip tl).map (fun x => f x.1 x.2) := by
  intro tl
  induction tl with
  | nil => intro a a' _ _; simp
  | cons t tl ih =>
    intro a a' hl ht
    cases a with
    | nil => cases a' with
      | nil => rfl
      | cons _ _ => simp at hl
    | cons x a => cases a' with
      | nil => simp at hl
      | cons x' a' =>
        simp only [List.zip_cons_cons, List.map_cons]
        rw [hf x x' t (ht t (by simp)), ih a a' (by simpa using hl) (fun y hy => ht y (by simp [hy]))]

/-- `apply_witness_values` after `fill_sibling_data`: if the input slots behind position `ins.length` are all
pinned (`some v`), the resulting state depends on the pre-state only through its first `ins.length` limbs. -/
theorem applyInputs_pinned (s s' : List K) (ins tl : List (Option K)) (hlen : s.length = s'.length)
    (htake : s.take ins.length = s'.take ins.length) (htl : ∀ x ∈ tl, x ≠ none)
    (hfull : ins.length + tl.length = s.length) :
    applyInputs s (ins ++ tl) = applyInputs s' (ins ++ tl) := by
  unfold applyInputs
  have e1 : s.length - (ins ++ tl).length = 0 := by simp only [List.length_append]; omega
  have e2 : s'.length - (ins ++ tl).length = 0 := by simp only [List.length_append]; omega
  rw [e1, e2]
  simp only [List.replicate_zero, List.append_nil]
  conv_lhs => rw [← List.take_append_drop ins.length s]
  conv_rhs => rw [← List.take_append_drop ins.length s']
  rw [List.zip_append (by simp only [List.length_take]; omega),
      List.zip_append (by simp only [List.length_take]; omega), List.map_append, List.map_append, htake]
  congr 1
  exact zip_pinned (fun a v => v.getD a) (fun a a' v hv => by cases v with | none => exact absurd rfl hv | some _ => rfl)
    tl _ _ (by simp only [List.length_drop]; omega) htl

/-- The state a bridge row (`step = 2`, running digest in chunk `pos ≤ 1`) hands to the permutation does
not depend on the two pad digests of its payload. -/
theorem bridge_state_pads_ignored (pc : PermCfg) (b1 b2 : K) (pos : Nat) (hpos : pos ≤ 1) (s2 sib pads pads' : List K)
    (hs2 : s2.length = 4 * pc.capw) (hsib : sib.length = pc.capw)
    (hp : pads.length = 2 * pc.capw) (hp' : pads'.length = 2 * pc.capw) :
    applyInputs (fillSiblings4 pc.capw pos [0, 1, 2, 3] s2 (sib ++ pads)) (compRow4 pc b1 b2 2 none (some (sib ++ pads))).inputs
      = applyInputs (fillSiblings4 pc.capw pos [0, 1, 2, 3] s2 (sib ++ pads')) (compRow4 pc b1 b2 2 none (some (sib ++ pads'))).inputs := by
  by_cases hc : pc.capw = 0
  · have e1 : pads = [] := List.length_eq_zero_iff.mp (by omega)
    have e2 : pads' = [] := List.length_eq_zero_iff.mp (by omega)
    rw [e1, e2]
  · have hcp : 0 < pc.capw := Nat.pos_of_ne_zero hc
    have hne : ∀ p : List K, (sib ++ p).isEmpty = false := by
      intro p
      cases sib with
      | nil => simp at hsib; omega
      | cons _ _ => rfl
    have htk : ∀ p : List K, (sib ++ p).take pc.capw = sib := by
      intro p; rw [← hsib]; exact List.take_left
    have hdr : ∀ p : List K, (sib ++ p).drop pc.capw = p := by
      intro p; rw [← hsib]; exact List.drop_left
    -- the inputs: two free chunks, then two pinned chunks
    have hin : ∀ q : Option (List K), (compRow4 pc b1 b2 2 none q).inputs
        = (List.replicate pc.capw (none : Option K) ++ List.replicate pc.capw none)
          ++ (List.replicate pc.capw (some 0) ++ List.replicate pc.capw (some 0)) := by
      intro q
      simp [compRow4]
    rw [hin, hin]
    -- after the first two chunks both fills continue from the same state `X`
    have key : ∀ p : List K, p.length = 2 * pc.capw →
        ∃ X : List K, X.length = 4 * pc.capw ∧ (∀ p' : List K,
          fillSiblings4 pc.capw pos [0, 1, 2, 3] s2 (sib ++ p') = fillSiblings4 pc.capw pos [2, 3] X p') := by
      intro p _
      rcases Nat.le_one_iff_eq_zero_or_eq_one.mp hpos with h0 | h1
      · subst h0
        refine ⟨writeAt s2 (1 * pc.capw) sib, ?_, ?_⟩
        · rw [writeAt_length]; exact hs2
          omega
        · intro p'
          simp [fillSiblings4, hne, htk, hdr]
      · subst h1
        refine ⟨writeAt s2 (0 * pc.capw) sib, ?_, ?_⟩
        · rw [writeAt_length]; exact hs2
          omega
        · intro p'
          simp [fillSiblings4, hne, htk, hdr]
    obtain ⟨X, hX, hfill⟩ := key pads hp
    rw [hfill pads, hfill pads']
    have hks : ∀ k ∈ [2, 3], 2 ≤ k ∧ (k + 1) * pc.capw ≤ X.length := by
      intro k hk
      simp only [List.mem_cons, List.not_mem_nil, or_false] at hk
      rcases hk with rfl | rfl <;> constructor <;> omega
    have t1 := fillSiblings4_tail pc.capw pos [2, 3] X pads hks
    have t2 := fillSiblings4_tail pc.capw pos [2, 3] X pads' hks
    apply applyInputs_pinned
    · rw [t1.1, t2.1]
    · simp only [List.length_append, List.length_replicate]
      have : pc.capw + pc.capw = 2 * pc.capw := by omega
      rw [this, t1.2, t2.2]
    · intro x hx
      simp only [List.mem_append, List.mem_replicate] at hx
      rcases hx with ⟨_, rfl⟩ | ⟨_, rfl⟩ <;> simp
    · simp only [List.length_append, List.length_replicate]
      rw [t1.1, hX]; omega

/-- **A bridge row ignores the pad digests of its payload.** Arity-4 gadget, `step = 2` level (running digest in
chunk 0 or 1, one real sibling): whatever the prover puts into the two pad slots of the row's private payload,
the runner computes the same permutation input, output and chain state — the pinned zero inputs of
`add_arity4_compression_row` win over `fill_sibling_data`. Hence the circuit's verdict on a bridge level is a
function of the real sibling only, as the native verifier's (which uses the default digest there). -/
theorem bridge_row_pads_ignored (perm : List K → List K) (pc : PermCfg) (st : ExecSt K) (b1 : K) (sib pads pads' : List K)
    (h4 : pc.arity4 = true) (hW : pc.W = 4 * pc.capw) (hsib : sib.length = pc.capw)
    (hp : pads.length = 2 * pc.capw) (hp' : pads'.length = 2 * pc.capw) :
    execRow perm pc st (compRow4 pc b1 0 2 none (some (sib ++ pads)))
      = execRow perm pc st (compRow4 pc b1 0 2 none (some (sib ++ pads'))) := by
  have hf : ∀ q : Option (List K), (compRow4 pc b1 0 2 none q).newStart = false ∧ (compRow4 pc b1 0 2 none q).merkle = true
      ∧ (compRow4 pc b1 0 2 none q).bit = b1 ∧ (compRow4 pc b1 0 2 none q).bit2 = 0 ∧ (compRow4 pc b1 0 2 none q).sibling = q :=
    fun q => ⟨rfl, rfl, rfl, rfl, rfl⟩
  unfold execRow
  simp only [hf, h4, Bool.and_self, if_true, Bool.not_false, Bool.false_eq_true, if_false, Bool.not_true]
  have hz : toBool? (0 : K) = some false := by simp [toBool?]
  simp only [hz]
  cases hb : toBool? b1 with
  | none => rfl
  | some b =>
    cases hm : st.merkle with
    | none => rfl
    | some prev =>
      simp only [Bool.false_eq_true, if_false, Nat.mul_zero, Nat.add_zero, Bool.and_false, Bool.false_and]
      have hpos : (if b = true then 1 else 0) ≤ 1 := by split <;> omega
      have hs2 : (writeAt (List.replicate pc.W (0 : K)) ((if b = true then 1 else 0) * pc.capw) (List.take pc.capw prev)).length
          = 4 * pc.capw := by
        rw [writeAt_length]
        · simp [hW]
        · simp only [List.length_take, List.length_replicate, hW]
          have : (if b = true then 1 else 0) * pc.capw ≤ pc.capw := by split <;> omega
          omega
      rw [bridge_state_pads_ignored pc b1 0 _ hpos _ sib pads pads' hs2 hsib hp hp']

end
end P3R.C08
