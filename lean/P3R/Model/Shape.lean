/-
C15 model — proof *shape vectors* and the shape-dependent control flow of the recursive
verifier's circuit builders.

A shape vector holds every prover-controlled length, count, option and small integer that the
builders look at (`UniShape`, `FriShape`, `BatchShape`); `Env` holds what the verifier fixes
(AIR widths, quotient degree, FRI parameters, the preprocessed commitment) and the machine
constants the partial steps depend on (word size, two-adicity, field bit width, allocation
bound).

The builders are transcribed as an *ordered list of guarded steps* (`Check`): each step is a
condition on (env, shape) plus what the Rust does when the condition is false — return an
error (`.err`: an explicit `InvalidProofShape` / `RandomizationError` / builder error) or
panic (`.panic`: an unchecked index, slice, shift, arithmetic overflow under overflow checks,
`unwrap`, `assert!`, or an allocation above the environment's bound). `run` returns the
outcome of the first failing step, `.ok` when every step passes. The order is the order of the
Rust statements, so "a panic step precedes the validation that would have rejected the shape"
is visible in the model.

This is the model of the tree with fixes C15-1 (`verify_circuit`: list lengths and `checked_add`
before the challenge slice) and C15-3 (`open_input`: matrix heights compared with
`log_global_max_height`) applied; the three steps they change are marked `fix C15-n`. It also
follows the later repairs ca07f07 (F9a: `degree_bits + log_quotient_degree` bounded by the word
size and the field bit width before the shift), fc0321f (F9d: sibling targets sized by the proof's
sibling count, the count compared with checked arithmetic), 069da9d (F9e: empty / non-power-of-two
cap is an error), c030fca (F9i: `log_max_height` compared with the two-adicity) and 0e5036a
(C07-F4: a proof without fold phase is no longer refused); the steps are marked `fix <commit>`.

Transcribed from (line numbers of the tree the model was written against):
  recursion/src/types/proof.rs            `ProofTargets::new`, `BatchProofTargets::new`
  recursion/src/pcs/fri/targets.rs:268-282 `CommitPhaseProofStepTargets::new`
  recursion/src/verifier/stark.rs:94-320   `verify_p3_uni_proof_circuit`, `validate_proof_shape`
  recursion/src/pcs/fri/targets.rs:748-866 `get_challenges_circuit`, `verify_circuit`
  recursion/src/pcs/fri/verifier.rs:1068-1838 `open_input`, `verify_fri_circuit`
  recursion/src/pcs/mmcs.rs:319-426        `verify_batch_circuit` (cap handling)
  recursion/src/verifier/batch_stark.rs:211-1024, recursion/src/public_inputs.rs:629
Import-free (core only) so that the driver links natively.
-/
namespace P3R.Shape

inductive Out | ok | err | panic
  deriving DecidableEq, Repr

inductive FailKind | err | panic
  deriving DecidableEq, Repr

/-- One guarded step: `holds` is the condition under which the Rust statement goes through. -/
structure Check where
  holds : Bool
  kind : FailKind
  deriving Repr

def FailKind.out : FailKind → Out
  | .err => .err
  | .panic => .panic

/-- Outcome of the first failing step. -/
def run : List Check → Out
  | [] => .ok
  | c :: cs => if c.holds then run cs else c.kind.out

def must (b : Bool) : Check := ⟨b, .err⟩      -- explicit error return
def partialStep (b : Bool) : Check := ⟨b, .panic⟩  -- unchecked partial operation

/-! ## Environment and shapes -/

structure Env where
  airWidth : Nat
  /-- preprocessed width the AIR itself declares (its `eval` indexes that many columns) -/
  airPrepWidth : Nat
  /-- log₂ of the number of quotient chunks the AIR needs -/
  logQd : Nat
  /-- extension degree `EF::DIMENSION` -/
  dim : Nat
  /-- number of roots of the verifier-supplied preprocessed commitment, if any -/
  prepCommit : Option Nat
  logBlowup : Nat
  logFinalPolyLen : Nat
  commitPowBits : Nat
  queryPowBits : Nat
  mmcs : Bool
  /-- `F::bits()` -/
  valBits : Nat
  /-- `F::TWO_ADICITY` -/
  twoAdicity : Nat
  /-- `usize::BITS`; arithmetic overflow panics (overflow checks on, dev profile) -/
  wordBits : Nat
  /-- largest number of targets one allocation may ask for before the process dies. Since
  fix fc0321f no allocation size is computed from a prover-supplied integer, so no step reads it;
  kept so that environments (driver lines) keep their format -/
  maxAlloc : Nat
  deriving DecidableEq, Repr

structure QueryShape where
  /-- per input batch, per matrix: length of the opened row -/
  inputProof : List (List Nat)
  /-- `log_arity` of every commit-phase opening -/
  steps : List Nat
  /-- number of sibling values of every commit-phase opening (`sibling_values.len()`; read off the
  same list of openings as `steps`, so of the same length) -/
  siblings : List Nat
  deriving DecidableEq, Repr

structure FriShape where
  /-- number of roots of every commit-phase commitment -/
  commitCaps : List Nat
  powWitnesses : Nat
  queries : List QueryShape
  finalPolyLen : Nat
  deriving DecidableEq, Repr

structure UniShape where
  traceCap : Nat
  quotientCap : Nat
  randomCap : Option Nat
  traceLocal : Nat
  /-- 0 when `trace_next` is absent -/
  traceNext : Nat
  prepLocal : Option Nat
  prepNext : Option Nat
  quotientChunks : List Nat
  random : Option Nat
  degreeBits : Nat
  fri : FriShape
  deriving DecidableEq, Repr

/-! ## Helpers -/

/-- ⌊log₂ n⌋ by fuel (structural, so that the kernel can evaluate it); 0 for n ≤ 1. -/
def log2 (n : Nat) : Nat := go n n
where
  go : Nat → Nat → Nat
    | 0, _ => 0
    | f + 1, n => if 2 ≤ n then go f (n / 2) + 1 else 0

def isPow2 (n : Nat) : Bool := n != 0 && (2 ^ log2 n == n)

def sum (l : List Nat) : Nat := l.foldl (· + ·) 0

/-- `log_arities`: read from the first query proof (`FriProofTargets::new`). -/
def FriShape.logArities (f : FriShape) : List Nat :=
  match f.queries with
  | [] => []
  | q :: _ => q.steps

def logMaxHeight (e : Env) (f : FriShape) : Nat :=
  sum f.logArities + e.logFinalPolyLen + e.logBlowup

/-- A commitment round handed to the PCS: the cap size, and per matrix its log₂ domain size and
the number of values opened at each point. -/
structure Round where
  cap : Nat
  mats : List (Nat × List Nat)
  deriving Repr

/-! ## Target allocation (`Recursive::new`)

fix fc0321f (F9d): `CommitPhaseProofStepTargets::new` allocates `sibling_values.len() * DIMENSION`
targets — what the proof carries — and no longer computes `1 << log_arity`,
`(arity - 1) * DIMENSION` from the prover-supplied `log_arity`. Target allocation therefore has no
shape-dependent partial step any more (the former `allocStep` / `allocFri`); the sibling count is
compared with `(2^log_arity - 1) * DIMENSION` by `verify_fri_circuit` (`siblingOk` below). -/

/-! ## MMCS cap handling (`verify_batch_circuit*`) -/

/-- fix 069da9d (F9e): `merkle_cap_height` returns an error unless `cap.len().is_power_of_two()`
(false for an empty cap) — before, `assert!(!cap.is_empty())` and `log2_strict_usize(cap.len())`
panicked; fix C08-4 (bd209ac): a cap taller than the index (`cap_height > index_bits.len()`) is an
explicit `InvalidDimension` error before `index_bits.len() - cap_height` is computed. -/
def capChecks (cap bits : Nat) : List Check :=
  [ must (isPow2 cap),
    must (log2 cap ≤ bits) ]

/-! ## FRI (`get_challenges_circuit`, `verify_circuit`, `verify_fri_circuit`, `open_input`) -/

/-- PoW bit counts are range-checked by `sample_bits` (an error, not a panic). The commit-phase
loop zips commitments with PoW witnesses, so it runs `min` times. -/
def friChallengeChecks (e : Env) (f : FriShape) : List Check :=
  [ must (min f.commitCaps.length f.powWitnesses == 0 || e.commitPowBits ≤ e.valBits),
    must (e.queryPowBits ≤ e.valBits) ]

/-- log₂ height of the tallest matrix of a commitment round on the LDE domain (0 if none). -/
def batchHeight (e : Env) (r : Round) : Nat :=
  r.mats.foldl (fun a m => max a (m.1 + e.logBlowup)) 0

def openInputChecks (e : Env) (f : FriShape) (rounds : List Round) (q : QueryShape) : List Check :=
  let lmh := logMaxHeight e f
  -- fix C15-3: every matrix height is compared with `log_global_max_height` (explicit
  -- `InvalidProofShape`) before `precompute_evaluation_points` subtracts it
  (rounds.flatMap fun r => r.mats.map fun m => must (m.1 + e.logBlowup ≤ lmh))
  ++ [ must (rounds.length == q.inputProof.length) ]
  ++ ((rounds.zip q.inputProof).flatMap fun (r, b) =>
        (if e.mmcs then
          -- `log_global_max_height.checked_sub(batch_log_max_height)`; the batch is opened with the
          -- upper `batch_log_max_height` index bits only
          [ must (batchHeight e r ≤ lmh), must (r.mats.length == b.length) ]
          -- fix C08-2 (1fb42a4): each opened row is pinned to the matrix width, which `open_input`
          -- sets to the number of evaluations claimed at the first opening point
          ++ ((r.mats.zip b).map fun (m, row) => must (match m.2 with | [] => true | v :: _ => v == row))
          -- fix C08-3 (ca4e1d9): an empty batch is `EmptyBatch`; LDE heights are powers of two, so
          -- the ladder condition itself always holds here
          ++ [ must (r.mats.length != 0) ]
          ++ capChecks r.cap (batchHeight e r)
        else [])
        ++ [ must (r.mats.length == b.length) ]
        ++ ((r.mats.zip b).map fun (m, row) => must (m.2.all (· == row))))
  ++ [ must (rounds.any fun r => r.mats.any fun m => m.1 + e.logBlowup == lmh) ]

/-- Commit-phase MMCS openings of one query: the cap of phase `i` against the folded height. -/
def commitPhaseChecks (e : Env) (f : FriShape) : List Check :=
  if e.mmcs then
    let las := f.logArities
    let lmh := logMaxHeight e f
    (List.range (min f.commitCaps.length las.length)).flatMap fun i =>
      let folded := lmh - sum (las.take (i + 1))
      if folded == 0 then [] else capChecks (f.commitCaps.getD i 0) folded
  else []

/-- fix fc0321f (F9d): `u32::try_from(log_arity)` / `1usize.checked_shl` / `checked_mul(DIMENSION)`,
compared with `sibling_coefficients.len() = sibling_values.len() * DIMENSION`. Written with the
range test first so that the model stays executable for an out-of-range `log_arity`. -/
def siblingOk (e : Env) (la sib : Nat) : Bool :=
  la < e.wordBits && ((2 ^ la - 1) * e.dim < 2 ^ e.wordBits && sib * e.dim == (2 ^ la - 1) * e.dim)

/-- Per-query validation loop of `verify_fri_circuit`: opening count and `log_arity` of every phase
equal the global schedule; the sibling coefficient count of every phase. -/
def queryScheduleChecks (e : Env) (las : List Nat) (q : QueryShape) : List Check :=
  must (q.steps == las)
  :: (List.range las.length).map fun i => must (siblingOk e (las.getD i 0) (q.siblings.getD i 0))

def friVerifyChecks (e : Env) (f : FriShape) (rounds : List Round) : List Check :=
  let las := f.logArities
  let lmh := logMaxHeight e f
  [ -- fix C15-1: `challenges` has `1 + min(commits, pow)` entries; `verify_circuit` now returns
    -- `InvalidProofShape` unless `challenges.len() ≥ 1 + commits` and `pow == commits`
    -- (together: `commits == pow`) before it takes `&challenges[1..1 + num_betas]`
    must (f.commitCaps.length == f.powWitnesses),
    -- `log_arities.iter().sum()` is still an unchecked `usize` sum
    partialStep (sum las < 2 ^ e.wordBits),
    -- fix C15-1: `checked_add` of `log_final_poly_len` and `log_blowup`
    must (lmh < 2 ^ e.wordBits),
    must (lmh ≤ e.valBits),
    -- fix c030fca (F9i): `log_max_height > TWO_ADICITY` is `InvalidProofShape` (before: only
    -- `two_adic_generator(log_max_height)`'s assertion, much later)
    must (lmh ≤ e.twoAdicity),
    -- `verify_fri_circuit` shape validation
    must (f.commitCaps.length == f.powWitnesses),
    must (las.length == f.commitCaps.length),
    -- `1 <= log_arity` for every phase (native `checked_log_arity`)
    must (las.all (· != 0)),
    -- fix 0e5036a (C07-F4): no "at least one fold phase" test any more — a proof whose committed
    -- matrices already have the final polynomial's height has no phase and is verified as natively
    must (f.queries.length != 0) ]
  ++ (f.queries.flatMap fun q => queryScheduleChecks e las q)
  ++ [ -- `final_poly.len() == 1 << log_final_poly_len`, written without the (possibly astronomically
       -- large) power so that the model stays executable for out-of-range parameters
       must (isPow2 f.finalPolyLen && log2 f.finalPolyLen == e.logFinalPolyLen) ]
       -- (`two_adic_generator(log_max_height)` cannot fail any more: `lmh ≤ twoAdicity` above)
  ++ (f.queries.flatMap fun q => openInputChecks e f rounds q ++ commitPhaseChecks e f)

/-! ## Uni-STARK (`verify_p3_uni_proof_circuit`) -/

def UniShape.prepWidth (s : UniShape) : Nat := s.prepLocal.getD 0

def uniRounds (e : Env) (s : UniShape) : List Round :=
  (match s.randomCap, s.random with
   | some c, some r => [⟨c, [(s.degreeBits, [r])]⟩]
   | _, _ => [])
  ++ [ ⟨s.traceCap, [(s.degreeBits, [s.traceLocal, s.traceNext])]⟩,
       ⟨s.quotientCap, s.quotientChunks.map fun c => (s.degreeBits, [c])⟩ ]
  ++ (if s.prepWidth > 0 then
        [⟨e.prepCommit.getD 0, [(s.degreeBits, [s.prepWidth, s.prepNext.getD 0])]⟩] else [])

def validateUniShape (e : Env) (s : UniShape) : List Check :=
  [ must (!(e.prepCommit.isSome && s.prepWidth == 0)),
    must (!(e.prepCommit.isNone && s.prepWidth > 0)),
    must (s.traceLocal == e.airWidth && s.traceNext == e.airWidth),
    must (s.prepWidth == s.prepLocal.getD 0 && s.prepWidth == s.prepNext.getD 0),
    must (s.quotientChunks.length == 2 ^ e.logQd),
    must (s.quotientChunks.all (· == e.dim)),
    must (match s.random with | some r => r == e.dim | none => true) ]

/-- Everything the uni-STARK builder does before it hands the opening proof to the PCS. -/
def uniPrefix (e : Env) (s : UniShape) : List Check :=
  [ -- the AIR is evaluated symbolically with the *proof's* preprocessed width
    -- (`declares_interactions`, `get_log_num_quotient_chunks`) before any validation
    partialStep (e.airPrepWidth ≤ s.prepWidth),
    -- fix ca07f07 (F9a): `degree_bits.checked_add(log_quotient_degree)` must be below `usize::BITS`
    -- and at most `Val::bits()`, else `InvalidProofShape` — before `1 << degree_bits`
    must (s.degreeBits + e.logQd < e.wordBits && s.degreeBits + e.logQd ≤ e.valBits),
    -- `natural_domain_for_degree(1 << degree_bits)` / disjoint quotient domain of size
    -- `1 << (degree_bits + log_quotient_degree)`: `TwoAdicMultiplicativeCoset::new(..).unwrap()`.
    -- What is left of F9a: the bound above is the field bit width, the PCS needs the two-adicity
    partialStep (s.degreeBits + e.logQd ≤ e.twoAdicity) ]
  ++ friChallengeChecks e s.fri
  ++ [ must (s.random.isNone && s.randomCap.isNone) ]   -- non-ZK PCS
  ++ validateUniShape e s

def uniChecks (e : Env) (s : UniShape) : List Check :=
  uniPrefix e s ++ friVerifyChecks e s.fri (uniRounds e s)

def verifyUni (e : Env) (s : UniShape) : Out := run (uniChecks e s)

end P3R.Shape
