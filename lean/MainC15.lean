/-
C15 line-protocol driver: one (environment, shape vector) per stdin line, one outcome line out.
Runs the *model* `P3R.Shape.verifyUni` / `verifyBatch` of `P3R/Model/Shape.lean`.

  uni <base> <env> <uni shape>      → err | panic | ok same | ok different
  batch <base> <env> <batch shape>  → err | panic | ok same | ok different

`ok same` / `ok different`: the first line carrying a given <base> name is the honest input of
that base; a later accepted line is `same` iff its (env, shape) equals that first line's.
Everything is on the line (no defaults). Numbers are decimal; an option is `-` or a number; a
list is its length followed by its items. Unknown / malformed command → `bad-op`.

  <env>  = airWidth airPrepWidth logQd dim prepCommit? logBlowup logFinalPolyLen commitPowBits
           queryPowBits mmcs(0|1) valBits twoAdicity wordBits maxAlloc
  <fri>  = commitCaps[] powWitnesses nQueries { nBatches { rows[] }* steps[] siblings[] }* finalPolyLen
           (steps = log_arity, siblings = sibling_values.len() of every commit-phase opening)
  <uni shape> = traceCap quotientCap randomCap? traceLocal traceNext prepLocal? prepNext?
           quotientChunks[] random? degreeBits <fri>

  batch <base> <tag> <env> <airs> <p3> <batch shape>   (model `verifyBatch` / `verifyP3Batch`)
  <tag>   = a number that only takes part in the same/different comparison (content hash of what the
            shape vector abstracts from: the lookup contexts and the AIRs' constraints)
  <airs>  = n { width opensNext(0|1) declares?(-|0|1) logQd? }*
  <p3>    = 0 | 1 traceD numProvers airsBuild(0|1) npoEntriesOk(0|1) extDegree rows[] publicLanes
            aluLanes npoLanes[] minTraceHeight hornerSteps nonPrimLanes[]
  <batch shape> = traceCap quotientCap randomCap? permCap?
            nInst { traceLocal traceNext prepLocal? prepNext? quotientChunks[] random? permLocal permNext }*
            degreeBits[] terminals[](0|1) publicValues lookups[]
            ( 0 | 1 cap nMeta { 0 | 1 matrixIndex width degreeBits }* matrixToInstance[] ) <fri>
  The table metadata of <p3> does not take part in the same/different comparison (the AIRs rebuilt
  from it do, through <airs> and <tag>).
-/
import P3R.Model.BatchShape

open P3R.Shape

namespace C15Driver

abbrev P := StateT (List String) Option

def tok : P String := do
  match (← get) with
  | [] => failure
  | t :: ts => set ts; pure t

def nat : P Nat := do
  let t ← tok
  match t.toNat? with
  | some n => pure n
  | none => failure

def opt : P (Option Nat) := do
  let t ← tok
  if t == "-" then pure none else
  match t.toNat? with
  | some n => pure (some n)
  | none => failure

def rep {α} (p : P α) : Nat → P (List α)
  | 0 => pure []
  | n + 1 => do let a ← p; let as ← rep p n; pure (a :: as)

def list {α} (p : P α) : P (List α) := do let n ← nat; rep p n

def bool : P Bool := do let n ← nat; pure (n != 0)

def env : P Env := do
  let airWidth ← nat; let airPrepWidth ← nat; let logQd ← nat; let dim ← nat
  let prepCommit ← opt; let logBlowup ← nat; let logFinalPolyLen ← nat
  let commitPowBits ← nat; let queryPowBits ← nat; let mmcs ← bool
  let valBits ← nat; let twoAdicity ← nat; let wordBits ← nat; let maxAlloc ← nat
  pure { airWidth, airPrepWidth, logQd, dim, prepCommit, logBlowup, logFinalPolyLen,
         commitPowBits, queryPowBits, mmcs, valBits, twoAdicity, wordBits, maxAlloc }

def query : P QueryShape := do
  let inputProof ← list (list nat)
  let steps ← list nat
  let siblings ← list nat
  pure { inputProof, steps, siblings }

def fri : P FriShape := do
  let commitCaps ← list nat
  let powWitnesses ← nat
  let queries ← list query
  let finalPolyLen ← nat
  pure { commitCaps, powWitnesses, queries, finalPolyLen }

def uni : P UniShape := do
  let traceCap ← nat; let quotientCap ← nat; let randomCap ← opt
  let traceLocal ← nat; let traceNext ← nat; let prepLocal ← opt; let prepNext ← opt
  let quotientChunks ← list nat; let random ← opt; let degreeBits ← nat
  let f ← fri
  pure { traceCap, quotientCap, randomCap, traceLocal, traceNext, prepLocal, prepNext,
         quotientChunks, random, degreeBits, fri := f }

def optOf {α} (p : P α) : P (Option α) := do
  let n ← nat
  if n == 0 then pure none else do let a ← p; pure (some a)

def airFacts : P AirFacts := do
  let width ← nat; let opensNext ← bool; let d ← opt; let logQd ← opt
  pure { width, opensNext, declares := d.map (· != 0), logQd }

def instShape : P InstShape := do
  let traceLocal ← nat; let traceNext ← nat; let prepLocal ← opt; let prepNext ← opt
  let quotientChunks ← list nat; let random ← opt; let permLocal ← nat; let permNext ← nat
  pure { traceLocal, traceNext, prepLocal, prepNext, quotientChunks, random, permLocal, permNext }

def prepMeta : P PrepMeta := do
  let matrixIndex ← nat; let width ← nat; let degreeBits ← nat
  pure { matrixIndex, width, degreeBits }

def prepShape : P PrepShape := do
  let cap ← nat; let instances ← list (optOf prepMeta); let matrixToInstance ← list nat
  pure { cap, instances, matrixToInstance }

def p3 : P (P3Env × MetaShape) := do
  let traceD ← nat; let numProvers ← nat; let airsBuild ← bool; let npoEntriesOk ← bool
  let extDegree ← nat; let rows ← list nat; let publicLanes ← nat; let aluLanes ← nat
  let npoLanes ← list nat; let minTraceHeight ← nat; let hornerSteps ← nat; let nonPrimLanes ← list nat
  pure ({ traceD, numProvers, airsBuild, npoEntriesOk },
        { extDegree, rows, publicLanes, aluLanes, npoLanes, minTraceHeight, hornerSteps, nonPrimLanes })

def batch : P BatchShape := do
  let traceCap ← nat; let quotientCap ← nat; let randomCap ← opt; let permCap ← opt
  let instances ← list instShape
  let degreeBits ← list nat; let terminals ← list bool; let publicValues ← nat; let lookups ← list nat
  let prep ← optOf prepShape
  let f ← fri
  pure { traceCap, quotientCap, randomCap, permCap, instances, degreeBits, terminals, publicValues,
         lookups, prep, fri := f }

inductive Input
  | uni (e : Env) (s : UniShape)
  | batch (tag : Nat) (e : BatchEnv) (p : Option (P3Env × MetaShape)) (s : BatchShape)

def Input.same : Input → Input → Bool
  | .uni e s, .uni e' s' => e == e' && s == s'
  | .batch t e p s, .batch t' e' p' s' => t == t' && e == e' && p.map (·.1) == p'.map (·.1) && s == s'
  | _, _ => false

def Input.verify : Input → Out
  | .uni e s => verifyUni e s
  | .batch _ e none s => verifyBatch e s
  | .batch _ e (some (p, m)) s => verifyP3Batch p e m s

def parseLine (ts : List String) : Option (String × Input) :=
  match ts with
  | "uni" :: base :: rest =>
    match (do let e ← env; let s ← uni; pure (Input.uni e s)).run rest with
    | some (i, []) => some (base, i)
    | _ => none
  | "batch" :: base :: rest =>
    match (do let t ← nat; let b ← env; let airs ← list airFacts; let p ← optOf p3; let s ← batch
              pure (Input.batch t { base := b, airs } p s)).run rest with
    | some (i, []) => some (base, i)
    | _ => none
  | _ => none

def step (honest : List (String × Input)) (line : String) : List (String × Input) × String :=
  match parseLine (line.splitOn " " |>.filter (· ≠ "")) with
  | none => (honest, "bad-op")
  | some (base, i) =>
    let (honest, h) := match honest.lookup base with
      | some h => (honest, h)
      | none => ((base, i) :: honest, i)
    let out := match i.verify with
      | .err => "err"
      | .panic => "panic"
      | .ok => if i.same h then "ok same" else "ok different"
    (honest, out)

partial def loop (h : IO.FS.Stream) (out : IO.FS.Stream) (honest : List (String × Input)) : IO Unit := do
  let line ← h.getLine
  if line.isEmpty then return
  let (honest, o) := step honest (line.trimRight)
  out.putStrLn o
  loop h out honest

end C15Driver

def main : IO Unit := do
  let stdin ← IO.getStdin
  let stdout ← IO.getStdout
  C15Driver.loop stdin stdout []
