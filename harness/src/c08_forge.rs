//! C08, AIR level: a malicious prover against the arity-2 in-circuit MMCS opening.
//!
//! `c08.rs` judges the gadget through the circuit *runner*. This module judges it through the real
//! `prove_all_tables` + `verify_all_tables`: the circuit (the real `verify_batch_circuit`, KoalaBear,
//! `D = 4`, `KOALA_BEAR_D4_W16`, real Poseidon2) is fixed, the prover chooses every trace cell. A forged
//! proof keeps all witness-level tables (Witness / Const / Public / ALU / recompose / sponge rows of the
//! Poseidon2 table) consistent and deviates only in cells of Merkle-mode rows of the Poseidon2 table.
//! The statement read off the public table is then checked by the native `MerkleTreeMmcs::verify_batch`.
//!
//! Forgery modes (each produces a statement the native verifier rejects):
//!   * `bits`  — claimed index `idx`, opened row / siblings / direction bits of another leaf `j`
//!     (same cap entry). Only the `mmcs_bit` cells of the Merkle rows differ from what the index-bit
//!     witnesses say.
//!   * `leaf`  — claimed index `idx` and commitment of tree `T`, opened row of a *different* tree `T'`:
//!     the first Merkle row takes `T`'s leaf digest although the digest witness is `T'`'s.
//!   * `acc`   — a hand-wired path that *does* use the `mmcs_index_sum` exposure of `PermCall` (the
//!     recursion gadget never does): direction bits of leaf `j`, claimed accumulator of leaf `idx`,
//!     first-row accumulator `S0 = (s_idx - s_j) / 2^(k-1)`.
//!   * `acc-mid` — same hand-wired path, first row honest (0), the accumulator cell of an intermediate
//!     continuation row (one without index CTL) replaced, later rows following the recurrence from it so
//!     that the exposed value is the claimed one. Rejected by the recurrence constraint as long as that
//!     constraint is gated by `(1 - new_start) * merkle_path` (seeded regression C11-b re-gates it).
//!   * `control` — an honest proof must be accepted and a proof whose last Merkle row has a wrong
//!     sibling (so the root output differs) must be rejected; otherwise the experiment is void.

use p3_batch_stark::ProverData;
use p3_circuit::ops::recompose::RecomposeTrace;
use p3_circuit::ops::{NpoTypeId, Op, PermCall, PermConfig, Poseidon2Trace};
use p3_circuit::tables::WitnessTrace;
use p3_circuit::{Traces, WitnessId};
use p3_circuit_prover::batch_stark_prover::{poseidon2_air_builders, recompose_air_builders};
use p3_circuit_prover::common::{NpoPreprocessor, get_airs_and_degrees_with_prep};
use p3_circuit_prover::config::{self, KoalaBearConfig};
use p3_circuit_prover::{
    BatchStarkProver, CircuitProverData, ConstraintProfile, Poseidon2Preprocessor, RecomposePreprocessor, TablePacking,
};
use p3_field::Field;

use super::*;

#[derive(Debug, Clone, PartialEq)]
pub enum Outcome {
    Accepted,
    PrepError(String),
    ProveFailed(String),
    VerifyFailed(String),
}

impl Outcome {
    pub fn tag(&self) -> &'static str {
        match self {
            Outcome::Accepted => "accepted",
            Outcome::PrepError(_) => "prep-error",
            Outcome::ProveFailed(_) => "prove-failed",
            Outcome::VerifyFailed(_) => "verify-failed",
        }
    }
    fn detail(&self) -> String {
        match self {
            Outcome::Accepted => String::new(),
            Outcome::PrepError(s) | Outcome::ProveFailed(s) | Outcome::VerifyFailed(s) => s.clone(),
        }
    }
}

fn panic_msg(p: Box<dyn std::any::Any + Send>) -> String {
    p.downcast_ref::<String>().cloned().or_else(|| p.downcast_ref::<&str>().map(|s| s.to_string())).unwrap_or_default().chars().take(200).collect()
}

fn prepare(circuit: &Circuit<CF>) -> Result<CircuitProverData<KoalaBearConfig>, String> {
    let r = catch_unwind(AssertUnwindSafe(|| {
        let sc = config::koala_bear();
        let packing = TablePacking::new(1, 1);
        let npo_prep: Vec<Box<dyn NpoPreprocessor<F>>> = vec![Box::new(Poseidon2Preprocessor), Box::new(RecomposePreprocessor::default())];
        let mut ab = poseidon2_air_builders::<KoalaBearConfig, 4>();
        ab.extend(recompose_air_builders::<KoalaBearConfig, 4>(1, false));
        let (ad, prim, nonprim) = get_airs_and_degrees_with_prep::<KoalaBearConfig, CF, 4>(circuit, &packing, &npo_prep, &ab, ConstraintProfile::Standard)
            .map_err(|e| format!("{e:?}"))?;
        let (airs, degs): (Vec<_>, Vec<usize>) = ad.into_iter().unzip();
        let pd = ProverData::from_airs_and_degrees(&sc, &airs, &degs);
        Ok::<_, String>(CircuitProverData::new(pd, prim, nonprim))
    }));
    r.unwrap_or_else(|p| Err(format!("panic: {}", panic_msg(p))))
}

fn prove_verify(cpd: &CircuitProverData<KoalaBearConfig>, traces: &Traces<CF>) -> Outcome {
    let r = catch_unwind(AssertUnwindSafe(|| -> Outcome {
        let sc = config::koala_bear();
        let mut prover = BatchStarkProver::new(sc).with_table_packing(TablePacking::new(1, 1));
        prover.register_poseidon2_table::<4>(Poseidon2Config::KOALA_BEAR_D4_W16);
        prover.register_recompose_table::<4>(false);
        let proof = match prover.prove_all_tables(traces, cpd) {
            Ok(p) => p,
            Err(e) => return Outcome::ProveFailed(format!("{e:?}").chars().take(200).collect()),
        };
        match prover.verify_all_tables::<CF>(&proof) {
            Ok(()) => Outcome::Accepted,
            Err(e) => Outcome::VerifyFailed(format!("{e:?}").chars().take(200).collect()),
        }
    }));
    r.unwrap_or_else(|p| Outcome::ProveFailed(format!("panic: {}", panic_msg(p))))
}

fn clone_traces(t: &Traces<CF>) -> Traces<CF> {
    let n = t.witness_trace.num_rows();
    let vals: Vec<CF> = (0..n as u32).map(|i| *t.witness_trace.get_value(WitnessId(i)).unwrap()).collect();
    Traces {
        witness_trace: WitnessTrace::new(vals),
        const_trace: t.const_trace.clone(),
        public_trace: t.public_trace.clone(),
        alu_trace: t.alu_trace.clone(),
        non_primitive_traces: t.non_primitive_traces.iter().map(|(k, v)| (k.clone(), v.boxed_clone())).collect(),
        tag_to_witness: t.tag_to_witness.clone(),
    }
}

fn p2_id() -> NpoTypeId {
    NpoTypeId::poseidon2_perm(Poseidon2Config::KOALA_BEAR_D4_W16)
}

fn p2_rows(t: &Traces<CF>) -> Result<Poseidon2Trace<F>, String> {
    t.non_primitive_trace::<Poseidon2Trace<F>>(&p2_id()).cloned().ok_or_else(|| "no poseidon2 trace".to_string())
}

fn set_p2_rows(t: &mut Traces<CF>, pt: Poseidon2Trace<F>) {
    t.non_primitive_traces.insert(p2_id(), Box::new(pt));
}

/// Witness slot of every public input, by public position.
fn public_slots(c: &Circuit<CF>) -> Vec<WitnessId> {
    let mut v: Vec<(usize, WitnessId)> = c
        .ops
        .iter()
        .filter_map(|op| match op {
            Op::Public { out, public_pos } => Some((*public_pos, *out)),
            _ => None,
        })
        .collect();
    v.sort();
    v.into_iter().map(|x| x.1).collect()
}

/// Overwrites witness slots (and the public rows bound to them). Refuses when a slot is an operand
/// of any row that is on the bus (ALU, recompose, a CTL input of a sponge row, a CTL output of any row
/// other than `allowed_out_rows`): the forgery must stay local to Merkle-row cells.
fn overwrite_slots(t: &mut Traces<CF>, set: &[(WitnessId, CF)], allowed_out_rows: &[usize]) -> Result<(), String> {
    let slots: HashSet<u32> = set.iter().map(|x| x.0.0).collect();
    for idx in &t.alu_trace.indices {
        if idx.iter().any(|w| slots.contains(&w.0)) {
            // operand c of Add/Mul rows is a dummy 0 index; a real conflict needs a used operand,
            // but slot 0 is never a path bit / root slot, so any hit is treated as non-local
            return Err("slot is an ALU operand".into());
        }
    }
    for tr in t.non_primitive_traces.values() {
        if let Some(rt) = tr.as_any().downcast_ref::<RecomposeTrace<F>>() {
            for row in &rt.operations {
                if slots.contains(&row.output_wid.0) || row.input_wids.iter().any(|w| slots.contains(&w.0)) {
                    return Err("slot is on a recompose row".into());
                }
            }
        }
    }
    let pt = p2_rows(t)?;
    for (r, row) in pt.operations.iter().enumerate() {
        if !row.merkle_path {
            for (j, c) in row.in_ctl.iter().enumerate() {
                if *c && slots.contains(&row.input_indices[j]) {
                    return Err("slot is a CTL input of a sponge row".into());
                }
            }
        }
        for (j, c) in row.out_ctl.iter().enumerate() {
            if *c && slots.contains(&row.output_indices[j]) && !allowed_out_rows.contains(&r) {
                return Err("slot is a CTL output of another row".into());
            }
        }
    }
    let n = t.witness_trace.num_rows();
    let mut vals: Vec<CF> = (0..n as u32).map(|i| *t.witness_trace.get_value(WitnessId(i)).unwrap()).collect();
    for (w, v) in set {
        vals[w.0 as usize] = *v;
        for (k, pw) in t.public_trace.index.iter().enumerate() {
            if pw == w {
                t.public_trace.values[k] = *v;
            }
        }
    }
    t.witness_trace = WitnessTrace::new(vals);
    Ok(())
}

impl CircuitSide {
    /// The honest run, returning the traces (same input order as `run`).
    fn run_traces(&self, o: &Opening) -> Result<Traces<CF>, String> {
        let mut runner = self.circuit.runner();
        let mut pubs: Vec<CF> = vec![];
        for r in &o.rows {
            pubs.extend(r.iter().map(|&v| CF::from(v)));
        }
        pubs.extend((0..self.nbits).map(|k| CF::from_bool((o.index >> k) & 1 == 1)));
        for e in &o.cap {
            pubs.extend(pack8(e));
        }
        runner.set_public_inputs(&pubs).map_err(|e| format!("{e:?}"))?;
        for (&id, s) in self.op_ids.iter().zip(&o.siblings) {
            runner.set_private_data(id, perm_private_data(self.cfg, pack8(s))).map_err(|e| format!("{e:?}"))?;
        }
        runner.run().map_err(|e| format!("run: {e:?}").chars().take(200).collect())
    }
}

/// What the verifier sees: the public table of the forged traces, decoded back into an opening claim.
fn statement(cs: &CircuitSide, t: &Traces<CF>, row_lens: &[usize], cap_len: usize, siblings: &[[F; DIG]]) -> Result<Opening, String> {
    let slots = public_slots(&cs.circuit);
    let val = |w: WitnessId| -> CF { *t.witness_trace.get_value(w).unwrap() };
    let base = |e: CF| -> Result<F, String> {
        let c = e.as_basis_coefficients_slice();
        if c[1..].iter().any(|x| *x != F::ZERO) { Err("public value not in the base field".into()) } else { Ok(c[0]) }
    };
    let mut p = 0;
    let mut rows = vec![];
    for &n in row_lens {
        let mut r = vec![];
        for _ in 0..n {
            r.push(base(val(slots[p]))?);
            p += 1;
        }
        rows.push(r);
    }
    let mut index = 0usize;
    for k in 0..cs.nbits {
        let b = base(val(slots[p]))?;
        p += 1;
        if b == F::ONE {
            index |= 1 << k;
        } else if b != F::ZERO {
            return Err("non-boolean public index bit".into());
        }
    }
    let mut cap = vec![];
    for _ in 0..cap_len {
        let mut e = [F::ZERO; DIG];
        for l in 0..DIG / D {
            let c = val(slots[p]);
            p += 1;
            e[l * D..(l + 1) * D].copy_from_slice(c.as_basis_coefficients_slice());
        }
        cap.push(e);
    }
    // the public table must say the same thing as the witness table
    for (k, w) in t.public_trace.index.iter().enumerate() {
        if t.public_trace.values[k] != val(*w) {
            return Err("public table and witness table differ".into());
        }
    }
    Ok(Opening { index, rows, salts: vec![], siblings: siblings.to_vec(), cap })
}

pub struct ForgeCtx {
    pub hist: BTreeMap<String, u64>,
    pub violations: Vec<Value>,
    pub records: Vec<Value>,
    pub evaluations: usize,
}

fn real16() -> LogPerm<16> {
    let p = default_koalabear_poseidon2_16();
    LogPerm::<16> {
        real: Some(Arc::new(move |x: [F; 16]| p.permute(x)) as Arc<dyn Fn([F; 16]) -> [F; 16] + Send + Sync>),
        log: Arc::new(Mutex::new(vec![])),
        on: Arc::new(AtomicBool::new(false)),
    }
}
fn real32() -> LogPerm<32> {
    let p = default_koalabear_poseidon2_32();
    LogPerm::<32> {
        real: Some(Arc::new(move |x: [F; 32]| p.permute(x)) as Arc<dyn Fn([F; 32]) -> [F; 32] + Send + Sync>),
        log: Arc::new(Mutex::new(vec![])),
        on: Arc::new(AtomicBool::new(false)),
    }
}

fn gen_mats(r: &mut Rng, mats: &[(usize, usize)]) -> Vec<(usize, usize, Vec<F>)> {
    mats.iter().map(|&(h, w)| (h, w, (0..h * w).map(|_| F::from_u64(r.below(P))).collect())).collect()
}

fn record(fx: &mut ForgeCtx, gid: &str, mode: &str, expect_reject: bool, native: &str, out: &Outcome, extra: Value, replay: Value) {
    fx.evaluations += 1;
    bump(&mut fx.hist, &format!("forge.{mode}.native-{}.proof-{}", if native == "ok" { "ok" } else { "reject" }, out.tag()));
    let accepted = *out == Outcome::Accepted;
    let n_ok = native == "ok";
    if fx.records.len() < 12 {
        fx.records.push(json!({"case": format!("{gid}/{mode}"), "native": native, "proof": out.tag(), "detail": out.detail(), "info": extra}));
    }
    let bad = if expect_reject { accepted && !n_ok } else { !accepted && n_ok };
    // a control whose native verdict is not what the construction intends voids the experiment
    let void = if expect_reject { n_ok } else { !n_ok };
    if void {
        bump(&mut fx.hist, &format!("forge.{mode}.void"));
        fx.violations.push(json!({"property": "C08", "kind": format!("forge-{mode}"), "class": format!("forge-experiment-void:{mode}"),
            "detail": {"native": native, "circuit": out.tag(), "case": format!("{gid}/{mode}"), "info": extra}, "replay": replay}));
    } else if bad {
        let class = if expect_reject {
            format!("malicious-prover-accepted:arity2:{mode}:native-{native}")
        } else {
            format!("honest-proof-rejected:arity2:{mode}:{}", out.tag())
        };
        bump(&mut fx.hist, &format!("violation.{class}"));
        if fx.violations.iter().filter(|v| v["class"] == class.as_str()).count() < 2 {
            fx.violations.push(json!({"property": "C08", "kind": format!("forge-{mode}"), "class": class,
                "detail": {"native": native, "circuit": format!("proof-{} {}", out.tag(), out.detail()), "case": format!("{gid}/{mode}"), "info": extra},
                "replay": replay}));
        }
    }
}

/// One batch shape: honest control, reject control, `bits` and (single root) `leaf` forgeries.
pub fn forge_group(fx: &mut ForgeCtx, gid: &str, mats: &[(usize, usize)], cap_height: usize, data_seed: u64, idx: usize, flip: usize) {
    let replay = json!({"forge": {"mats": mats.iter().map(|(h, w)| json!([h, w])).collect::<Vec<_>>(), "cap_height": cap_height,
        "data_seed": data_seed, "idx": idx, "flip": flip}});
    let mut r = Rng::new(data_seed);
    let (p16, p32) = (real16(), real32());
    let dims: Vec<Dimensions> = mats.iter().map(|&(h, w)| Dimensions { height: h, width: w }).collect();
    let max_h = mats.iter().map(|m| m.0).max().unwrap();
    let nbits = log2_ceil(max_h);
    let data = gen_mats(&mut r, mats);
    let data2 = gen_mats(&mut r, mats);
    let native = native_plain::<2, 16, 8>(p16.clone(), cap_height, false, data);
    let native2 = native_plain::<2, 16, 8>(p16.clone(), cap_height, false, data2);
    let cap_len = native.cap.len();
    let path_depth = nbits - log2_ceil(cap_len);
    let h0 = (native.open)(0);
    let row_lens: Vec<usize> = h0.rows.iter().map(Vec::len).collect();
    let cs = match build_circuit(2, false, false, &dims, &row_lens, &[], nbits, cap_len, &p16, &p32) {
        Ok(c) => c,
        Err(e) => {
            bump(&mut fx.hist, &format!("forge.setup.{e}"));
            return;
        }
    };
    let cpd = match prepare(&cs.circuit) {
        Ok(c) => c,
        Err(e) => {
            bump(&mut fx.hist, "forge.setup.prep-error");
            fx.violations.push(json!({"property": "C08", "kind": "forge-setup", "class": "forge-experiment-void:prepare",
                "detail": {"native": "-", "circuit": e, "case": gid}, "replay": replay}));
            return;
        }
    };
    let idx = idx % max_h;
    let nv = |o: &Opening| native_verdict(&(native.verify)(&dims, o));

    // ---- control 1: the honest proof verifies
    let o_idx = (native.open)(idx);
    let t_idx = match cs.run_traces(&o_idx) {
        Ok(t) => t,
        Err(e) => {
            bump(&mut fx.hist, "forge.setup.honest-run-failed");
            fx.violations.push(json!({"property": "C08", "kind": "forge-setup", "class": "forge-experiment-void:honest-run",
                "detail": {"native": nv(&o_idx), "circuit": e, "case": gid}, "replay": replay}));
            return;
        }
    };
    let out = prove_verify(&cpd, &t_idx);
    record(fx, gid, "control-honest", false, &nv(&o_idx), &out, json!({"idx": idx}), replay.clone());
    if out != Outcome::Accepted {
        return;
    }
    let merkle_rows = |t: &Traces<CF>| -> Vec<usize> {
        p2_rows(t).map(|p| p.operations.iter().enumerate().filter(|(_, r)| r.merkle_path).map(|(i, _)| i).collect()).unwrap_or_default()
    };
    let mr = merkle_rows(&t_idx);
    if path_depth == 0 || mr.is_empty() {
        bump(&mut fx.hist, "forge.skip.no-path");
        return;
    }

    // ---- control 2: a Merkle row whose output is not the committed root is rejected
    {
        let mut t = clone_traces(&t_idx);
        let mut pt = p2_rows(&t).unwrap();
        let last = *mr.last().unwrap();
        // the sibling side of the last row: the half that does not hold the chained digest
        let side = if pt.operations[last].mmcs_bit { 0 } else { 8 };
        pt.operations[last].input_values[side] += F::ONE;
        set_p2_rows(&mut t, pt);
        let mut o = o_idx.clone();
        if let Some(s) = o.siblings.last_mut() {
            s[0] += F::ONE;
        }
        let out = prove_verify(&cpd, &t);
        // expected: rejected; "accepted" here would be a violation of class ...:control-root
        record(fx, gid, "control-root", true, &nv(&o), &out, json!({"idx": idx, "row": last}), replay.clone());
    }

    // ---- forgery `bits`: open leaf j, claim index idx (same cap entry)
    let k = flip % path_depth;
    let j = idx ^ (1 << k);
    if j < max_h {
        let o_j = (native.open)(j);
        match cs.run_traces(&o_j) {
            Err(e) => bump(&mut fx.hist, &format!("forge.bits.run-failed.{}", variant(&e))),
            Ok(t_j) => {
                let mut t = clone_traces(&t_j);
                let slots = public_slots(&cs.circuit);
                let nrow: usize = row_lens.iter().sum();
                let set: Vec<(WitnessId, CF)> = (0..path_depth)
                    .filter(|b| (idx >> b) & 1 != (j >> b) & 1)
                    .map(|b| (slots[nrow + b], CF::from_bool((idx >> b) & 1 == 1)))
                    .collect();
                match overwrite_slots(&mut t, &set, &[]) {
                    Err(e) => bump(&mut fx.hist, &format!("forge.bits.nonlocal.{}", e.replace(' ', "-"))),
                    Ok(()) => match statement(&cs, &t, &row_lens, cap_len, &o_j.siblings) {
                        Err(e) => bump(&mut fx.hist, &format!("forge.bits.statement.{}", e.replace(' ', "-"))),
                        Ok(st) => {
                            let native_v = nv(&st);
                            let out = prove_verify(&cpd, &t);
                            record(fx, gid, "bits", true, &native_v, &out,
                                json!({"claimed_index": st.index, "opened_leaf": j, "cells_changed": "witness/public value of the differing path-bit slots only; Poseidon2 table = honest run of leaf j"}),
                                replay.clone());
                        }
                    },
                }
            }
        }
    }

    // ---- forgery `leaf`: row values of another tree, Merkle rows of this tree (single root only)
    if cap_len == 1 {
        let o2 = (native2.open)(idx);
        match cs.run_traces(&o2) {
            Err(e) => bump(&mut fx.hist, &format!("forge.leaf.run-failed.{}", variant(&e))),
            Ok(t2) => {
                let mut t = clone_traces(&t2);
                let slots = public_slots(&cs.circuit);
                let nrow: usize = row_lens.iter().sum();
                let root = pack8(&native.cap[0]);
                let set: Vec<(WitnessId, CF)> = (0..DIG / D).map(|l| (slots[nrow + nbits + l], root[l])).collect();
                let last = *mr.last().unwrap();
                match overwrite_slots(&mut t, &set, &[last]) {
                    Err(e) => bump(&mut fx.hist, &format!("forge.leaf.nonlocal.{}", e.replace(' ', "-"))),
                    Ok(()) => {
                        let a = p2_rows(&t_idx).unwrap();
                        let mut pt = p2_rows(&t).unwrap();
                        for &ri in &mr {
                            pt.operations[ri].input_values = a.operations[ri].input_values.clone();
                            pt.operations[ri].mmcs_bit = a.operations[ri].mmcs_bit;
                            pt.operations[ri].mmcs_index_sum = a.operations[ri].mmcs_index_sum;
                        }
                        set_p2_rows(&mut t, pt);
                        match statement(&cs, &t, &row_lens, cap_len, &o_idx.siblings) {
                            Err(e) => bump(&mut fx.hist, &format!("forge.leaf.statement.{}", e.replace(' ', "-"))),
                            Ok(st) => {
                                let native_v = nv(&st);
                                let out = prove_verify(&cpd, &t);
                                record(fx, gid, "leaf", true, &native_v, &out,
                                    json!({"claimed_index": st.index, "cells_changed": "input cells of the Merkle rows (taken from the honest opening of the committed tree); every other table = honest run on another tree's row"}),
                                    replay.clone());
                            }
                        }
                    }
                }
            }
        }
    }
}

/// The literal accumulator hypothesis, on a hand-wired path that exposes `mmcs_index_sum`.
pub fn forge_acc(fx: &mut ForgeCtx, gid: &str, k: usize, data_seed: u64, idx: usize, j: usize) {
    let replay = json!({"forge_acc": {"k": k, "data_seed": data_seed, "idx": idx, "j": j}});
    let mut r = Rng::new(data_seed);
    let (p16, _p32) = (real16(), real32());
    let h = 1usize << k;
    let mats = [(h, 8usize)];
    let dims = vec![Dimensions { height: h, width: 8 }];
    let native = native_plain::<2, 16, 8>(p16.clone(), 0, false, gen_mats(&mut r, &mats));
    let (idx, j) = (idx % h, j % h);
    let cfg = Poseidon2Config::KOALA_BEAR_D4_W16;

    let mut b = CircuitBuilder::<CF>::new();
    b.enable_poseidon2_perm::<KoalaBearD4Width16, _>(generate_poseidon2_trace::<CF, KoalaBearD4Width16>, p16.clone());
    b.enable_recompose::<F>(generate_recompose_trace::<F, CF>);
    let leaf: Vec<Target> = (0..2).map(|_| b.public_input()).collect();
    let bits: Vec<Target> = (0..k).map(|_| b.public_input()).collect();
    let acc = b.public_input();
    let root: Vec<Target> = (0..2).map(|_| b.public_input()).collect();
    let mut op_ids = vec![];
    let mut last_out = vec![];
    for i in 0..k {
        let mut inputs = vec![None; 4];
        if i == 0 {
            inputs[0] = Some(leaf[0]);
            inputs[1] = Some(leaf[1]);
        }
        let res = b.add_perm(PermConfig::from(cfg), &PermCall {
            new_start: i == 0,
            merkle_path: true,
            mmcs_bit: Some(bits[i]),
            mmcs_bit2: None,
            inputs,
            out_ctl: vec![i == k - 1; 2],
            return_all_outputs: false,
            mmcs_index_sum: if i == k - 1 { Some(acc) } else { None },
        });
        match res {
            Ok((id, outs)) => {
                op_ids.push(id);
                last_out = outs;
            }
            Err(e) => {
                bump(&mut fx.hist, &format!("forge.acc.build-err.{}", variant(&format!("{e:?}"))));
                return;
            }
        }
    }
    for l in 0..2 {
        match last_out.get(l).copied().flatten() {
            Some(o) => b.connect(o, root[l]),
            None => {
                bump(&mut fx.hist, "forge.acc.no-output");
                return;
            }
        }
    }
    let circuit = match b.build() {
        Ok(c) => c,
        Err(e) => {
            bump(&mut fx.hist, &format!("forge.acc.build-err.{}", variant(&format!("{e:?}"))));
            return;
        }
    };
    let cpd = match prepare(&circuit) {
        Ok(c) => c,
        Err(e) => {
            fx.violations.push(json!({"property": "C08", "kind": "forge-setup", "class": "forge-experiment-void:prepare-acc",
                "detail": {"native": "-", "circuit": e, "case": gid}, "replay": replay}));
            return;
        }
    };
    // accumulator of the honest layout: first row 0, then acc = 2 acc + bit (rows 1..k-1)
    let acc_of = |i: usize| -> u64 { (1..k).fold(0u64, |a, t| 2 * a + ((i >> t) & 1) as u64) };
    let hasher = PaddingFreeSponge::<LogPerm<16>, 16, 8, DIG>::new(p16.clone());
    let run = |i: usize, claimed_acc: u64| -> Result<(Traces<CF>, Opening), String> {
        use p3_symmetric::CryptographicHasher;
        let o = (native.open)(i);
        let digest: [F; DIG] = hasher.hash_iter(o.rows[0].iter().copied());
        let mut pubs: Vec<CF> = pack8(&digest);
        pubs.extend((0..k).map(|t| CF::from_bool((i >> t) & 1 == 1)));
        pubs.push(CF::from(F::from_u64(claimed_acc)));
        pubs.extend(pack8(&native.cap[0]));
        let mut runner = circuit.runner();
        runner.set_public_inputs(&pubs).map_err(|e| format!("{e:?}"))?;
        for (&id, s) in op_ids.iter().zip(&o.siblings) {
            runner.set_private_data(id, perm_private_data(cfg, pack8(s))).map_err(|e| format!("{e:?}"))?;
        }
        let t = runner.run().map_err(|e| format!("run: {e:?}").chars().take(200).collect::<String>())?;
        Ok((t, o))
    };
    let nv = |o: &Opening| native_verdict(&(native.verify)(&dims, o));
    // control: honest
    let (t_idx, o_idx) = match run(idx, acc_of(idx)) {
        Ok(x) => x,
        Err(e) => {
            fx.violations.push(json!({"property": "C08", "kind": "forge-setup", "class": "forge-experiment-void:honest-run-acc",
                "detail": {"native": "-", "circuit": e, "case": gid}, "replay": replay}));
            return;
        }
    };
    let out = prove_verify(&cpd, &t_idx);
    record(fx, gid, "control-honest-acc", false, &nv(&o_idx), &out, json!({"idx": idx, "acc": acc_of(idx)}), replay.clone());
    if out != Outcome::Accepted || acc_of(idx) == acc_of(j) {
        return;
    }
    // control: claiming another accumulator without touching the first row is rejected (the lookup works)
    let (t_j, o_j) = match run(j, acc_of(j)) {
        Ok(x) => x,
        Err(e) => {
            bump(&mut fx.hist, &format!("forge.acc.run-failed.{}", variant(&e)));
            return;
        }
    };
    let slots = public_slots(&circuit);
    let acc_slot = slots[2 + k];
    let claimed = CF::from(F::from_u64(acc_of(idx)));
    let mut claim = o_j.clone();
    claim.index = idx;
    {
        let mut t = clone_traces(&t_j);
        let last = k - 1;
        if overwrite_slots(&mut t, &[(acc_slot, claimed)], &[last]).is_ok() {
            let out = prove_verify(&cpd, &t);
            record(fx, gid, "control-acc-claim-only", true, &nv(&claim), &out, json!({"idx": idx, "j": j}), replay.clone());
        }
    }
    // forgery: first-row accumulator S0 = (s_idx - s_j) / 2^(k-1)
    {
        let mut t = clone_traces(&t_j);
        let last = k - 1;
        if let Err(e) = overwrite_slots(&mut t, &[(acc_slot, claimed)], &[last]) {
            bump(&mut fx.hist, &format!("forge.acc.nonlocal.{}", e.replace(' ', "-")));
            return;
        }
        let mut pt = p2_rows(&t).unwrap();
        let two_pow = F::from_u64(1u64 << (k - 1));
        let s0 = (F::from_u64(acc_of(idx)) - F::from_u64(acc_of(j))) * two_pow.inverse();
        pt.operations[0].mmcs_index_sum = s0;
        set_p2_rows(&mut t, pt);
        let out = prove_verify(&cpd, &t);
        record(fx, gid, "acc", true, &nv(&claim), &out,
            json!({"claimed_acc": acc_of(idx), "path_acc": acc_of(j), "first_row_acc": s0.as_canonical_u64(), "claimed_index": idx, "opened_leaf": j,
                   "cells_changed": "mmcs_index_sum of the new_start Merkle row; witness/public value of the claimed accumulator"}),
            replay.clone());
    }
    // forgery `acc-mid`: the accumulator cell of an INTERMEDIATE continuation row (no index CTL on it) is
    // prover-chosen, later rows follow the recurrence from there, the exposed value is the claimed one.
    // The trace generator recomputes continuation rows itself, so the cell is injected by marking the
    // row `new_start` in the *trace* operations only (the committed preprocessed columns, which the
    // prover swaps in, still say `new_start = 0`): the generator then copies the requested value into
    // that row and continues `acc = 2 acc + bit` below it. Permutation inputs / bits are untouched.
    if k >= 3 {
        let r_mid = 1 + (data_seed as usize) % (k - 2); // 1 ..= k-2: a continuation row, not the exposing one
        let pow = F::from_u64(1u64 << (k - 1 - r_mid));
        // honest accumulator after row r, and the tail contributed by the rows below r
        let acc_upto = |i: usize, r: usize| -> u64 { (1..=r).fold(0u64, |a, t| 2 * a + ((i >> t) & 1) as u64) };
        let tail = |i: usize, r: usize| -> u64 { (r + 1..k).fold(0u64, |a, t| 2 * a + ((i >> t) & 1) as u64) };
        // neutrality control: same injection route, honest value => the main trace is the honest one
        {
            let mut t = clone_traces(&t_j);
            let mut pt = p2_rows(&t).unwrap();
            pt.operations[r_mid].new_start = true;
            pt.operations[r_mid].mmcs_index_sum = F::from_u64(acc_upto(j, r_mid));
            set_p2_rows(&mut t, pt);
            let out = prove_verify(&cpd, &t);
            record(fx, gid, "control-acc-mid-neutral", false, &nv(&o_j), &out, json!({"j": j, "row": r_mid}), replay.clone());
            if out != Outcome::Accepted {
                return;
            }
        }
        let mut t = clone_traces(&t_j);
        if let Err(e) = overwrite_slots(&mut t, &[(acc_slot, claimed)], &[k - 1]) {
            bump(&mut fx.hist, &format!("forge.acc-mid.nonlocal.{}", e.replace(' ', "-")));
            return;
        }
        let x = (F::from_u64(acc_of(idx)) - F::from_u64(tail(j, r_mid))) * pow.inverse();
        if x == F::from_u64(acc_upto(j, r_mid)) {
            bump(&mut fx.hist, "forge.acc-mid.skip.same-value");
            return;
        }
        let mut pt = p2_rows(&t).unwrap();
        pt.operations[r_mid].new_start = true;
        pt.operations[r_mid].mmcs_index_sum = x;
        set_p2_rows(&mut t, pt);
        let out = prove_verify(&cpd, &t);
        record(fx, gid, "acc-mid", true, &nv(&claim), &out,
            json!({"claimed_acc": acc_of(idx), "path_acc": acc_of(j), "row": r_mid, "row_acc": x.as_canonical_u64(),
                   "honest_row_acc": acc_upto(j, r_mid), "claimed_index": idx, "opened_leaf": j,
                   "cells_changed": "mmcs_index_sum of one intermediate continuation row (and, by the recurrence, of the rows below it); witness/public value of the claimed accumulator"}),
            replay.clone());
    }
}

/// Entry point: `n` generated groups + the corpus-style fixed ones.
pub fn run(seed: u64, n: usize, fixed: &[Value]) -> ForgeCtx {
    let mut fx = ForgeCtx { hist: BTreeMap::new(), violations: vec![], records: vec![], evaluations: 0 };
    for (i, v) in fixed.iter().enumerate() {
        if let Some(f) = v.get("forge") {
            let mats: Vec<(usize, usize)> = f["mats"].as_array().map(|a| a.iter().filter_map(|m| Some((m[0].as_u64()? as usize, m[1].as_u64()? as usize))).collect()).unwrap_or_default();
            if mats.is_empty() {
                continue;
            }
            forge_group(&mut fx, &format!("forge-fixed{i}"), &mats, f["cap_height"].as_u64().unwrap_or(0) as usize, f["data_seed"].as_u64().unwrap_or(1),
                f["idx"].as_u64().unwrap_or(0) as usize, f["flip"].as_u64().unwrap_or(0) as usize);
        }
        if let Some(f) = v.get("forge_acc") {
            forge_acc(&mut fx, &format!("forge-fixed{i}"), f["k"].as_u64().unwrap_or(3) as usize, f["data_seed"].as_u64().unwrap_or(1),
                f["idx"].as_u64().unwrap_or(0) as usize, f["j"].as_u64().unwrap_or(0) as usize);
        }
    }
    let mut rng = Rng::new(seed ^ 0xF08C_08F0);
    for g in 0..n {
        let mut r = rng.fork();
        let l = r.range(1, 5);
        let max_h = 1usize << l;
        let cap_height = if g % 2 == 0 { 0 } else { r.usize(l.min(2) + 1) };
        let nm = r.range(1, 3);
        let mut mats = vec![];
        for m in 0..nm {
            let h = if m == 0 { max_h } else { ((max_h - 1) >> r.usize(l + 1)) + 1 };
            mats.push((h, *r.pick(&[1usize, 3, 8, 9, 17])));
        }
        let ds = r.next();
        let idx = r.usize(max_h);
        let flip = r.usize(8);
        forge_group(&mut fx, &format!("forge{seed}.{g}"), &mats, cap_height, ds, idx, flip);
        if g % 2 == 0 {
            let k = r.range(2, 5);
            let idx = r.usize(1 << k);
            let j = idx ^ (2 + 2 * r.usize((1 << (k - 1)) - 1));
            forge_acc(&mut fx, &format!("forge-acc{seed}.{g}"), k, ds, idx, j);
        }
    }
    fx
}
