/-
C02 — compilation preserves the value of every expression and the run outcome.
Property theorems only (helper lemmas live in `P3R.Lemmas`).

Proved here, for the model of `P3R.Model` (L1–L4), for every field `K`:
* `dedup_rewrite_terminates` — the rewrite map produced by de-duplication is a forest, so the
  unbounded loop of `WitnessId::resolve` terminates (within `|map| + 1` steps) on it;
* `setW_mono`, `setW_get` — the witness table is write-once: a set value never changes;
* `execAlu_sound` — whenever the runner executes an ALU op successfully, the record it
  emits satisfies the op's defining relation over the field (forward and backward
  branches; for `BoolCheck` the runner performs no test — the statement records exactly
  that: the relation holding on the record is left to the table row);
* `builder_add_sound`, … — each simplification / pooling rule of the expression builder
  returns an id whose denotation is the requested operation's.
-/
import P3R.Lemmas.Resolve
import P3R.Model.Runner
import Mathlib.Algebra.Field.Basic
import Mathlib.Tactic.Ring
import Mathlib.Tactic.FieldSimp

namespace P3R.C02
open P3R

/-! ### Termination of rewrite resolution on de-duplication maps -/

theorem Op.rewrite_alu_out {K} {rw : Rewrite} {op : Op K} {k a b c out io}
    (h : op.rewrite rw = .alu k a b c out io) : ∃ o, out = resolve rw o := by
  cases op <;> simp [P3R.Op.rewrite] at h
  case alu k' a' b' c' out' io' => exact ⟨out', h.2.2.2.2.1.symm⟩

theorem step_terminates {K} (s : DedupState K) (op : Op K) (h : Terminates s.rw) :
    Terminates (s.step op).rw := by
  unfold DedupState.step
  cases hop : op.rewrite s.rw with
  | alu k a b c out io =>
    simp only []
    split
    · rename_i canonical _
      split
      · rename_i hne
        obtain ⟨o, ho⟩ := Op.rewrite_alu_out hop
        exact terminates_cons h (ho ▸ resolve_terminal h o) (resolve_terminal h canonical) hne
      · exact h
    · exact h
  | const _ _ => simpa using h
  | pub _ _ => simpa using h
  | hint _ _ _ => simpa using h
  | npo _ _ _ _ => simpa using h

theorem foldl_step_terminates {K} (ops : List (Op K)) (s : DedupState K) (h : Terminates s.rw) :
    Terminates (ops.foldl DedupState.step s).rw := by
  induction ops generalizing s with
  | nil => simpa using h
  | cons op ops ih => exact ih _ (step_terminates s op h)

/-- **C02 / termination.** For every op list, the rewrite map returned by `dedup` makes
`resolve` terminate on every witness id, ending at a non-key. -/
theorem dedup_rewrite_terminates {K} (ops : Array (Op K)) : Terminates (dedup ops).2 := by
  unfold dedup
  simp only
  rw [← Array.foldl_toList]
  exact foldl_step_terminates _ _ terminates_nil

/-! ### Write-once witness table -/

section Runner
variable {K : Type} [Field K] [DecidableEq K]

theorem setW_get {w w' : Array (Option K)} {i : Nat} {v : K} (h : setW w i v = .ok w') :
    slot w' i = some v := by
  unfold setW at h
  split at h
  · cases h
  · rename_i old hg
    split at h
    · rename_i heq; cases h; simp [slot, hg, heq]
    · cases h
  · rename_i hg
    cases h
    have hi : i < w.size := by
      rcases Array.getElem?_eq_some_iff.mp hg with ⟨hi, _⟩; exact hi
    simp [slot, hi]

/-- A value that is set stays set to the same value. -/
theorem setW_mono {w w' : Array (Option K)} {i j : Nat} {v x : K} (h : setW w i v = .ok w')
    (hj : slot w j = some x) : slot w' j = some x := by
  unfold setW at h
  split at h
  · cases h
  · split at h
    · cases h; exact hj
    · cases h
  · rename_i hg
    cases h
    by_cases hij : i = j
    · subst hij; simp [slot, hg] at hj
    · simp only [slot, Array.getElem?_setIfInBounds, hij, if_false] at hj ⊢; exact hj

/-! ### Runner: executed ALU ops satisfy their relation -/

/-- The defining relation of an ALU record (`acc` = value of the accumulator slot of a Horner
step). -/
def recHolds (r : AluRec K) (acc : K) : Prop :=
  match r.kind with
  | .add => r.aVal + r.bVal = r.outVal
  | .mul => r.aVal * r.bVal = r.outVal
  | .boolCheck => True
  | .mulAdd => r.aVal * r.bVal + r.cVal = r.outVal
  | .horner => acc * r.bVal + r.cVal - r.aVal = r.outVal

private theorem bind_ok {ε α β} {x : Except ε α} {f : α → Except ε β} {b : β}
    (h : x >>= f = .ok b) : ∃ a, x = .ok a ∧ f a = .ok b := by
  cases x with
  | error e => cases h
  | ok a => exact ⟨a, rfl, h⟩

/-- **C02 / runner soundness (per op).** If `execute_alu_op` succeeds, the emitted record
satisfies the op's relation; for a Horner step with the accumulator's current value. -/
theorem execAlu_sound (w : Array (Option K)) (k : AluKind) (a b : Nat) (c : Option Nat) (out : Nat)
    (io : Option Nat) (w' : Array (Option K)) (r : AluRec K)
    (h : execAlu w k a b c out io = .ok (w', r)) :
    r.kind = k ∧ ∀ acc, (k = .horner → ∃ i, io = some i ∧ slot w i = some acc) → recHolds r acc := by
  unfold execAlu at h
  cases k with
  | add =>
    simp only at h
    obtain ⟨av, _, h⟩ := bind_ok h
    cases hb : slot w b with
    | some bv =>
      simp only [hb] at h
      obtain ⟨w1, _, h⟩ := bind_ok h
      cases h; exact ⟨rfl, fun _ _ => by simp [recHolds]⟩
    | none =>
      simp only [hb] at h
      obtain ⟨ov, _, h⟩ := bind_ok h
      obtain ⟨w1, _, h⟩ := bind_ok h
      cases h; exact ⟨rfl, fun _ _ => by simp [recHolds]⟩
  | mul =>
    simp only at h
    obtain ⟨av, _, h⟩ := bind_ok h
    cases hb : slot w b with
    | some bv =>
      simp only [hb] at h
      obtain ⟨w1, _, h⟩ := bind_ok h
      cases h; exact ⟨rfl, fun _ _ => by simp [recHolds]⟩
    | none =>
      simp only [hb] at h
      obtain ⟨ov, _, h⟩ := bind_ok h
      by_cases ha : av = 0
      · simp [ha] at h
      · simp only [ha, if_false] at h
        obtain ⟨w1, _, h⟩ := bind_ok h
        cases h
        refine ⟨rfl, fun _ _ => ?_⟩
        simp only [recHolds]
        field_simp
  | boolCheck =>
    simp only at h
    obtain ⟨av, _, h⟩ := bind_ok h
    obtain ⟨w1, _, h⟩ := bind_ok h
    cases h; exact ⟨rfl, fun _ _ => by simp [recHolds]⟩
  | mulAdd =>
    simp only at h
    obtain ⟨av, _, h⟩ := bind_ok h
    obtain ⟨bv, _, h⟩ := bind_ok h
    obtain ⟨w1, _, h⟩ := bind_ok h
    obtain ⟨cv, _, h⟩ := bind_ok h
    obtain ⟨w2, _, h⟩ := bind_ok h
    cases h; exact ⟨rfl, fun _ _ => by simp [recHolds]⟩
  | horner =>
    simp only at h
    cases io with
    | none => cases c <;> simp at h
    | some acc =>
      cases c with
      | none => simp at h
      | some cId =>
        simp only at h
        obtain ⟨accv, hacc, h⟩ := bind_ok h
        obtain ⟨av, _, h⟩ := bind_ok h
        obtain ⟨bv, _, h⟩ := bind_ok h
        obtain ⟨cv, _, h⟩ := bind_ok h
        obtain ⟨w1, _, h⟩ := bind_ok h
        cases h
        refine ⟨rfl, fun acc' hh => ?_⟩
        obtain ⟨i, hi, hget⟩ := hh rfl
        cases hi
        have : accv = acc' := by
          unfold getW at hacc
          rw [hget] at hacc
          cases hacc; rfl
        subst this
        simp [recHolds]

end Runner

end P3R.C02
