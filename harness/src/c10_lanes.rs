//! C10, lane-packed non-primitive tables: `n` recompose operations over BabyBear^4 packed `lanes` per row
//! (`TablePacking::with_npo_lanes`), for lane counts that do and do not divide `n`.
//!  * `npolanes.cases` / `npolanes.impl`: the main trace written by the real `RecomposeAir::trace_to_matrix`
//!    against `Model/NpoLanes.laneMatrix` (driver command `lanemat`), line by line;
//!  * `npolanes.outcomes`: the honest circuit is built, run, proved and verified (completeness: must be accepted).

use std::io::Write;
use std::panic::{AssertUnwindSafe, catch_unwind};

use p3_baby_bear::BabyBear;
use p3_batch_stark::ProverData;
use p3_circuit::CircuitBuilder;
use p3_circuit::ops::recompose::RecomposeCircuitRow;
use p3_circuit::ops::{NpoTypeId, generate_recompose_trace};
use p3_circuit::WitnessId;
use p3_circuit_prover::air::RecomposeAir;
use p3_circuit_prover::batch_stark_prover::recompose_air_builders;
use p3_circuit_prover::common::{NpoPreprocessor, get_airs_and_degrees_with_prep};
use p3_circuit_prover::config::{self, BabyBearConfig};
use p3_circuit_prover::{BatchStarkProver, CircuitProverData, ConstraintProfile, RecomposePreprocessor, TablePacking};
use p3_field::extension::BinomialExtensionField;
use p3_field::{BasedVectorSpace, PrimeCharacteristicRing, PrimeField64};
use p3_matrix::Matrix;

use crate::rng::Rng;

type F = BabyBear;
const D: usize = 4;
type EF = BinomialExtensionField<F, D>;

fn round_trip(vals: &[Vec<u64>], lanes: usize, min_height: usize, extra_alu: usize) -> String {
    let r = catch_unwind(AssertUnwindSafe(|| -> Result<(), String> {
        let mut builder = CircuitBuilder::<EF>::new();
        builder.enable_recompose::<F>(generate_recompose_trace::<F, EF>);
        let mut public_values: Vec<EF> = Vec::new();
        let mut outs = vec![];
        for cv in vals {
            let coeff_vals: Vec<F> = cv.iter().map(|&c| F::from_u64(c)).collect();
            let coeffs: Vec<_> = (0..D).map(|_| builder.public_input()).collect();
            let expected = builder.public_input();
            let out = builder.recompose_base_coeffs_to_ext::<F>(&coeffs).map_err(|e| format!("builder:{e:?}"))?;
            let diff = builder.sub(out, expected);
            builder.assert_zero(diff);
            outs.push(out);
            public_values.extend(coeff_vals.iter().map(|&c| EF::from(c)));
            public_values.push(EF::from_basis_coefficients_slice(&coeff_vals).unwrap());
        }
        // a few more readers of the recomposed values
        for k in 0..extra_alu.min(outs.len()) {
            let m = builder.mul(outs[k], outs[(k + 1) % outs.len()]);
            let e = builder.public_input();
            builder.connect(m, e);
            let a = EF::from_basis_coefficients_slice(&vals[k].iter().map(|&c| F::from_u64(c)).collect::<Vec<_>>()).unwrap();
            let b = EF::from_basis_coefficients_slice(&vals[(k + 1) % outs.len()].iter().map(|&c| F::from_u64(c)).collect::<Vec<_>>()).unwrap();
            public_values.push(a * b);
        }
        let circuit = builder.build().map_err(|e| format!("build:{e:?}"))?;
        let mut runner = circuit.runner();
        runner.set_public_inputs(&public_values).map_err(|e| format!("set_public_inputs:{e:?}"))?;
        let traces = runner.run().map_err(|e| format!("run:{e:?}"))?;
        let packing = TablePacking::new(1, 1).with_npo_lanes(NpoTypeId::recompose(), lanes).with_min_trace_height(min_height);
        let sc = config::baby_bear();
        let npo_prep: Vec<Box<dyn NpoPreprocessor<F>>> = vec![Box::new(RecomposePreprocessor::default())];
        let air_builders = recompose_air_builders::<BabyBearConfig, D>(lanes, false);
        let (ad, prim, nonprim) = get_airs_and_degrees_with_prep::<BabyBearConfig, _, D>(&circuit, &packing, &npo_prep, &air_builders, ConstraintProfile::Standard)
            .map_err(|e| format!("prep:{e:?}"))?;
        let (airs, degrees): (Vec<_>, Vec<usize>) = ad.into_iter().unzip();
        let pd = ProverData::from_airs_and_degrees(&sc, &airs, &degrees);
        let cpd = CircuitProverData::new(pd, prim, nonprim);
        let mut prover = BatchStarkProver::new(sc).with_table_packing(packing);
        prover.register_recompose_table::<D>(false);
        let proof = prover.prove_all_tables(&traces, &cpd).map_err(|e| format!("prove-failed:{e:?}"))?;
        let entry = proof.non_primitives.iter().find(|e| e.op_type == NpoTypeId::recompose()).ok_or("no-recompose-table")?;
        if entry.rows != vals.len() || entry.lanes != lanes {
            return Err(format!("table-metadata rows={} lanes={}", entry.rows, entry.lanes));
        }
        prover.verify_all_tables::<EF>(&proof).map_err(|e| format!("verify-failed:{e:?}"))
    }));
    match r {
        Ok(Ok(())) => "accepted".into(),
        Ok(Err(e)) => e.chars().take(160).collect::<String>().replace('\n', " "),
        Err(p) => {
            let m = p.downcast_ref::<String>().cloned().or_else(|| p.downcast_ref::<&str>().map(|s| s.to_string())).unwrap_or_default();
            format!("prove-failed:panic:{}", m.chars().take(140).collect::<String>().replace('\n', " "))
        }
    }
}

pub fn main(args: &crate::Args) {
    let seed = args.u64("seed", 1);
    let ncases = args.u64("cases", 40) as usize;
    let nprove = args.u64("prove", 12) as usize;
    let out = args.str("out", "/tmp/p3r");
    std::fs::create_dir_all(&out).unwrap();
    let mut fc = std::fs::File::create(format!("{out}/npolanes.cases")).unwrap();
    let mut fi = std::fs::File::create(format!("{out}/npolanes.impl")).unwrap();
    let mut fo = std::fs::File::create(format!("{out}/npolanes.outcomes")).unwrap();
    let mut r = Rng::new(seed ^ 0x1a9e5);
    std::panic::set_hook(Box::new(|_| {}));
    // pinned shapes first: lanes dividing / not dividing the op count, a single op in a wide row
    let pinned: [(usize, usize, usize); 8] = [(3, 2, 1), (5, 4, 1), (1, 2, 1), (4, 2, 1), (7, 3, 1), (3, 2, 16), (2, 4, 8), (6, 3, 1)];
    for k in 0..ncases {
        let (n, lanes, minh) = if k < pinned.len() { pinned[k] } else { (1 + r.usize(9), 1 + r.usize(5), [1usize, 1, 8, 16, 3, 24][r.usize(6)]) };
        let vals: Vec<Vec<u64>> = (0..n).map(|_| (0..D).map(|_| 1 + r.below(2_000_000_000)).collect()).collect();
        // (1) the real main trace
        let rows: Vec<RecomposeCircuitRow<F>> = vals
            .iter()
            .enumerate()
            .map(|(i, v)| RecomposeCircuitRow { input_wids: (0..D).map(|j| WitnessId((i * 8 + j) as u32)).collect(), output_wid: WitnessId((i * 8 + 7) as u32), values: v.iter().map(|&c| F::from_u64(c)).collect() })
            .collect();
        let flat: Vec<String> = vals.iter().flatten().map(|v| v.to_string()).collect();
        writeln!(fc, "lanemat {lanes} {D} | {}", flat.join(" ")).unwrap();
        match catch_unwind(AssertUnwindSafe(|| RecomposeAir::<F, D>::trace_to_matrix(&rows, lanes))) {
            Ok(m) => {
                writeln!(fi, "h {}", m.height()).unwrap();
                for rr in 0..m.height() {
                    let row: Vec<String> = m.row_slice(rr).unwrap().iter().map(|x| x.as_canonical_u64().to_string()).collect();
                    writeln!(fi, "r {}", row.join(" ")).unwrap();
                }
            }
            Err(_) => writeln!(fi, "panic").unwrap(),
        }
        // (2) completeness through the real prover
        if k < nprove {
            let extra = r.usize(3);
            let o = round_trip(&vals, lanes, minh, extra);
            writeln!(fo, "case {k} n={n} lanes={lanes} minh={minh} extra={extra} vals={} -> {o}", flat.join(",")).unwrap();
        }
    }
    println!("npolanes: cases={ncases} proved={}", nprove.min(ncases));
}
