/-
Helper lemmas for C01 (`P3R.Props.C01`): counters vs `zipIdx`, the per-round equalities between
the circuit's explicit observation loops and the native "observe every round / matrix / point".
-/
import P3R.Model.VerifierScript

namespace P3R.VerifierScript

/-- A running counter is `zipIdx`. -/
theorem numberFrom_eq {α β : Type} (f : α → Nat → List β) (l : List α) (k : Nat) :
    numberFrom k l f = (l.zipIdx k).flatMap (fun ai => f ai.1 ai.2) := by
  induction l generalizing k with
  | nil => simp [numberFrom]
  | cons a t ih => simp [numberFrom, ih, List.zipIdx_cons]

/-- A loop body that ignores the counter. -/
theorem numberFrom_ignore {α β : Type} (g : α → List β) (l : List α) (k : Nat) :
    numberFrom k l (fun a _ => g a) = l.flatMap g := by
  induction l generalizing k with
  | nil => simp [numberFrom]
  | cons a t ih => simp [numberFrom, ih]

/-- Numbering an already numbered list (from the same start) repeats the index. -/
theorem zipIdx_zipIdx {α : Type} (l : List α) (k : Nat) :
    (l.zipIdx k).zipIdx k = (l.zipIdx k).map (fun xi => (xi, xi.2)) := by
  induction l generalizing k with
  | nil => simp
  | cons a t ih =>
    simp only [List.zipIdx_cons, List.map_cons]
    rw [ih (k + 1)]

theorem flatMap_zipIdx_ignore {α β : Type} (g : α → List β) (l : List α) (k : Nat) :
    (l.zipIdx k).flatMap (fun ai => g ai.1) = l.flatMap g := by
  induction l generalizing k with
  | nil => simp
  | cons a t ih => simp [List.zipIdx_cons, ih]

theorem filterMap_ite {α β : Type} (p : α → Bool) (f : α → β) (l : List α) :
    l.filterMap (fun a => if p a then some (f a) else none) = (l.filter p).map f := by
  induction l with
  | nil => simp
  | cons a t ih =>
    by_cases h : p a <;> simp [List.filterMap_cons, List.filter_cons, h, ih]

/-- Observation of a merged round whose matrices are `l.map g`. -/
theorem observeRound_merge_map {α : Type} (nrc ri : Nat) (com : Name) (l : List α) (g : α → Mat) :
    observeRound (mergeRound nrc ⟨com, l.map g⟩ ri)
      = l.zipIdx.flatMap (fun ai => observeMat (mergeMat nrc ri (g ai.1) ai.2)) := by
  simp [observeRound, mergeRound, List.zipIdx_map, List.flatMap_map, Function.comp_def]

theorem observeRound_map {α : Type} (com : Name) (l : List α) (g : α → Mat) :
    observeRound ⟨com, l.map g⟩ = l.flatMap (fun a => observeMat (g a)) := by
  simp [observeRound, List.flatMap_map, Function.comp_def]

/-- one opening point -/
theorem observeMat_merge_one (nrc ri mi ls : Nat) (p : Pt) (vs : List Name) :
    observeMat (mergeMat nrc ri ⟨ls, [⟨p, vs⟩]⟩ mi)
      = vs.map Ev.obs ++ (friRandNs nrc ri mi 0).map Ev.obs := by
  simp [observeMat, mergeMat, mergeOpening]

/-- two opening points -/
theorem observeMat_merge_two (nrc ri mi ls : Nat) (p q : Pt) (vs ws : List Name) :
    observeMat (mergeMat nrc ri ⟨ls, [⟨p, vs⟩, ⟨q, ws⟩]⟩ mi)
      = (vs.map Ev.obs ++ (friRandNs nrc ri mi 0).map Ev.obs)
        ++ (ws.map Ev.obs ++ (friRandNs nrc ri mi 1).map Ev.obs) := by
  simp [observeMat, mergeMat, mergeOpening]

end P3R.VerifierScript
