/-
C03 — the hypothesis `fuseInputOk` of the total fusion theorem is what lowering emits.

`lower_shape`: every op list `lower` returns satisfies `fuseInputOk` (lowering builds plain
`Add` / `Mul` ops only through `Op::add` / `Op::mul`, which set no `intermediate_out`).
With `dedup_preserves_shape` and `fuse_sound_total` this discharges the hypothesis for the whole
pipeline: `compile_fusion_total`.
-/
import P3R.Props.C03FusionTotal
import P3R.Props.C03Chain

namespace P3R.C03
open P3R

variable {K : Type}

/-- Invariant of the lowering state. -/
def ShapeOk (s : LState K) : Prop := ∀ e ∈ s.ops.toList, fusableShape e = true

theorem allocWitness_ops (s : LState K) (e : Nat) : (s.allocWitness e).1.ops = s.ops := by
  unfold LState.allocWitness
  split
  · dsimp only; split <;> rfl
  · rfl

theorem ShapeOk.alloc {s : LState K} (h : ShapeOk s) (e : Nat) : ShapeOk (s.allocWitness e).1 := by
  unfold ShapeOk; rw [allocWitness_ops]; exact h

theorem ShapeOk.setW {s : LState K} (h : ShapeOk s) (e w : Nat) : ShapeOk (s.setW e w) := h

theorem ShapeOk.push {s : LState K} (h : ShapeOk s) (op : Op K) (hop : fusableShape op = true) :
    ShapeOk (s.pushOp op) := by
  intro e he
  simp only [LState.pushOp, Array.toList_push, List.mem_append, List.mem_cons, List.not_mem_nil,
    or_false] at he
  rcases he with he | rfl
  · exact h e he
  · exact hop

theorem foldlM_inv {α β} (P : β → Prop) (f : β → α → Except LowerErr β) (l : List α)
    (hf : ∀ s a s', P s → f s a = .ok s' → P s') (s s' : β) (hs : P s)
    (h : l.foldlM f s = .ok s') : P s' := by
  induction l generalizing s with
  | nil => simp [List.foldlM, pure, Except.pure] at h; subst h; exact hs
  | cons a l ih =>
    simp only [List.foldlM_cons, bind, Except.bind] at h
    cases hfa : f s a with
    | error e => rw [hfa] at h; simp at h
    | ok s1 => rw [hfa] at h; exact ih s1 (hf s a s1 hs hfa) h

theorem forNodes_inv [Neg K] (P : LState K → Prop) (nodes : Array (Expr K))
    (f : LState K → Nat → Expr K → Except LowerErr (LState K))
    (hf : ∀ s i e s', P s → f s i e = .ok s' → P s') (s s' : LState K) (hs : P s)
    (h : forNodes nodes s f = .ok s') : P s' := by
  unfold forNodes at h
  refine foldlM_inv P _ _ ?_ s s' hs h
  intro st i st' hst hstep
  split at hstep
  · exact hf _ _ _ _ hst hstep
  · simp only [Except.ok.injEq] at hstep; subst hstep; exact hst

section
variable [Neg K]

theorem emitNpCall_shape (s : LState K) (nodes : Array (Expr K)) (npOps : Array NpData) (opId : Nat)
    (s' : LState K) (hs : ShapeOk s) (h : s.emitNpCall nodes npOps opId = .ok s') : ShapeOk s' := by
  unfold LState.emitNpCall at h
  split_ifs at h
  · simp only [Except.ok.injEq] at h; subst h; exact hs
  · split at h
    · simp at h
    · dsimp only at h
      split at h
      · simp at h
      · next outs _ =>
        -- the pre-allocation fold keeps the ops
        have hpre : ∀ (l : List (Nat × Nat)) (st : LState K), ShapeOk st →
            ShapeOk (l.foldl (fun (st : LState K) (o : Nat × Nat) =>
              match st.e2w.getD o.2 none with
              | some _ => st
              | none => let (st', w) := st.allocWitness o.2; st'.setW o.2 w) st) := by
          intro l
          induction l with
          | nil => intro st h; exact h
          | cons o l ih =>
            intro st hst
            simp only [List.foldl_cons]
            apply ih
            split
            · exact hst
            · exact (hst.alloc o.2).setW _ _
        have hs1 := hpre outs _ (show ShapeOk { s with emitted := s.emitted.setIfInBounds opId true } from hs)
        split at h
        · split at h
          · simp at h
          · simp only [Except.ok.injEq] at h; subst h
            exact hs1.push _ rfl
        · split at h
          · split at h
            · simp at h
            · simp only [Except.ok.injEq] at h; subst h
              exact hs1.push _ rfl
          · simp at h

theorem emitNode_shape (s : LState K) (nodes : Array (Expr K)) (npOps : Array NpData) (i : Nat)
    (e : Expr K) (s' : LState K) (hs : ShapeOk s) (h : s.emitNode nodes npOps i e = .ok s') :
    ShapeOk s' := by
  have ha := hs.alloc i
  unfold LState.emitNode at h
  cases e with
  | const _ => simp only [Except.ok.injEq] at h; subst h; exact hs
  | pub _ => simp only [Except.ok.injEq] at h; subst h; exact hs
  | priv _ => simp only [Except.ok.injEq] at h; subst h; exact hs
  | add l r =>
    dsimp only at h
    generalize s.allocWitness i = r0 at h ha
    obtain ⟨s1, out⟩ := r0
    dsimp only at h ha
    split at h <;> try (simp at h; done)
    simp only [Except.ok.injEq] at h; subst h
    exact (ha.push _ rfl).setW _ _
  | mul l r =>
    dsimp only at h
    generalize s.allocWitness i = r0 at h ha
    obtain ⟨s1, out⟩ := r0
    dsimp only at h ha
    split at h <;> try (simp at h; done)
    simp only [Except.ok.injEq] at h; subst h
    exact (ha.push _ rfl).setW _ _
  | div l r =>
    dsimp only at h
    generalize s.allocWitness i = r0 at h ha
    obtain ⟨s1, out⟩ := r0
    dsimp only at h ha
    split at h <;> try (simp at h; done)
    simp only [Except.ok.injEq] at h; subst h
    exact (ha.push _ rfl).setW _ _
  | horner acc alpha pz px =>
    dsimp only at h
    generalize s.allocWitness i = r0 at h ha
    obtain ⟨s1, out⟩ := r0
    dsimp only at h ha
    split at h <;> try (simp at h; done)
    simp only [Except.ok.injEq] at h; subst h
    exact (ha.push _ rfl).setW _ _
  | boolCheck v =>
    dsimp only at h
    generalize s.allocWitness i = r0 at h ha
    obtain ⟨s1, out⟩ := r0
    dsimp only at h ha
    split at h <;> try (simp at h; done)
    simp only [Except.ok.injEq] at h; subst h
    exact (ha.push _ rfl).setW _ _
  | mulAdd a b c =>
    dsimp only at h
    generalize s.allocWitness i = r0 at h ha
    obtain ⟨s1, out⟩ := r0
    dsimp only at h ha
    split at h <;> try (simp at h; done)
    simp only [Except.ok.injEq] at h; subst h
    exact (ha.push _ rfl).setW _ _
  | sub l r =>
    dsimp only at h
    generalize s.allocWitness i = r0 at h ha
    obtain ⟨s1, res⟩ := r0
    dsimp only at h ha
    split at h
    · simp at h
    · split at h
      · have hb := ha.alloc nodes.size
        generalize s1.allocWitness nodes.size = r1 at h hb
        obtain ⟨s2, nw⟩ := r1
        dsimp only at h hb
        simp only [Except.ok.injEq] at h; subst h
        exact ((hb.push _ rfl).push _ rfl).setW _ _
      · split at h
        · simp at h
        · simp only [Except.ok.injEq] at h; subst h
          exact (ha.push _ rfl).setW _ _
  | npCall op _ => exact emitNpCall_shape s nodes npOps op s' hs h
  | npOut call _ =>
    dsimp only at h
    split at h
    · split at h
      · simp at h
      · next s1 hnp =>
        have h1 := emitNpCall_shape s nodes npOps _ s1 hs hnp
        split at h
        · simp only [Except.ok.injEq] at h; subst h; exact h1
        · simp only [Except.ok.injEq] at h; subst h
          exact (h1.alloc i).setW _ _
    · simp at h

/-- **Lowering emits well-shaped ops.** -/
theorem lower_shape (b : BState K) (l : Lowered K) (inputs : List Nat) (h : lower b = .ok l) :
    fuseInputOk l.ops inputs = true := by
  unfold lower at h
  simp only [bind, Except.bind] at h
  split at h; · simp at h
  next s1 h1 =>
  split at h; · simp at h
  next s2 h2 =>
  split at h; · simp at h
  next s3 h3 =>
  split at h; · simp at h
  next s4 h4 =>
  have hs0 : ∀ st : LState K, st.ops = #[] → ShapeOk st := by
    intro st hst e he; rw [hst] at he; simp at he
  have hs1 : ShapeOk s1 := by
    refine forNodes_inv ShapeOk _ _ ?_ _ _ (hs0 _ rfl) h1
    intro st i e st' hst hstep
    split at hstep
    · simp only [Except.ok.injEq] at hstep; subst hstep
      exact ((hst.alloc i).push _ rfl).setW _ _
    · simp only [Except.ok.injEq] at hstep; subst hstep; exact hst
  have hs2 : ShapeOk s2 := by
    refine forNodes_inv ShapeOk _ _ ?_ _ _ hs1 h2
    intro st i e st' hst hstep
    split at hstep
    · simp only [Except.ok.injEq] at hstep; subst hstep
      exact ((hst.alloc i).push _ rfl)
    · simp only [Except.ok.injEq] at hstep; subst hstep; exact hst
  have hs3 : ShapeOk s3 := by
    refine forNodes_inv ShapeOk _ _ ?_ _ _ hs2 h3
    intro st i e st' hst hstep
    split at hstep
    · simp only [Except.ok.injEq] at hstep; subst hstep
      exact (hst.alloc i)
    · simp only [Except.ok.injEq] at hstep; subst hstep; exact hst
  have hs4 : ShapeOk s4 :=
    forNodes_inv ShapeOk _ _ (fun st i e st' hst hstep => emitNode_shape st _ _ i e st' hst hstep) _ _ hs3 h4
  split at h; · simp at h
  have hback : ∀ (l : List Nat) (st : LState K), ShapeOk st →
      ShapeOk (l.foldl (fun (st : LState K) e =>
        if st.inConnect.getD e false then
          match st.e2w.getD e none with
          | some _ => st
          | none =>
            match st.rootW.getD (st.rep.getD e e) none with
            | some w => st.setW e w
            | none => st
        else st) st) := by
    intro l
    induction l with
    | nil => intro st h; exact h
    | cons a l ih =>
      intro st hst
      simp only [List.foldl_cons]
      apply ih
      split
      · split
        · exact hst
        · split
          · exact hst.setW _ _
          · exact hst
      · exact hst
  simp only [Except.ok.injEq] at h
  subst h
  unfold fuseInputOk
  rw [List.all_eq_true]
  exact hback _ s4 hs4

end

/-- **C03 / fusion, whole pipeline.** For every builder state whose lowering succeeds, the op
list the optimiser returns implies — up to the fused product slots — the de-duplicated list it
was computed from; no hypothesis is left (the shape hypothesis is discharged by `lower_shape`
and `dedup_preserves_shape`). Chained with `dedup_sat_back` (de-duplication) and
`lower_check_sound` (lowering) in `P3R.Props.C03Chain`. -/
theorem compile_fusion_total {K : Type} [CommRing K] [DecidableEq K] (b : BState K) (l : Lowered K)
    (hl : lower b = .ok l) (w pub : Nat → K)
    (hsat : Sat w pub (optimize l.ops l.privRows.toList).1.toList) :
    ∃ w' : Nat → K,
      (∀ x, (∀ s ∈ (fuseWithSites (dedup l.ops).1 (l.privRows.toList.map (resolve (dedup l.ops).2))).2,
        s.m ≠ x) → w' x = w x) ∧
      Sat w' pub (dedup l.ops).1.toList :=
  optimize_fusion_sound l.ops l.privRows.toList
    (dedup_preserves_shape l.ops [] _ (lower_shape b l [] hl)) w pub hsat

/-- `compile_chain_sound` with the fusion certificate hypothesis `hFC` discharged: the fusion
pass passes its check on every lowering output (`fuse_passes_check`, `lower_shape`,
`dedup_preserves_shape`). What remains a per-program certificate is `lowerCheck` only. -/
theorem compile_chain_sound_total {K : Type} [CommRing K] [DecidableEq K] (b : BState K) (l : Lowered K)
    (inputs : List Nat) (hl : lower b = .ok l)
    (hLC : lowerCheck b l = true)
    (hWF : ∀ o ∈ l.ops.toList, Op.WF o)
    (w pub : Nat → K)
    (hsat : Sat w pub (fuse (dedup l.ops).1 inputs).toList) :
    ∃ w' : Nat → K,
      (∀ x, (∀ s ∈ (fuseWithSites (dedup l.ops).1 inputs).2, s.m ≠ x) → w' x = w x) ∧
      (∀ i e, b.nodes[i]? = some e →
        nodeRel (fun e => w' (resolve (dedup l.ops).2 (l.slot e))) pub i e) ∧
      (∀ ab ∈ b.connects,
        w' (resolve (dedup l.ops).2 (l.slot ab.1)) = w' (resolve (dedup l.ops).2 (l.slot ab.2))) :=
  compile_chain_sound b l inputs hLC hWF
    (fuse_passes_check _ inputs (dedup_preserves_shape l.ops [] inputs (lower_shape b l [] hl))) w pub hsat

end P3R.C03
