/-
C05 — the in-circuit Fiat–Shamir transcript equals the native transcript.

Models: `P3R.Duplex` (p3-challenger 0.6.3 `DuplexChallenger`, `check_witness`,
`observe/sample_algebra_element`) and `P3R.CC` (`recursion/src/challenger/circuit.rs` at value
level, together with recompose/decompose, the bit-decomposition hint and the Poseidon
executor's compact-D1 chaining).

Full statement (proved, not partial): for every commutative ring `K`, every function
`perm : List K → List K` that preserves the length `width`, every configuration with
`0 < D`, `0 < rate < width`, `D ∣ width` on the extension path (`Hyp`), both recomposition
modes (`alu` on/off), both paths (`base` on/off), every canonical-representative function with
`(canon x : K) = x`, `canon x < 2^bfBits`, `order ≤ 2^bfBits` (`CanonHyp`), every finite list
of operations (observe / observeExt with `D` coefficients / sample / sampleExt / sampleBits /
checkPow / clear) — no bound on its length — and every pair of related states:

  if the native challenger answers `outs`, the circuit challenger answers `outs.map conv`
  (`conv`: a base sample is the embedding of the native sample; an extension sample has the
  native coefficients; the `n` returned bits are the `n` low bits of the native integer;
  nothing for a proof-of-work check), the states are related again, and all `connect` /
  `assert_zero` constraints of the circuit hold iff every native `check_witness` accepted.

* `duplexing_sim`  — one duplexing (absorb or squeeze) preserves the simulation on both paths;
                     this is where positions modulo the rate, partial absorbs, the zero fill,
                     the length tag (builder-side on the extension path, executor-side via
                     `absorb_len` on the compact path), the executor's chain state and
                     recompose ∘ decompose = id are used;
* `step_sim`       — one operation;
* `challenger_sim` — any history from any related pair of states;
* `transcript_eq`  — the C05 statement: fresh challengers;
* `native_sample_isSome` — the native `sample` never panics, so the hypothesis "native
                     answers" only excludes `sample_bits` widths the native code asserts against;
* `C05L.recompose_embed` — table closure and ALU `mul_add` chain both recompose embedded
                     coefficients exactly (binomial extension, any `W`);
* `C05L.reconK_bitsOf`   — the bit-reconstruction constraint holds for the canonical bits.

What is *not* in these theorems (see design_notes/C05.md): the value-level model abstracts
the emitted op list (C02/C03/C09 are about that), the permutation table AIR (C04/C06), and
multiplication in the extension field other than by `Xⁱ` or between embedded base elements.
The models are tied to the Rust by the differential run of `bin/check C05`.
-/
import P3R.Lemmas.Transcript

set_option linter.unusedSectionVars false
set_option linter.unusedSimpArgs false

namespace P3R.C05
open P3R.Duplex P3R.CC P3R.C05L

variable {K : Type} [CommRing K] [DecidableEq K]

/-- Side conditions on a challenger configuration (all true of every supported one). -/
structure Hyp (c : Cfg K) (perm : List K → List K) : Prop where
  D_pos : 0 < c.D
  rate_pos : 0 < c.rate
  rate_lt : c.rate < c.width
  dvd : c.base = false → c.D ∣ c.width
  perm_len : ∀ l, l.length = c.width → (perm l).length = c.width

/-- Simulation relation between the native sponge and the circuit challenger
    (without the bound on the input buffer). -/
structure InvW (c : Cfg K) (n : Duplex.St K) (s : CC.St K) : Prop where
  len : n.state.length = c.width
  state : s.state = n.state.map (embed c.D)
  inBuf : s.inBuf = n.inBuf.map (embed c.D)
  outBuf : s.outBuf = n.outBuf.map (embed c.D)
  chain : c.base = true →
    (if s.duplexedOnce then s.chain = some s.state
     else s.state = List.replicate c.width (zeroV c.D))

structure Inv (c : Cfg K) (n : Duplex.St K) (s : CC.St K) : Prop extends InvW c n s where
  inLen : n.inBuf.length < c.rate

theorem length_absorbed (rate : Nat) (s xs : List K) (h1 : xs.length ≤ rate) (h2 : rate ≤ s.length) :
    (absorbed rate s xs).length = s.length := by
  unfold absorbed
  rw [length_tagAbsorb, length_preAbsorb _ _ _ _ h1 h2]

/-- The circuit's pre-permutation state (extension path) is the embedding of the native one. -/
theorem map_absorbed (D : Nat) (hD : 0 < D) (rate : Nat) (s xs : List K) :
    (absorbed rate s xs).map (embed D)
      = tagAbsorb (addTagV D) rate xs.length
          (preAbsorb (zeroV D) rate (s.map (embed D)) (xs.map (embed D))) := by
  unfold absorbed
  rw [map_tagAbsorb addTag (addTagV D) (embed D) (fun n x => (addTagV_embed D n x).symm),
    map_preAbsorb, ← zeroV_eq_embed D hD]

theorem map_chunk {α β : Type} (f : α → β) (D : Nat) (l : List α) (i : Nat) :
    chunk D (l.map f) i = (chunk D l i).map f := by
  simp [chunk, List.map_take, List.map_drop]

/-- One duplexing step preserves the simulation, never fails, and adds no failing constraint. -/
theorem duplexing_sim (c : Cfg K) (perm : List K → List K) (H : Hyp c perm)
    (n : Duplex.St K) (s : CC.St K) (I : InvW c n s) (hle : n.inBuf.length ≤ c.rate) :
    ∃ s', CC.duplexing c perm s = some s' ∧ InvW c (Duplex.duplexing perm c.rate n) s' ∧
      s'.ok = s.ok := by
  have hlenX : (absorbed c.rate n.state n.inBuf).length = c.width := by
    rw [length_absorbed _ _ _ hle (by rw [I.len]; exact Nat.le_of_lt H.rate_lt), I.len]
  have hmapX := map_absorbed c.D H.D_pos c.rate n.state n.inBuf
  have hinlen : s.inBuf.length = n.inBuf.length := by rw [I.inBuf, List.length_map]
  have hslen : s.state.length = c.width := by rw [I.state, List.length_map, I.len]
  rw [← I.state, ← I.inBuf] at hmapX
  cases hb : c.base
  · -- extension path
    obtain ⟨m, hm⟩ := H.dvd hb
    have hm' : c.width = m * c.D := by rw [hm, Nat.mul_comm]
    have hnl : c.width / c.D = m := by rw [hm, Nat.mul_div_cancel_left _ H.D_pos]
    have hlimbs : ((List.range m).map fun i =>
          recompose c (chunk c.D ((absorbed c.rate n.state n.inBuf).map (embed c.D)) i))
        = (List.range m).map fun i => chunk c.D (absorbed c.rate n.state n.inBuf) i := by
      apply List.map_congr_left
      intro i hi
      rw [map_chunk, recompose_embed]
      exact length_chunk _ _ _ _ (by rw [hlenX, hm']) (List.mem_range.mp hi)
    have hout : (perm (absorbed c.rate n.state n.inBuf)).length = m * c.D := by
      rw [H.perm_len _ hlenX, hm']
    have hdec : ((List.range m).map fun i => chunk c.D (perm (absorbed c.rate n.state n.inBuf)) i).map
          (decomposeChecked c)
        = ((List.range m).map fun i => chunk c.D (perm (absorbed c.rate n.state n.inBuf)) i).map
          fun v => (v.map (embed c.D), true) := by
      apply List.map_congr_left
      intro v hv
      obtain ⟨i, hi, rfl⟩ := List.mem_map.mp hv
      exact decomposeChecked_ok c _ (length_chunk _ _ _ _ hout (List.mem_range.mp hi))
    have hfl : ((List.range m).map fun i =>
          (chunk c.D (perm (absorbed c.rate n.state n.inBuf)) i).map (embed c.D)).flatten
        = (perm (absorbed c.rate n.state n.inBuf)).map (embed c.D) := by
      have := congrArg (List.map (embed c.D)) (flatten_chunks c.D m _ hout)
      rw [List.map_flatten, List.map_map] at this
      simpa [Function.comp_def] using this
    have hd : CC.duplexing c perm s = some
        ⟨(perm (absorbed c.rate n.state n.inBuf)).map (embed c.D), [],
         ((perm (absorbed c.rate n.state n.inBuf)).map (embed c.D)).take c.rate,
         s.duplexedOnce, s.chain, s.ok⟩ := by
      simp only [CC.duplexing, hb, Bool.false_eq_true, if_false, hinlen, ← hmapX, hnl, hlimbs,
        flatten_chunks _ _ _ (hlenX.trans hm'), hdec, List.map_map, Function.comp_def, hfl,
        List.all_map]
      simp
    refine ⟨_, hd, ?_, rfl⟩
    exact
      { len := by simp [Duplex.duplexing, H.perm_len _ hlenX]
        state := by simp [Duplex.duplexing]
        inBuf := by simp [Duplex.duplexing]
        outBuf := by simp [Duplex.duplexing, List.map_take]
        chain := by intro h; rw [hb] at h; exact absurd h (by simp) }
  · -- compact base path
    have hi0 : (if (!s.duplexedOnce) = true then some (List.replicate c.width (zeroV c.D)) else s.chain)
        = some s.state := by
      have hc := I.chain hb
      cases hd : s.duplexedOnce <;> simp [hd] at hc ⊢
      · exact hc.symm
      · exact hc
    have hres : tagAbsorb (addTagV c.D) c.rate s.inBuf.length
          ((preAbsorb (zeroV c.D) c.rate s.state s.inBuf).take c.rate ++ s.state.drop c.rate)
        = (absorbed c.rate n.state n.inBuf).map (embed c.D) := by
      rw [take_pre_append_drop _ _ _ _ (by rw [hinlen]; exact hle)
        (by rw [hslen]; exact Nat.le_of_lt H.rate_lt), hinlen, hmapX]
    have hd : CC.duplexing c perm s = some
        ⟨(perm (absorbed c.rate n.state n.inBuf)).map (embed c.D), [],
         ((perm (absorbed c.rate n.state n.inBuf)).map (embed c.D)).take c.rate,
         true, some ((perm (absorbed c.rate n.state n.inBuf)).map (embed c.D)), s.ok⟩ := by
      simp only [CC.duplexing, hb, if_true, hi0, hres, map_coeff0_embed]
    refine ⟨_, hd, ?_, rfl⟩
    exact
      { len := by simp [Duplex.duplexing, H.perm_len _ hlenX]
        state := by simp [Duplex.duplexing]
        inBuf := by simp [Duplex.duplexing]
        outBuf := by simp [Duplex.duplexing, List.map_take]
        chain := by intro _; simp }

theorem inv_init (c : Cfg K) (perm : List K → List K) (H : Hyp c perm) :
    Inv c (Duplex.St.init c.width) (CC.St.init c) :=
  { len := by simp [Duplex.St.init]
    state := by simp [Duplex.St.init, CC.St.init, zeroV_eq_embed c.D H.D_pos]
    inBuf := rfl
    outBuf := rfl
    chain := by intro _; simp [CC.St.init]
    inLen := by simpa [Duplex.St.init] using H.rate_pos }

theorem observe_sim (c : Cfg K) (perm : List K → List K) (H : Hyp c perm)
    (n : Duplex.St K) (s : CC.St K) (I : Inv c n s) (x : K) :
    ∃ s', CC.observe c perm (embed c.D x) s = some s' ∧
      Inv c (Duplex.observe perm c.rate x n) s' ∧ s'.ok = s.ok := by
  have I1 : InvW c ⟨n.state, n.inBuf ++ [x], []⟩
      { s with outBuf := [], inBuf := s.inBuf ++ [embed c.D x] } :=
    { len := I.len, state := I.state, inBuf := by simp [I.inBuf], outBuf := rfl, chain := I.chain }
  have hl : (s.inBuf ++ [embed c.D x]).length = (n.inBuf ++ [x]).length := by
    simp [I.inBuf]
  unfold CC.observe Duplex.observe
  simp only [hl]
  by_cases h : (n.inBuf ++ [x]).length = c.rate
  · simp only [h, if_true]
    obtain ⟨s', hd, I', hok⟩ := duplexing_sim c perm H _ _ I1 (by simp only [h]; exact Nat.le_refl _)
    exact ⟨s', hd, { toInvW := I', inLen := by simpa [Duplex.duplexing] using H.rate_pos }, hok⟩
  · simp only [h, if_false]
    refine ⟨_, rfl, { toInvW := I1, inLen := ?_ }, rfl⟩
    have := I.inLen
    simp only [List.length_append, List.length_singleton] at h ⊢
    omega

theorem observeMany_sim (c : Cfg K) (perm : List K → List K) (H : Hyp c perm) :
    ∀ (xs : List K) (n : Duplex.St K) (s : CC.St K), Inv c n s →
    ∃ s', CC.observeMany c perm (xs.map (embed c.D)) s = some s' ∧
      Inv c (Duplex.observeMany perm c.rate xs n) s' ∧ s'.ok = s.ok
  | [], n, s, I => ⟨s, rfl, I, rfl⟩
  | x :: xs, n, s, I => by
    obtain ⟨s1, h1, I1, ok1⟩ := observe_sim c perm H n s I x
    obtain ⟨s2, h2, I2, ok2⟩ := observeMany_sim c perm H xs _ s1 I1
    exact ⟨s2, by simp [CC.observeMany, h1, h2], I2, ok2.trans ok1⟩

theorem sample_sim (c : Cfg K) (perm : List K → List K) (H : Hyp c perm)
    (n : Duplex.St K) (s : CC.St K) (I : Inv c n s) (x : K) (n' : Duplex.St K)
    (hn : Duplex.sample perm c.rate n = some (x, n')) :
    ∃ s', CC.sample c perm s = some (embed c.D x, s') ∧ Inv c n' s' ∧ s'.ok = s.ok := by
  have hcond : (!s.inBuf.isEmpty || s.outBuf.isEmpty) = (!n.inBuf.isEmpty || n.outBuf.isEmpty) := by
    simp [I.inBuf, I.outBuf]
  -- the state after the optional duplexing
  obtain ⟨n1, s1, hn1, hs1, I1, ok1⟩ : ∃ n1 s1,
      (if !n.inBuf.isEmpty || n.outBuf.isEmpty then Duplex.duplexing perm c.rate n else n) = n1 ∧
      (if !s.inBuf.isEmpty || s.outBuf.isEmpty then CC.duplexing c perm s else some s) = some s1 ∧
      Inv c n1 s1 ∧ s1.ok = s.ok := by
    rw [hcond]
    by_cases h : (!n.inBuf.isEmpty || n.outBuf.isEmpty) = true
    · obtain ⟨s', hd, I', hok⟩ := duplexing_sim c perm H n s I.toInvW (Nat.le_of_lt I.inLen)
      exact ⟨_, s', by simp [h], by simp [h, hd],
        { toInvW := I', inLen := by simpa [Duplex.duplexing] using H.rate_pos }, hok⟩
    · exact ⟨n, s, by simp [h], by simp [h], I, rfl⟩
  unfold Duplex.sample at hn
  simp only [hn1] at hn
  unfold CC.sample
  simp only [hs1]
  have hlast : s1.outBuf.getLast? = n1.outBuf.getLast?.map (embed c.D) := by
    rw [I1.outBuf, List.getLast?_map]
  cases hg : n1.outBuf.getLast? with
  | none => simp [hg] at hn
  | some y =>
    simp only [hg, Option.some.injEq, Prod.mk.injEq] at hn
    obtain ⟨rfl, rfl⟩ := hn
    simp only [hlast, hg, Option.map_some]
    refine ⟨_, rfl, ?_, ok1⟩
    exact
      { len := I1.len, state := I1.state, inBuf := I1.inBuf
        outBuf := by simp [I1.outBuf, List.map_dropLast]
        chain := I1.chain, inLen := I1.inLen }

theorem sampleMany_sim (c : Cfg K) (perm : List K → List K) (H : Hyp c perm) :
    ∀ (k : Nat) (n : Duplex.St K) (s : CC.St K), Inv c n s → ∀ (xs : List K) (n' : Duplex.St K),
    Duplex.sampleMany perm c.rate k n = some (xs, n') →
    ∃ s', CC.sampleMany c perm k s = some (xs.map (embed c.D), s') ∧ Inv c n' s' ∧ s'.ok = s.ok ∧
      xs.length = k
  | 0, n, s, I, xs, n', h => by
    simp only [Duplex.sampleMany, Option.some.injEq, Prod.mk.injEq] at h
    obtain ⟨rfl, rfl⟩ := h
    exact ⟨s, rfl, I, rfl, rfl⟩
  | k + 1, n, s, I, xs, n', h => by
    unfold Duplex.sampleMany at h
    cases h1 : Duplex.sample perm c.rate n with
    | none => simp [h1] at h
    | some r1 =>
      obtain ⟨x, n1⟩ := r1
      simp only [h1] at h
      cases h2 : Duplex.sampleMany perm c.rate k n1 with
      | none => simp [h2] at h
      | some r2 =>
        obtain ⟨ys, n2⟩ := r2
        simp only [h2, Option.some.injEq, Prod.mk.injEq] at h
        obtain ⟨rfl, rfl⟩ := h
        obtain ⟨s1, e1, I1, ok1⟩ := sample_sim c perm H n s I x n1 h1
        obtain ⟨s2, e2, I2, ok2, hl⟩ := sampleMany_sim c perm H k n1 s1 I1 ys n2 h2
        exact ⟨s2, by simp [CC.sampleMany, e1, e2], I2, ok2.trans ok1, by simp [hl]⟩

/-- What is assumed about the canonical representative `as_canonical_u64`. -/
structure CanonHyp (c : Cfg K) (canon : K → Nat) (order : Nat) : Prop where
  cast : ∀ x, ((canon x : Nat) : K) = x
  lt : ∀ x, canon x < 2 ^ c.bfBits
  order_le : order ≤ 2 ^ c.bfBits

theorem sampleBits_sim (c : Cfg K) (perm : List K → List K) (H : Hyp c perm) (canon : K → Nat)
    (order : Nat) (C : CanonHyp c canon order)
    (n : Duplex.St K) (s : CC.St K) (I : Inv c n s) (nb v : Nat) (n' : Duplex.St K)
    (hn : Duplex.sampleBits perm c.rate canon order nb n = some (v, n')) :
    ∃ s', CC.sampleBits c perm canon nb s = some (bitsOf v nb, s') ∧ Inv c n' s' ∧ s'.ok = s.ok ∧
      v < 2 ^ nb := by
  unfold Duplex.sampleBits at hn
  by_cases hdom : nb < 64 ∧ 2 ^ nb < order
  · simp only [hdom, and_self, if_true] at hn
    cases h1 : Duplex.sample perm c.rate n with
    | none => simp [h1] at hn
    | some r1 =>
      obtain ⟨x, n1⟩ := r1
      simp only [h1, Option.some.injEq, Prod.mk.injEq] at hn
      obtain ⟨rfl, rfl⟩ := hn
      obtain ⟨s1, e1, I1, ok1⟩ := sample_sim c perm H n s I x n1 h1
      have hnb : nb ≤ c.bfBits := by
        have : 2 ^ nb < 2 ^ c.bfBits := Nat.lt_of_lt_of_le hdom.2 C.order_le
        exact Nat.le_of_lt ((Nat.pow_lt_pow_iff_right (by norm_num)).mp this)
      have hrec : embed c.D (reconK 0 (bitsOf (canon x) c.bfBits) (0 : K)) = embed c.D x := by
        rw [reconK_bitsOf _ _ (C.lt x), C.cast]
      refine ⟨{ s1 with ok := s1.ok && true }, ?_, ?_, ?_, Nat.mod_lt _ (by positivity)⟩
      · unfold CC.sampleBits
        simp only [Nat.not_lt.mpr hnb, if_false, e1, coeff0_embed, hrec, beq_self_eq_true,
          take_bitsOf _ _ _ hnb, bitsOf_mod]
      · exact { len := I1.len, state := I1.state, inBuf := I1.inBuf, outBuf := I1.outBuf,
                chain := I1.chain, inLen := I1.inLen }
      · simp [ok1]
  · simp [hdom] at hn

/-- Well-formed operation: an observed extension element has `D` coefficients. -/
def OpWF (D : Nat) : Op K → Prop
  | .observeExt xs => xs.length = D
  | _ => True

/-- One challenger operation: the circuit returns exactly the image of what the native
    challenger returns, the states stay related, and the circuit's constraints fail iff the
    native proof-of-work check rejects. -/
theorem step_sim (c : Cfg K) (perm : List K → List K) (H : Hyp c perm) (canon : K → Nat)
    (order : Nat) (C : CanonHyp c canon order)
    (n : Duplex.St K) (s : CC.St K) (I : Inv c n s) (op : Op K) (hwf : OpWF c.D op)
    (o : NOut K) (n' : Duplex.St K)
    (hn : Duplex.step perm c.width c.rate c.D canon order op n = some (o, n')) :
    ∃ s', CC.step c perm canon op s = some (conv c.D o, s') ∧ Inv c n' s' ∧
      s'.ok = (s.ok && accepted o) := by
  cases op with
  | observe x =>
    simp only [Duplex.step, Option.some.injEq, Prod.mk.injEq] at hn
    obtain ⟨rfl, rfl⟩ := hn
    obtain ⟨s1, e1, I1, ok1⟩ := observe_sim c perm H n s I x
    exact ⟨s1, by simp [CC.step, e1, conv], I1, by simp [ok1, accepted]⟩
  | observeExt xs =>
    simp only [Duplex.step, Option.some.injEq, Prod.mk.injEq] at hn
    obtain ⟨rfl, rfl⟩ := hn
    have hdc := decomposeChecked_ok c xs hwf
    have I0 : Inv c n { s with ok := s.ok && true } :=
      { len := I.len, state := I.state, inBuf := I.inBuf, outBuf := I.outBuf, chain := I.chain,
        inLen := I.inLen }
    obtain ⟨s1, e1, I1, ok1⟩ := observeMany_sim c perm H xs n _ I0
    simp only [Bool.and_true] at e1 ok1
    exact ⟨s1, by simp [CC.step, hdc, e1, conv], I1, by simp [ok1, accepted]⟩
  | sample =>
    unfold Duplex.step at hn
    cases h1 : Duplex.sample perm c.rate n with
    | none => simp [h1] at hn
    | some r1 =>
      obtain ⟨x, n1⟩ := r1
      simp only [h1, Option.some.injEq, Prod.mk.injEq] at hn
      obtain ⟨rfl, rfl⟩ := hn
      obtain ⟨s1, e1, I1, ok1⟩ := sample_sim c perm H n s I x n1 h1
      exact ⟨s1, by simp [CC.step, e1, conv], I1, by simp [ok1, accepted]⟩
  | sampleExt =>
    unfold Duplex.step at hn
    cases h1 : Duplex.sampleMany perm c.rate c.D n with
    | none => simp [h1] at hn
    | some r1 =>
      obtain ⟨xs, n1⟩ := r1
      simp only [h1, Option.some.injEq, Prod.mk.injEq] at hn
      obtain ⟨rfl, rfl⟩ := hn
      obtain ⟨s1, e1, I1, ok1, hl⟩ := sampleMany_sim c perm H c.D n s I xs n1 h1
      exact ⟨s1, by simp [CC.step, e1, conv, recompose_embed c xs hl], I1, by simp [ok1, accepted]⟩
  | sampleBits nb =>
    unfold Duplex.step at hn
    cases h1 : Duplex.sampleBits perm c.rate canon order nb n with
    | none => simp [h1] at hn
    | some r1 =>
      obtain ⟨v, n1⟩ := r1
      simp only [h1, Option.some.injEq, Prod.mk.injEq] at hn
      obtain ⟨rfl, rfl⟩ := hn
      obtain ⟨s1, e1, I1, ok1, _⟩ := sampleBits_sim c perm H canon order C n s I nb v n1 h1
      exact ⟨s1, by simp [CC.step, e1, conv], I1, by simp [ok1, accepted]⟩
  | checkPow nb w =>
    unfold Duplex.step at hn
    by_cases h0 : nb = 0
    · simp only [h0, if_true, Option.some.injEq, Prod.mk.injEq] at hn
      obtain ⟨rfl, rfl⟩ := hn
      exact ⟨s, by simp [CC.step, h0, conv], I, by simp [accepted]⟩
    · simp only [h0, if_false] at hn
      obtain ⟨s1, e1, I1, ok1⟩ := observe_sim c perm H n s I w
      cases h1 : Duplex.sampleBits perm c.rate canon order nb (Duplex.observe perm c.rate w n) with
      | none => simp [h1] at hn
      | some r1 =>
        obtain ⟨v, n1⟩ := r1
        simp only [h1, Option.some.injEq, Prod.mk.injEq] at hn
        obtain ⟨rfl, rfl⟩ := hn
        obtain ⟨s2, e2, I2, ok2, hv⟩ := sampleBits_sim c perm H canon order C _ s1 I1 nb v n1 h1
        refine ⟨{ s2 with ok := s2.ok && (bitsOf v nb).all fun b => !b }, ?_, ?_, ?_⟩
        · simp [CC.step, h0, e1, e2, conv]
        · exact { len := I2.len, state := I2.state, inBuf := I2.inBuf, outBuf := I2.outBuf,
                  chain := I2.chain, inLen := I2.inLen }
        · simp only [ok2, ok1, accepted, all_false_iff_zero, Nat.mod_eq_of_lt hv]
  | clear =>
    simp only [Duplex.step, Option.some.injEq, Prod.mk.injEq] at hn
    obtain ⟨rfl, rfl⟩ := hn
    have I0 := inv_init c perm H
    refine ⟨{ CC.St.init c with chain := s.chain, ok := s.ok }, by simp [CC.step, conv], ?_,
      by simp [accepted]⟩
    exact { len := I0.len, state := I0.state, inBuf := I0.inBuf, outBuf := I0.outBuf,
            chain := by intro _; simp [CC.St.init], inLen := I0.inLen }

/-- **C05, simulation form.** For every permutation, every configuration satisfying `Hyp`,
    every history of well-formed operations and every pair of related states: whenever the
    native challenger answers (`some`), the circuit challenger answers with exactly the
    corresponding values (`conv`), the final states are related again, and the circuit's
    constraints all hold iff every native proof-of-work check accepted. -/
theorem challenger_sim (c : Cfg K) (perm : List K → List K) (H : Hyp c perm) (canon : K → Nat)
    (order : Nat) (C : CanonHyp c canon order) :
    ∀ (ops : List (Op K)), (∀ op ∈ ops, OpWF c.D op) →
    ∀ (n : Duplex.St K) (s : CC.St K), Inv c n s →
    ∀ (outs : List (NOut K)) (n' : Duplex.St K),
    Duplex.run perm c.width c.rate c.D canon order ops n = some (outs, n') →
    ∃ s', CC.run c perm canon ops s = some (outs.map (conv c.D), s') ∧ Inv c n' s' ∧
      s'.ok = (s.ok && outs.all accepted)
  | [], _, n, s, I, outs, n', h => by
    simp only [Duplex.run, Option.some.injEq, Prod.mk.injEq] at h
    obtain ⟨rfl, rfl⟩ := h
    exact ⟨s, rfl, I, by simp⟩
  | op :: ops, hwf, n, s, I, outs, n', h => by
    unfold Duplex.run at h
    cases h1 : Duplex.step perm c.width c.rate c.D canon order op n with
    | none => simp [h1] at h
    | some r1 =>
      obtain ⟨o, n1⟩ := r1
      simp only [h1] at h
      cases h2 : Duplex.run perm c.width c.rate c.D canon order ops n1 with
      | none => simp [h2] at h
      | some r2 =>
        obtain ⟨os, n2⟩ := r2
        simp only [h2, Option.some.injEq, Prod.mk.injEq] at h
        obtain ⟨rfl, rfl⟩ := h
        obtain ⟨s1, e1, I1, ok1⟩ :=
          step_sim c perm H canon order C n s I op (hwf op (List.mem_cons_self ..)) o n1 h1
        obtain ⟨s2, e2, I2, ok2⟩ :=
          challenger_sim c perm H canon order C ops (fun op' h' => hwf op' (List.mem_cons_of_mem _ h'))
            n1 s1 I1 os n2 h2
        exact ⟨s2, by simp [CC.run, e1, e2], I2, by simp [ok2, ok1, Bool.and_assoc]⟩

/-- **C05.** A fresh circuit challenger and a fresh native challenger driven through the same
    history produce the same transcript, and the circuit is satisfiable iff every
    proof-of-work check of the history is accepted natively. -/
theorem transcript_eq (c : Cfg K) (perm : List K → List K) (H : Hyp c perm) (canon : K → Nat)
    (order : Nat) (C : CanonHyp c canon order) (ops : List (Op K))
    (hwf : ∀ op ∈ ops, OpWF c.D op) (outs : List (NOut K)) (n' : Duplex.St K)
    (h : Duplex.run perm c.width c.rate c.D canon order ops (Duplex.St.init c.width) = some (outs, n')) :
    ∃ s', CC.run c perm canon ops (CC.St.init c) = some (outs.map (conv c.D), s') ∧
      s'.ok = outs.all accepted := by
  obtain ⟨s', e, _, ok⟩ :=
    challenger_sim c perm H canon order C ops hwf _ _ (inv_init c perm H) outs n' h
  exact ⟨s', e, by simpa [CC.St.init] using ok⟩

/-- The native `sample` never hits its `expect` (so the only way the native side of
    `transcript_eq` is undefined is a `sample_bits` width outside `2^bits < ORDER`). -/
theorem native_sample_isSome (perm : List K → List K) (width rate : Nat)
    (hperm : ∀ l, l.length = width → (perm l).length = width) (hr : 0 < rate) (hrw : rate < width)
    (n : Duplex.St K) (hlen : n.state.length = width) (hin : n.inBuf.length < rate) :
    (Duplex.sample perm rate n).isSome = true := by
  unfold Duplex.sample
  by_cases hc : (!n.inBuf.isEmpty || n.outBuf.isEmpty) = true
  · have hX : (absorbed rate n.state n.inBuf).length = width := by
      rw [length_absorbed _ _ _ (Nat.le_of_lt hin) (by omega), hlen]
    have hne : ((perm (absorbed rate n.state n.inBuf)).take rate) ≠ [] := by
      intro h
      have := congrArg List.length h
      simp [hperm _ hX] at this
      omega
    simp only [hc, if_true, Duplex.duplexing]
    cases hg : ((perm (absorbed rate n.state n.inBuf)).take rate).getLast? with
    | none => exact absurd (List.getLast?_eq_none_iff.mp hg) hne
    | some y => simp
  · have hne : n.outBuf ≠ [] := by
      intro h; simp [h] at hc
    simp only [hc]
    cases hg : n.outBuf.getLast? with
    | none => exact absurd (List.getLast?_eq_none_iff.mp hg) hne
    | some y => simp [hg]

/-- The sampled bits returned by the circuit recompose to the native integer. -/
theorem conv_bits_value (n v : Nat) (h : v < 2 ^ n) : fromBits (bitsOf v n) = v := by
  rw [fromBits_bitsOf, Nat.mod_eq_of_lt h]


#print axioms P3R.C05.duplexing_sim
#print axioms P3R.C05.step_sim
#print axioms P3R.C05.challenger_sim
#print axioms P3R.C05.transcript_eq
#print axioms P3R.C05.native_sample_isSome
#print axioms P3R.C05L.recompose_embed
#print axioms P3R.C05L.reconK_bitsOf

end P3R.C05
