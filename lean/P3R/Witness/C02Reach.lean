/-
Witnesses for Props/C02Reach.lean.

* `dec_guards` — `Witness.C09Reach.bDec` (two `decompose_to_bits`, a fused mul+add, a backward row): the guards
  follow from reachability (`reachablePrim_guards`) AND evaluate to `true` (`decide +kernel`) — theorem and
  model agree.
* `bMul` over ℚ: `z = x * y`, `x` public, `y` private. `session_total_reachable` applies with reachability as
  the only builder-side hypothesis; `mul_session` evaluates the same session: inputs `[3]`, `[5]` give the
  witness `[0, 3, 5, 15]`.
* `bAli` over ℚ: two public inputs connected to each other — both public rows are the same slot.
  `ali_rows`: the rows alias; `ali_ok`: with equal values the session succeeds and `applyCalls_shape` describes
  the table; `ali_conflict`: with different values `set_public_inputs` fails with `conflict` (no assignment
  extends such a vector, so `session_total_reachable` does not apply — the write-once check is what is modelled).
* `raw_not_prim`: a raw `push_non_primitive_op_with_outputs` with two inputs in one group (`Reachable`, not
  `ReachablePrim`) has `primOk = false` — the runner layer of the model executes one-input hints only; no API
  operation of `ReachablePrim` produces such a call.
-/
import P3R.Props.C02Reach
import P3R.Witness.C09Reach
import Mathlib.Algebra.Field.Rat

open P3R P3R.C02T P3R.C02S P3R.C02O P3R.C02R P3R.C09R P3R.Witness.C09Reach

namespace P3R.Witness.C02Reach

theorem dec_guards : bDec.Ok ∧ privOk bDec = true ∧ pubOk bDec = true ∧ primOk bDec = true ∧
    pubFull bDec = true := reachablePrim_guards dec_reachable

theorem dec_guards_eval : pubOk bDec = true ∧ primOk bDec = true ∧ pubFull bDec = true ∧
    bDec.pubCount = 1 ∧ bDec.npOps.size = 2 := by decide +kernel

/-! ### A session over ℚ -/

def m1 : BState ℚ := (BState.init : BState ℚ).allocPublic.1     -- x = e1
def m2 : BState ℚ := m1.allocPrivate.1                           -- y = e2
def bMul : BState ℚ := (m2.mul 1 2).1                            -- e3 = x * y

theorem mul_reachable : ReachablePrim bMul := by
  have h1 : ReachablePrim m1 := .allocPublic .init
  have h2 : ReachablePrim m2 := .allocPrivate h1
  exact .mul h2 (by decide +kernel) (by decide +kernel)

/-- `session_total_reachable` applies: reachability is the only builder-side hypothesis. -/
example (canon : ℚ → Nat) (c : Circuit ℚ) (hc : compile bMul = .ok c) (pubs privs : List ℚ) (w pub : Nat → ℚ)
    (hpl : pubs.length = c.pubRows.size) (hvl : privs.length = c.privRows.size)
    (hpv : ∀ (i : Nat) (v : ℚ), pubs[i]? = some v → v = w (c.pubRows.getD i 0))
    (hvv : ∀ (i : Nat) (v : ℚ), privs[i]? = some v → v = w (c.privRows.getD i 0))
    (hall : ∀ op ∈ c.ops.toList, op.holds w pub ∧ C02.RunnerWrites w op ∧ C02.HintAgrees canon w op)
    (hrw : ∀ dc ∈ c.rewrite, w dc.1 = w (resolve c.rewrite dc.2)) :
    ∃ t, run canon c pubs privs = .ok t ∧ ∀ j, j < t.witness.size → t.witness.getD j 0 = w j :=
  C02.session_total_reachable canon bMul mul_reachable c hc pubs privs w pub hpl hvl hpv hvv hall hrw

/-- The same session, evaluated. -/
theorem mul_session :
    (match compile bMul with
     | .ok c =>
       c.pubRows.toList == [1] && c.privRows.toList == [2] && c.witnessCount == 4 &&
       (match run (fun _ => 0) c [3] [5] with
        | .ok t => t.witness.toList == [0, 3, 5, 15]
        | .error _ => false)
     | .error _ => false) = true := by
  decide +kernel

/-! ### Aliasing public rows -/

def a1 : BState ℚ := (BState.init : BState ℚ).allocPublic.1     -- x = e1
def a2 : BState ℚ := a1.allocPublic.1                            -- y = e2
def a3 : BState ℚ := a2.connect 1 2                              -- x == y
def bAli : BState ℚ := (a3.mul 1 2).1                            -- e3 = x * y

theorem ali_reachable : ReachablePrim bAli := by
  have h1 : ReachablePrim a1 := .allocPublic .init
  have h2 : ReachablePrim a2 := .allocPublic h1
  have h3 : ReachablePrim a3 := .connect h2 (by decide +kernel) (by decide +kernel)
  exact .mul h3 (by decide +kernel) (by decide +kernel)

/-- Both public rows are slot 1. -/
theorem ali_rows :
    (match compile bAli with
     | .ok c => c.pubRows.toList == [1, 1] && c.privRows.toList == [] && c.witnessCount == 3
     | .error _ => false) = true := by
  decide +kernel

/-- Equal values: the second write passes the equality re-check, the table has the shape `allInputsSet c`
(what `applyCalls_shape` states), and the run returns `[0, 3, 9]`. -/
theorem ali_ok :
    (match compile bAli with
     | .ok c =>
       (match applyCalls c (Array.replicate c.witnessCount none) [(true, [3, 3]), (false, [])] with
        | .ok w0 => C02.shape w0 == allInputsSet c && C02.shape w0 == #[false, true, false]
        | .error _ => false) &&
       (match run (fun _ => 0) c [3, 3] [] with
        | .ok t => t.witness.toList == [0, 3, 9]
        | .error _ => false)
     | .error _ => false) = true := by
  decide +kernel

/-- Different values for the aliased rows: `set_public_inputs` reports the conflict. -/
theorem ali_conflict :
    (match compile bAli with
     | .ok c =>
       (match run (fun _ => 0) c [3, 4] [] with
        | .error (.conflict 1) => true
        | _ => false)
     | .error _ => false) = true := by
  decide +kernel

/-- `applyCalls_shape` applies to every successful supply, aliased rows or not. -/
example (c : Circuit ℚ) (pubs privs : List ℚ) (w0 : Array (Option ℚ))
    (h : applyCalls c (Array.replicate c.witnessCount none) [(true, pubs), (false, privs)] = .ok w0) :
    C02.shape w0 = allInputsSet c := applyCalls_shape c pubs privs w0 h

/-! ### Outside `ReachablePrim`: a raw call with two inputs -/

def bRaw : BState ℚ := (a1.pushNp .hintBits [[1, 1]] 1).1

theorem raw_reachable : Reachable bRaw := .pushNp (.allocPublic .init) _ _ _

/-- The runner layer of the model executes one-input hints only. -/
theorem raw_not_primOk : primOk bRaw = false := by decide +kernel

theorem raw_not_prim : ¬ ReachablePrim bRaw := fun h => by
  have := (reachablePrim_guards h).2.2.2.1
  rw [raw_not_primOk] at this
  cases this

end P3R.Witness.C02Reach
