"""C06 — sampled challenges are bound to the entire transcript.

Plug-in for bin/check (see bin/checks.py). One harness run (`p3r-harness binding`) builds challenger
circuits for generated histories in three configurations (BabyBear D=4 with the recompose table,
D=4 with ALU recomposition, D=1 compact), runs them honestly, deviates values that are not fixed by
the verifier, rebuilds `Traces` and calls the real `prove_all_tables` / `verify_all_tables`
(Poseidon2 and recompose table provers registered). Implementation oracle: an accepted proof whose
sampled slots differ from p3's `DuplexChallenger` on the observed slots' values is a violation.
The Lean driver `p3r_driver_c06` gets every case (D=4 recompose-table and D=1 configurations) and
must reproduce, from its own emission / acceptance / native models, the bus-role shape of the real
circuit, the accept verdict of the real prover+verifier and the bound verdict.
"""
import json, os

PROPERTY = "C06"

CORRESPONDENCE = ("challenger-binding: recursion/src/challenger/circuit.rs + circuit_builder.rs "
                  "(add_poseidon2_perm_for_challenger[_base], recompose/decompose) + poseidon_perm/executor.rs preprocess + "
                  "poseidon2-circuit-air/src/air.rs (compact D=1 chaining) + circuit-prover recompose_air.rs, observed through "
                  "circuit.ops / prove_all_tables / verify_all_tables, and p3-challenger DuplexChallenger "
                  "vs lean/P3R/Model/Transcript.lean (emit, accD1, accDn, native)")

# F5c (`d1:first-row-capacity-unconstrained`) is repaired by fixes/C06-1.diff: its class is no longer
# known, so an accepted first-row forgery is reported as a VIOLATION (every instance).
KNOWN_CLASSES = {
    "d>=2:capacity-output-not-exposed",
    "d>=2:recompose-table-does-not-bind-coefficients",
}


def _read(p):
    with open(p) as fh:
        return [l.rstrip("\n") for l in fh]


def run(ctx):
    tier, seed, work = ctx["tier"], ctx["seed"], ctx["work"]
    out = f"{work}/run0"
    violations = []
    if ctx.get("replay"):
        rp = json.load(open(ctx["replay"]))
        os.makedirs(f"{work}/replay_corpus", exist_ok=True)
        json.dump(rp.get("replay", rp), open(f"{work}/replay_corpus/r.json", "w"))
        corpus, generate, scale = f"{work}/replay_corpus", 0, 0
    else:
        corpus, generate = f"{ctx['root']}/corpus/c06", 1
        scale = 14 if tier == "quick" else 600
    cmd = [ctx["harness"], "binding", "--seed", str(seed), "--scale", str(scale), "--out", out,
           "--corpus", corpus, "--generate", str(generate)]
    rc, o = ctx["sh"](cmd, timeout=7200)
    empty = {"evaluations": 0, "distinct_nontrivial": 0, "rule": "", "samples": [], "input_distribution": {},
             "traces_validated_against_impl": 0, "disagreements_checked": 0}
    if rc != 0 or not os.path.exists(f"{out}/c06.report.json"):
        violations.append({"class": "harness-crash", "what": f"harness binding exited {rc}: {o[-300:]}",
                           "replay": {"cmd": cmd}, "no_input": True})
        return violations, empty
    rep = json.load(open(f"{out}/c06.report.json"))
    seen = set()
    for v in rep["violations"]:
        # one report per (class, configuration); every instance stays in the harness report
        key = (v["class"], v["replay"].get("cfg"))
        if key in seen and v["class"] in KNOWN_CLASSES:
            continue
        seen.add(key)
        violations.append({"class": v["class"],
                           "what": f"{v['kind']} cfg={v['replay'].get('cfg')} hist={v['replay'].get('hist')} "
                                   f"{json.dumps(v.get('detail', {}))[:200]}",
                           "replay": v["replay"]})
    # model side
    driver = os.path.join(ctx["driver_dir"], "p3r_driver_c06")
    with open(f"{out}/c06.cases") as fin:
        rc, mo = ctx["sh"]([driver], stdin=fin, timeout=3600)
    with open(f"{out}/c06.model", "w") as fh:
        fh.write(mo)
    impl, model, cases = _read(f"{out}/c06.impl"), _read(f"{out}/c06.model"), _read(f"{out}/c06.cases")
    while model and model[-1] == "":
        model.pop()
    while impl and impl[-1] == "":
        impl.pop()
    disagreements = 0
    for k in range(max(len(impl), len(model))):
        a = impl[k] if k < len(impl) else None
        b = model[k] if k < len(model) else None
        if a != b:
            disagreements += 1
            if disagreements <= 3:
                case = cases[k] if k < len(cases) else ""
                part = "shape" if (b or "").find("shape=DIFF") >= 0 else "verdict"
                violations.append({"class": "model-disagreement",
                                   "what": f"correspondence {CORRESPONDENCE} no longer checks ({part}): impl={(a or '')[:160]!r} model={(b or '')[:160]!r}",
                                   "replay": {"correspondence": CORRESPONDENCE, "case_line": case[:4000],
                                              "first_difference": [a, (b or "")[:2000]]},
                                   "no_input": True})
    reproduced = rep.get("corpus_witnesses_reproduced", [])
    cov = {"evaluations": rep["evaluations"], "distinct_nontrivial": rep["distinct"],
           "rule": "one evaluation = one (configuration, history, deviation) proved and verified by the real BatchStarkProver "
                   "(BabyBear; Poseidon2 W16 D=4 or D=1 table + recompose table registered). Histories: the property's example "
                   "(8 observations, sample, 8 observations, sample), o-s-o-s, and generated observe/sample sequences favouring "
                   "RATE-boundary block lengths. Deviations per circuit: none (honest), non-exposed permutation outputs re-executed "
                   "downstream, a recompose row's output, a sampled decomposition-hint output, D=1 in-table capacity cells of row 0 "
                   "and of a chained row, and an exposed output changed without propagation (control, must be rejected). "
                   "distinct = distinct (configuration, history) circuits; every one is nontrivial (>= 1 permutation row). "
                   "Each D=4-recompose-table and D=1 case is also decided by the Lean model (shape, accept, bound) and compared.",
           "samples": rep["samples"][:6], "input_distribution": rep["hist"],
           "traces_validated_against_impl": len(impl), "disagreements_checked": disagreements,
           "corpus_witnesses_reproduced": reproduced,
           "role_audit_on_real_preprocessed_columns": rep.get("role_audit", [])[:3],
           "known_not_reproduced": []}
    # the sponge rows of the Poseidon circuit tables carry the transcript: a chained row whose input is not the previous
    # row's output, or a chain start whose unfed limbs are free, un-binds every later challenge. Row-level tamper oracle of
    # the C11 harness on the real Poseidon2 / Poseidon1 AIRs (all layouts), sponge-mode classes only.
    if not ctx.get("replay"):
        from checks_c04 import poseidon_row_violations
        v3, c3 = poseidon_row_violations(ctx, keep=lambda c: any(k in c for k in ("sponge-chaining", "sponge-ctl-input", "new-start-unfed", "permutation-unenforced")))
        violations += v3
        if isinstance(cov, dict) and cov:
            cov["evaluations"] = cov.get("evaluations", 0) + c3.get("poseidon.tamper_evaluations", 0)
            cov["poseidon_sponge_rows"] = c3
            cov["rule"] = cov.get("rule", "") + ("; plus sponge rows of the Poseidon circuit tables (Poseidon2 and Poseidon1, generic / compact D=1 / arity-4 / "
                                               "width-24 layouts): chained-row inputs and chain starts tampered through the real AIR eval, judged by an independent decoder")
    return violations, cov


CHECK = {
    "lean_modules": ["P3R.Props.C06", "P3R.Witness.C06"],
    "lean_exes": ["p3r_driver_c06"],
    "theorems": [
        "P3R.C06.challenges_bound_partial", "P3R.C06.first_row_zero", "P3R.C06.duplex_sim", "P3R.C06.step_sim", "P3R.C06.emit_sim",
        "P3R.C06.accDn_congr", "P3R.C06.accDn_ignores",
        "P3R.Witness.C06.honest_accepted_and_bound",
        "P3R.Witness.C06.dn_capacity_output_unbound", "P3R.Witness.C06.dn_recompose_row_unbound",
        "P3R.Witness.C06.dn_sampled_slot_free", "P3R.Witness.C06.d1_first_row_capacity_rejected",
        "P3R.Witness.C06.d1_honest_first_row", "P3R.Witness.C06.challenges_bound_false",
    ],
    "run": run,
    "trusted_base": [
        "ideal STARK/LogUp (DESIGN section 2): accepted <=> row constraints hold on the committed trace and the WitnessChecks bus "
        "balances; the model's acceptance conditions (accD1 / accDn) are the value-level consequence, validated against the real "
        "prove_all_tables + verify_all_tables verdict on every case (accepts and rejects)",
        "harness adapter P2D1Builder (harness/src/c06.rs): the repository has the Poseidon2 D=1 AIR for base-field circuits "
        "(...D1Width16Bus1) and its table prover but no public NpoAirBuilder<_, 1>; the adapter repeats poseidon2_air_try_build with degree 1",
        "executable prime field PF p of the driver (validated against p3-field by the runs)",
    ],
    "assumptions": [
        "constants are verifier-fixed in the model (the zero constant and the length tags evaluate to themselves); that the real "
        "Const table does not bind them is finding F4 of C04",
        "history alphabet observe / sample of base elements; observe_ext, sample_ext, sample_bits, check_pow_witness and clear are "
        "compositions of these with decompositions / recompositions and are not in the model (sample_bits' non-canonical "
        "decomposition is C12)",
        "D=1: no hypothesis on the capacity cells of table row 0 any more (fixes/C06-1.diff: the start-of-chain constraint "
        "covers row 0; F5c fixed, corpus/c06/f5c_first_row_capacity_d1_os.json is a regression case that must be rejected)",
        "D>=2: no positive theorem; the full statement is false (findings F5, F5b)",
        "Poseidon1 challenger configurations and Goldilocks D=2 / KoalaBear are not exercised by the harness (same builder and "
        "executor code paths, different AIR instances)",
    ],
}

MANIFEST_ENTRY = {
    "property_id": "C06",
    "quick_cmd": "bin/check C06 --tier quick",
    "thorough_cmd": "bin/check C06 --tier thorough",
    "evidence_file": "evidence/C06.json",
    "replay_cmd_template": "bin/check C06 --replay {path}",
    "engine": "lean-models",
    "technique": "Lean 4 simulation proof (emitted challenger rows + value-level acceptance vs native duplex challenger) for every "
                 "history and permutation function; negation witnesses; forged traces through the real prover/verifier judged "
                 "against p3's DuplexChallenger; model vs implementation on shape, accept and bound verdicts",
    "level_claimed": {
        "category": "proof",
        "text": "challenges_bound_partial: for every D=1 configuration, permutation function, history, assignment and value of the "
                "first row's committed capacity cells, acceptance of the emitted permutation rows implies every sampled slot equals the "
                "native challenge of the observed slots (proved by simulation over the history; the first-row capacity is forced to zero "
                "by the repaired start-of-chain constraint, first_row_zero). The full statement is false of the current code and its "
                "negation is proved on concrete witnesses: D>=2 capacity outputs are not exposed (F5), the recompose table does not "
                "bind coefficient slots (F5b); both are replayed as forged proofs accepted by the real prover/verifier on every run; "
                "the repaired F5c forgery (first-row capacity of the D=1 table) must be rejected on every run. accDn_congr/accDn_ignores: for D>=2 acceptance does "
                "not depend on hint-output (sampled) slots at all.",
        "design_ref": "4/C06",
    },
    "level_note": "Lean kernel + 3 standard axioms; value-level model (bus roles, not constraint polynomials: C11 ties the AIR); "
                  "cryptographic soundness assumed ideal; histories of base-element observe/sample only",
}
