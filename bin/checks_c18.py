"""C18: determinism — repeated in-process builds and separate processes / thread counts must give
identical canonical digests (ops, numbering, preprocessed columns, degrees, commitment)."""
import json, os
from checks import read_lines

PROPERTY = "C18"


def run(ctx):
    tier, seed, work = ctx["tier"], ctx["seed"], ctx["work"]
    nprog, repeats, procs = (400, 4, 3) if tier == "quick" else (20000, 8, 6)
    out = f"{work}/run0"
    os.makedirs(out, exist_ok=True)
    violations, hist, evals = [], {}, 0
    files = []
    for p in range(procs):
        env = {"RAYON_NUM_THREADS": "1"} if p == 1 else ({"RAYON_NUM_THREADS": "16"} if p == 2 else None)
        rc, o = ctx["sh"]([ctx["harness"], "determinism", "--seed", str(seed), "--programs", str(nprog), "--repeats", str(repeats),
                           "--corpus", f"{ctx['root']}/corpus/determinism", "--out", out, "--tag", f"p{p}"], timeout=7200, env=env)
        if rc != 0:
            violations.append({"class": "harness-crash", "what": f"determinism exited {rc}: {o[-300:]}", "replay": {}, "no_input": True})
            continue
        rep = json.load(open(f"{out}/determinism.p{p}.report.json"))
        evals += rep["evaluations"]
        for k, v in rep["hist"].items():
            hist[k] = hist.get(k, 0) + v
        for v in rep["violations"]:
            violations.append({"class": v["class"], "what": f"{v['kind']}: {v.get('first_difference')}", "replay": v["replay"]})
        files.append(read_lines(f"{out}/determinism.p{p}"))
    distinct = len(set(files[0])) if files else 0
    for p in range(1, len(files)):
        for a, b in zip(files[0], files[p]):
            if a != b:
                violations.append({"class": "cross-process-divergence", "what": f"process 0 and {p} disagree: {a} vs {b}",
                                   "replay": {"id": a.split()[0], "seed": seed, "programs": nprog}})
                break
    cov = {"evaluations": evals, "distinct_nontrivial": distinct,
           "rule": f"each generated program built {repeats}x in-process in each of {procs} processes (RAYON_NUM_THREADS default/1/16); "
                   "canonical dump = op list, witness numbering, rewrite map, preprocessed role columns and multiplicities, and for every "
                   "10th program AIR degrees + preprocessed commitment; distinct = distinct program digests",
           "samples": files[0][:3] if files else [], "input_distribution": hist}
    return violations, cov


CHECK = {
    "lean_modules": ["P3R.Props.C18"],
    "theorems": ["P3R.C18.lookup_perm_nodup", "P3R.C18.filterRound_order_independent"],
    "run": run,
    "trusted_base": ["process / thread schedules and hash seeds are exercised, not modelled (partial by nature)"],
    "assumptions": ["equality with the Lean model's own output is checked by C02/C09 on the same generator"],
}

MANIFEST_ENTRY = {
    "property_id": "C18", "quick_cmd": "bin/check C18 --tier quick", "thorough_cmd": "bin/check C18 --tier thorough",
    "evidence_file": "evidence/C18.json", "replay_cmd_template": "bin/check C18 --replay {path}", "engine": "lean-models",
    "technique": "Lean 4 order-independence lemmas for the hash-iteration points of the optimiser + repeated-build digest comparison across processes",
    "level_claimed": {"category": "proof", "text": "the only hash-iteration-dependent decisions of the compile model are proved independent of enumeration order (distinct candidate outputs); the rest of the model is a function of Vec order; determinism of the real build under fresh hash seeds, processes and thread counts is exercised by digest comparison.", "design_ref": "4/C18"},
    "level_note": "schedules are exercised not proved; the Lean statement covers filter_valid's position map only",
}
