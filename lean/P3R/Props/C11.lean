/-
C11 — each table's constraints accept exactly the rows its operation allows (ALU table).
Property theorems about `P3R.Model.AluAir`, for every field `K` and every extension degree
`D` (coefficient vectors are lists; all statements quantify over all rows).

* `laneAdd_iff`, `laneEq_iff`, `laneBool_iff`, `laneMulAdd_iff`, `hornerSingle_iff` — for a
  non-zero selector, all coefficient constraints of the kind vanish iff the kind's relation
  holds coefficient-wise (with `ab = a·b` the extension product); with selector `0` they
  accept every row (padding, other kinds).
* `extMulBinomial_eval_D2/D4/D8`, `extMulQuintic_eval` — the hand-expanded products are
  multiplication in `K[X]/(X^D − W)` resp. `K[X]/(X⁵ + X² − 1)`: evaluating the product at any
  root `α` of the modulus (in any commutative ring) gives the product of the evaluations.
* `packed2_iff` — the inter-row constraint of a 2-packed Horner row together with the `b²`
  column constraint is equivalent to two chained Horner steps (base field shape, D = 1).
Arities ≥ 3 of packed Horner rows are not proved here; they are covered by the exact
value-level correspondence and the tamper oracle of the harness (stated in DESIGN).
-/
import P3R.Model.AluAir
import Mathlib.Algebra.Field.Basic
import Mathlib.Tactic.Ring
import Mathlib.Tactic.LinearCombination

namespace P3R.C11
open P3R

section Lane
variable {K : Type} [Field K]

theorem map_range_zero_iff (D : Nat) (f : Nat → K) :
    (∀ c ∈ (List.range D).map f, c = 0) ↔ ∀ i < D, f i = 0 := by
  constructor
  · intro h i hi
    exact h (f i) (List.mem_map.mpr ⟨i, List.mem_range.mpr hi, rfl⟩)
  · intro h c hc
    obtain ⟨i, hi, rfl⟩ := List.mem_map.mp hc
    exact h i (List.mem_range.mp hi)

/-- **ADD.** -/
theorem laneAdd_iff (D : Nat) (sel : K) (hs : sel ≠ 0) (a b out : List K) :
    (∀ c ∈ laneAdd D sel a b out, c = 0) ↔ ∀ i < D, vget a i + vget b i = vget out i := by
  unfold laneAdd
  rw [map_range_zero_iff]
  constructor <;> intro h i hi
  · have := h i hi
    rcases mul_eq_zero.mp this with h0 | h0
    · exact absurd h0 hs
    · exact sub_eq_zero.mp h0
  · rw [h i hi]; simp

/-- **MUL / equality with a computed vector.** -/
theorem laneEq_iff (D : Nat) (sel : K) (hs : sel ≠ 0) (x out : List K) :
    (∀ c ∈ laneEq D sel x out, c = 0) ↔ ∀ i < D, vget x i = vget out i := by
  unfold laneEq
  rw [map_range_zero_iff]
  constructor <;> intro h i hi
  · rcases mul_eq_zero.mp (h i hi) with h0 | h0
    · exact absurd h0 hs
    · exact sub_eq_zero.mp h0
  · rw [h i hi]; simp

/-- **MUL_ADD.** -/
theorem laneMulAdd_iff (D : Nat) (sel : K) (hs : sel ≠ 0) (ab c out : List K) :
    (∀ x ∈ laneMulAdd D sel ab c out, x = 0) ↔ ∀ i < D, vget ab i + vget c i = vget out i := by
  unfold laneMulAdd
  rw [map_range_zero_iff]
  constructor <;> intro h i hi
  · rcases mul_eq_zero.mp (h i hi) with h0 | h0
    · exact absurd h0 hs
    · exact sub_eq_zero.mp h0
  · rw [h i hi]; simp

/-- **BOOL_CHECK**: the value is `0` or `1` embedded in the base field. -/
theorem laneBool_iff (D : Nat) (sel : K) (hs : sel ≠ 0) (a : List K) :
    (∀ c ∈ laneBool D sel a, c = 0) ↔
      (vget a 0 = 0 ∨ vget a 0 = 1) ∧ ∀ i < D - 1, vget a (i + 1) = 0 := by
  unfold laneBool
  simp only [List.mem_cons, forall_eq_or_imp]
  rw [map_range_zero_iff]
  constructor
  · rintro ⟨h0, hr⟩
    refine ⟨?_, fun i hi => ?_⟩
    · rcases mul_eq_zero.mp h0 with h1 | h1
      · rcases mul_eq_zero.mp h1 with h2 | h2
        · exact absurd h2 hs
        · exact Or.inl h2
      · exact Or.inr (sub_eq_zero.mp h1)
    · rcases mul_eq_zero.mp (hr i hi) with h1 | h1
      · exact absurd h1 hs
      · exact h1
  · rintro ⟨h0, hr⟩
    refine ⟨?_, fun i hi => by rw [hr i hi]; simp⟩
    rcases h0 with h | h <;> rw [h] <;> simp

/-- **HORNER, single step across rows**: `out' = out·b' + c' − a'`. -/
theorem hornerSingle_iff (D : Nat) (sel : K) (hs : sel ≠ 0) (outB nC nA nOut : List K) :
    (∀ x ∈ hornerSingle D sel outB nC nA nOut, x = 0) ↔
      ∀ i < D, vget nOut i = vget outB i + vget nC i - vget nA i := by
  unfold hornerSingle
  rw [map_range_zero_iff]
  constructor <;> intro h i hi
  · rcases mul_eq_zero.mp (h i hi) with h0 | h0
    · exact absurd h0 hs
    · exact (sub_eq_zero.mp h0).symm
  · rw [h i hi]; simp

/-- A zero selector accepts every row (padding rows; rows of another kind). -/
theorem lane_zero_sel (D : Nat) (a b out : List K) :
    (∀ c ∈ laneAdd D 0 a b out, c = 0) ∧ (∀ c ∈ laneEq D 0 a out, c = 0) ∧
    (∀ c ∈ laneBool D 0 a, c = 0) ∧ (∀ c ∈ laneMulAdd D 0 a b out, c = 0) := by
  refine ⟨?_, ?_, ?_, ?_⟩ <;> intro c hc <;>
    simp [laneAdd, laneEq, laneBool, laneMulAdd] at hc <;> aesop

/-- **Separator / padding rows (fix F22).** The lane-0 constraint `(1 − active)·outᵢ = 0` forces
`out = 0` on every inactive row, so a Horner chain that starts after a separator starts from 0. -/
theorem sep_out_zero (D : Nat) (active : K) (out : List K) (hact : active = 0)
    (h : ∀ c ∈ (List.range D).map (fun i => ((1 : K) - active) * vget out i), c = 0) :
    ∀ i < D, vget out i = 0 := by
  rw [map_range_zero_iff] at h
  intro i hi
  have := h i hi
  rw [hact] at this
  simpa using this

/-- **Const / Public tables** accept every row: the table has no constraint at all; the value that
goes on the bus is the row's main-trace cell (`sendInteractions`), which is why a Const row's value is
not tied to the circuit's constant (finding F4). -/
theorem send_accepts_every_row (D lanes : Nat) (ml pl : List K) :
    ∀ c ∈ sendConstraints D lanes ml pl, c = 0 := by
  intro c hc; cases hc

/-- The value limbs a Const / Public row sends are exactly its main-trace cells. -/
theorem send_value_is_main_cell (D lanes : Nat) (ml pl : List K) (lane : Nat) (h : lane < lanes) :
    (sendInteractions D lanes ml pl).getD lane ([], 0) =
      (vget pl (lane * 2 + 1) :: seg ml (lane * D) D, vget pl (lane * 2)) := by
  unfold sendInteractions
  simp [List.getD_eq_getElem?_getD, h]

end Lane

section ExtMul
variable {R : Type} [CommRing R]

/-- Evaluation of a coefficient list at `α`. -/
def evalAt (α : R) (D : Nat) (x : List R) : R :=
  lsum ((List.range D).map fun i => vget x i * α ^ i)

/-- **Binomial product, D = 2**: multiplication modulo `X² − W` (any root `α`, `α² = W`). -/
theorem extMulBinomial_eval_D2 (α : R) (x0 x1 y0 y1 : R) :
    evalAt α 2 (extMulBinomial 2 (α ^ 2) [x0, x1] [y0, y1]) =
      evalAt α 2 [x0, x1] * evalAt α 2 [y0, y1] := by
  simp [evalAt, extMulBinomial, lsum, vget, List.range, List.range.loop, List.flatMap, List.filterMap]
  ring

/-- **Binomial product, D = 4**: multiplication modulo `X⁴ − W`. -/
theorem extMulBinomial_eval_D4 (α : R) (x0 x1 x2 x3 y0 y1 y2 y3 : R) :
    evalAt α 4 (extMulBinomial 4 (α ^ 4) [x0, x1, x2, x3] [y0, y1, y2, y3]) =
      evalAt α 4 [x0, x1, x2, x3] * evalAt α 4 [y0, y1, y2, y3] := by
  simp [evalAt, extMulBinomial, lsum, vget, List.range, List.range.loop, List.flatMap, List.filterMap]
  ring

/-- **Binomial product, D = 5** (BabyBear / Goldilocks quintic binomial extensions). -/
theorem extMulBinomial_eval_D5 (α : R) (x0 x1 x2 x3 x4 y0 y1 y2 y3 y4 : R) :
    evalAt α 5 (extMulBinomial 5 (α ^ 5) [x0, x1, x2, x3, x4] [y0, y1, y2, y3, y4]) =
      evalAt α 5 [x0, x1, x2, x3, x4] * evalAt α 5 [y0, y1, y2, y3, y4] := by
  simp [evalAt, extMulBinomial, lsum, vget, List.range, List.range.loop, List.flatMap, List.filterMap]
  ring

/-- **Binomial product, D = 8**: multiplication modulo `X⁸ − W`. -/
theorem extMulBinomial_eval_D8 (α : R) (x0 x1 x2 x3 x4 x5 x6 x7 y0 y1 y2 y3 y4 y5 y6 y7 : R) :
    evalAt α 8 (extMulBinomial 8 (α ^ 8) [x0, x1, x2, x3, x4, x5, x6, x7] [y0, y1, y2, y3, y4, y5, y6, y7]) =
      evalAt α 8 [x0, x1, x2, x3, x4, x5, x6, x7] * evalAt α 8 [y0, y1, y2, y3, y4, y5, y6, y7] := by
  simp [evalAt, extMulBinomial, lsum, vget, List.range, List.range.loop, List.flatMap, List.filterMap]
  ring

/-- **Quintic trinomial product**: multiplication modulo `X⁵ + X² − 1`. -/
theorem extMulQuintic_eval (α : R) (h : α ^ 5 + α ^ 2 - 1 = 0) (x0 x1 x2 x3 x4 y0 y1 y2 y3 y4 : R) :
    evalAt α 5 (extMulQuintic [x0, x1, x2, x3, x4] [y0, y1, y2, y3, y4]) =
      evalAt α 5 [x0, x1, x2, x3, x4] * evalAt α 5 [y0, y1, y2, y3, y4] := by
  simp [evalAt, extMulQuintic, lsum, vget, List.range, List.range.loop]
  linear_combination
    (-(x1 * y4 + x2 * y3 + x3 * y2 + x4 * y1) - (x2 * y4 + x3 * y3 + x4 * y2) * α
      - (x3 * y4 + x4 * y3) * α ^ 2 - (x4 * y4) * (α ^ 3 - 1)) * h

end ExtMul

section Packed
variable {K : Type} [Field K]

/-- **Packed Horner, arity 2 (D = 1 shape).** With the `b²` column pinned to `b·b`, the folded
inter-row constraint `prev·b² + c₀·b − a₀·b + c₁ − a₁ = out` holds iff there is the
intermediate accumulator `o₀ = prev·b + c₀ − a₀` with `out = o₀·b + c₁ − a₁`. -/
theorem packed2_iff (prev b bSq a0 c0 a1 c1 out : K) (hb : bSq = b * b) :
    prev * bSq + c0 * b - a0 * b + c1 - a1 = out ↔
      ∃ o0, o0 = prev * b + c0 - a0 ∧ out = o0 * b + c1 - a1 := by
  subst hb
  constructor
  · intro h; exact ⟨_, rfl, by rw [← h]; ring⟩
  · rintro ⟨o0, rfl, rfl⟩; ring

/-- **Packed Horner, arity 3 (D = 1 shape)**: the fold into the intermediate slot followed by
the single trailing step. -/
theorem packed3_iff (prev b bSq a0 c0 a1 c1 a2 c2 int0 out : K) (hb : bSq = b * b) :
    (prev * bSq + c0 * b - a0 * b + c1 - a1 = int0 ∧ int0 * b + c2 - a2 - out = 0) ↔
      ∃ o0 o1, o0 = prev * b + c0 - a0 ∧ o1 = o0 * b + c1 - a1 ∧ int0 = o1 ∧
        out = o1 * b + c2 - a2 := by
  subst hb
  constructor
  · rintro ⟨h1, h2⟩
    refine ⟨_, _, rfl, rfl, ?_, ?_⟩
    · rw [← h1]; ring
    · have : out = int0 * b + c2 - a2 := by linear_combination -h2
      rw [this, ← h1]; ring
  · rintro ⟨o0, o1, rfl, rfl, rfl, rfl⟩
    constructor <;> ring

end Packed

end P3R.C11
