//! C15: malformed proofs / common data / parameters must be rejected with an error — never a
//! panic, never a circuit that checks less than the well-formed shape would.
//!
//! Honest proofs (uni-STARK Fibonacci, uni-STARK with a preprocessed trace, batch-STARK of a
//! small circuit) are serialised to JSON together with their companion data (verifier
//! parameters, preprocessed commitment, per-instance lookup lists). A structural mutator walks
//! that JSON generically: every array is shortened by one, lengthened by one (last element
//! duplicated) and emptied; every count / degree / parameter integer is set to 0, v-1, v+1, 28,
//! 63, 64 and usize::MAX; every optional part is toggled. Each mutant that still deserialises
//! into the typed proof is handed to the real circuit builders (`verify_p3_uni_proof_circuit`,
//! `verify_p3_batch_proof_circuit`, target allocation included, `CircuitBuilder::build`
//! included) under `catch_unwind`. Outcome ∈ {err, panic, ok}; for ok the built circuit's
//! fingerprint is compared with the fingerprint of the circuit built from the honest input.
//!
//! Oracle (implementation vs property): panic ⇒ violation; ok with a fingerprint different from
//! the well-formed circuit ⇒ violation (the builder accepted a malformed shape and produced a
//! different circuit); ok with the identical circuit is recorded but is not a violation (the
//! alteration is invisible to the builder: e.g. Merkle sibling lists, which are only consumed
//! when the witness is assigned).
//!
//! Model side: every case also prints the shape vector of the mutant (`*.cases`); the Lean
//! driver `p3r_driver_c15` evaluates `P3R.Model.Shape.verify*` on it and must print the same
//! outcome class as the implementation (`*.impl`).

use std::cell::RefCell;
use std::collections::{BTreeMap, BTreeSet};
use std::io::Write;
use std::panic::{AssertUnwindSafe, catch_unwind};

use p3_batch_stark::{CommonData, ProverData};
use p3_circuit::ops::{generate_poseidon2_trace, generate_recompose_trace};
use p3_circuit::test_utils::{FibonacciAir, generate_trace_rows};
use p3_circuit::CircuitBuilder;
use p3_circuit_prover::batch_stark_prover::BatchStarkProof;
use p3_circuit_prover::common::get_airs_and_degrees_with_prep;
use p3_circuit_prover::{BatchStarkProver, CircuitProverData, ConstraintProfile, TablePacking};
use p3_field::PrimeCharacteristicRing;
use p3_lookup::logup::LogUpGadget;
use p3_matrix::dense::RowMajorMatrix;
use p3_poseidon2_circuit_air::BabyBearD4Width16;
use p3_recursion::pcs::fri::{FriVerifierParams, InputProofTargets, MerkleCapTargets, RecValMmcs};
use p3_recursion::pcs::{FriProofTargets, RecExtensionValMmcs, Witness};
use p3_recursion::public_inputs::StarkVerifierInputsBuilder;
use p3_recursion::verifier::verify_p3_batch_proof_circuit;
use p3_recursion::{Poseidon2Config, VerificationError, verify_p3_uni_proof_circuit};
use p3_test_utils::baby_bear_params::*;
use p3_uni_stark::{Proof, prove, prove_with_preprocessed, setup_preprocessed};
use serde_json::{Value, json};

use crate::rng::Rng;

type RecMmcs = RecValMmcs<F, DIGEST_ELEMS, MyHash, MyCompress>;
type InnerFri = FriProofTargets<
    F,
    Challenge,
    RecExtensionValMmcs<F, Challenge, DIGEST_ELEMS, RecMmcs>,
    InputProofTargets<F, Challenge, RecMmcs>,
    Witness<F>,
>;
type CapT = MerkleCapTargets<F, DIGEST_ELEMS>;
type Com = <MyPcs as p3_commit::Pcs<Challenge, Challenger>>::Commitment;

// ------------------------------------------------------------------ panic capture

thread_local! {
    static LAST_PANIC: RefCell<Option<(String, String)>> = const { RefCell::new(None) };
}

fn install_hook() {
    std::panic::set_hook(Box::new(|info| {
        let loc = info
            .location()
            .map(|l| {
                let f = l.file();
                // keep the path from the crate directory on (stable across checkouts)
                let f = f.rsplit_once("/src/").map(|(a, b)| format!("{}/src/{}", a.rsplit('/').next().unwrap_or(""), b)).unwrap_or_else(|| f.to_string());
                format!("{}:{}", f, l.line())
            })
            .unwrap_or_default();
        let msg = info
            .payload()
            .downcast_ref::<String>()
            .cloned()
            .or_else(|| info.payload().downcast_ref::<&str>().map(|s| s.to_string()))
            .unwrap_or_default();
        if std::env::var("P3R_PANIC").is_ok() {
            eprintln!("panic at {loc}: {msg}");
        }
        LAST_PANIC.with(|p| *p.borrow_mut() = Some((loc, msg)));
    }));
}

/// Panic message with the numbers removed: the class of a panic must not depend on the
/// particular lengths involved.
fn normalise_msg(m: &str) -> String {
    let mut out = String::new();
    let mut last_hash = false;
    for c in m.chars().take(160) {
        if c.is_ascii_digit() {
            if !last_hash {
                out.push('#');
            }
            last_hash = true;
        } else {
            out.push(c);
            last_hash = false;
        }
    }
    out.split_whitespace().collect::<Vec<_>>().join(" ")
}

// ------------------------------------------------------------------ outcomes

#[derive(Clone, Debug, PartialEq)]
pub struct Fingerprint {
    ops: usize,
    witnesses: u32,
    public_len: usize,
    private_len: usize,
    npo: usize,
    /// hash of the primitive op list (kinds and operand slots), so that two different circuits
    /// with equal counts are still told apart
    ops_hash: u64,
}

#[derive(Clone, Debug, PartialEq)]
pub enum Outcome {
    Err(String),
    Panic { file: String, line: String, msg: String },
    Ok(Fingerprint),
    /// the process died (allocation failure / stack overflow): not catchable by the caller
    Abort(String),
}

fn err_kind(e: &VerificationError) -> String {
    match e {
        VerificationError::InvalidProofShape(_) => "InvalidProofShape".into(),
        VerificationError::RandomizationError => "RandomizationError".into(),
        VerificationError::Circuit(_) => "Circuit".into(),
        VerificationError::CircuitBuilder(_) => "CircuitBuilder".into(),
        VerificationError::Generation(_) => "Generation".into(),
    }
}

fn guarded(f: impl FnOnce() -> Result<Fingerprint, (String, String)>) -> (Outcome, String) {
    LAST_PANIC.with(|p| *p.borrow_mut() = None);
    match catch_unwind(AssertUnwindSafe(f)) {
        Ok(Ok(fp)) => (Outcome::Ok(fp), String::new()),
        Ok(Err((k, detail))) => (Outcome::Err(k), detail),
        Err(_) => {
            let (loc, msg) = LAST_PANIC.with(|p| p.borrow_mut().take()).unwrap_or_default();
            let (file, line) = loc.rsplit_once(':').map(|(a, b)| (a.to_string(), b.to_string())).unwrap_or((loc.clone(), String::new()));
            (Outcome::Panic { file, line, msg: normalise_msg(&msg) }, msg.chars().take(200).collect())
        }
    }
}

fn new_builder() -> CircuitBuilder<Challenge> {
    let mut cb = CircuitBuilder::new();
    cb.enable_poseidon2_perm::<BabyBearD4Width16, _>(
        generate_poseidon2_trace::<Challenge, BabyBearD4Width16>,
        default_babybear_poseidon2_16(),
    );
    cb.enable_recompose::<F>(generate_recompose_trace::<F, Challenge>);
    cb
}

fn finish(cb: CircuitBuilder<Challenge>) -> Result<Fingerprint, (String, String)> {
    let c = cb.build().map_err(|e| ("CircuitBuilder".to_string(), format!("build: {e:?}").chars().take(160).collect::<String>()))?;
    let npo = c.ops.iter().filter(|o| matches!(o, p3_circuit::ops::Op::NonPrimitiveOpWithExecutor { .. })).count();
    let mut h: u64 = 0xcbf2_9ce4_8422_2325;
    for o in &c.ops {
        if !matches!(o, p3_circuit::ops::Op::NonPrimitiveOpWithExecutor { .. }) {
            for b in format!("{o:?}").bytes() {
                h = (h ^ b as u64).wrapping_mul(0x0000_0100_0000_01b3);
            }
        } else {
            h = (h ^ 0xff).wrapping_mul(0x0000_0100_0000_01b3);
        }
    }
    Ok(Fingerprint { ops: c.ops.len(), witnesses: c.witness_count, public_len: c.public_flat_len, private_len: c.private_flat_len, npo, ops_hash: h })
}

// ------------------------------------------------------------------ configurations

fn make_config(cap_height: usize) -> MyConfig {
    let perm = default_babybear_poseidon2_16();
    let hash = MyHash::new(perm.clone());
    let compress = MyCompress::new(perm.clone());
    let val_mmcs = MyMmcs::new(hash, compress, cap_height);
    let challenge_mmcs = ChallengeMmcs::new(val_mmcs.clone());
    let fri_params = FriParameters::new_testing(challenge_mmcs, 0);
    let pcs = MyPcs::new(Dft::default(), val_mmcs, fri_params);
    MyConfig::new(pcs, Challenger::new(perm))
}

fn params_json(mmcs: bool) -> Value {
    let s = test_fri_scalars();
    json!({"log_blowup": s.log_blowup, "log_final_poly_len": s.log_final_poly_len,
           "commit_pow_bits": s.commit_pow_bits, "query_pow_bits": s.query_pow_bits, "mmcs": mmcs})
}

fn params_from(v: &Value) -> Option<FriVerifierParams> {
    let g = |k: &str| v.get(k).and_then(Value::as_u64).map(|x| x as usize);
    let (lb, lf, cp, qp) = (g("log_blowup")?, g("log_final_poly_len")?, g("commit_pow_bits")?, g("query_pow_bits")?);
    Some(if v.get("mmcs").and_then(Value::as_bool)? {
        FriVerifierParams::with_mmcs(lb, lf, cp, qp, Poseidon2Config::BABY_BEAR_D4_W16)
    } else {
        FriVerifierParams::unsafe_arithmetic_only_for_tests(lb, lf, cp, qp)
    })
}

// ------------------------------------------------------------------ AIR with a preprocessed trace
// (transcribed from recursion/tests/common/mod.rs `MulAir`, which is test-only code)

pub const REPETITIONS: usize = 2;
#[derive(Clone, Copy)]
pub struct MulAir {
    pub rows: usize,
}
impl MulAir {
    fn traces(&self) -> (RowMajorMatrix<F>, RowMajorMatrix<F>) {
        let mut rng = Rng::new(7);
        let mut main = F::zero_vec(self.rows * REPETITIONS);
        let mut prep = F::zero_vec(self.rows * REPETITIONS * 2);
        for i in 0..self.rows * REPETITIONS {
            let row = i / REPETITIONS;
            let a = F::from_usize(i);
            let b = if row == 0 { a * a + F::ONE } else { F::from_u64(rng.below(1 << 30)) };
            prep[2 * i] = a;
            prep[2 * i + 1] = b;
            main[i] = a * b;
        }
        (RowMajorMatrix::new(main, REPETITIONS), RowMajorMatrix::new(prep, REPETITIONS * 2))
    }
}
impl p3_air::BaseAir<F> for MulAir {
    fn width(&self) -> usize {
        REPETITIONS
    }
    fn preprocessed_width(&self) -> usize {
        REPETITIONS * 2
    }
    fn preprocessed_trace(&self) -> Option<RowMajorMatrix<F>> {
        Some(self.traces().1)
    }
}
impl<AB: p3_air::AirBuilder<F = F>> p3_air::Air<AB> for MulAir {
    fn eval(&self, builder: &mut AB) {
        use p3_air::{AirBuilder, WindowAccess};
        let main = builder.main();
        let main_local = main.current_slice();
        let preprocessed = builder.preprocessed().clone();
        let pl = preprocessed.current_slice();
        let pn = preprocessed.next_slice();
        for (i, c) in main_local.iter().enumerate() {
            let a = pl[2 * i];
            let b = pl[2 * i + 1];
            builder.assert_zero(a.into() * b - *c);
            builder.when_first_row().assert_eq(a * a + AB::Expr::ONE, b);
            let next_a = pn[2 * i];
            builder.when_transition().assert_eq(a + AB::Expr::from_u8(REPETITIONS as u8), next_a);
        }
    }
}

// ------------------------------------------------------------------ bases

pub struct Base {
    pub name: &'static str,
    pub kind: Kind,
    pub input: Value,
    pub honest: Fingerprint,
    /// batch only: honest per-instance lookups (not serialisable)
    common: Option<CommonData<MyConfig>>,
    cap_height: usize,
    /// generic batch bases only: the verifier's AIR list
    gairs: Vec<batch::GAir>,
}

#[derive(Clone, Copy, PartialEq, Debug)]
pub enum Kind {
    UniFib,
    UniMul,
    /// circuit-prover proof through `verify_p3_batch_proof_circuit`
    Batch,
    /// plain AIRs through the generic `verify_batch_circuit`
    GBatch,
}

fn run_uni<A>(cfg: &MyConfig, air: &A, input: &Value, npub: usize) -> Result<Fingerprint, (String, String)>
where
    A: p3_recursion::traits::RecursiveAir<F, Challenge, LogUpGadget>,
{
    let proof: Proof<MyConfig> = serde_json::from_value(input["proof"].clone()).map_err(|e| ("unrepresentable".to_string(), e.to_string()))?;
    let prep: Option<Com> = match &input["prep_commit"] {
        Value::Null => None,
        v => Some(serde_json::from_value(v.clone()).map_err(|e| ("unrepresentable".to_string(), e.to_string()))?),
    };
    let params = params_from(&input["params"]).ok_or(("unrepresentable".to_string(), "params".to_string()))?;
    let mut cb = new_builder();
    let vi = StarkVerifierInputsBuilder::<MyConfig, CapT, InnerFri>::allocate(&mut cb, &proof, prep.as_ref(), npub);
    verify_p3_uni_proof_circuit::<A, MyConfig, CapT, InputProofTargets<F, Challenge, RecMmcs>, InnerFri, _, WIDTH, RATE>(
        cfg,
        air,
        &mut cb,
        &vi.proof_targets,
        &vi.air_public_targets,
        &vi.preprocessed_commit,
        &params,
        Poseidon2Config::BABY_BEAR_D4_W16,
    )
    .map_err(|e| (err_kind(&e), format!("{e}").chars().take(200).collect::<String>()))?;
    finish(cb)
}

fn run_batch(cfg: &MyConfig, honest_common: &CommonData<MyConfig>, input: &Value) -> Result<Fingerprint, (String, String)> {
    let proof: BatchStarkProof<MyConfig> = serde_json::from_value(input["proof"].clone()).map_err(|e| ("unrepresentable".to_string(), e.to_string()))?;
    let params = params_from(&input["params"]).ok_or(("unrepresentable".to_string(), "params".to_string()))?;
    // lookups: per instance the index of the honest instance whose `Lookups` it carries (null = none);
    // `Lookups` has no public constructor from a list, so single lookups cannot be altered from outside
    let hl = &honest_common.lookups;
    let mut lookups = vec![];
    for inst in input["lookups"].as_array().ok_or(("unrepresentable".to_string(), "lookups".to_string()))? {
        match inst {
            Value::Null => lookups.push(p3_lookup::Lookups::default()),
            v => {
                let k = v.as_u64().ok_or(("unrepresentable".to_string(), "lookups[i]".to_string()))? as usize;
                lookups.push(hl.get(k).cloned().ok_or(("unrepresentable".to_string(), "lookups[i] out of range".to_string()))?);
            }
        }
    }
    let prep = proof.stark_common.preprocessed.as_ref().map(|g| p3_batch_stark::common::GlobalPreprocessed::<MyConfig> {
        commitment: g.commitment.clone(),
        instances: g.instances.clone(),
        matrix_to_instance: g.matrix_to_instance.clone(),
    });
    let common = CommonData::<MyConfig>::new(prep, lookups);
    let mut cb = new_builder();
    let lg = LogUpGadget::new();
    verify_p3_batch_proof_circuit::<MyConfig, CapT, InputProofTargets<F, Challenge, RecMmcs>, InnerFri, LogUpGadget, _, WIDTH, RATE, 1>(
        cfg,
        &mut cb,
        &proof,
        &params,
        &common,
        &lg,
        Poseidon2Config::BABY_BEAR_D4_W16,
        &[],
    )
    .map_err(|e| (err_kind(&e), format!("{e}").chars().take(200).collect::<String>()))?;
    finish(cb)
}

impl Base {
    pub fn run(&self, input: &Value) -> (Outcome, String) {
        let cfg = make_config(self.cap_height);
        match self.kind {
            Kind::UniFib => guarded(|| run_uni(&cfg, &FibonacciAir {}, input, 3)),
            Kind::UniMul => guarded(|| run_uni(&cfg, &MulAir { rows: 8 }, input, 0)),
            Kind::Batch => guarded(|| run_batch(&cfg, self.common.as_ref().unwrap(), input)),
            Kind::GBatch => guarded(|| batch::run_gbatch(&cfg, &self.gairs, input)),
        }
    }

    /// Driver line of a (mutated) input. `in_worker = false`: called by the parent after the worker
    /// died on this case; then the circuit-table AIRs are only rebuilt when the table metadata is
    /// the honest one (rebuilding them from altered counts could kill the parent the same way).
    pub fn shape_line(&self, input: &Value, in_worker: bool) -> Option<String> {
        match self.kind {
            Kind::Batch if !in_worker && !batch::same_metadata(input, &self.input) => None,
            Kind::Batch | Kind::GBatch => batch::shape_line(self, input),
            _ => shape::shape_line(self.kind, self.cap_height, input),
        }
    }
}

fn base_uni_fib(name: &'static str, cap_height: usize, mmcs: bool) -> Base {
    let cfg = make_config(cap_height);
    let trace = generate_trace_rows::<F>(0, 1, 8);
    let pis = vec![F::ZERO, F::ONE, F::from_u64(21)];
    let proof = prove(&cfg, &FibonacciAir {}, trace, &pis);
    assert!(p3_uni_stark::verify(&cfg, &FibonacciAir {}, &proof, &pis).is_ok());
    let input = json!({"proof": serde_json::to_value(&proof).unwrap(), "prep_commit": Value::Null, "params": params_json(mmcs)});
    let mut b = Base { name, kind: Kind::UniFib, input, honest: Fingerprint { ops: 0, witnesses: 0, public_len: 0, private_len: 0, npo: 0, ops_hash: 0 }, common: None, cap_height, gairs: vec![] };
    b.honest = match b.run(&b.input).0 {
        Outcome::Ok(fp) => fp,
        o => panic!("honest {name} does not build: {o:?}"),
    };
    b
}

fn base_uni_mul() -> Base {
    let cfg = make_config(0);
    let air = MulAir { rows: 8 };
    let (trace, _) = air.traces();
    let (pd, vk) = setup_preprocessed(&cfg, &air, 3).unzip();
    let proof = prove_with_preprocessed(&cfg, &air, trace, &[], pd.as_ref());
    assert!(p3_uni_stark::verify_with_preprocessed(&cfg, &air, &proof, &[], vk.as_ref()).is_ok());
    let commit = vk.map(|v| v.commitment).unwrap();
    let input = json!({"proof": serde_json::to_value(&proof).unwrap(), "prep_commit": serde_json::to_value(&commit).unwrap(), "params": params_json(false)});
    let mut b = Base { name: "uni-mul", kind: Kind::UniMul, input, honest: Fingerprint { ops: 0, witnesses: 0, public_len: 0, private_len: 0, npo: 0, ops_hash: 0 }, common: None, cap_height: 0, gairs: vec![] };
    b.honest = match b.run(&b.input).0 {
        Outcome::Ok(fp) => fp,
        o => panic!("honest uni-mul does not build: {o:?}"),
    };
    b
}

fn base_batch() -> Base {
    base_batch_sized(3)
}

/// `n_adds` additions: a larger value gives the ALU table a different height from the Const / Public
/// tables (the FRI input batches then hold matrices of several heights).
fn base_batch_sized(n_adds: usize) -> Base {
    base_batch_named(if n_adds == 3 { "batch" } else { "batch-h" }, n_adds)
}

fn base_batch_named(name: &'static str, n_adds: usize) -> Base {
    let cfg = make_config(0);
    // a small circuit: x*3 + c = y with a public y, plus a short add chain
    let mut b = CircuitBuilder::<F>::new();
    let y = b.alloc_public_input("y");
    let x = b.alloc_public_input("x");
    let three = b.alloc_const(F::from_u64(3), "3");
    let m = b.mul(x, three);
    let mut acc = m;
    for _ in 0..n_adds {
        acc = b.add(acc, x);
    }
    b.connect(acc, y);
    let circuit = b.build().unwrap();
    let packing = TablePacking::new(1, 2);
    let (airs_degrees, prim, nonprim) =
        get_airs_and_degrees_with_prep::<MyConfig, _, 1>(&circuit, &packing, &[], &[], ConstraintProfile::Standard).unwrap();
    let (airs, degrees): (Vec<_>, Vec<usize>) = airs_degrees.into_iter().unzip();
    let mut runner = circuit.runner();
    runner.set_public_inputs(&[F::from_u64(5 * (3 + n_adds as u64)), F::from_u64(5)]).unwrap();
    let traces = runner.run().unwrap();
    let pd = ProverData::from_airs_and_degrees(&cfg, &airs, &degrees);
    let cpd = CircuitProverData::new(pd, prim, nonprim);
    let prover = BatchStarkProver::new(make_config(0)).with_table_packing(packing);
    let proof = prover.prove_all_tables(&traces, &cpd).unwrap();
    prover.verify_all_tables::<F>(&proof).unwrap();
    let common = cpd.common_data();
    let lookups: Vec<usize> = (0..common.lookups.len()).collect();
    let input = json!({"proof": serde_json::to_value(&proof).unwrap(), "lookups": lookups, "params": params_json(true)});
    let common = CommonData::<MyConfig>::new(None, common.lookups.clone());
    let mut base = Base { name, kind: Kind::Batch, input, honest: Fingerprint { ops: 0, witnesses: 0, public_len: 0, private_len: 0, npo: 0, ops_hash: 0 }, common: Some(common), cap_height: 0, gairs: vec![] };
    base.honest = match base.run(&base.input) {
        (Outcome::Ok(fp), _) => fp,
        o => panic!("honest batch does not build: {o:?}"),
    };
    base
}

/// An AIR with two periodic columns (periods 2 and 8) that reads `builder.periodic_values()`
/// unconditionally, as any real AIR with periodic columns does.
struct PeriodicAir;

impl PeriodicAir {
    fn cols() -> Vec<Vec<F>> {
        vec![
            (0..2u64).map(|i| F::from_u64(7 + 3 * i)).collect(),
            (0..8u64).map(|i| F::from_u64(100 + i * i)).collect(),
        ]
    }
    fn trace() -> RowMajorMatrix<F> {
        let cols = Self::cols();
        let mut v = vec![];
        for r in 0..16usize {
            v.push(cols[0][r % 2]);
            v.push(cols[1][r % 8]);
            v.push(F::from_usize(r));
        }
        RowMajorMatrix::new(v, 3)
    }
}

impl p3_air::BaseAir<F> for PeriodicAir {
    fn width(&self) -> usize {
        3
    }
    fn num_periodic_columns(&self) -> usize {
        2
    }
    fn periodic_columns(&self) -> Vec<Vec<F>> {
        Self::cols()
    }
    fn main_next_row_columns(&self) -> Vec<usize> {
        vec![2]
    }
}

impl<AB: p3_air::AirBuilder<F = F>> p3_air::Air<AB> for PeriodicAir {
    fn eval(&self, builder: &mut AB) {
        use p3_air::{AirBuilder as _, WindowAccess};
        let main = builder.main();
        let local = main.current_slice();
        let next = main.next_slice();
        let (a, b, ctr, ctr_next) = (local[0], local[1], local[2], next[2]);
        let p0: AB::Expr = builder.periodic_values()[0].into();
        let p1: AB::Expr = builder.periodic_values()[1].into();
        builder.assert_zero(a.into() - p0);
        builder.assert_zero(b.into() - p1);
        builder.when_first_row().assert_zero(ctr.into());
        builder.when_transition().assert_zero(ctr_next.into() - ctr.into() - AB::Expr::ONE);
    }
}

/// An honest uni-STARK proof of an AIR with periodic columns must get a verification circuit:
/// returns a violation when building it fails (error or panic) although the native verifier accepts.
fn periodic_honest_check() -> Option<Value> {
    let cfg = make_config(0);
    let proof = catch_unwind(AssertUnwindSafe(|| prove(&cfg, &PeriodicAir, PeriodicAir::trace(), &[]))).ok()?;
    if p3_uni_stark::verify(&cfg, &PeriodicAir, &proof, &[]).is_err() {
        return None; // not an honest accepted proof: nothing to compare
    }
    let input = json!({"proof": serde_json::to_value(&proof).ok()?, "prep_commit": Value::Null, "params": params_json(true)});
    match guarded(|| run_uni(&cfg, &PeriodicAir, &input, 0)) {
        (Outcome::Ok(_), _) => None,
        (o, detail) => Some(json!({"property": "C15", "kind": "honest-proof-circuit-not-built",
            "class": format!("honest-periodic-air:{}", match &o { Outcome::Panic { .. } => "panic", Outcome::Err(_) => "err", _ => "other" }),
            "site": "verify_p3_uni_proof_circuit", "alteration": "none", "detail": format!("{o:?} {detail}").chars().take(300).collect::<String>(),
            "replay": {"base": "uni-periodic", "generic_path": "-", "what": "honest uni-STARK proof of the harness's PeriodicAir (periods 2 and 8, unguarded periodic_values access)"}})),
    }
}

/// For C18: the batch-STARK *verification circuit* (the recursion front end: `verify_p3_batch_proof_circuit`
/// over a real proof whose tables have different heights) built `n` times in this process; one line per
/// build with the circuit's fingerprint (counts + order-sensitive hash of the op list).
pub fn verifier_circuit_fingerprints(n: usize) -> Vec<String> {
    let base = base_batch_sized(45);
    (0..n).map(|_| format!("{:?}", base.run(&base.input).0)).collect()
}

// ------------------------------------------------------------------ structural mutator over JSON

#[derive(Clone, Debug, PartialEq)]
pub enum Seg {
    K(String),
    I(usize),
}

#[derive(Clone, Debug, PartialEq)]
pub enum Mutation {
    Shorten,
    Lengthen,
    Empty,
    SetInt(u64),
    Remove,          // Some -> None
    Add(Vec<Seg>),   // None -> Some(copy of the value at the donor path)
    FlipBool,
}

impl Mutation {
    fn name(&self) -> String {
        match self {
            Mutation::Shorten => "shorten".into(),
            Mutation::Lengthen => "lengthen".into(),
            Mutation::Empty => "empty".into(),
            Mutation::SetInt(v) => format!("set={v}"),
            Mutation::Remove => "remove".into(),
            Mutation::Add(_) => "add".into(),
            Mutation::FlipBool => "flip".into(),
        }
    }
    fn kind(&self) -> &'static str {
        match self {
            Mutation::Shorten => "shorten",
            Mutation::Lengthen => "lengthen",
            Mutation::Empty => "empty",
            Mutation::SetInt(_) => "set-int",
            Mutation::Remove => "remove",
            Mutation::Add(_) => "add",
            Mutation::FlipBool => "flip",
        }
    }
}

/// keys whose integer value is a count / degree / size / parameter (everything else numeric in
/// the JSON is a field element)
const INT_KEYS: &[&str] = &[
    "degree_bits", "log_arity", "ext_degree", "rows", "lanes", "public_lanes", "alu_lanes", "min_trace_height",
    "horner_packed_steps", "matrix_index", "width", "matrix_to_instance", "log_blowup", "log_final_poly_len",
    "commit_pow_bits", "query_pow_bits", "lookups",
];
/// optional parts and where a value of the right type can be copied from (sibling key)
const OPTIONALS: &[(&str, &str)] = &[
    ("random", "trace"), ("random", "main"), ("random", "trace_local"), ("permutation", "main"),
    ("preprocessed_local", "trace_local"), ("preprocessed_next", "trace_local"), ("trace_next", "trace_local"),
    ("prep_commit", "#trace_commit"),
];

pub fn generic_path(p: &[Seg]) -> String {
    let mut s = String::new();
    for seg in p {
        match seg {
            Seg::K(k) => {
                if !s.is_empty() {
                    s.push('.');
                }
                s.push_str(k);
            }
            Seg::I(_) => s.push_str("[]"),
        }
    }
    s
}

fn last_key(p: &[Seg]) -> Option<&str> {
    p.iter().rev().find_map(|s| if let Seg::K(k) = s { Some(k.as_str()) } else { None })
}

fn get<'a>(v: &'a Value, p: &[Seg]) -> Option<&'a Value> {
    let mut cur = v;
    for s in p {
        cur = match s {
            Seg::K(k) => cur.get(k.as_str())?,
            Seg::I(i) => cur.get(*i)?,
        };
    }
    Some(cur)
}

fn get_mut<'a>(v: &'a mut Value, p: &[Seg]) -> Option<&'a mut Value> {
    let mut cur = v;
    for s in p {
        cur = match s {
            Seg::K(k) => cur.get_mut(k.as_str())?,
            Seg::I(i) => cur.get_mut(*i)?,
        };
    }
    Some(cur)
}

fn int_values(key: &str, v: u64) -> Vec<u64> {
    let mut xs = vec![0, v.wrapping_sub(1), v.wrapping_add(1), 28, 63, 64, u64::MAX];
    if key == "log_arity" {
        xs = vec![0, v.wrapping_sub(1), v.wrapping_add(1), 7, 8, 28, 63, 64, 255];
    }
    if key == "degree_bits" {
        // 26, 27: around the two-adicity; 29..32: the window that /repo ca07f07 leaves (bounded by the
        // field bit width 31, not the two-adicity 27) and the first value above it
        xs.extend([26, 27, 29, 30, 31, 32]);
    }
    if key == "lookups" {
        xs = vec![v.wrapping_sub(1), v.wrapping_add(1)]; // carry another instance's lookups
    }
    xs.retain(|&x| x != v);
    xs.sort_unstable();
    xs.dedup();
    xs
}

pub fn enumerate(root: &Value) -> Vec<(Vec<Seg>, Mutation)> {
    fn walk(root: &Value, v: &Value, path: &mut Vec<Seg>, out: &mut Vec<(Vec<Seg>, Mutation)>) {
        match v {
            Value::Array(a) => {
                if !a.is_empty() {
                    out.push((path.clone(), Mutation::Shorten));
                    out.push((path.clone(), Mutation::Lengthen));
                    if a.len() > 1 {
                        out.push((path.clone(), Mutation::Empty));
                    }
                }
                for (i, x) in a.iter().enumerate() {
                    path.push(Seg::I(i));
                    walk(root, x, path, out);
                    path.pop();
                }
            }
            Value::Object(o) => {
                for (k, x) in o {
                    path.push(Seg::K(k.clone()));
                    walk(root, x, path, out);
                    path.pop();
                }
            }
            Value::Number(n) => {
                if let (Some(k), Some(val)) = (last_key(path), n.as_u64()) {
                    if INT_KEYS.contains(&k) {
                        for x in int_values(k, val) {
                            out.push((path.clone(), Mutation::SetInt(x)));
                        }
                    }
                }
            }
            Value::Bool(_) => out.push((path.clone(), Mutation::FlipBool)),
            Value::Null => {}
            Value::String(_) => {}
        }
        // optional parts
        if let Some(Seg::K(k)) = path.last() {
            for (opt, donor) in OPTIONALS {
                if k == opt {
                    if v.is_null() {
                        let mut dp = path.clone();
                        dp.pop();
                        if let Some(d) = donor.strip_prefix('#') {
                            let _ = d;
                            dp = vec![Seg::K("proof".into()), Seg::K("commitments".into()), Seg::K("trace".into())];
                        } else {
                            dp.push(Seg::K((*donor).to_string()));
                        }
                        if get(root, &dp).is_some_and(|d| !d.is_null()) && !out.iter().any(|(p, m)| p == path && matches!(m, Mutation::Add(_))) {
                            out.push((path.clone(), Mutation::Add(dp)));
                        }
                    } else if !out.iter().any(|(p, m)| p == path && *m == Mutation::Remove) {
                        out.push((path.clone(), Mutation::Remove));
                    }
                }
            }
        }
        // entries of lookup_terminals: Option per instance
        if let [.., Seg::K(k), Seg::I(i)] = path.as_slice() {
            if k == "lookups" && !v.is_null() {
                out.push((path.clone(), Mutation::Remove));
            }
            if k == "lookup_terminals" {
                if v.is_null() {
                    let mut arr = path.clone();
                    arr.pop();
                    if let Some(j) = get(root, &arr).and_then(Value::as_array).and_then(|a| a.iter().position(|x| !x.is_null())) {
                        let mut dp = arr.clone();
                        dp.push(Seg::I(j));
                        out.push((path.clone(), Mutation::Add(dp)));
                    }
                } else {
                    out.push((path.clone(), Mutation::Remove));
                }
                let _ = i;
            }
        }
    }
    let mut out = vec![];
    walk(root, root, &mut vec![], &mut out);
    out
}

pub fn apply(root: &Value, path: &[Seg], m: &Mutation) -> Option<Value> {
    let mut v = root.clone();
    let donor = if let Mutation::Add(dp) = m { Some(get(root, dp)?.clone()) } else { None };
    let node = get_mut(&mut v, path)?;
    match m {
        Mutation::Shorten => {
            node.as_array_mut()?.pop()?;
        }
        Mutation::Lengthen => {
            let a = node.as_array_mut()?;
            let l = a.last()?.clone();
            a.push(l);
        }
        Mutation::Empty => node.as_array_mut()?.clear(),
        Mutation::SetInt(x) => *node = json!(x),
        Mutation::Remove => *node = Value::Null,
        Mutation::Add(_) => *node = donor?,
        Mutation::FlipBool => *node = json!(!node.as_bool()?),
    }
    Some(v)
}

fn path_json(p: &[Seg]) -> Value {
    Value::Array(p.iter().map(|s| match s { Seg::K(k) => json!(k), Seg::I(i) => json!(i) }).collect())
}
fn path_from(v: &Value) -> Option<Vec<Seg>> {
    v.as_array()?.iter().map(|x| x.as_str().map(|s| Seg::K(s.to_string())).or_else(|| x.as_u64().map(|i| Seg::I(i as usize)))).collect()
}
fn mutation_json(m: &Mutation) -> Value {
    match m {
        Mutation::SetInt(x) => json!({"kind": "set-int", "value": x}),
        Mutation::Add(dp) => json!({"kind": "add", "donor": path_json(dp)}),
        o => json!({"kind": o.kind()}),
    }
}
fn mutation_from(v: &Value) -> Option<Mutation> {
    Some(match v.get("kind")?.as_str()? {
        "shorten" => Mutation::Shorten,
        "lengthen" => Mutation::Lengthen,
        "empty" => Mutation::Empty,
        "set-int" => Mutation::SetInt(v.get("value")?.as_u64()?),
        "remove" => Mutation::Remove,
        "add" => Mutation::Add(path_from(v.get("donor")?)?),
        "flip" => Mutation::FlipBool,
        _ => return None,
    })
}

// ------------------------------------------------------------------ shape vector for the model

#[path = "c15_shape.rs"]
pub mod shape;

#[path = "c15_batch.rs"]
pub mod batch;

// ------------------------------------------------------------------ main

struct Case {
    base: usize,
    path: Vec<Seg>,
    m: Mutation,
    /// a second alteration applied after the first (pair cases: they exercise the *order* of the
    /// checks in the model; for the oracle a pair only counts when neither alteration alone
    /// already gives that outcome)
    second: Option<(Vec<Seg>, Mutation)>,
    /// further alterations applied after `second` (corpus files only, key `more`): a shape that needs
    /// more than two edits of an honest base, e.g. a proof without fold phase. Such a case is
    /// compared by outcome (`expect_outcome`) and by its model line only; the violation oracle,
    /// which attributes an outcome to one of at most two alterations, does not classify it.
    more: Vec<(Vec<Seg>, Mutation)>,
    from_corpus: Option<String>,
}

fn apply_case(root: &Value, c: &Case) -> Option<Value> {
    let v = apply(root, &c.path, &c.m)?;
    let mut v = match &c.second {
        None => v,
        Some((p, m)) => apply(&v, p, m)?,
    };
    for (p, m) in &c.more {
        v = apply(&v, p, m)?;
    }
    Some(v)
}

fn case_json(base: &str, c: &Case) -> Value {
    let mut v = json!({"base": base, "path": path_json(&c.path), "mutation": mutation_json(&c.m)});
    if let Some((p, m)) = &c.second {
        v["second"] = json!({"path": path_json(p), "mutation": mutation_json(m)});
    }
    if !c.more.is_empty() {
        v["more"] = Value::Array(c.more.iter().map(|(p, m)| json!({"path": path_json(p), "mutation": mutation_json(m)})).collect());
    }
    v
}

fn case_from(v: &Value, bases: &[Base]) -> Option<Case> {
    let bn = v.get("base")?.as_str()?;
    let base = bases.iter().position(|b| b.name == bn)?;
    let second = match v.get("second") {
        Some(s) if !s.is_null() => Some((path_from(s.get("path")?)?, mutation_from(s.get("mutation")?)?)),
        _ => None,
    };
    let mut more = vec![];
    if let Some(a) = v.get("more").and_then(Value::as_array) {
        for s in a {
            more.push((path_from(s.get("path")?)?, mutation_from(s.get("mutation")?)?));
        }
    }
    Some(Case { base, path: path_from(v.get("path")?)?, m: mutation_from(v.get("mutation")?)?, second, more, from_corpus: None })
}

/// The unvalidated input a violation is attributed to: the generic path of the altered node with
/// the `proof.` wrappers and list markers removed; every Merkle cap is the same site (the
/// circuit MMCS has no configured cap height), and the table metadata counts are one site.
pub fn site_of(generic_path: &str) -> String {
    let mut p = generic_path.replace("[]", "");
    while let Some(r) = p.strip_prefix("proof.") {
        p = r.to_string();
    }
    if p.starts_with("params.") {
        return "params".into();
    }
    if p.ends_with(".cap") || p == "cap" {
        return "merkle-cap".into();
    }
    if p.starts_with("rows") || p.starts_with("table_packing") || p.starts_with("non_primitives") || p == "ext_degree" {
        return "table-metadata".into();
    }
    p
}

/// Class of a crash attributed to `site`. For `degree_bits` the part of finding F9a that /repo
/// ca07f07 leaves open gets its own class: the crash is the `unwrap()` inside one of the PCS domain
/// constructors (`natural_domain_for_degree`, `create_disjoint_domain`) and the largest declared
/// `degree_bits` lies in `TWO_ADICITY - 1 ..= VAL_BITS` (with the bases' `log_quotient_degree <= 1`
/// that is `TWO_ADICITY < degree_bits + log_quotient_degree <= Val::bits()`). Every other crash on an
/// altered `degree_bits` (a shift overflow, a value above the bit width, an abort) keeps the plain
/// class `panic:degree_bits`, which no known finding matches any more.
fn panic_class(site: &str, o: &Outcome, mutant: Option<&Value>) -> String {
    if site == "degree_bits" {
        if let (Outcome::Panic { file, msg, .. }, Some(mv)) = (o, mutant) {
            let db = [&mv["proof"]["degree_bits"], &mv["proof"]["proof"]["degree_bits"]];
            let max = db.iter().flat_map(|v| match v {
                Value::Array(a) => a.iter().filter_map(Value::as_u64).collect::<Vec<_>>(),
                v => v.as_u64().into_iter().collect(),
            }).max();
            let in_window = max.is_some_and(|m| m.saturating_add(1) >= shape::TWO_ADICITY as u64 && m <= shape::VAL_BITS as u64);
            let in_domain_ctor = msg.contains("Option::unwrap()") && (file.ends_with("two_adic_pcs.rs") || file.ends_with("domain.rs"));
            if in_window && in_domain_ctor {
                return "panic:degree_bits:above-two-adicity-within-field-bits".into();
            }
        }
    }
    format!("panic:{site}")
}

fn outcome_line(o: &Outcome, honest: &Fingerprint) -> String {
    match o {
        Outcome::Err(_) => "err".into(),
        Outcome::Panic { .. } | Outcome::Abort(_) => "panic".into(),
        Outcome::Ok(fp) => {
            if fp == honest { "ok same".into() } else { "ok different".into() }
        }
    }
}

pub fn main(args: &crate::Args) {
    install_hook();
    let seed = args.u64("seed", 1);
    let out = args.str("out", "/tmp/c15");
    let per_class = args.u64("per-class", 2) as usize; // concrete positions sampled per (generic path, mutation)
    let generate = args.u64("generate", 1) == 1;
    let threads = args.u64("threads", 6).max(1) as usize;
    std::fs::create_dir_all(&out).unwrap();
    let mut rng = Rng::new(seed);

    let t0 = std::time::Instant::now();
    let bases: Vec<Base> = all_bases();
    let t_bases = t0.elapsed().as_secs_f64();

    let mut cases: Vec<Case> = vec![];
    // corpus first
    let mut corpus_expect: Vec<(usize, String, String)> = vec![]; // (case idx, file, expected class)
    // regression cases of repaired findings: (case idx, file, expected outcome line, finding id)
    let mut corpus_expect_outcome: Vec<(usize, String, String, String)> = vec![];
    if let Some(dir) = args.opt("corpus") {
        let mut files: Vec<_> = std::fs::read_dir(&dir).map(|d| d.filter_map(|e| e.ok()).map(|e| e.path()).collect()).unwrap_or_default();
        files.sort();
        for f in files {
            if f.extension().and_then(|e| e.to_str()) != Some("json") {
                continue;
            }
            let Ok(txt) = std::fs::read_to_string(&f) else { continue };
            let Ok(v) = serde_json::from_str::<Value>(&txt) else { continue };
            let v = v.get("replay").cloned().unwrap_or(v);
            let Some(mut c) = case_from(&v, &bases) else { continue };
            if let Some(e) = v.get("expect_class").and_then(Value::as_str) {
                corpus_expect.push((cases.len(), f.file_name().unwrap().to_string_lossy().to_string(), e.to_string()));
            }
            if let Some(e) = v.get("expect_outcome").and_then(Value::as_str) {
                let id = v.get("regression_of").and_then(Value::as_str).unwrap_or("").to_string();
                corpus_expect_outcome.push((cases.len(), f.file_name().unwrap().to_string_lossy().to_string(), e.to_string(), id));
            }
            c.from_corpus = Some(f.file_name().unwrap().to_string_lossy().to_string());
            cases.push(c);
        }
    }
    let mut enumerated = 0usize;
    if generate {
        for (bi, b) in bases.iter().enumerate() {
            let all = enumerate(&b.input);
            enumerated += all.len();
            // group by (generic path, mutation name); take `per_class` seeded positions per group
            // (0 = all positions)
            let mut groups: BTreeMap<(String, String), Vec<(Vec<Seg>, Mutation)>> = BTreeMap::new();
            for (p, m) in all {
                groups.entry((generic_path(&p), m.name())).or_default().push((p, m));
            }
            for (_, mut g) in groups {
                if per_class > 0 && g.len() > per_class {
                    // always keep the first and the last position, sample the rest
                    let mut keep = vec![g.remove(0)];
                    if per_class > 1 {
                        keep.push(g.pop().unwrap());
                    }
                    while keep.len() < per_class && !g.is_empty() {
                        let k = rng.usize(g.len());
                        keep.push(g.remove(k));
                    }
                    g = keep;
                }
                for (p, m) in g {
                    cases.push(Case { base: bi, path: p, m, second: None, more: vec![], from_corpus: None });
                }
            }
        }
        // pairs of alterations (seeded): second alteration drawn from the enumeration of the
        // already altered input, so it always applies
        let pairs = args.u64("pairs", 0) as usize;
        let cached: Vec<Vec<(Vec<Seg>, Mutation)>> = bases.iter().map(|b| enumerate(&b.input)).collect();
        for _ in 0..pairs {
            let bi = rng.usize(bases.len());
            let b = &bases[bi];
            let all = &cached[bi];
            let (p1, m1) = all[rng.usize(all.len())].clone();
            // second alteration: mostly one of the honest input's alterations (cheap; it may not
            // apply any more, then the pair is dropped), sometimes one enumerated on the already
            // altered input (reaches nodes the first alteration created)
            let (p2, m2) = if rng.chance(1, 8) {
                let Some(v1) = apply(&b.input, &p1, &m1) else { continue };
                let all2 = enumerate(&v1);
                if all2.is_empty() {
                    continue;
                }
                all2[rng.usize(all2.len())].clone()
            } else {
                all[rng.usize(all.len())].clone()
            };
            if p1 == p2 && m1 == m2 {
                continue;
            }
            cases.push(Case { base: bi, path: p1, m: m1, second: Some((p2, m2)), more: vec![], from_corpus: None });
        }
    }

    // run: every case in a worker child process under an address-space limit, so that an
    // allocation whose size the proof controls is an observation (`abort`), not the death of
    // the harness. A worker builds the same (deterministic) bases and answers one case per line.
    struct Res {
        outcome: Outcome,
        detail: String,
        shape: Option<String>,
        unrepresentable: bool,
    }
    let results: Vec<Res> = {
        let n = cases.len();
        let next = std::sync::atomic::AtomicUsize::new(0);
        let slots: Vec<std::sync::Mutex<Option<Res>>> = (0..n).map(|_| std::sync::Mutex::new(None)).collect();
        let exe = std::env::current_exe().unwrap();
        let limit_kb = args.u64("mem-limit-kb", 6_000_000);
        let spawn = || {
            std::process::Command::new("sh")
                .arg("-c")
                .arg(format!("ulimit -v {limit_kb}; exec \"{}\" malformed-worker", exe.display()))
                .stdin(std::process::Stdio::piped())
                .stdout(std::process::Stdio::piped())
                .stderr(std::process::Stdio::piped())
                .spawn()
                .expect("spawn worker")
        };
        std::thread::scope(|s| {
            for _ in 0..threads {
                s.spawn(|| {
                    use std::io::{BufRead, BufReader, Read};
                    let mut child = spawn();
                    let mut rd = BufReader::new(child.stdout.take().unwrap());
                    loop {
                        let k = next.fetch_add(1, std::sync::atomic::Ordering::SeqCst);
                        if k >= n {
                            break;
                        }
                        let c = &cases[k];
                        let req = case_json(bases[c.base].name, c);
                        let sent = writeln!(child.stdin.as_mut().unwrap(), "{req}").is_ok();
                        let mut line = String::new();
                        let got = sent && rd.read_line(&mut line).map(|n| n > 0).unwrap_or(false);
                        let r = if got {
                            let v: Value = serde_json::from_str(&line).unwrap_or(Value::Null);
                            let o = match v["outcome"].as_str().unwrap_or("") {
                                "err" => Outcome::Err(v["kind"].as_str().unwrap_or("").to_string()),
                                "panic" => Outcome::Panic { file: v["file"].as_str().unwrap_or("").into(), line: v["line"].as_str().unwrap_or("").into(), msg: v["msg"].as_str().unwrap_or("").into() },
                                "ok" => Outcome::Ok(Fingerprint {
                                    ops: v["fp"][0].as_u64().unwrap_or(0) as usize,
                                    witnesses: v["fp"][1].as_u64().unwrap_or(0) as u32,
                                    public_len: v["fp"][2].as_u64().unwrap_or(0) as usize,
                                    private_len: v["fp"][3].as_u64().unwrap_or(0) as usize,
                                    npo: v["fp"][4].as_u64().unwrap_or(0) as usize,
                                    ops_hash: v["fp"][5].as_u64().unwrap_or(0),
                                }),
                                _ => Outcome::Abort("bad worker answer".into()),
                            };
                            let unrep = matches!(&o, Outcome::Err(k) if k == "unrepresentable");
                            Res { outcome: o, detail: v["detail"].as_str().unwrap_or("").to_string(), shape: v["shape"].as_str().map(str::to_string), unrepresentable: unrep }
                        } else {
                            // the worker died on this case
                            drop(child.stdin.take());
                            let mut errtxt = String::new();
                            if let Some(mut e) = child.stderr.take() {
                                let _ = e.read_to_string(&mut errtxt);
                            }
                            let status = child.wait().ok();
                            let why = if errtxt.contains("memory allocation of") {
                                "memory allocation failed".to_string()
                            } else if errtxt.contains("stack overflow") {
                                "stack overflow".to_string()
                            } else {
                                format!("worker died ({status:?})")
                            };
                            let b = &bases[c.base];
                            let shape = apply_case(&b.input, c).and_then(|mv| b.shape_line(&mv, false));
                            child = spawn();
                            rd = BufReader::new(child.stdout.take().unwrap());
                            Res { outcome: Outcome::Abort(why), detail: errtxt.lines().last().unwrap_or("").chars().take(200).collect(), shape, unrepresentable: false }
                        };
                        *slots[k].lock().unwrap() = Some(r);
                    }
                    drop(child.stdin.take());
                    let _ = child.wait();
                });
            }
        });
        slots.into_iter().map(|m| m.into_inner().unwrap().unwrap()).collect()
    };

    // honest lines first: the model must say `ok same` for the well-formed shape of every base
    let mut cases_f = std::fs::File::create(format!("{out}/c15.cases")).unwrap();
    let mut impl_f = std::fs::File::create(format!("{out}/c15.impl")).unwrap();
    // one description per driver line (base, generic path, alteration[, second]): for reading a disagreement
    let mut desc_f = std::fs::File::create(format!("{out}/c15.desc")).unwrap();
    let mut lines = 0usize;
    for b in &bases {
        if let Some(l) = b.shape_line(&b.input, true) {
            writeln!(cases_f, "{l}").unwrap();
            writeln!(impl_f, "ok same").unwrap();
            writeln!(desc_f, "{} honest", b.name).unwrap();
            lines += 1;
        }
    }

    let mut hist: BTreeMap<String, u64> = BTreeMap::new();
    let mut violations: Vec<Value> = vec![];
    if let Some(v) = periodic_honest_check() {
        violations.push(v);
    } else {
        *hist.entry("honest.periodic-air.built".into()).or_default() += 1;
    }
    let mut seen_class: BTreeMap<String, usize> = BTreeMap::new();
    let mut distinct: BTreeSet<String> = BTreeSet::new();
    let mut samples: Vec<Value> = vec![];
    let mut by_site: BTreeMap<String, u64> = BTreeMap::new();
    let mut single_class: std::collections::HashMap<String, Option<String>> = std::collections::HashMap::new();
    let mut site_class: std::collections::HashMap<String, String> = std::collections::HashMap::new();
    let mut pair_cases = 0usize;
    let mut evaluations = 0usize;
    let mut unrep = 0usize;
    let mut corpus_ok: Vec<String> = vec![];
    let mut classes_of_case: Vec<Option<String>> = vec![];
    let mut outcome_of_case: Vec<Option<String>> = vec![];
    for (k, (c, r)) in cases.iter().zip(results.iter()).enumerate() {
        let b = &bases[c.base];
        let gp = generic_path(&c.path);
        if r.unrepresentable {
            unrep += 1;
            *hist.entry("unrepresentable (typed proof cannot hold the mutant)".into()).or_default() += 1;
            classes_of_case.push(None);
            outcome_of_case.push(None);
            continue;
        }
        evaluations += 1;
        if c.second.is_some() {
            pair_cases += 1;
        }
        distinct.insert(format!("{}|{}|{}|{}", b.name, gp, c.m.name(), c.second.as_ref().map(|(p, m)| format!("{}:{}", generic_path(p), m.name())).unwrap_or_default()));
        let ol = outcome_line(&r.outcome, &b.honest);
        outcome_of_case.push(Some(format!("{ol}{}", if let Outcome::Panic { file, line, .. } = &r.outcome { format!(" at {file}:{line}") } else { String::new() })));
        *hist.entry(format!("base:{}", b.name)).or_default() += 1;
        *hist.entry(format!("mutation:{}", c.m.kind())).or_default() += 1;
        *hist.entry(format!("outcome:{ol}")).or_default() += 1;
        if let Outcome::Err(kind) = &r.outcome {
            *hist.entry(format!("err:{kind}")).or_default() += 1;
        }
        if let Some(l) = &r.shape {
            writeln!(cases_f, "{l}").unwrap();
            writeln!(impl_f, "{ol}").unwrap();
            writeln!(desc_f, "{} {} {} {} {}", b.name, gp, c.m.name(), c.second.as_ref().map(|(p, m)| format!("+ {} {}", generic_path(p), m.name())).unwrap_or_default(),
                     r.detail.replace('\n', " ")).unwrap();
            lines += 1;
        } else {
            *hist.entry("no-shape-line (alteration outside the modelled shape vector)".into()).or_default() += 1;
        }
        let mut replay = case_json(b.name, c);
        replay["generic_path"] = json!(gp);
        let replay = json!({"case": replay.clone(), "base": replay["base"], "path": replay["path"], "mutation": replay["mutation"], "second": replay.get("second"), "generic_path": gp,
                            "profile": if cfg!(debug_assertions) { "dev (overflow checks on)" } else { "release" }});
        let site = site_of(&gp);
        // `degree_bits[i]` of an instance whose degree no preprocessed metadata pins is the prover's
        // declared trace height (native `validate_degree_bits` accepts every value in range): like a
        // parameter, an accepted change is the well-formed circuit for that declared height; only a
        // crash is a violation there. Pinned instances (metadata present) stay under the full rule.
        let free_degree = |p: &[Seg]| -> bool {
            let [.., Seg::K(k), Seg::I(i)] = p else { return false };
            if k != "degree_bits" || !matches!(b.kind, Kind::Batch | Kind::GBatch) {
                return false;
            }
            let Some(mv) = apply_case(&b.input, c) else { return false };
            let sc = if b.kind == Kind::Batch { &mv["proof"]["stark_common"] } else { &mv["stark_common"] };
            sc.is_null() || sc["instances"].get(*i).is_none_or(Value::is_null)
        };
        let single = |site: &str, params: bool| match &r.outcome {
            Outcome::Panic { .. } | Outcome::Abort(_) => Some(panic_class(site, &r.outcome, apply_case(&b.input, c).as_ref())),
            // parameters are the verifier's own choice: any accepted parameter set is the
            // well-formed circuit *for those parameters*; only a crash is a violation there
            Outcome::Ok(fp) if *fp != b.honest && !params => Some(format!("accepted-malformed:{site}")),
            _ => None,
        };
        let key = |p: &[Seg], m: &Mutation| format!("{}|{}|{}", b.name, path_json(p), mutation_json(m));
        let class = match &c.second {
            _ if !c.more.is_empty() => {
                *hist.entry("multi-alteration corpus case (outcome + model line only)".into()).or_default() += 1;
                None
            }
            None => {
                let free = matches!(&r.outcome, Outcome::Ok(fp) if *fp != b.honest) && free_degree(&c.path);
                if free {
                    *hist.entry("accepted: declared degree of an instance without preprocessed metadata (not malformed)".into()).or_default() += 1;
                }
                let cl = single(&site, gp.starts_with("params.") || free);
                single_class.insert(key(&c.path, &c.m), cl.clone());
                if let Some(x) = &cl {
                    site_class.insert(format!("{}|{}", site, c.m.name()), x.clone());
                }
                cl
            }
            Some((p2, m2)) => {
                // a pair is attributed to the alteration that alone already gives this kind of
                // outcome; only if neither does is it a violation of its own
                let gp2 = generic_path(p2);
                let mode = match &r.outcome {
                    Outcome::Panic { .. } | Outcome::Abort(_) => Some("panic:"),
                    Outcome::Ok(fp) if *fp != b.honest => Some("accepted-malformed:"),
                    _ => None,
                };
                // exact single case, else the same alteration of the same site anywhere (the second
                // path may not exist in the honest input, or the base may hide it behind a parameter)
                let lookup = |p: &[Seg], m: &Mutation, md: &str| {
                    single_class.get(&key(p, m)).cloned().flatten().filter(|x| x.starts_with(md)).or_else(|| {
                        site_class.get(&format!("{}|{}", site_of(&generic_path(p)), m.name())).cloned().filter(|x| x.starts_with(md))
                    })
                };
                let (c1, c2) = match mode {
                    Some(md) => (lookup(&c.path, &c.m, md), lookup(p2, m2, md)),
                    None => (None, None),
                };
                match mode {
                    None => None,
                    Some(md) => {
                        if c1.as_deref().is_some_and(|x| x.starts_with(md)) {
                            c1
                        } else if c2.as_deref().is_some_and(|x| x.starts_with(md)) {
                            c2
                        } else if md == "accepted-malformed:" && (gp.starts_with("params.") || gp2.starts_with("params.") || free_degree(&c.path) || free_degree(p2)) {
                            None
                        } else if md == "accepted-malformed:" && (c1.is_some() || c2.is_some()) {
                            // one alteration alone crashes, the other repairs it into an accepted different shape
                            c1.or(c2).map(|x| x.replace("panic:", "accepted-malformed:"))
                        } else if let Outcome::Panic { file, msg, .. } = &r.outcome {
                            // neither alteration panics alone: attribute to the unchecked operation
                            Some(format!("panic:pair@{file}:{msg}"))
                        } else {
                            let (a, b2) = (site.clone(), site_of(&gp2));
                            let (a, b2) = if a <= b2 { (a, b2) } else { (b2, a) };
                            Some(format!("{md}pair:{a}+{b2}"))
                        }
                    }
                }
            }
        };
        classes_of_case.push(class.clone());
        *by_site.entry(format!("{} {} -> {}", site_of(&gp), c.m.kind(), ol)).or_default() += 1;
        if samples.len() < 8 && k % 37 == 0 {
            samples.push(json!({"base": b.name, "path": gp, "mutation": c.m.name(), "outcome": ol, "detail": r.detail}));
        }
        if let Some(class) = class {
            let n = seen_class.entry(class.clone()).or_default();
            *n += 1;
            if *n <= 2 {
                let (kind, detail) = match &r.outcome {
                    Outcome::Panic { file, line, .. } => ("panic", json!({"at": format!("{file}:{line}"), "message": r.detail})),
                    Outcome::Abort(why) => ("abort", json!({"why": why, "stderr": r.detail, "note": "the process dies (SIGABRT / OOM); catch_unwind cannot contain it"})),
                    Outcome::Ok(fp) => ("ok-with-different-circuit", json!({"honest": format!("{:?}", b.honest), "built": format!("{fp:?}"),
                                         "weaker": fp.ops < b.honest.ops || fp.npo < b.honest.npo})),
                    _ => unreachable!(),
                };
                violations.push(json!({"property": "C15", "kind": kind, "class": class, "site": site, "alteration": c.m.name(), "detail": detail, "replay": replay,
                                       "corpus_file": c.from_corpus}));
            }
        }
    }
    for (k, file, expect) in &corpus_expect {
        if classes_of_case.get(*k).and_then(|c| c.as_deref()) == Some(expect.as_str()) {
            corpus_ok.push(file.clone());
        }
    }
    let mut regressions_ok: Vec<String> = vec![];
    let mut regressions_failed: Vec<Value> = vec![];
    for (k, file, expect, id) in &corpus_expect_outcome {
        let got = outcome_of_case.get(*k).cloned().flatten().unwrap_or_else(|| "unrepresentable".into());
        if got == *expect {
            regressions_ok.push(file.clone());
        } else {
            regressions_failed.push(json!({"file": file, "finding": id, "expected": expect, "got": got,
                                            "replay": case_json(bases[cases[*k].base].name, &cases[*k])}));
        }
    }
    let report = json!({
        "corpus_regressions_passed": regressions_ok, "corpus_regressions_failed": regressions_failed,
        "evaluations": evaluations, "distinct": distinct.len(), "hist": hist, "samples": samples, "violations": violations,
        "violation_classes": seen_class, "outcome_by_site": by_site, "enumerated_alterations": enumerated, "unrepresentable": unrep,
        "model_lines": lines, "pair_cases": pair_cases, "corpus_witnesses_reproduced": corpus_ok,
        "bases": bases.iter().map(|b| json!({"name": b.name, "honest": format!("{:?}", b.honest)})).collect::<Vec<_>>(),
        "seconds": {"bases": t_bases, "total": t0.elapsed().as_secs_f64()},
    });
    std::fs::write(format!("{out}/c15.report.json"), serde_json::to_string_pretty(&report).unwrap()).unwrap();
}

/// Worker: one request line `{base, path, mutation}` -> one answer line.
pub fn worker_main(_args: &crate::Args) {
    install_hook();
    use std::io::BufRead;
    let bases: Vec<Base> = all_bases();
    let stdin = std::io::stdin();
    let stdout = std::io::stdout();
    for line in stdin.lock().lines() {
        let Ok(line) = line else { break };
        let v: Value = serde_json::from_str(&line).unwrap_or(Value::Null);
        let ans = (|| {
            let c = case_from(&v, &bases)?;
            let b = &bases[c.base];
            let Some(mv) = apply_case(&b.input, &c) else {
                return Some(json!({"outcome": "err", "kind": "unrepresentable", "detail": "mutation does not apply"}));
            };
            let (o, d) = b.run(&mv);
            let unrep = matches!(&o, Outcome::Err(k) if k == "unrepresentable");
            let shape = if unrep { None } else { b.shape_line(&mv, true) };
            Some(match o {
                Outcome::Err(k) => json!({"outcome": "err", "kind": k, "detail": d, "shape": shape}),
                Outcome::Panic { file, line, msg } => json!({"outcome": "panic", "file": file, "line": line, "msg": msg, "detail": d, "shape": shape}),
                Outcome::Ok(fp) => json!({"outcome": "ok", "fp": [fp.ops as u64, fp.witnesses as u64, fp.public_len as u64, fp.private_len as u64, fp.npo as u64, fp.ops_hash], "detail": d, "shape": shape}),
                Outcome::Abort(w) => json!({"outcome": "abort", "detail": w}),
            })
        })()
        .unwrap_or(json!({"outcome": "err", "kind": "unrepresentable", "detail": "bad request"}));
        let mut so = stdout.lock();
        writeln!(so, "{ans}").unwrap();
        so.flush().unwrap();
    }
}

fn all_bases() -> Vec<Base> {
    use batch::{AddAir, GAir, base_gbatch};
    vec![
        base_uni_fib("uni-fib", 0, true),
        base_uni_fib("uni-fib-cap1", 1, true),
        base_uni_mul(),
        base_batch(),
        // circuit tables of different heights (the FRI input batches hold matrices of several heights)
        base_batch_named("batch-h", 45),
        // generic entry `verify_batch_circuit`: 1 instance, no preprocessed data, no lookups
        base_gbatch("gbatch-1", vec![GAir::Fib(8)]),
        // 2 instances of different degrees, the first with preprocessed columns, the second without a next-row opening
        base_gbatch("gbatch-2", vec![GAir::Mul(MulAir { rows: 8 }), GAir::Add(AddAir { rows: 16 })]),
        // 4 instances, two preprocessed matrices of different degrees, public values on the third
        base_gbatch("gbatch-4", vec![GAir::Add(AddAir { rows: 8 }), GAir::Mul(MulAir { rows: 16 }), GAir::Fib(8), GAir::Mul(MulAir { rows: 8 })]),
    ]
}
