/-
C09 (non-primitive rows) line-protocol driver. Input: compiled op lists as dumped by the harness
(`busaudit.cases`), one block per circuit:

  circ <id> <D> <witness_count>
  privs <slot>*
  const <out> | pub <out> | alu <a> <b> <c|-> <out> | hint <ins,> | <outs,>
  npo pos <type> <merkle> <arity4> <compact> <width_ext> <rate_ext> <new_start> | <group>* | <group>*
  npo rec|recc | <group>* | <group>*        (group: `-` or comma-separated slots)
  npo other | … | …
  end

Output per block: the `circ` line, `st <slot> <creators> <sent> <reads>` for every slot with a
non-zero interaction after the plug-in conversion (`P3R.npoMult`, `P3R.freeMult` over `P3R.scanR`),
`end`. Anything else -> bad-op.
-/
import P3R.Model.Roles

open P3R

def grp (t : String) : Option (List Nat) :=
  if t == "-" then some [] else (t.splitOn ",").mapM String.toNat?

def grps (s : String) : Option (List (List Nat)) :=
  ((s.splitOn " ").filter (· != "")).mapM grp

structure PosLine where
  ty : String
  merkle : Bool
  arity4 : Bool
  widthExt : Nat
  rateExt : Nat
  newStart : Bool
  ins : List (List Nat)
  outs : List (List Nat)

inductive Line where
  | prim (op : Op Nat)
  | hint (outs : List Nat)
  | pos (p : PosLine)
  | recomp (coeff : Bool) (ins outs : List (List Nat))
  | other

def parseLine (l : String) : Option Line :=
  let parts := (l.splitOn "|").map String.trim
  let t := ((parts.getD 0 "").splitOn " ").filter (· != "")
  match t with
  | ["const", o] => o.toNat?.map fun o => .prim (.const o 0)
  | ["pub", o] => o.toNat?.map fun o => .prim (.pub o 0)
  | ["alu", a, b, c, o] => do
    let a ← a.toNat?; let b ← b.toNat?; let o ← o.toNat?
    let c ← if c == "-" then some none else c.toNat?.map some
    pure (.prim (.alu .add a b c o none))
  | "hint" :: _ => do
    let outs ← grp (parts.getD 1 "-")
    pure (.hint outs)
  | ["npo", "pos", ty, mk, a4, _compact, we, re, ns] => do
    let we ← we.toNat?; let re ← re.toNat?
    let ins ← grps (parts.getD 1 ""); let outs ← grps (parts.getD 2 "")
    pure (.pos ⟨ty, mk == "1", a4 == "1", we, re, ns == "1", ins, outs⟩)
  | ["npo", k] =>
    if k == "rec" || k == "recc" then do
      let ins ← grps (parts.getD 1 ""); let outs ← grps (parts.getD 2 "")
      pure (.recomp (k == "recc") ins outs)
    else if k == "other" then some .other else none
  | _ => none

def tableId (names : List String) (ty : String) : Nat := 10 + (names.findIdx (· == ty))

def runBlock (privs : List Nat) (ls : List Line) (wc : Nat) : List String :=
  let constPub : List Nat := ls.filterMap fun
    | .prim (.const o _) => some o
    | .prim (.pub o _) => some o
    | _ => none
  let hints : List Nat := (ls.flatMap fun
    | .hint outs => outs
    | _ => []).filter fun w => !constPub.contains w
  let names : List String := (ls.filterMap fun
    | .pos p => some p.ty
    | _ => none).eraseDups
  -- per Poseidon table: (merkle ∧ accumulator wired, new_start) of its rows, in order
  let flagsOf (ty : String) : List (Bool × Bool) := ls.filterMap fun
    | .pos p => if p.ty == ty then some (p.merkle && !(p.ins.getD p.widthExt []).isEmpty, p.newStart) else none
    | _ => none
  let step (acc : List (ROp Nat) × List (String × Nat)) (l : Line) : List (ROp Nat) × List (String × Nat) :=
    match l with
    | .prim op => (acc.1 ++ [.prim op], acc.2)
    | .hint _ => acc
    | .other => acc
    | .recomp coeff ins outs => (acc.1 ++ [.npo (recRow (if coeff then 2 else 1) coeff ins outs)], acc.2)
    | .pos p =>
      let i := (acc.2.lookup p.ty).getD 0
      let sumRead := !p.arity4 && sumExposed (flagsOf p.ty) i
      (acc.1 ++ [.npo (posRow (tableId names p.ty) p.merkle p.arity4 p.widthExt p.rateExt sumRead p.ins p.outs)],
       (p.ty, i + 1) :: acc.2)
  let ops := (ls.foldl step ([], [])).1
  let st := scanR privs hints ops
  let tags := ops.flatMap (ROp.tags privs hints)
  let dups := dupsOf st.events tags
  let mults : List (Nat × Int) :=
    (st.events.zip tags).map (fun et => (et.1.1, npoMult st.reads dups et.1 et.2)) ++
    (ops.flatMap fun
      | .npo r => r.frees.map fun s => (s, freeMult st.reads hints s)
      | _ => [])
  (List.range wc).filterMap fun s =>
    let ms := (mults.filter fun m => m.1 == s).map (·.2)
    let pos := ms.filter (· > 0)
    let neg := ms.filter (· < 0)
    if pos.isEmpty && neg.isEmpty then none
    else some s!"st {s} {pos.length} {pos.sum} {(neg.map fun m => -m).sum}"

partial def readBlock (h : IO.FS.Stream) (acc : List String) : IO (List String) := do
  let line ← h.getLine
  if line.isEmpty then return acc.reverse
  let l := line.trimRight
  if l == "end" then return acc.reverse
  readBlock h (l :: acc)

partial def loop (h : IO.FS.Stream) : IO Unit := do
  let line ← h.getLine
  if line.isEmpty then return ()
  let l := line.trimRight
  match (l.splitOn " ").filter (· != "") with
  | ["circ", _id, _d, wc] =>
    let body ← readBlock h []
    IO.println l
    let privs := match body.head? with
      | some p => if p.startsWith "privs" then ((p.splitOn " ").drop 1).filterMap String.toNat? else []
      | none => []
    let rest := body.filter fun x => !x.startsWith "privs"
    match rest.mapM parseLine, wc.toNat? with
    | some ls, some wc =>
      for o in runBlock privs ls wc do IO.println o
      IO.println "end"
    | _, _ => IO.println "bad-op"
  | _ => IO.println "bad-op"
  loop h

def main : IO Unit := do
  loop (← IO.getStdin)
