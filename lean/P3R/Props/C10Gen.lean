/-
C10 — completeness at model level for EVERY extension degree: the honest trace is accepted.

The converse direction of `C04.accepted_sat_gen`, over the same abstract accepted-trace notion with
`D` coefficient cells per operand occurrence. The honest trace puts the coefficient cells `cv s` of
the slot's value on every occurrence of slot `s` (`w s = ev φ α D (cv s)`). The step from a relation
between ring elements back to vanishing coefficient-wise constraints needs power-basis independence
`C11.CoeffIndep` (true in `K[X]/(g)`, `g` monic of degree `D`: `C11.coeffIndep_adjoinRoot`), and for
BOOL_CHECK that `L` has no zero divisors (`x·(x − 1) = 0 ⇒ x ∈ {0, 1}`; the AIR's constraint —
constant coefficient a bit, higher coefficients 0 — says `x ∈ {0,1}`).

* `holds_rowOk_gen`, `honest_rows_gen` — every row constraint vanishes on the honest cells;
* `honest_tupleNet_gen`, `honest_bus_gen` — `C10.honest_tupleNet` / `honest_bus` for every payload
  type (in particular `D`-tuples);
* `honest_accepted_gen` — both acceptance conditions of `C04.accepted_sat_gen` for `genPrep`'s roles;
* `run_honest_accepted_gen` — from a successful modelled run of a circuit over an extension *field*
  `L` with a coefficient map `coeffs : L → List K` (`ev (coeffs x) = x`: the power basis spans).
-/
import P3R.Props.C04Gen
import P3R.Props.C10Full

set_option linter.unusedSectionVars false

namespace P3R.C10
open P3R P3R.C04 P3R.C09 P3R.C11

section RowsGen
variable {K L : Type} [Field K] [CommRing L] [NoZeroDivisors L] (φ : K →+* L) (α : L) (D : ℕ)
  (kind : ExtKind K) (sel : K)

theorem holds_rowOk_gen (hind : CoeffIndep φ α D) (hD : 0 < D) (hk : KindRoot φ D kind α)
    (hs : sel ≠ 0) (cv : Nat → List K) (pub : Nat → L) (prev : Option (Nat × List K)) (op : Op L)
    (hwf : opWF op = true)
    (hchain : ∀ a b c out acc, op = .alu .horner a b c out (some acc) →
      ev φ α D (prevAccV D prev) = ev φ α D (cv acc))
    (h : op.holds (fun s => ev φ α D (cv s)) pub) :
    rowOkValsGen φ α D kind sel pub prev op ((opSlots op).map cv) := by
  cases op with
  | const out v => simpa [rowOkValsGen, opSlots, Op.holds] using h
  | pub out pos => simpa [rowOkValsGen, opSlots, Op.holds] using h
  | hint _ _ _ => simp [rowOkValsGen]
  | npo _ _ _ _ => simp [rowOkValsGen]
  | alu k a b c out io =>
    cases k with
    | add =>
      have : ∀ x ∈ laneAdd D sel (cv a) (cv b) (cv out), x = 0 :=
        (laneAdd_ring_iff φ α D hind sel hs _ _ _).mpr (Eq.symm h)
      cases c <;> simpa [rowOkValsGen, opSlots] using this
    | mul =>
      have : ∀ x ∈ laneEq D sel (extMul D kind (cv a) (cv b)) (cv out), x = 0 :=
        (laneMul_ring_iff φ α D hind kind hk sel hs _ _ _).mpr (Eq.symm h)
      cases c <;> simpa [rowOkValsGen, opSlots] using this
    | boolCheck =>
      have : ∀ x ∈ laneBool D sel (cv a), x = 0 := by
        rw [laneBool_ring_iff φ α D hind hD sel hs]
        have h' : ev φ α D (cv a) * (ev φ α D (cv a) - 1) = 0 := h
        rcases mul_eq_zero.mp h' with h0 | h1
        · exact Or.inl h0
        · exact Or.inr (sub_eq_zero.mp h1)
      cases c <;> simpa [rowOkValsGen, opSlots] using this
    | mulAdd =>
      cases c with
      | none => simp [opWF] at hwf
      | some cw =>
        have : ∀ x ∈ laneMulAdd D sel (extMul D kind (cv a) (cv b)) (cv cw) (cv out), x = 0 :=
          (laneMulAdd_ring_iff φ α D hind kind hk sel hs _ _ _ _).mpr (Eq.symm h)
        simpa [rowOkValsGen, opSlots] using this
    | horner =>
      cases c with
      | none => simp [opWF] at hwf
      | some cw =>
        cases io with
        | none => simp [opWF] at hwf
        | some acc =>
          simp only [rowOkValsGen, opSlots, List.map, List.cons_append, List.nil_append]
          rw [hornerSingle_ring_iff φ α D hind kind hk sel hs, hchain a b (some cw) out acc rfl]
          exact Eq.symm h

/-- **Honest rows, every `D`.** -/
theorem honest_rows_gen [DecidableEq L] (hind : CoeffIndep φ α D) (hD : 0 < D)
    (hk : KindRoot φ D kind α) (hs : sel ≠ 0) (cv : Nat → List K) (pub : Nat → L) (zs : List Nat)
    (hz : ∀ x ∈ zs, ev φ α D (cv x) = 0) (ops : List (Op L)) (prev : Option (Nat × List K))
    (hprev : ∀ s v, prev = some (s, v) → v = cv s)
    (hsat : Sat (fun s => ev φ α D (cv s)) pub ops) (hwf : ∀ o ∈ ops, opWF o = true)
    (hchain : hornerChainedFrom zs ops (prev.map Prod.fst) = true) :
    rowsOkGen φ α D kind sel pub ops ((ops.flatMap opSlots).map cv) prev := by
  induction ops generalizing prev with
  | nil => trivial
  | cons op ops ih =>
    simp only [rowsOkGen, List.flatMap_cons, List.map_append]
    rw [List.take_left' (by simp), List.drop_left' (by simp)]
    have hop := hsat op (by simp)
    have hsat' : Sat (fun s => ev φ α D (cv s)) pub ops := fun o ho => hsat o (by simp [ho])
    have hwf' : ∀ o ∈ ops, opWF o = true := fun o ho => hwf o (by simp [ho])
    have hwfo := hwf op (by simp)
    refine ⟨holds_rowOk_gen φ α D kind sel hind hD hk hs cv pub prev op hwfo ?_ hop, ?_⟩
    · intro a b c out acc he
      subst he
      simp only [hornerChainedFrom, Bool.and_eq_true] at hchain
      cases prev with
      | none =>
        simp only [prevAccV]
        rw [ev_replicate_zero]
        exact (hz acc (by simpa using hchain.1)).symm
      | some sv =>
        obtain ⟨s, v⟩ := sv
        simp only [prevAccV]
        have hs' : acc = s := by simpa using hchain.1
        rw [hprev s v rfl, hs']
    · cases op with
      | alu k a b c out io =>
        cases k with
        | horner =>
          rw [nextPrevGen_horner]
          refine ih (some (out, cv out)) (by intro s v h; cases h; rfl) hsat' hwf' ?_
          cases io with
          | none => simp [hornerChainedFrom] at hchain
          | some acc =>
            simp only [hornerChainedFrom, Bool.and_eq_true] at hchain
            simpa using hchain.2
        | add =>
          rw [nextPrevGen_alu_other _ _ (by decide)]
          exact ih none (fun _ _ h => by cases h) hsat' hwf' (by simpa [hornerChainedFrom] using hchain)
        | mul =>
          rw [nextPrevGen_alu_other _ _ (by decide)]
          exact ih none (fun _ _ h => by cases h) hsat' hwf' (by simpa [hornerChainedFrom] using hchain)
        | boolCheck =>
          rw [nextPrevGen_alu_other _ _ (by decide)]
          exact ih none (fun _ _ h => by cases h) hsat' hwf' (by simpa [hornerChainedFrom] using hchain)
        | mulAdd =>
          rw [nextPrevGen_alu_other _ _ (by decide)]
          exact ih none (fun _ _ h => by cases h) hsat' hwf' (by simpa [hornerChainedFrom] using hchain)
      | const _ _ =>
        simpa [nextPrevGen] using ih prev hprev hsat' hwf' (by simpa [hornerChainedFrom] using hchain)
      | pub _ _ =>
        simpa [nextPrevGen] using ih prev hprev hsat' hwf' (by simpa [hornerChainedFrom] using hchain)
      | hint _ _ _ =>
        simpa [nextPrevGen] using ih prev hprev hsat' hwf' (by simpa [hornerChainedFrom] using hchain)
      | npo _ _ _ _ =>
        simpa [nextPrevGen] using ih prev hprev hsat' hwf' (by simpa [hornerChainedFrom] using hchain)

end RowsGen

section BusGen
variable {V : Type} [DecidableEq V]

/-- The honest cells for any payload type: every occurrence holds its slot's payload. -/
def honestCellsGen (cv : Nat → V) (evs : List (Nat × Role)) : List (Cell V) :=
  evs.map fun e => ⟨e.1, e.2, cv e.1⟩

set_option linter.unusedSimpArgs false in
/-- Net multiplicity of a tuple on the honest bus (any payload type). -/
theorem honest_tupleNet_gen (cv : Nat → V) (reads : List (Nat × Nat)) (evs : List (Nat × Role))
    (s : Nat) (v : V) :
    tupleNet (busOf reads (honestCellsGen cv evs)) s v = if v = cv s then netOf reads evs s else 0 := by
  unfold tupleNet busOf honestCellsGen netOf
  induction evs with
  | nil => simp
  | cons e es ih =>
    obtain ⟨x, r⟩ := e
    simp only [List.map_cons, List.filterMap_cons]
    by_cases hx : x = s
    · subst hx
      by_cases hv : v = cv x
      · subst hv
        cases r <;> simp_all [interOf, eventMult, List.filter_cons]
      · have hv' : ¬ cv x = v := fun h => hv h.symm
        cases r <;> simp_all [interOf, eventMult, List.filter_cons]
    · have hx' : ¬ (x == s) = true := by simpa using hx
      by_cases hv : v = cv s
      · cases r <;> simp_all [interOf, eventMult, List.filter_cons]
      · cases r <;> simp_all [interOf, eventMult, List.filter_cons]

/-- **Honest bus, any payload type.** -/
theorem honest_bus_gen (cv : Nat → V) (reads : List (Nat × Nat)) (evs : List (Nat × Role))
    (hnet : ∀ s, netOf reads evs s = 0) :
    ∀ s v, tupleNet (busOf reads (honestCellsGen cv evs)) s v = 0 := by
  intro s v
  rw [honest_tupleNet_gen]
  split
  · exact hnet s
  · rfl

/-- The honest cells are the `zipWith` cells of `C04.accepted_sat_gen` on `vs = slots.map cv`. -/
theorem honestCellsGen_zip (cv : Nat → V) (evs : List (Nat × Role)) :
    List.zipWith (fun (e : Nat × Role) v => (⟨e.1, e.2, v⟩ : Cell V)) evs
      ((evs.map Prod.fst).map cv) = honestCellsGen cv evs := by
  unfold honestCellsGen
  induction evs with
  | nil => rfl
  | cons e es ih => simp only [List.map_cons, List.zipWith_cons_cons, ih]

end BusGen

section AcceptedGen
variable {K L : Type} [Field K] [DecidableEq K]

/-- **C10 / model-level completeness, every `D`.** For the roles of `genPrep`, coefficient cells `cv`
whose ring elements satisfy every op relation, well-formed ops, Horner chains and every read slot
created: the honest trace meets both acceptance conditions of `C04.accepted_sat_gen`. -/
theorem honest_accepted_gen [CommRing L] [NoZeroDivisors L] [DecidableEq L] (φ : K →+* L) (α : L)
    (D : ℕ) (kind : ExtKind K) (sel : K) (hind : CoeffIndep φ α D) (hD : 0 < D)
    (hk : KindRoot φ D kind α) (hs : sel ≠ 0) (pub : Nat → L) (cv : Nat → List K) (c : Circuit L)
    (p : Prep) (h : genPrep c = some p)
    (hsat : Sat (fun s => ev φ α D (cv s)) pub c.ops.toList)
    (hwf : ∀ o ∈ c.ops.toList, opWF o = true)
    (hchain : hornerChained c.ops.toList = true)
    (hcreated : ∀ s, readsOf p.reads s ≠ 0 → s ∈ p.defined) :
    rowsOkGen φ α D kind sel pub c.ops.toList ((p.events.map Prod.fst).map cv) none ∧
    ∀ s v, tupleNet (busOf p.reads
      (List.zipWith (fun (e : Nat × Role) v => (⟨e.1, e.2, v⟩ : Cell (List K))) p.events
        ((p.events.map Prod.fst).map cv))) s v = 0 := by
  refine ⟨?_, ?_⟩
  · rw [genPrep_slots_gen c p h]
    have hconst : ∀ out v, Op.const out v ∈ c.ops.toList → ev φ α D (cv out) = v := by
      intro out v hm
      simpa [Op.holds] using hsat _ hm
    exact honest_rows_gen φ α D kind sel hind hD hk hs cv pub (zeroConsts c.ops.toList)
      (zeroConsts_zero_gen (fun s => ev φ α D (cv s)) _ hconst) c.ops.toList none
      (fun _ _ h => by cases h) hsat hwf (by simpa [hornerChained] using hchain)
  · rw [honestCellsGen_zip]
    exact honest_bus_gen cv p.reads p.events (fun s => C09.bus_balanced c p h hcreated s)

/-- **C10 / from a successful run to an accepted trace, every `D`.** Circuit over the extension field
`L`; `coeffs x` are the `D` base-field coefficients of `x` in the power basis (`hco`). Whenever the
modelled `run` succeeds, the public rows carry the public inputs and the asserted booleans are
boolean, the trace whose cells are the coefficients of the returned witness meets both acceptance
conditions of `C04.accepted_sat_gen`. -/
theorem run_honest_accepted_gen [Field L] [DecidableEq L] (φ : K →+* L) (α : L) (D : ℕ)
    (kind : ExtKind K) (sel : K) (hind : CoeffIndep φ α D) (hD : 0 < D) (hk : KindRoot φ D kind α)
    (hs : sel ≠ 0) (coeffs : L → List K) (hco : ∀ x, ev φ α D (coeffs x) = x)
    (canon : L → Nat) (c : Circuit L) (p : Prep) (h : genPrep c = some p)
    (w0 : Array (Option L)) (t : Traces L) (hrun : runFrom canon c w0 = .ok t) (pub : Nat → L)
    (hpub : ∀ out pos, Op.pub out pos ∈ c.ops.toList → t.witness.getD out 0 = pub pos)
    (hbool : ∀ a bb cc out io, Op.alu .boolCheck a bb cc out io ∈ c.ops.toList →
      t.witness.getD a 0 * (t.witness.getD a 0 - 1) = 0)
    (hwf : ∀ o ∈ c.ops.toList, opWF o = true)
    (hchain : hornerChained c.ops.toList = true)
    (hcreated : ∀ s, readsOf p.reads s ≠ 0 → s ∈ p.defined) :
    rowsOkGen φ α D kind sel pub c.ops.toList
      ((p.events.map Prod.fst).map fun j => coeffs (t.witness.getD j 0)) none ∧
    ∀ s v, tupleNet (busOf p.reads
      (List.zipWith (fun (e : Nat × Role) v => (⟨e.1, e.2, v⟩ : Cell (List K))) p.events
        ((p.events.map Prod.fst).map fun j => coeffs (t.witness.getD j 0)))) s v = 0 := by
  have hwfh : ∀ op ∈ c.ops.toList, ∀ a bb cc out io, op = .alu .horner a bb cc out io →
      cc.isSome ∧ io.isSome := by
    intro op hop a bb cc out io he
    have := hwf op hop
    subst he
    simpa [opWF] using this
  obtain ⟨_, _, hsr⟩ := C02.run_ok_sat canon c w0 t hrun pub hwfh
  have hSat : Sat (fun j => t.witness.getD j 0) pub c.ops.toList := by
    intro op hop
    by_cases hp : ∃ out pos, op = .pub out pos
    · obtain ⟨out, pos, rfl⟩ := hp
      simpa [Op.holds] using hpub out pos hop
    · refine hsr op hop (fun out pos he => hp ⟨out, pos, he⟩) ?_
      intro a bb cc out io he
      subst he
      exact hbool a bb cc out io hop
  have hSat' : Sat (fun s => ev φ α D (coeffs (t.witness.getD s 0))) pub c.ops.toList := by
    have e : (fun s => ev φ α D (coeffs (t.witness.getD s 0))) = fun j => t.witness.getD j 0 :=
      funext fun s => hco _
    rw [e]; exact hSat
  exact honest_accepted_gen φ α D kind sel hind hD hk hs pub
    (fun j => coeffs (t.witness.getD j 0)) c p h hSat' hwf hchain hcreated

end AcceptedGen

end P3R.C10
