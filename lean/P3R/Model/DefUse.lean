/-
L5 — def-before-use certificate of an op list with respect to the role scan of
`generate_preprocessed_columns` (`P3R.Model.Roles`).

The scan makes an ALU operand in the `b` column a bus *reader* whenever it cannot make it a creator
(`b` is not a private input and the row is not a backward row) — also when nothing has created the
slot. `defUse` is the static (scan-state free) condition under which that never happens: walking the
ops in order and collecting the slots that are certainly defined after each row (`touch`), the `b`
slot of every ALU row is already collected, or is created in the row itself (`rowOk`).
`P3R.C09T.defuse_sound` proves that the condition discharges the hypothesis `hwf` of
`P3R.C09.bus_balanced`; the driver evaluates it on every compiled circuit (`defuse` line).
-/
import P3R.Model.Roles

namespace P3R

/-- Slots of Const / Public rows (`const_public_wids`). -/
def constPubSlots {K} (ops : List (Op K)) : List Nat :=
  ops.filterMap fun
    | .const out _ => some out
    | .pub out _ => some out
    | _ => none

/-- `hint_output_wids`: outputs of hint ops that no Const / Public row names. -/
def hintSlots {K} (ops : List (Op K)) : List Nat :=
  (ops.flatMap fun
    | .hint _ outs _ => outs
    | _ => []).filter fun w => !(constPubSlots ops).contains w

/-- Slots that are certainly defined after the row, given those (`T`) defined before it: the row's
`out` and `b`, and an `a` / `c` operand that is a private input or a hint output. -/
def touch {K} (privs hints : List Nat) (T : List Nat) : Op K → List Nat
  | .const out _ => out :: T
  | .pub out _ => out :: T
  | .alu _ a b c out _ =>
    let elig := fun x => privs.contains x || hints.contains x
    out :: b :: ((a :: c.toList).filter elig ++ T)
  | .hint _ _ _ => T
  | .npo _ _ _ _ => T

/-- The `b` operand of the row does not dangle: it is defined before the row, or a private input,
or created earlier in the same row (by `out`, or by an eligible `a` / `c`), or the row is a backward
row (`out` defined before the row, a hint output or a private input). -/
def rowOk {K} (privs hints : List Nat) (T : List Nat) : Op K → Bool
  | .alu _ a b c out _ =>
    let elig := fun x => privs.contains x || hints.contains x
    T.contains b || privs.contains b || b == out || (elig a && b == a) ||
    (match c with
     | some cw => elig cw && b == cw
     | none => false) ||
    T.contains out || hints.contains out || privs.contains out
  | _ => true

def defUseFrom {K} (privs hints : List Nat) : List Nat → List (Op K) → Bool
  | _, [] => true
  | T, op :: ops => rowOk privs hints T op && defUseFrom privs hints (touch privs hints T op) ops

/-- The def-before-use certificate of an op list. -/
def defUse {K} (privs : List Nat) (ops : List (Op K)) : Bool :=
  defUseFrom privs (hintSlots ops) [] ops

/-- The certificate of a compiled circuit (private rows and hint outputs as the scan sees them). -/
def Circuit.defUse {K} (c : Circuit K) : Bool := P3R.defUse c.privRows.toList c.ops.toList

/-! ### Builder-side guard (`P3R.C09C.lower_defuse`)

The one program shape on which a compiled circuit's honest bus does not balance is a call output
(`npOut`: a hint output, or the output of a table-backed op) that reaches the `b` column of a
forward row — or the `out` column of a backward (`sub` / `div`) row — before any row created its
slot. `hintsGuarded` is the decidable condition on the expression DAG that excludes it: the operand
that the lowering puts into that column is, or shares its `connect` class with, an expression whose
slot is certainly created when the row is emitted (a constant, a public or private input, or an
arithmetic node emitted earlier — e.g. the `BoolCheck` node that `assert_bool` connects to a bit). -/

def Expr.isLeaf {K} : Expr K → Bool
  | .const _ | .pub _ | .priv _ => true
  | _ => false

def Expr.isAluE {K} : Expr K → Bool
  | .add _ _ | .sub _ _ | .mul _ _ | .div _ _ | .horner _ _ _ _ | .boolCheck _ | .mulAdd _ _ _ => true
  | _ => false

/-- The operand expression whose slot must not dangle in the row emitted for the node: the `b`
operand of a forward row (`add`, `mul`, `HornerAcc`: `alpha`, `MulAdd`, `BoolCheck`: the zero
constant), the minuend / dividend of a backward row (its slot is the row's `out`). The
`mul − const` fast path puts a fresh constant into `b`. -/
def Expr.bPos {K} (nodes : Array (Expr K)) : Expr K → Option Nat
  | .add _ r => some r
  | .mul _ r => some r
  | .horner _ al _ _ => some al
  | .mulAdd _ b _ => some b
  | .boolCheck _ => some 0
  | .sub l r =>
    match nodes[l]?, nodes[r]? with
    | some (Expr.mul _ _), some (Expr.const _) => none
    | _, _ => some l
  | .div l _ => some l
  | _ => none

def sameClass (R : Array Nat) (C : Array Bool) (j l : Nat) : Bool :=
  j == l || (C.getD j false && C.getD l false && R.getD j j == R.getD l l)

/-- Some expression of `l`'s connect class has a created (or private) slot when node `i` is emitted. -/
def creatorFor {K} (nodes : Array (Expr K)) (R : Array Nat) (C : Array Bool) (i l : Nat) : Bool :=
  (List.range nodes.size).any fun j => sameClass R C j l &&
    match nodes[j]? with
    | some e => e.isLeaf || (e.isAluE && decide (j < i))
    | none => false

/-- The "occurs in a connect" flags of the lowering. -/
def connectFlags {K} (b : BState K) : Array Bool :=
  b.connects.foldl (fun (m : Array Bool) ab =>
    (m.setIfInBounds ab.1 true).setIfInBounds ab.2 true) (Array.replicate (b.nodes.size + 1) false)

/-- No call output is used in a dangling position (see the section header). -/
def hintsGuarded {K} (b : BState K) : Bool :=
  (List.range b.nodes.size).all fun i =>
    match b.nodes[i]? with
    | some e =>
      match e.bPos b.nodes with
      | some l => creatorFor b.nodes (Dsu.ofConnects (b.nodes.size + 1) b.connects) (connectFlags b) i l
      | none => true
    | none => true

/-- Private-input nodes carry distinct positions below `privCount` (what `alloc_private_input`
constructs). -/
def privOk {K} (b : BState K) : Bool :=
  (List.range b.nodes.size).all fun i =>
    match b.nodes[i]? with
    | some (.priv pos) => decide (pos < b.privCount) &&
      (List.range b.nodes.size).all fun j =>
        match b.nodes[j]? with
        | some (.priv pos') => pos' != pos || j == i
        | _ => true
    | _ => true

/-- The optimiser keeps the certificate of this lowered list (decidable; an implication): the one
step of `compile ⇒ defUse` that is not proved for every program (`P3R.C09C`). -/
def optKeeps {K} (l : Lowered K) : Bool :=
  !(defUse l.privRows.toList l.ops.toList) ||
  defUse (l.privRows.map (resolve (optimize l.ops l.privRows.toList).2)).toList
    (optimize l.ops l.privRows.toList).1.toList

/-! ### Builder-side guards for the optimiser step (`P3R.C09O`)

De-duplication may remove the only row that had a slot in its `b` column and keep a commutative
duplicate that has it in `a` (`Witness.C09Compile.tbl_dedup_breaks`). An `a` request creates only
private inputs and hint outputs, so the slot of a *table-backed* call output loses its creator in the
primitive scan. `noTableOutputsUsed`: no table-backed call output is an operand of an arithmetic
node, or shares a connect class with one. `operandsGuarded`: the operand that the lowering puts into
the `a` column of an `Add` / `Mul` row (the two kinds with a commutative key) has, like the `b`
operand under `hintsGuarded`, a class member whose slot is certainly created when the row is emitted. -/

/-- Is node `j` an output of a table-backed call? -/
def isTableOut {K} (b : BState K) (j : Nat) : Bool :=
  match b.nodes[j]? with
  | some (Expr.npOut call _) =>
    match b.nodes[call]? with
    | some (Expr.npCall op _) =>
      match b.npOps[op]? with
      | some d =>
        match d.kind with
        | .table _ => true
        | _ => false
      | none => false
    | _ => false
  | _ => false

/-- Operand expressions of an arithmetic node. -/
def Expr.operands {K} : Expr K → List Nat
  | .add a b | .sub a b | .mul a b | .div a b => [a, b]
  | .horner acc al pz px => [acc, al, pz, px]
  | .mulAdd a b c => [a, b, c]
  | .boolCheck v => [v]
  | _ => []

/-- No table-backed call output is an operand of an arithmetic node or a member of the connect
class of one. -/
def noTableOutputsUsed {K} (b : BState K) : Bool :=
  let R := Dsu.ofConnects (b.nodes.size + 1) b.connects
  let C := connectFlags b
  (List.range b.nodes.size).all fun i =>
    match b.nodes[i]? with
    | some e => e.operands.all fun l =>
        (List.range b.nodes.size).all fun j => !(sameClass R C j l && isTableOut b j)
    | none => true

/-- The operand that the lowering puts into the `a` column of the `Add` / `Mul` row of the node. -/
def Expr.aPos {K} (nodes : Array (Expr K)) : Expr K → Option Nat
  | .add l _ => some l
  | .mul l _ => some l
  | .sub l r =>
    match nodes[l]?, nodes[r]? with
    | some (Expr.mul _ _), some (Expr.const _) => some l
    | _, _ => some r
  | .div _ r => some r
  | _ => none

/-- Every `a` operand of an `Add` / `Mul` row has a creator in its connect class (`creatorFor`). -/
def operandsGuarded {K} (b : BState K) : Bool :=
  (List.range b.nodes.size).all fun i =>
    match b.nodes[i]? with
    | some e =>
      match e.aPos b.nodes with
      | some l => creatorFor b.nodes (Dsu.ofConnects (b.nodes.size + 1) b.connects) (connectFlags b) i l
      | none => true
    | none => true

/-- An expression id the builder has handed out for a value (exists, not a call node); the Model-level
copy of `P3R.C02T.proper` (`P3R.C09R.properId_eq`), used by the driver to flag `ReachablePrim` programs. -/
def properId {K} (nodes : Array (Expr K)) (x : Nat) : Bool :=
  match nodes[x]? with
  | some (.npCall _ _) => false
  | some _ => true
  | none => false

/-- The fusion pass keeps the certificate of the de-duplicated list (decidable; an implication): the
one step of `compile ⇒ defUse` that is not proved for every program after `P3R.C09O`. -/
def fuseKeeps {K} (l : Lowered K) : Bool :=
  let d := dedup l.ops
  let P := l.privRows.toList.map (resolve d.2)
  !(defUse P d.1.toList) || defUse P (fuse d.1 P).toList

end P3R
