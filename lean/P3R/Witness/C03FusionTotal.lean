/-
Witnesses for `P3R.Props.C03FusionTotal`:
* `fuseInputOk` holds on a non-trivial program on which the pass really fuses (two sites, one
  in each operand orientation, next to ops that must survive), and the total theorem applies;
* the hypothesis is NECESSARY for the certificate check: on an op list that violates it in the
  `Mul` (resp. the `Add`) of a fusable pair, the model's pass fails conjunct (1) of the check —
  the check compares ops syntactically and the fused site is described without the
  `intermediate_out` of the ops it replaces;
* the guards of `try_fuse` are what the proof uses: with a second reader or a second writer of
  the product slot the pass does not fuse (so the check passes with zero sites).
-/
import P3R.Props.C03FusionTotal

namespace P3R.Witness.C03FusionTotal
open P3R P3R.C03

/-- `t0 = w0·w1; o0 = t0 + w2; t1 = w0·w2; o1 = w3 + t1; u = o0·o1; const; public`. -/
def prog : Array (Op Int) :=
  #[.pub 0 0, .pub 1 1, .const 2 7, .pub 3 2,
    .alu .mul 0 1 none 4 none, .alu .add 4 2 none 5 none,
    .alu .mul 0 2 none 6 none, .alu .add 3 6 none 7 none,
    .alu .mul 5 7 none 8 none, .alu .boolCheck 0 0 none 0 none]

/-- The hypothesis is satisfiable on a program that fuses two sites. -/
example : fuseInputOk prog [] = true ∧ (fuseWithSites prog []).2 = [⟨0, 1, 2, 5, 4⟩, ⟨0, 2, 3, 7, 6⟩] := by
  decide

example : (fuse prog []).toList =
    [.pub 0 0, .pub 1 1, .const 2 7, .pub 3 2,
     .alu .mulAdd 0 1 (some 2) 5 (some 4), .alu .mulAdd 0 2 (some 3) 7 (some 6),
     .alu .mul 5 7 none 8 none, .alu .boolCheck 0 0 none 0 none] := by
  decide

/-- Non-vacuity of `fuse_passes_check` / `fuse_sound_total` on that program. -/
example : fusionCheck prog.toList (fuseWithSites prog []).1.toList (fuseWithSites prog []).2 = true :=
  fuse_passes_check prog [] (by decide)

example (w pub : Nat → Int) (hsat : Sat w pub (fuse prog []).toList) :
    ∃ w' : Nat → Int, (∀ x, (∀ s ∈ (fuseWithSites prog []).2, s.m ≠ x) → w' x = w x) ∧ Sat w' pub prog.toList :=
  fuse_sound_total prog [] (by decide) w pub hsat

/-! ### Necessity of `fuseInputOk` (for the check) -/

/-- A `Mul` with a stray `intermediate_out` in a fusable pair. -/
def badMul : Array (Op Int) := #[.alu .mul 0 1 none 2 (some 9), .alu .add 2 3 none 4 none]

example : fuseInputOk badMul [] = false := by decide
/-- The pass fuses the pair … -/
example : (fuseWithSites badMul []).2 = [⟨0, 1, 3, 4, 2⟩] := by decide
/-- … and the check fails (conjunct (1): the removed mul is not syntactically the site's mul). -/
example : fusionCheck badMul.toList (fuseWithSites badMul []).1.toList (fuseWithSites badMul []).2 = false := by
  decide

/-- An `Add` with a stray `intermediate_out` in a fusable pair. -/
def badAdd : Array (Op Int) := #[.alu .mul 0 1 none 2 none, .alu .add 3 2 none 4 (some 9)]

example : fuseInputOk badAdd [] = false := by decide
example : (fuseWithSites badAdd []).2 = [⟨0, 1, 3, 4, 2⟩] := by decide
example : fusionCheck badAdd.toList (fuseWithSites badAdd []).1.toList (fuseWithSites badAdd []).2 = false := by
  decide

/-! ### No other hypothesis: the hard shapes are handled by the pass itself -/

/-- Product read twice (by the add and by a hint): not fused. -/
example : (fuseWithSites (#[.alu .mul 0 1 none 2 none, .alu .add 2 3 none 4 none,
    .hint [2] [5] .hintBits] : Array (Op Int)) []).2 = [] := by decide

/-- Product slot written twice (aliased through `connect` to a public input): not fused. -/
example : (fuseWithSites (#[.pub 2 0, .alu .mul 0 1 none 2 none, .alu .add 2 3 none 4 none] :
    Array (Op Int)) []).2 = [] := by decide

/-- Product slot is a private input: not fused. -/
example : (fuseWithSites (#[.alu .mul 0 1 none 2 none, .alu .add 2 3 none 4 none] :
    Array (Op Int)) [2]).2 = [] := by decide

/-- The add precedes the mul, the add writes its own addend, the mul reads the add's output:
all inside the theorem (no ordering or acyclicity hypothesis). -/
example : fusionCheck (K := Int) [.alu .add 2 3 none 3 none, .alu .mul 3 1 none 2 none]
    (fuseWithSites (#[.alu .add 2 3 none 3 none, .alu .mul 3 1 none 2 none] : Array (Op Int)) []).1.toList
    (fuseWithSites (#[.alu .add 2 3 none 3 none, .alu .mul 3 1 none 2 none] : Array (Op Int)) []).2 = true :=
  fuse_passes_check _ [] (by decide)

end P3R.Witness.C03FusionTotal
