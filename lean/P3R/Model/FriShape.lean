/-
L10 — shape validation, as two decidable predicates over the vector of all lengths / counts /
small integers of an opening proof (`ShapeVec`):

* `NativeShapeOk`: none of the *shape* errors of `p3_fri::verifier::verify_fri` fires
  (`ZeroQueries`, `QueryCommitPhaseOpeningsCountMismatch`, `InvalidLogArity`,
  `QueryLogAritiesMismatch`, `GlobalMaxHeightTooLarge`, `GlobalMaxHeightMismatch`,
  `CommitPowWitnessCountMismatch`, `FinalPolyLengthMismatch`, `QueryProofCountMismatch`,
  `InputProofBatchCountMismatch`, `BatchOpenedValuesCountMismatch`, `MatrixWithoutOpeningPoints`,
  `PointEvaluationCountMismatch`, `MissingInitialReducedOpening`,
  `InitialReducedOpeningHeightMismatch`, `SiblingValuesLengthMismatch`,
  `UnconsumedReducedOpenings`);
* `CircuitShapeOk`: `verify_circuit` + `verify_fri_circuit` build a circuit and the proof can be
  fed to it (`log_max_height` against the bit width and the two-adicity in `verify_circuit`; the
  shape validation at the head of `verify_fri_circuit` incl. the checked sibling-coefficient count;
  the `zip_eq` checks of `open_input`; "first reduced opening must be at max height"). A proof
  without fold phase is *not* excluded (repo fix 0e5036a).

The driver prints both on every case; `bin/checks_c07.py` checks them against the verdicts of the
real code. The theorem relating them is `P3R.C07.fri_shape_iff`.
-/
import P3R.Model.FriNative

namespace P3R.Fri

structure QShape where
  arities : List Nat
  sibCounts : List Nat
  /-- per batch, per matrix: number of opened columns -/
  opened : List (List Nat)
deriving Repr, DecidableEq

structure ShapeVec where
  p : Params
  twoAdicity : Nat
  /-- number of betas handed to `verify_fri_circuit` (one per commitment in the real flow) -/
  numBetas : Nat
  numCommits : Nat
  numPow : Nat
  finalLen : Nat
  /-- per batch, per matrix: (log size, claimed-value count per opening point) -/
  batches : List (List (Nat × List Nat))
  queries : List QShape
deriving Repr, DecidableEq

namespace ShapeVec

def firstArities (sv : ShapeVec) : List Nat := (sv.queries.head?.map (·.arities)).getD []
def total (sv : ShapeVec) : Nat := sv.firstArities.foldl (· + ·) 0
def logMax (sv : ShapeVec) : Nat := sv.total + sv.p.logBlowup + sv.p.logFinalPolyLen
def heights (sv : ShapeVec) : List Nat := sv.batches.flatMap fun b => b.map fun m => m.1 + sv.p.logBlowup
def maxHeight (sv : ShapeVec) : Nat := sv.heights.foldl max 0
/-- log-heights reached after each fold phase -/
def foldedHeights (sv : ShapeVec) : List Nat :=
  (List.range sv.firstArities.length).map fun i => sv.logMax - (sv.firstArities.take (i + 1)).foldl (· + ·) 0

end ShapeVec

/-- Opened values pair one-to-one with batches, matrices and claimed evaluations. -/
def OpenedOk (sv : ShapeVec) : Prop :=
  ∀ q ∈ sv.queries, q.opened.length = sv.batches.length ∧
    ∀ bb ∈ q.opened.zip sv.batches, bb.1.length = bb.2.length ∧
      ∀ cm ∈ bb.1.zip bb.2, ∀ n ∈ cm.2.2, cm.1 = n

def SibsOk (q : QShape) : Prop :=
  q.sibCounts.length = q.arities.length ∧ ∀ an ∈ q.arities.zip q.sibCounts, an.2 = 2 ^ an.1 - 1

def NativeShapeOk (sv : ShapeVec) : Prop :=
  sv.p.numQueries ≠ 0 ∧
  (∀ q ∈ sv.queries, q.arities.length = sv.numCommits) ∧
  (∀ q ∈ sv.queries, ∀ la ∈ q.arities, 1 ≤ la ∧ la ≤ sv.p.maxLogArity) ∧
  (∀ q ∈ sv.queries, q.arities = sv.firstArities) ∧
  sv.logMax ≤ sv.twoAdicity ∧
  sv.heights ≠ [] ∧ sv.maxHeight = sv.logMax ∧
  sv.numPow = sv.numCommits ∧
  sv.finalLen = 2 ^ sv.p.logFinalPolyLen ∧
  sv.queries.length = sv.p.numQueries ∧
  OpenedOk sv ∧
  (∀ b ∈ sv.batches, ∀ m ∈ b, m.2 ≠ []) ∧
  (∀ q ∈ sv.queries, SibsOk q) ∧
  (∀ h ∈ sv.heights, h = sv.logMax ∨ h ∈ sv.foldedHeights)

/-- Changes that followed repairs in /repo: `1 ≤ la` (f783d84, C07-F3c); `logMax ≤ twoAdicity`
(c030fca, F9i: `verify_circuit` used to compare with the bit width only); the former conjunct
`numBetas ≠ 0` ("FRI must have at least one fold phase") is gone (0e5036a, C07-F4); the sibling
count in `SibsOk` is an explicit checked comparison in `verify_fri_circuit` (fc0321f, F9d). -/
def CircuitShapeOk (sv : ShapeVec) : Prop :=
  sv.logMax ≤ 31 ∧ sv.logMax ≤ sv.twoAdicity ∧
  sv.numBetas = sv.numCommits ∧ sv.numBetas = sv.numPow ∧
  sv.firstArities.length = sv.numBetas ∧
  (∀ la ∈ sv.firstArities, 1 ≤ la) ∧
  sv.queries ≠ [] ∧
  (∀ q ∈ sv.queries, q.arities.length = sv.numBetas ∧ q.arities = sv.firstArities ∧ SibsOk q) ∧
  sv.finalLen = 2 ^ sv.p.logFinalPolyLen ∧
  OpenedOk sv ∧
  sv.heights ≠ [] ∧ sv.maxHeight = sv.logMax

instance (sv : ShapeVec) : Decidable (OpenedOk sv) := by unfold OpenedOk; infer_instance
instance (q : QShape) : Decidable (SibsOk q) := by unfold SibsOk; infer_instance
instance (sv : ShapeVec) : Decidable (NativeShapeOk sv) := by unfold NativeShapeOk; infer_instance
instance (sv : ShapeVec) : Decidable (CircuitShapeOk sv) := by unfold CircuitShapeOk; infer_instance

def nativeShapeOk (sv : ShapeVec) : Bool := decide (NativeShapeOk sv)
def circuitShapeOk (sv : ShapeVec) : Bool := decide (CircuitShapeOk sv)

/-- The shape vector of a case. -/
def shapeOf {K : Type} (p : Params) (twoAdicity numBetas : Nat) (batches : List (List (MatClaim K)))
    (pf : Proof K) : ShapeVec :=
  { p := p, twoAdicity := twoAdicity, numBetas := numBetas, numCommits := pf.numCommits, numPow := pf.numPow,
    finalLen := pf.finalPoly.length,
    batches := batches.map fun b => b.map fun m => (m.logSize, m.points.map fun pt => pt.2.2.length),
    queries := pf.queries.map fun q =>
      { arities := q.phases.map (·.logArity), sibCounts := q.phases.map (·.siblings.length),
        opened := q.opened.map fun b => b.map (·.length) } }

end P3R.Fri
