/-
Witnesses for `P3R.C09F` (Props/C09Fuse.lean).

* `good_*` — the reachable example of `Witness.C09Total` (a fusable mul + add: a `MulAdd` row is really
  produced, `Witness.C09Opt.good_fuses`; a backward `sub` row; a `BoolCheck` row) carries the forward
  certificate after lowering and after de-duplication; `fuse_preserves_hdu`, `compile_defuse` and the
  unconditional `compiled_bus_balanced` apply to it (non-vacuity of every hypothesis; the circuit exists:
  `Witness.C09Total.good_balanced`).
* `bwd_muladd_breaks` — necessity of the forward certificate at the list level:
  `mul 0 1 → 3; mulAdd 0 4 (1) → 2; add 3 5 → 4; add 0 5 → 6`. The `MulAdd` row's `out` (slot 2, public)
  is already defined, so the role scan makes its `b` (slot 4) a creator; the first `add` then has a
  defined `out`, so it creates its `b` (slot 5) — a backward row for the role scan, and the list carries
  `hduFrom` and `defUse`. `scan_defs` tracks backward rows for plain `Add` / `Mul` only, has no definition
  of slot 4 at the add, treats the add as forward, fuses it into the mul — and the row that created
  slot 5 is gone: the last row's `b` dangles, the fused list is not certified. The list fails `fwdFrom`
  (the `MulAdd` row's `b` is not touched before it); the lowering never emits it (`lower_fwd`).
-/
import P3R.Props.C09Fuse
import P3R.Witness.C09Opt
open P3R P3R.C02T P3R.Witness.C09Total P3R.Witness.C09Compile P3R.Witness.C09Opt

namespace P3R.Witness.C09Fuse

/-- The example's lowered and de-duplicated lists carry both certificates (decided, not via the theorems). -/
theorem good_certs :
    (match lower bGood with
     | .ok l =>
       P3R.C09F.fwdFrom l.privRows.toList [] l.ops.toList &&
       P3R.C09F.fwdFrom (l.privRows.toList.map (resolve (dedup l.ops).2)) [] (dedup l.ops).1.toList &&
       P3R.C09O.hduFrom (l.privRows.toList.map (resolve (dedup l.ops).2)) [] [] (dedup l.ops).1.toList &&
       P3R.C09O.hduFrom (l.privRows.toList.map (resolve (dedup l.ops).2)) [] []
         (fuse (dedup l.ops).1 (l.privRows.toList.map (resolve (dedup l.ops).2))).toList
     | .error _ => false) = true := by decide +kernel

/-- `lower_fwd`, `fuse_preserves_hdu` (through `lower_fuse_defuse`) and `fuseKeeps_total` apply to the example. -/
example (l : Lowered Int) (hl : lower bGood = .ok l) :
    P3R.C09F.fwdFrom l.privRows.toList [] l.ops.toList = true ∧ P3R.fuseKeeps l = true :=
  ⟨P3R.C09F.lower_fwd bGood good_reachable.ok good_guarded.1 good_guarded.2 l hl,
   P3R.C09F.fuseKeeps_total bGood good_reachable.ok good_guarded.1 good_guarded.2
     good_operandsGuarded.1 l hl⟩

/-- `compile_defuse` and the unconditional `compiled_bus_balanced` apply to the example. -/
example (c : Circuit Int) (p : Prep) (hc : compile bGood = .ok c) (hp : genPrep c = some p) (s : Nat) :
    c.defUse = true ∧ p.net s = 0 :=
  ⟨P3R.C09F.compile_defuse bGood good_reachable.ok good_guarded.1 good_guarded.2 good_operandsGuarded.1 c hc,
   P3R.C09F.compiled_bus_balanced bGood good_reachable.ok good_guarded.1 good_guarded.2
     good_operandsGuarded.1 c hc p hp s⟩

/-! ### The forward certificate is necessary at the list level -/

def bwdList : Array (Op Int) :=
  #[.pub 0 0, .pub 1 1, .pub 2 2, Op.mul 0 1 3, .alu .mulAdd 0 4 (some 1) 2 none, Op.add 3 5 4, Op.add 0 5 6]

theorem bwd_muladd_breaks :
    P3R.C09O.hduFrom [] [] [] bwdList.toList = true ∧ defUse [] bwdList.toList = true ∧
    P3R.C09F.fwdFrom [] [] bwdList.toList = false ∧
    P3R.C09O.hduFrom [] [] [] (fuse bwdList []).toList = false ∧
    defUse [] (fuse bwdList []).toList = false := by decide +kernel

/-- The list-level theorem applies to a list with a fusable pair and a backward plain `Add`
(`sub` encoding: `add 1 5 → 4`, slot 4 defined): the pass fuses `mul 0 1 → 3; add 3 2 → 4'`… -/
def fwdList : Array (Op Int) :=
  #[.pub 0 0, .pub 1 1, .pub 2 2, Op.mul 0 1 3, Op.add 3 2 4, Op.add 1 5 4, Op.add 0 5 6]

theorem fwd_list_certs :
    P3R.C09O.hduFrom [] [] [] fwdList.toList = true ∧ P3R.C09F.fwdFrom [] [] fwdList.toList = true ∧
    (fuse fwdList []).toList =
      [.pub 0 0, .pub 1 1, .pub 2 2, .alu .mulAdd 0 1 (some 2) 4 (some 3), Op.add 1 5 4, Op.add 0 5 6] := by
  decide +kernel

example : P3R.C09O.hduFrom [] [] [] (fuse fwdList []).toList = true :=
  P3R.C09F.fuse_preserves_hdu [] fwdList fwd_list_certs.1 fwd_list_certs.2.1

/-! ### An addend created between the mul and the add

`m = a*b; t = x+y; r = m+t` in creation order `m, t, r`: the fused row would sit at the mul's position,
before the row that computes `t`. `try_fuse` accepts the pair (`def_idx(t) = 5 < add_idx = 6`); phase 2
(`filter_valid`: the addend's effective position must be `< mul_idx`) discards it, so the list is
returned unchanged. This concerns the runner's evaluation order (C02), not the bus: the certificate
argument does not use it (the addend sits in the `c` column, which never creates). -/

def lateList : Array (Op Int) :=
  #[.pub 0 0, .pub 1 1, .pub 2 2, .pub 3 3, Op.mul 0 1 4, Op.add 2 3 5, Op.add 4 5 6]

theorem late_addend_not_fused :
    ((Fusion.new lateList []).candidates lateList).length = 1 ∧ fuse lateList [] = lateList := by
  decide +kernel

end P3R.Witness.C09Fuse
