/-
C16 — proof metadata cannot weaken verification; serialization preserves the verdict.

All theorems are about `P3R.Metadata.verify` (model of `verify_all_tables` as a function of the
proof's metadata for a fixed proof body) and hold for every cryptographic back end
`crypto : Sys → Bool`, every verifier field `exp`, every plug-in registry `reg`, every body and
every metadata record (no bound on lanes, K, table count, values).

This is the version for the tree with `fixes/C16-1.diff` applied: `verify` compares the
preprocessed width `stark_common` declares for every instance with the width the rebuilt AIR
reads before calling `verify_batch`. Consequences proved below:

* `prep_exact_enforced` — what used to be the hypothesis `PrepExact` of `airs_determined_partial`
  is now a fact about every metadata record that reaches the cryptographic check;
* `airs_determined` — the full-strength statement (no `PrepExact` hypothesis);
* `verify_never_panics` — the `panic` outcome of the model (index out of bounds in the symbolic
  evaluation of an AIR against an under-declared width, finding F-C16-1) is unreachable.

The real `verify_batch` has one further structural check outside the model (packed lookup count of
the rebuilt AIR vs the opened permutation row).
-/
import P3R.Model.Metadata
import Mathlib.Tactic.SplitIfs
import Mathlib.Data.List.Forall2
import Mathlib.Tactic.Ring

namespace P3R.C16
open P3R.Metadata

/-! ### metadata checks -/

theorem checkMeta_ok {exp : Expected} {m : Meta} {u : Unit} (h : checkMeta exp m = .ok u) :
    validate m = .ok () ∧ m.d = exp.d ∧ m.w = exp.w ∧ m.quintic = exp.quintic := by
  unfold checkMeta at h
  cases hv : validate m with
  | error e => simp [hv, bind, Except.bind] at h
  | ok _ =>
    simp only [hv, bind, Except.bind] at h
    by_cases h1 : m.d = exp.d
    · by_cases h2 : m.w = exp.w
      · by_cases h3 : m.quintic = exp.quintic
        · exact ⟨rfl, h1, h2, h3⟩
        · simp [h1, h2, h3, throw, throwThe, MonadExceptOf.throw] at h
      · simp [h1, h2, throw, throwThe, MonadExceptOf.throw] at h
    · simp [h1, throw, throwThe, MonadExceptOf.throw] at h

theorem checkMeta_of {exp : Expected} {m : Meta} (hv : validate m = .ok ()) (h1 : m.d = exp.d)
    (h2 : m.w = exp.w) (h3 : m.quintic = exp.quintic) : checkMeta exp m = .ok () := by
  unfold checkMeta
  simp [hv, bind, Except.bind, h1, h2, h3, pure, Except.pure]

/-- `verify` accepts exactly when the metadata selects a system that passes the shape stage and
the cryptographic check accepts that system. -/
theorem shapeStage_ne_accept (s : Sys) (body : Body) : shapeStage s body ≠ some .accept := by
  unfold shapeStage
  simp only
  split_ifs <;> simp

theorem accept_iff_crypto (crypto : Sys → Bool) (body : Body) (exp : Expected) (reg : List Plugin) (m : Meta) :
    verify crypto body exp reg m = .accept ↔
      ∃ s, sysOf exp reg m = some s ∧ shapeStage s body = none ∧ crypto s = true := by
  cases hc : checkMeta exp m with
  | error e => simp [verify, sysOf, hc]
  | ok u =>
    cases hr : resolve exp.d exp.w m.quintic with
    | none => simp [verify, sysOf, hc, hr]
    | some red =>
      cases ha : airsOf reg red m with
      | none => simp [verify, sysOf, hc, hr, ha]
      | some airs =>
        simp only [verify, sysOf, hc, hr, ha, Option.map_some, Option.some.injEq, exists_eq_left']
        cases hs : shapeStage ⟨airs, List.replicate 3 [] ++ m.entries.map (·.pvs), m.common⟩ body with
        | some v =>
          have := shapeStage_ne_accept ⟨airs, List.replicate 3 [] ++ m.entries.map (·.pvs), m.common⟩ body
          rw [hs] at this
          simp only [reduceCtorEq, false_and, iff_false]
          intro hv; exact this (by rw [hv])
        | none =>
          by_cases hcr : crypto ⟨airs, List.replicate 3 [] ++ m.entries.map (·.pvs), m.common⟩ = true
          · simp [hcr]
          · simp [hcr]

/-- Accepted ⇒ the proof's declared field parameters are the verifier's. -/
theorem field_params_bound {crypto : Sys → Bool} {body : Body} {exp : Expected} {reg : List Plugin} {m : Meta}
    (h : verify crypto body exp reg m = .accept) :
    m.d = exp.d ∧ m.w = exp.w ∧ m.quintic = exp.quintic := by
  obtain ⟨s, hs, _, _⟩ := (accept_iff_crypto crypto body exp reg m).1 h
  unfold sysOf at hs
  cases hc : checkMeta exp m with
  | error e => simp [hc] at hs
  | ok u => exact (checkMeta_ok hc).2

/-- The system verified against has the verifier's degree and the verifier's reduction in every
primitive table: they are functions of `exp` alone. -/
theorem reduction_verifier_chosen {exp : Expected} {reg : List Plugin} {m : Meta} {s : Sys}
    (h : sysOf exp reg m = some s) :
    ∃ red dyn, resolve exp.d exp.w exp.quintic = some red ∧
      s.airs = .const exp.d :: .pub exp.d m.packing.publicLanes ::
        .alu exp.d m.packing.aluLanes m.packing.hornerK red :: dyn := by
  unfold sysOf at h
  cases hc : checkMeta exp m with
  | error e => simp [hc] at h
  | ok u =>
    obtain ⟨_, hd, _, hq⟩ := checkMeta_ok hc
    simp only [hc] at h
    cases hr : resolve exp.d exp.w m.quintic with
    | none => simp [hr] at h
    | some red =>
      simp only [hr] at h
      unfold airsOf at h
      cases hn : npoAirs reg m.entries with
      | none => simp [hn] at h
      | some dyn =>
        simp only [hn, Option.map_some, Option.some.injEq] at h
        refine ⟨red, dyn, ?_, ?_⟩
        · rw [← hq]; exact hr
        · rw [← h, hd]

/-- A verifier field is well formed when its reduction is defined: base field, quintic
trinomial, or a binomial with its `W`. -/
def ExpectedWF (exp : Expected) : Prop :=
  exp.d = 1 ∨ (exp.d = 5 ∧ exp.quintic = true) ∨ exp.w.isSome = true

example : ExpectedWF ⟨4, some 11, false⟩ := Or.inr (Or.inr rfl)
example : ExpectedWF ⟨5, none, true⟩ := Or.inr (Or.inl ⟨rfl, rfl⟩)
example : ExpectedWF ⟨1, none, false⟩ := Or.inl rfl

/-- After the metadata checks the `MissingWForExtension` branch of `verify` is dead. -/
theorem missing_w_unreachable {exp : Expected} {m : Meta} {u : Unit} (hwf : ExpectedWF exp)
    (h : checkMeta exp m = .ok u) : (resolve exp.d exp.w m.quintic).isSome = true := by
  obtain ⟨_, _, _, hq⟩ := checkMeta_ok h
  unfold resolve
  rcases hwf with h1 | ⟨h5, hq5⟩ | hw
  · simp [h1]
  · by_cases h1 : exp.d = 1
    · simp [h1]
    · simp [h5, hq, hq5]
  · by_cases h1 : exp.d = 1
    · simp [h1]
    · by_cases h5 : exp.d = 5 ∧ m.quintic = true
      · simp [h1, h5]
      · cases hwv : exp.w with
        | none => simp [hwv] at hw
        | some w => simp [h1, h5]

/-! ### table set -/

theorem npoAirs_forall₂ {reg : List Plugin} : ∀ {es : List Entry} {dyn : List AirDesc},
    npoAirs reg es = some dyn → List.Forall₂ (fun e a => npoAir reg e = some a) es dyn
  | [], dyn, h => by simp [npoAirs] at h; subst h; exact .nil
  | e :: es, dyn, h => by
    unfold npoAirs at h
    cases ha : npoAir reg e with
    | none => simp [ha] at h
    | some a =>
      cases hr : npoAirs reg es with
      | none => simp [ha, hr] at h
      | some as =>
        simp [ha, hr] at h
        subst h
        exact .cons ha (npoAirs_forall₂ hr)

theorem npoAir_registered {reg : List Plugin} {e : Entry} {a : AirDesc} (h : npoAir reg e = some a) :
    ∃ p, findPlugin reg e.op = some p := by
  unfold npoAir at h
  cases hf : findPlugin reg e.op with
  | none => simp [hf] at h
  | some p => exact ⟨p, rfl⟩

/-- The dynamic tables verified are exactly the proof's entries, in entry order, each through a
registered plug-in; no table is added, dropped or reordered by the verifier. -/
theorem table_set_bound {exp : Expected} {reg : List Plugin} {m : Meta} {s : Sys}
    (h : sysOf exp reg m = some s) :
    ∃ prim dyn, s.airs = prim ++ dyn ∧ prim.length = 3 ∧
      List.Forall₂ (fun e a => npoAir reg e = some a ∧ ∃ p, findPlugin reg e.op = some p) m.entries dyn := by
  unfold sysOf at h
  cases hc : checkMeta exp m with
  | error e => simp [hc] at h
  | ok u =>
    simp only [hc] at h
    cases hr : resolve exp.d exp.w m.quintic with
    | none => simp [hr] at h
    | some red =>
      simp only [hr] at h
      unfold airsOf at h
      cases hn : npoAirs reg m.entries with
      | none => simp [hn] at h
      | some dyn =>
        simp only [hn, Option.map_some, Option.some.injEq] at h
        refine ⟨[.const m.d, .pub m.d m.packing.publicLanes, .alu m.d m.packing.aluLanes m.packing.hornerK red], dyn, ?_, rfl, ?_⟩
        · rw [← h]; rfl
        · exact (npoAirs_forall₂ hn).imp fun _ _ hh => ⟨hh, npoAir_registered hh⟩

/-! ### fields that cannot matter -/

/-- The part of the metadata `verify` can depend on once `validate` passes. -/
def relevant (m : Meta) :=
  (m.packing.publicLanes, m.packing.aluLanes, m.packing.hornerK, m.d, m.w, m.quintic,
    m.entries.map (fun e => (e.op, e.lanes, e.pvs)), m.common)

theorem npoAirs_congr {reg : List Plugin} : ∀ {es es' : List Entry},
    es.map (fun e => (e.op, e.lanes, e.pvs)) = es'.map (fun e => (e.op, e.lanes, e.pvs)) →
    npoAirs reg es = npoAirs reg es'
  | [], [], _ => rfl
  | [], _ :: _, h => by simp at h
  | _ :: _, [], h => by simp at h
  | e :: es, e' :: es', h => by
    simp only [List.map_cons, List.cons.injEq, Prod.mk.injEq] at h
    obtain ⟨⟨ho, hl, _⟩, ht⟩ := h
    have ih := npoAirs_congr (reg := reg) ht
    have : npoAir reg e = npoAir reg e' := by unfold npoAir; rw [ho, hl]
    unfold npoAirs
    rw [this, ih]

theorem pvs_congr : ∀ {es es' : List Entry},
    es.map (fun e => (e.op, e.lanes, e.pvs)) = es'.map (fun e => (e.op, e.lanes, e.pvs)) →
    es.map (·.pvs) = es'.map (·.pvs)
  | [], [], _ => rfl
  | [], _ :: _, h => by simp at h
  | _ :: _, [], h => by simp at h
  | e :: es, e' :: es', h => by
    simp only [List.map_cons, List.cons.injEq, Prod.mk.injEq] at h
    obtain ⟨⟨_, _, hp⟩, ht⟩ := h
    simp only [List.map_cons, hp, pvs_congr ht]

/-- `rows`, `min_trace_height`, `alu_variant`, `table_packing.npo_lanes`, per-entry `rows` and
per-entry `air_variant` (all the fields outside `relevant`) cannot influence the verdict of two
records that both pass `validate`: class (c) of the design. -/
theorem irrelevant_fields (crypto : Sys → Bool) (body : Body) (exp : Expected) (reg : List Plugin)
    {m m' : Meta} (hv : validate m = .ok ()) (hv' : validate m' = .ok ()) (hrel : relevant m = relevant m') :
    verify crypto body exp reg m = verify crypto body exp reg m' := by
  simp only [relevant, Prod.mk.injEq] at hrel
  obtain ⟨hpl, hal, hk, hd, hw, hq, hes, hcm⟩ := hrel
  have hcheck : checkMeta exp m = checkMeta exp m' := by
    unfold checkMeta
    simp only [hv, hv', hd, hw, hq]
  have hairs : ∀ red, airsOf reg red m = airsOf reg red m' := by
    intro red
    unfold airsOf
    rw [npoAirs_congr hes, hpl, hal, hk, hd]
  unfold verify
  rw [hcheck, hq]
  cases checkMeta exp m' with
  | error e => rfl
  | ok u =>
    simp only
    cases resolve exp.d exp.w m'.quintic with
    | none => rfl
    | some red =>
      simp only [hairs red, pvs_congr hes, hcm]

/-! ### widths determine the packing -/

/-- For a fixed degree, the (main, preprocessed) widths of the ALU AIR determine `(lanes, K)`. -/
theorem alu_sig_injective {d l l' k k' : Nat} {r r' : Red} (hd : 0 < d) (hk : 2 ≤ k) (hk' : 2 ≤ k')
    (hm : (AirDesc.alu d l k r).mainW = (AirDesc.alu d l' k' r').mainW)
    (hp : (AirDesc.alu d l k r).prepW = (AirDesc.alu d l' k' r').prepW) : l = l' ∧ k = k' := by
  simp only [AirDesc.mainW, AirDesc.prepW, hornerExtraMain, hornerExtraPrep] at hm hp
  have h1 : (4 * l + ((k - 1) / 2 + 2 * (k - 1) + 1)) * d = (4 * l' + ((k' - 1) / 2 + 2 * (k' - 1) + 1)) * d := by
    have e1 : (4 * l + ((k - 1) / 2 + 2 * (k - 1) + 1)) * d = l * (4 * d) + ((k - 1) / 2 + 2 * (k - 1) + 1) * d := by ring
    have e2 : (4 * l' + ((k' - 1) / 2 + 2 * (k' - 1) + 1)) * d = l' * (4 * d) + ((k' - 1) / 2 + 2 * (k' - 1) + 1) * d := by ring
    rw [e1, e2]; exact hm
  have h2 := Nat.eq_of_mul_eq_mul_right hd h1
  omega

/-- The main width alone does *not* determine the ALU packing (the collision recorded in `Witness/C16`). -/
example : (AirDesc.alu 1 3 2 .base).mainW = (AirDesc.alu 1 1 5 .base).mainW := by decide

theorem public_sig_injective {d l l' : Nat} (hd : 0 < d)
    (hm : (AirDesc.pub d l).mainW = (AirDesc.pub d l').mainW) : l = l' := by
  simp only [AirDesc.mainW] at hm
  exact Nat.eq_of_mul_eq_mul_right hd hm

/-- Declared preprocessed widths are exactly what the rebuilt AIRs read. -/
def PrepExact (s : Sys) : Prop := declaredWidths s.common s.airs.length = s.airs.map AirDesc.prepW

/-- Distinct plug-in tables (or one lane-dependent table at different lane counts) are
distinguishable by their widths. -/
def PluginsSeparated (reg : List Plugin) : Prop :=
  ∀ e e' a a', npoAir reg e = some a → npoAir reg e' = some a' →
    a.mainW = a'.mainW → a.prepW = a'.prepW → a = a'

theorem validate_facts {m : Meta} (h : validate m = .ok ()) : 1 ≤ m.d ∧ 2 ≤ m.packing.hornerK := by
  unfold validate at h
  simp only [bind, Except.bind, pure, Except.pure, throw, throwThe, MonadExceptOf.throw] at h
  split_ifs at h with h1 _ _ _ _ _ h7
  refine ⟨?_, by omega⟩
  by_cases hz : m.d = 0
  · rw [hz] at h1; simp [supportedDegree] at h1
  · omega

theorem shapeStage_none {s : Sys} {body : Body} (h : shapeStage s body = none) :
    PrepExact s ∧ s.airs.map AirDesc.mainW = body.mainW ∧
      declaredWidths s.common s.airs.length = body.prepOpened := by
  unfold shapeStage at h
  simp only at h
  split_ifs at h with h0 _ _ _ _ h5 h6
  exact ⟨by simpa [PrepExact] using h0, by simpa using h5, by simpa using h6⟩

/-- Fix of F-C16-1: every system that gets past the declared-width check of `verify` has declared
preprocessed widths equal to the widths its AIRs read. -/
theorem prep_exact_enforced {s : Sys} {body : Body} (h : shapeStage s body = none) : PrepExact s :=
  (shapeStage_none h).1

theorem underDeclared_exact : ∀ (airs : List AirDesc), underDeclared airs (airs.map AirDesc.prepW) = false
  | [] => rfl
  | a :: as => by simp [underDeclared, underDeclared_exact as]

theorem shapeStage_ne_panic (s : Sys) (body : Body) : shapeStage s body ≠ some .panic := by
  unfold shapeStage
  simp only
  split_ifs with h0 _ _ hu <;> simp
  -- the only `panic` branch: widths are exact (h0) and yet some AIR is under-declared (hu)
  have h0' : declaredWidths s.common s.airs.length = s.airs.map AirDesc.prepW := by simpa using h0
  rw [h0', underDeclared_exact] at hu
  exact absurd hu (by simp)

/-- With the declared-width check in place the verifier never panics on metadata: every
outcome is `accept`, a metadata error, `unknown-op` or `reject`. -/
theorem verify_never_panics (crypto : Sys → Bool) (body : Body) (exp : Expected) (reg : List Plugin) (m : Meta) :
    verify crypto body exp reg m ≠ .panic := by
  unfold verify
  cases checkMeta exp m with
  | error e => simp
  | ok u =>
    simp only
    cases resolve exp.d exp.w m.quintic with
    | none => simp
    | some red =>
      simp only
      cases airsOf reg red m with
      | none => simp
      | some airs =>
        simp only
        cases hs : shapeStage ⟨airs, List.replicate 3 [] ++ m.entries.map (·.pvs), m.common⟩ body with
        | some v =>
          simp only
          intro hv
          exact shapeStage_ne_panic _ body (by rw [hs, hv])
        | none =>
          simp only
          split <;> simp

theorem dyn_determined {reg : List Plugin} (hreg : PluginsSeparated reg) :
    ∀ {es es' : List Entry} {dyn dyn' : List AirDesc},
      List.Forall₂ (fun e a => npoAir reg e = some a) es dyn →
      List.Forall₂ (fun e a => npoAir reg e = some a) es' dyn' →
      dyn.map AirDesc.mainW = dyn'.map AirDesc.mainW → dyn.map AirDesc.prepW = dyn'.map AirDesc.prepW →
      dyn = dyn'
  | _, _, [], [], _, _, _, _ => rfl
  | _, _, [], _ :: _, _, _, h, _ => by simp at h
  | _, _, _ :: _, [], _, _, h, _ => by simp at h
  | _, _, a :: as, a' :: as', .cons ha hf, .cons ha' hf', hm, hp => by
    simp only [List.map_cons, List.cons.injEq] at hm hp
    rw [hreg _ _ _ _ ha ha' hm.1 hp.1, dyn_determined hreg hf hf' hm.2 hp.2]

/-- For a fixed verifier and a fixed proof body, at most one AIR list passes the metadata and
shape checks (plug-in tables separated by width). Full-strength statement: the former hypothesis
`PrepExact` is now enforced by `verify` (`prep_exact_enforced`). -/
theorem airs_determined {exp : Expected} {reg : List Plugin} {body : Body} {m m' : Meta} {s s' : Sys}
    (h : sysOf exp reg m = some s) (h' : sysOf exp reg m' = some s')
    (hs : shapeStage s body = none) (hs' : shapeStage s' body = none)
    (hreg : PluginsSeparated reg) : s.airs = s'.airs := by
  obtain ⟨he, hm, hp⟩ := shapeStage_none hs
  obtain ⟨he', hm', hp'⟩ := shapeStage_none hs'
  have hmain : s.airs.map AirDesc.mainW = s'.airs.map AirDesc.mainW := hm.trans hm'.symm
  have hprep : s.airs.map AirDesc.prepW = s'.airs.map AirDesc.prepW := by
    rw [← he, ← he', hp, hp']
  -- structure of both lists
  have struct : ∀ {m : Meta} {s : Sys}, sysOf exp reg m = some s →
      ∃ red dyn, 1 ≤ exp.d ∧ 2 ≤ m.packing.hornerK ∧ resolve exp.d exp.w exp.quintic = some red ∧
        s.airs = .const exp.d :: .pub exp.d m.packing.publicLanes :: .alu exp.d m.packing.aluLanes m.packing.hornerK red :: dyn ∧
        List.Forall₂ (fun e a => npoAir reg e = some a) m.entries dyn := by
    intro m s h
    unfold sysOf at h
    cases hc : checkMeta exp m with
    | error e => simp [hc] at h
    | ok u =>
      obtain ⟨hv, hd, _, hq⟩ := checkMeta_ok hc
      obtain ⟨hd1, hk2⟩ := validate_facts hv
      simp only [hc] at h
      cases hr : resolve exp.d exp.w m.quintic with
      | none => simp [hr] at h
      | some red =>
        simp only [hr] at h
        unfold airsOf at h
        cases hn : npoAirs reg m.entries with
        | none => simp [hn] at h
        | some dyn =>
          simp only [hn, Option.map_some, Option.some.injEq] at h
          refine ⟨red, dyn, hd ▸ hd1, hk2, by rw [← hq]; exact hr, by rw [← h, hd], npoAirs_forall₂ hn⟩
  obtain ⟨red, dyn, hd1, hk, hr, ha, hf⟩ := struct h
  obtain ⟨red', dyn', _, hk', hr', ha', hf'⟩ := struct h'
  have hred : red = red' := by rw [hr] at hr'; exact Option.some.inj hr'
  subst hred
  rw [ha, ha'] at hmain hprep
  simp only [List.map_cons, List.cons.injEq] at hmain hprep
  obtain ⟨_, hpm, ham, hdm⟩ := hmain
  obtain ⟨_, _, hap, hdp⟩ := hprep
  have hpl := public_sig_injective (by omega) hpm
  obtain ⟨hal, hkk⟩ := alu_sig_injective (by omega) hk hk' ham hap
  rw [ha, ha', hpl, hal, hkk, dyn_determined hreg hf hf' hdm hdp]

/-! ### no alteration turns a rejected proof into an accepted one -/

/-- Ideal cryptographic layer for a body produced for `s0`: it verifies against no other
(constraint system, public values, preprocessed binding). Under it, if the unaltered proof is
not accepted then no metadata whatsoever is accepted with the same body. -/
theorem no_accept_flip (crypto : Sys → Bool) (body : Body) (exp : Expected) (reg : List Plugin)
    (orig alt : Meta) (s0 : Sys) (h0 : sysOf exp reg orig = some s0)
    (hideal : ∀ s, crypto s = true → s = s0)
    (hbase : verify crypto body exp reg orig ≠ .accept) :
    verify crypto body exp reg alt ≠ .accept := by
  intro hacc
  obtain ⟨s, _, hshape, hcr⟩ := (accept_iff_crypto crypto body exp reg alt).1 hacc
  have hs : s = s0 := hideal s hcr
  subst hs
  exact hbase ((accept_iff_crypto crypto body exp reg orig).2 ⟨s, h0, hshape, hcr⟩)

/-- non-vacuity of `hideal`: the driver's instantiation -/
example (s0 : Sys) (b : Bool) : ∀ s, (decide (s = s0) && b) = true → s = s0 := by
  intro s h; simp at h; exact h.1

/-! ### serialization -/

theorem pRep_flatMap {α} (p : Parser α) (enc : α → List Nat) :
    ∀ (l : List α), (∀ a ∈ l, ∀ rest, p (enc a ++ rest) = some (a, rest)) →
      ∀ rest, pRep p l.length (l.flatMap enc ++ rest) = some (l, rest)
  | [], _, rest => by simp [pRep]
  | a :: as, h, rest => by
    have ha := h a (by simp) (as.flatMap enc ++ rest)
    have ih := pRep_flatMap p enc as (fun x hx => h x (by simp [hx])) rest
    simp only [List.flatMap_cons, List.length_cons, List.append_assoc, pRep, ha, ih]

theorem pList_enc {α} (p : Parser α) (enc : α → List Nat) (l : List α)
    (h : ∀ a ∈ l, ∀ rest, p (enc a ++ rest) = some (a, rest)) (rest : List Nat) :
    pList p (encList enc l ++ rest) = some (l, rest) := by
  simp only [pList, encList, List.cons_append, pNat]
  exact pRep_flatMap p enc l h rest

theorem pNat_enc (x : Nat) (rest : List Nat) : pNat ([x] ++ rest) = some (x, rest) := rfl

theorem pNats_enc (l : List Nat) (rest : List Nat) : pList pNat (encList (fun x => [x]) l ++ rest) = some (l, rest) :=
  pList_enc pNat _ l (fun a _ r => pNat_enc a r) rest

theorem pName_enc (n : Name) (rest : List Nat) : pName (encName n ++ rest) = some (n, rest) := by
  have := pNats_enc n rest
  simp only [encList, List.flatMap_singleton'] at this
  simpa [pName, encName] using this

theorem pOpt_enc {α} (p : Parser α) (enc : α → List Nat) (o : Option α)
    (h : ∀ a, o = some a → ∀ rest, p (enc a ++ rest) = some (a, rest)) (rest : List Nat) :
    pOpt p (encOpt enc o ++ rest) = some (o, rest) := by
  cases o with
  | none => rfl
  | some a => simp [encOpt, pOpt, h a rfl rest]

theorem pPair_enc (e : Name × Nat) (rest : List Nat) : pPair ((encName e.1 ++ [e.2]) ++ rest) = some (e, rest) := by
  simp only [pPair, List.append_assoc, pName_enc, pNat_enc]

theorem pBool_enc (b : Bool) (rest : List Nat) : pBool (encBool b ++ rest) = some (b, rest) := by
  cases b <;> rfl

theorem pPacking_enc (p : Packing) (rest : List Nat) : pPacking (encPacking p ++ rest) = some (p, rest) := by
  have hl := pList_enc pPair (fun e => encName e.1 ++ [e.2]) p.npoLanes (fun e _ r => pPair_enc e r)
  simp only [pPacking, encPacking, List.append_assoc, List.cons_append, List.nil_append, pNat, hl]

theorem pEntry_enc (e : Entry) (rest : List Nat) : pEntry (encEntry e ++ rest) = some (e, rest) := by
  simp only [pEntry, encEntry, List.append_assoc, pName_enc, List.cons_append, List.nil_append, pNat, pNats_enc]

theorem pInst_enc (i : InstMeta) (rest : List Nat) : pInst (encInst i ++ rest) = some (i, rest) := rfl

theorem pDigest_enc (n : Nat) (dg : List Nat) (h : dg.length = n) (rest : List Nat) :
    pRep pNat n (dg ++ rest) = some (dg, rest) := by
  have := pRep_flatMap pNat (fun x => [x]) dg (fun a _ r => pNat_enc a r) rest
  simpa [h, List.flatMap_singleton'] using this

theorem pCommon_enc (n : Nat) (c : Common) (h : ∀ dg ∈ c.commitment, dg.length = n) (rest : List Nat) :
    pCommon n (encCommon c ++ rest) = some (c, rest) := by
  have h1 := pList_enc (pRep pNat n) id c.commitment (fun dg hdg r => pDigest_enc n dg (h dg hdg) r)
  have h2 := pList_enc (pOpt pInst) (encOpt encInst) c.instances
    (fun o _ r => pOpt_enc pInst encInst o (fun a _ r' => pInst_enc a r') r)
  simp only [pCommon, encCommon, List.append_assoc, h1, h2, pNats_enc]

/-- `deserialize (serialize m) = m`, on every field, for every metadata record (the digest
length is a constant of the commitment type). -/
theorem serde_roundtrip (n : Nat) (m : Meta)
    (h : ∀ c, m.common = some c → ∀ dg ∈ c.commitment, dg.length = n) (rest : List Nat) :
    decodeMeta n (encodeMeta m ++ rest) = some (m, rest) := by
  have hE := pList_enc pEntry encEntry m.entries (fun e _ r => pEntry_enc e r)
  have hC := pOpt_enc (pCommon n) encCommon m.common (fun c hc r => pCommon_enc n c (h c hc) r)
  have hW := pOpt_enc pNat (fun x => [x]) m.w (fun a _ r => pNat_enc a r)
  simp only [decodeMeta, encodeMeta, List.append_assoc, pPacking_enc, List.cons_append, List.nil_append, pNat,
    hW, pBool_enc, hE, hC]

/-- Consequence: a metadata record that survives a round trip is verified identically. -/
theorem serde_preserves_verdict (crypto : Sys → Bool) (body : Body) (exp : Expected) (reg : List Plugin)
    (n : Nat) (m m' : Meta) (h : ∀ c, m.common = some c → ∀ dg ∈ c.commitment, dg.length = n)
    (hd : decodeMeta n (encodeMeta m) = some (m', [])) :
    verify crypto body exp reg m' = verify crypto body exp reg m := by
  have := serde_roundtrip n m h []
  simp only [List.append_nil] at this
  rw [this] at hd
  cases hd; rfl

end P3R.C16

#print axioms P3R.C16.field_params_bound
#print axioms P3R.C16.reduction_verifier_chosen
#print axioms P3R.C16.missing_w_unreachable
#print axioms P3R.C16.table_set_bound
#print axioms P3R.C16.accept_iff_crypto
#print axioms P3R.C16.irrelevant_fields
#print axioms P3R.C16.alu_sig_injective
#print axioms P3R.C16.public_sig_injective
#print axioms P3R.C16.airs_determined
#print axioms P3R.C16.prep_exact_enforced
#print axioms P3R.C16.verify_never_panics
#print axioms P3R.C16.no_accept_flip
#print axioms P3R.C16.serde_roundtrip
#print axioms P3R.C16.serde_preserves_verdict
