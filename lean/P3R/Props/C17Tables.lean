/-
C17 — the chaining condition on a backend's table lists (model `P3R.Model.Tables`).

The output of step k is a valid input of step k+1 iff the verifier-side table list of step k+1
(`non_primitive_provers(D)`, all of it) equals the prover-side table list of step k (the provers
that found a trace in step k's verification circuit):

* `accepts_iff` — the two comparisons of `verify_p3_batch_proof_circuit` are list equality;
* `accepts_carried_iff` — a layer output is accepted iff every listed prover found a trace
  (`carried` is a sublist of the prover list: it is equal iff nothing was dropped);
* `runChain_isSome_iff` (chain theorem) — `base → layer 1 → … → layer n` goes through iff the
  condition holds at every step but the last; `chain_ok` / `chain_refused` are its two halves in
  the form the check uses; `chain_output` — the tables of the final proof;
* `agg_ok_iff` — an aggregation step is built iff both children are accepted;
* `base_always_ok` — the first layer over a base proof is never refused on these grounds (why a
  wrong list is invisible at depth 1);
* `airList_singletons` — builders that accept exactly the provers' op types, in order, give an
  AIR list aligned with the prover list.

Correspondence: harness `c17_deg.rs`, lines `tabs` (real plugins on the real verification circuit
of every configuration the library offers: D = 2, 4, 5 × Poseidon2 / Poseidon1 challenger ×
recompose NPO on / off) and `tabsacc` (real `build_verifier_circuit` on real layer outputs),
answered by `p3r_driver_c17` with `carried`, `airList`, `accepts`.
-/
import P3R.Model.Tables

namespace P3R.C17Tables
open P3R.Tables

variable {α : Type} [DecidableEq α]

theorem zip_all_eq_iff : ∀ (t p : List α), t.length = p.length →
    ((t.zip p).all (fun q => q.1 == q.2) = true ↔ t = p)
  | [], [], _ => by simp
  | [], _ :: _, h => by simp at h
  | _ :: _, [], h => by simp at h
  | a :: t, b :: p, h => by
    have hl : t.length = p.length := by simpa using h
    have ih := zip_all_eq_iff t p hl
    simp only [List.zip_cons_cons, List.all_cons, Bool.and_eq_true, beq_iff_eq, List.cons.injEq]
    exact and_congr Iff.rfl ih

/-- Length + pairwise op-type comparison = equality of the two lists. -/
theorem accepts_iff (provers tabs : List α) : accepts provers tabs = true ↔ tabs = provers := by
  unfold accepts
  constructor
  · intro h
    simp only [Bool.and_eq_true, beq_iff_eq] at h
    exact (zip_all_eq_iff tabs provers h.1).1 h.2
  · intro h
    subst h
    simp only [Bool.and_eq_true, beq_iff_eq, true_and]
    exact (zip_all_eq_iff tabs tabs rfl).2 rfl

/-- The proof of a layer is accepted by the next step iff no listed prover was dropped. -/
theorem accepts_carried_iff (provers : List α) (traced : α → Bool) :
    accepts provers (carried provers traced) = true ↔ ∀ p ∈ provers, traced p = true := by
  rw [accepts_iff]
  unfold carried
  exact List.filter_eq_self

theorem buildOk_base (provers : List α) : buildOk provers (.base : Proof α) = true := by
  simp [buildOk, expected, Proof.tabs, accepts]

theorem buildOk_layer_iff (provers : List α) (traced : α → Bool) :
    buildOk provers (.layer (carried provers traced)) = true ↔ ∀ p ∈ provers, traced p = true := by
  simp only [buildOk, expected, Proof.tabs]
  exact accepts_carried_iff provers traced

/-- The first layer over a base proof is built whatever the lists say. -/
theorem base_always_ok (provers : List α) (traced : α → Bool) :
    stepLayer provers traced [.base] = some (.layer (carried provers traced)) := by
  simp [stepLayer, buildOk_base]

/-- An aggregation step is built iff both children are accepted. -/
theorem agg_ok_iff (provers : List α) (traced : α → Bool) (l r : Proof α) :
    (stepLayer provers traced [l, r]).isSome = true ↔
      buildOk provers l = true ∧ buildOk provers r = true := by
  unfold stepLayer
  by_cases h : ([l, r].all (buildOk provers)) = true
  · rw [if_pos h]; simp at h; simpa using h
  · rw [if_neg h]; simp at h; simp; intro hl; exact h hl

theorem runChain_from_ok : ∀ (provers : List α) (trs : List (α → Bool)) (pf : Proof α),
    buildOk provers pf = true →
    ((runChain provers pf trs).isSome = true ↔
      ∀ tr ∈ trs.dropLast, ∀ p ∈ provers, tr p = true)
  | provers, [], pf, _ => by simp [runChain]
  | provers, [tr], pf, h => by
    simp [runChain, stepLayer, h]
  | provers, tr :: tr2 :: rest, pf, h => by
    have hs : stepLayer provers tr [pf] = some (.layer (carried provers tr)) := by
      simp [stepLayer, h]
    rw [runChain, hs]
    by_cases hc : ∀ p ∈ provers, tr p = true
    · have hb := (buildOk_layer_iff provers tr).2 hc
      show (runChain provers (.layer (carried provers tr)) (tr2 :: rest)).isSome = true ↔ _
      rw [runChain_from_ok provers (tr2 :: rest) _ hb]
      simp only [List.dropLast_cons_cons, List.mem_cons, forall_eq_or_imp]
      exact ⟨fun h2 => ⟨hc, h2⟩, fun h2 => h2.2⟩
    · have hb : buildOk provers (.layer (carried provers tr)) = false := by
        cases hbo : buildOk provers (.layer (carried provers tr)) with
        | false => rfl
        | true => exact absurd ((buildOk_layer_iff provers tr).1 hbo) hc
      have hn : runChain provers (.layer (carried provers tr)) (tr2 :: rest) = none := by
        simp [runChain, stepLayer, hb]
      show (runChain provers (.layer (carried provers tr)) (tr2 :: rest)).isSome = true ↔ _
      rw [hn]
      simp only [List.dropLast_cons_cons, List.mem_cons, forall_eq_or_imp]
      constructor
      · intro h2; simp at h2
      · intro h2; exact absurd h2.1 hc

/-- **Chain theorem.** `base → layer 1 → … → layer n` (step k over a verification circuit with
trace predicate `trs[k]`) is never refused iff at every step but the last all listed provers find
a trace, i.e. iff the prover-side table list of step k equals the verifier-side list of step k+1. -/
theorem runChain_isSome_iff (provers : List α) (trs : List (α → Bool)) :
    (runChain provers .base trs).isSome = true ↔
      ∀ tr ∈ trs.dropLast, ∀ p ∈ provers, tr p = true :=
  runChain_from_ok provers trs .base (buildOk_base provers)

/-- Sufficiency, in the form the check uses: the chaining condition at every step. -/
theorem chain_ok (provers : List α) (trs : List (α → Bool))
    (h : ∀ tr ∈ trs, ∀ p ∈ provers, tr p = true) :
    (runChain provers .base trs).isSome = true :=
  (runChain_isSome_iff provers trs).2 fun tr htr => h tr (List.dropLast_subset trs htr)

/-- Necessity: a step whose proof drops a listed prover makes the next step fail. -/
theorem chain_refused (provers : List α) (tr tr2 : α → Bool) (rest : List (α → Bool))
    (h : ∃ p ∈ provers, tr p = false) :
    runChain provers .base (tr :: tr2 :: rest) = none := by
  have := (runChain_isSome_iff provers (tr :: tr2 :: rest))
  cases hr : runChain provers .base (tr :: tr2 :: rest) with
  | none => rfl
  | some o =>
    rw [hr] at this
    have hall := this.1 rfl tr (by simp)
    obtain ⟨p, hp, hf⟩ := h
    rw [hall p hp] at hf
    exact absurd hf (by simp)

/-- Under the chaining condition every layer output carries exactly the backend's prover list. -/
theorem chain_output : ∀ (provers : List α) (trs : List (α → Bool)) (pf : Proof α),
    buildOk provers pf = true → trs ≠ [] →
    (∀ tr ∈ trs, ∀ p ∈ provers, tr p = true) →
    runChain provers pf trs = some (.layer provers)
  | provers, [], _, _, hne, _ => absurd rfl hne
  | provers, tr :: rest, pf, h, _, hall => by
    have htr : ∀ p ∈ provers, tr p = true := hall tr (by simp)
    have hcar : carried provers tr = provers := List.filter_eq_self.2 htr
    have hs : stepLayer provers tr [pf] = some (.layer provers) := by
      simp [stepLayer, h, hcar]
    rw [runChain, hs]
    cases rest with
    | nil => simp [runChain]
    | cons tr2 r =>
      have hb : buildOk provers (.layer provers) = true := by
        have := (buildOk_layer_iff provers tr).2 htr
        rwa [hcar] at this
      exact chain_output provers (tr2 :: r) _ hb (by simp)
        (fun t ht => hall t (List.mem_cons_of_mem _ ht))

omit [DecidableEq α] in
/-- Air builders that accept exactly the provers' op types, one each and in order, commit an AIR
list aligned with the prover list. -/
theorem airList_singletons (provers : List α) : airList (provers.map fun p => [p]) = provers := by
  induction provers with
  | nil => rfl
  | cons a t ih =>
    simp only [airList, List.map_cons, List.filterMap_cons, List.head?_cons] at ih ⊢
    rw [ih]

end P3R.C17Tables
