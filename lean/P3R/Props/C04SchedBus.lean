/-
C04 — the bus of the scheduled ALU table: the PACKED form `schedBus` (what `aluInteractions` declares
on the scheduled rows: a packed row sends ONE `b` tuple with the summed multiplicity, the last step's
`out`, the later steps' `(a, c)` pairs, and nothing for the silent intermediate outputs) nets, on every
`(slot, v_0 … v_{D−1})` tuple, what the unpacked cell list `schedCells` of `Props/C04Sched` nets.
`scheduled_accepted_sat_bus` is `scheduled_accepted_sat` with hypothesis (b) stated on `schedBus`.
-/
import P3R.Props.C04Sched

set_option linter.unusedSectionVars false
set_option linter.unusedVariables false

namespace P3R.C04
open P3R P3R.C09 P3R.C11

section BusV
variable {V : Type} [DecidableEq V]

/-- The interaction of one operand occurrence, total in the role (a skipped operand: multiplicity 0). -/
def inter1 (reads : List (ℕ × ℕ)) (c : Cell V) : Inter V :=
  ⟨c.slot, c.val, eventMult reads (c.slot, c.role)⟩

theorem tupleNet_busOf (reads : List (ℕ × ℕ)) (cells : List (Cell V)) (s : ℕ) (v : V) :
    tupleNet (busOf reads cells) s v = tupleNet (cells.map (inter1 reads)) s v := by
  induction cells with
  | nil => rfl
  | cons c cs ih =>
    unfold busOf at ih ⊢
    rw [List.map_cons, tupleNet_cons_gen, ← ih]
    cases hr : c.role with
    | skip =>
      rw [List.filterMap_cons_none (by simp [interOf, hr])]
      simp [inter1, eventMult, hr]
    | reader =>
      rw [List.filterMap_cons_some (b := ⟨c.slot, c.val, -1⟩) (by simp [interOf, hr]), tupleNet_cons_gen]
      simp [inter1, eventMult, hr]
    | creator =>
      rw [List.filterMap_cons_some (b := ⟨c.slot, c.val, (readsOf reads c.slot : Int)⟩)
        (by simp [interOf, hr]), tupleNet_cons_gen]
      simp [inter1, eventMult, hr]

end BusV

section SchedBus
variable {K L : Type} [Field K] [DecidableEq K] [CommRing L] [DecidableEq L]
  (D lanes kmax : ℕ) (kind : ExtKind K) (Mr : ℕ → List K) (sched : List SchedEntry)

/-- The four interactions of step `t` of the packed row at schedule position `p`. -/
def stepOf (reads : List (ℕ × ℕ)) (ops : List (Op L)) (rl : ℕ → Roles4) (p f k t : ℕ) :
    StepInters (List K) :=
  { a := inter1 reads ⟨opA ((aluOps ops).getD (f + t) dOp), (rl (f + t)).2.1,
          pA D lanes kmax Mr (p / lanes) t⟩
    b := inter1 reads ⟨opB ((aluOps ops).getD (f + t) dOp), (rl (f + t)).2.2.2,
          seg (Mr (p / lanes)) D D⟩
    c := match opC ((aluOps ops).getD (f + t) dOp) with
      | some c => inter1 reads ⟨c, (rl (f + t)).2.2.1, pC D lanes kmax Mr (p / lanes) t⟩
      | none => ⟨0, [], 0⟩
    out := inter1 reads ⟨opOut ((aluOps ops).getD (f + t) dOp), (rl (f + t)).1,
          (if t + 1 = k then seg (Mr (p / lanes)) (3 * D) D
           else chainCells D kind (seg (Mr (p / lanes)) D D) (pA D lanes kmax Mr (p / lanes))
            (pC D lanes kmax Mr (p / lanes)) (seg (Mr (p / lanes - 1)) (3 * D) D) (t + 1))⟩ }

/-- **Interactions of one scheduled entry, as the table declares them** (`aluInteractions` on the
entry's row, multiplicities as signed integers): a single op's operand tuples; for a packed row
`C04.packedInters` — ONE `b` tuple with the summed multiplicity, the last step's `out`, no tuple for
the intermediate outputs. -/
def entryBus (reads : List (ℕ × ℕ)) (ops : List (Op L)) (rl : ℕ → Roles4) (p : ℕ) :
    SchedEntry → List (Inter (List K))
  | .sep => []
  | .op j => (entryCells D lanes kmax kind Mr ops rl p (.op j)).map (inter1 reads)
  | .packed f k => packedInters (stepOf D lanes kmax kind Mr reads ops rl p f k) k

/-- **Hypothesis (b)'s bus**: the other tables' tuples and the scheduled ALU table's, row by row. -/
def schedBus (reads : List (ℕ × ℕ)) (others : List (Cell (List K))) (ops : List (Op L))
    (rl : ℕ → Roles4) : List (Inter (List K)) :=
  busOf reads others ++
    (List.range sched.length).flatMap fun p =>
      entryBus D lanes kmax kind Mr reads ops rl p (entryAt sched p)

theorem step_all_net (reads : List (ℕ × ℕ)) (ops : List (Op L)) (rl : ℕ → Roles4) (p f k t : ℕ)
    (s : ℕ) (v : List K) :
    tupleNet (stepOf D lanes kmax kind Mr reads ops rl p f k t).all s v =
      tupleNet ((opCells ((aluOps ops).getD (f + t) dOp) (rl (f + t))
        (if t + 1 = k then seg (Mr (p / lanes)) (3 * D) D
         else chainCells D kind (seg (Mr (p / lanes)) D D) (pA D lanes kmax Mr (p / lanes))
          (pC D lanes kmax Mr (p / lanes)) (seg (Mr (p / lanes - 1)) (3 * D) D) (t + 1))
        (pA D lanes kmax Mr (p / lanes) t) (pC D lanes kmax Mr (p / lanes) t)
        (seg (Mr (p / lanes)) D D)).map (inter1 reads)) s v := by
  unfold StepInters.all stepOf opCells
  cases opC ((aluOps ops).getD (f + t) dOp) with
  | none =>
    simp only [List.cons_append, List.nil_append, List.append_nil, List.map_cons, List.map_nil,
      tupleNet_cons_gen, show ∀ s (v : List K), tupleNet ([] : List (Inter (List K))) s v = 0 from
        fun _ _ => rfl]
    simp
    ring
  | some c =>
    simp only [List.cons_append, List.nil_append, List.map_cons, List.map_nil,
      tupleNet_cons_gen, show ∀ s (v : List K), tupleNet ([] : List (Inter (List K))) s v = 0 from
        fun _ _ => rfl]
    ring

/-- **The packed bus is tuple-equivalent to the unpacked cells' bus.** Hypothesis `hpk`, per packed
entry `(f, k)`: all `k` steps name the same `b` slot and every step but the last sends its `out` with
multiplicity 0 — the integer-level reading of the scheduler's two tests
(`C11.computeSchedule_tested`: equal `b_idx` columns, `mult_out = 0`). -/
theorem schedBus_equiv (reads : List (ℕ × ℕ)) (others : List (Cell (List K))) (ops : List (Op L))
    (rl : ℕ → Roles4)
    (hpk : ∀ p f k, p < sched.length → entryAt sched p = .packed f k →
      1 ≤ k ∧
      (∀ t, t < k → opB ((aluOps ops).getD (f + t) dOp) = opB ((aluOps ops).getD f dOp)) ∧
      (∀ t, t + 1 < k →
        eventMult reads (opOut ((aluOps ops).getD (f + t) dOp), (rl (f + t)).1) = 0))
    (s : ℕ) (v : List K) :
    tupleNet (schedBus D lanes kmax kind Mr sched reads others ops rl) s v =
      tupleNet (busOf reads (others ++ schedCells D lanes kmax kind Mr sched ops rl)) s v := by
  unfold schedBus
  have happ : busOf reads (others ++ schedCells D lanes kmax kind Mr sched ops rl) =
      busOf reads others ++ busOf reads (schedCells D lanes kmax kind Mr sched ops rl) := by
    unfold busOf; rw [List.filterMap_append]
  rw [happ, tnet_append_gen, tnet_append_gen, tupleNet_busOf reads (schedCells _ _ _ _ _ _ _ _)]
  congr 1
  unfold schedCells
  rw [List.map_flatMap, tupleNet_flatMap_gen, tupleNet_flatMap_gen]
  congr 1
  apply List.map_congr_left
  intro p hp
  have hp' := List.mem_range.mp hp
  cases he : entryAt sched p with
  | sep => rfl
  | op j => rfl
  | packed f k =>
    obtain ⟨hk1, hb, hsil⟩ := hpk p f k hp' he
    simp only [entryBus, entryCells]
    rw [packed_tuple_net_gen _ k hk1 ?_ ?_ s v]
    · unfold unpackedInters
      rw [List.map_flatMap, tupleNet_flatMap_gen, tupleNet_flatMap_gen]
      congr 1
      apply List.map_congr_left
      intro t _
      exact step_all_net D lanes kmax kind Mr reads ops rl p f k t s v
    · intro t ht
      simp only [stepOf, inter1, Nat.add_zero]
      exact ⟨hb t ht, trivial⟩
    · intro t ht
      simp only [stepOf, inter1]
      exact hsil t ht

end SchedBus

section Final
variable {K L : Type} [Field K] [DecidableEq K] [CommRing L] [DecidableEq L]
  (φ : K →+* L) (α : L) (D lanes kmax : ℕ) (kind : ExtKind K) (Mr : ℕ → List K)
  (preps : List (List K)) (sched : List SchedEntry) (H : ℕ)

/-- **C04 — the scheduled ALU table, both acceptance conditions on the committed matrix.**
`scheduled_accepted_sat` with hypothesis (b) stated on the packed bus itself: `schedBus` (other tables'
tuples + per scheduled row what the table declares, packed rows in packed form) balances as a signed
multiset of `(slot, v_0 … v_{D−1})` tuples. Together with (a) `WinOk` — every constraint of
`aluConstraints` vanishes on every window of (prover's main trace, `scheduledPrepRows` of
`computeSchedule preps lanes kmax`) — there is an assignment of extension-ring elements to the witness
slots satisfying EVERY op of the circuit, for every degree `D ≥ 1`, lane count and `K_max`. -/
theorem scheduled_accepted_sat_bus (hD : 0 < D) (hk : KindRoot φ D kind α) (hl : 0 < lanes)
    (pub : ℕ → L) (ops : List (Op L)) (rl : ℕ → Roles4) (reads : List (ℕ × ℕ))
    (hsched : computeSchedule preps lanes kmax = some sched)
    (hH : sched.length ≤ H * lanes)
    (hn : preps.length = (aluOps ops).length)
    (hsel : ∀ j k a b c out io, (aluOps ops)[j]? = some (.alu k a b c out io) → PrepSel preps j k)
    (hshape : ∀ k a b out io, Op.alu k a b none out io ∈ ops → k ≠ .mulAdd ∧ k ≠ .horner)
    (hwf : SchedWF lanes kmax (isHorner preps) sched)
    (hw : WinOk D lanes kmax kind preps sched Mr H)
    (hchain : hornerChained ops = true)
    (hnoskip : ∀ j, (rl j).1 ≠ .skip ∧ (rl j).2.1 ≠ .skip ∧ (rl j).2.2.1 ≠ .skip ∧
      (rl j).2.2.2 ≠ .skip)
    (others : List (Cell (List K)))
    (hcre : ∀ s, nCreators ((others ++ schedCells D lanes kmax kind Mr sched ops rl).map evOf) s ≤ 1)
    (hpk : ∀ p f k, p < sched.length → entryAt sched p = .packed f k →
      1 ≤ k ∧
      (∀ t, t < k → opB ((aluOps ops).getD (f + t) dOp) = opB ((aluOps ops).getD f dOp)) ∧
      (∀ t, t + 1 < k →
        eventMult reads (opOut ((aluOps ops).getD (f + t) dOp), (rl (f + t)).1) = 0))
    (hbal : ∀ s v, tupleNet (schedBus D lanes kmax kind Mr sched reads others ops rl) s v = 0)
    (hconstC : ∀ out v, Op.const out v ∈ ops →
      ∃ c ∈ others, c.slot = out ∧ c.role ≠ .skip ∧ ev φ α D c.val = v)
    (hpubC : ∀ out pos, Op.pub out pos ∈ ops →
      ∃ c ∈ others, c.slot = out ∧ c.role ≠ .skip ∧ ev φ α D c.val = pub pos) :
    ∃ cv : ℕ → List K,
      (∀ c ∈ others ++ schedCells D lanes kmax kind Mr sched ops rl, c.role ≠ .skip →
        c.val = cv c.slot) ∧
      Sat (fun s => ev φ α D (cv s)) pub ops :=
  scheduled_accepted_sat φ α D lanes kmax kind Mr preps sched H hD hk hl pub ops rl reads hsched hH hn
    hsel hshape hwf hw hchain hnoskip others hcre
    (schedBus D lanes kmax kind Mr sched reads others ops rl)
    (schedBus_equiv D lanes kmax kind Mr sched reads others ops rl hpk) hbal hconstC hpubC

/-- **`D = 1` instance** (`K = L`, `φ = id`, base multiplication): cells are field elements. -/
theorem scheduled_accepted_sat_D1 {F : Type} [Field F] [DecidableEq F] (lanes kmax : ℕ)
    (Mr : ℕ → List F) (preps : List (List F)) (sched : List SchedEntry) (H : ℕ) (hl : 0 < lanes)
    (pub : ℕ → F) (ops : List (Op F)) (rl : ℕ → Roles4) (reads : List (ℕ × ℕ))
    (hsched : computeSchedule preps lanes kmax = some sched)
    (hH : sched.length ≤ H * lanes)
    (hn : preps.length = (aluOps ops).length)
    (hsel : ∀ j k a b c out io, (aluOps ops)[j]? = some (.alu k a b c out io) → PrepSel preps j k)
    (hshape : ∀ k a b out io, Op.alu k a b none out io ∈ ops → k ≠ .mulAdd ∧ k ≠ .horner)
    (hwf : SchedWF lanes kmax (isHorner preps) sched)
    (hw : WinOk 1 lanes kmax ExtKind.base preps sched Mr H)
    (hchain : hornerChained ops = true)
    (hnoskip : ∀ j, (rl j).1 ≠ .skip ∧ (rl j).2.1 ≠ .skip ∧ (rl j).2.2.1 ≠ .skip ∧
      (rl j).2.2.2 ≠ .skip)
    (others : List (Cell (List F)))
    (hcre : ∀ s, nCreators ((others ++ schedCells 1 lanes kmax ExtKind.base Mr sched ops rl).map evOf) s ≤ 1)
    (hpk : ∀ p f k, p < sched.length → entryAt sched p = .packed f k →
      1 ≤ k ∧
      (∀ t, t < k → opB ((aluOps ops).getD (f + t) dOp) = opB ((aluOps ops).getD f dOp)) ∧
      (∀ t, t + 1 < k →
        eventMult reads (opOut ((aluOps ops).getD (f + t) dOp), (rl (f + t)).1) = 0))
    (hbal : ∀ s v, tupleNet (schedBus 1 lanes kmax ExtKind.base Mr sched reads others ops rl) s v = 0)
    (hconstC : ∀ out v, Op.const out v ∈ ops →
      ∃ c ∈ others, c.slot = out ∧ c.role ≠ .skip ∧ ev (RingHom.id F) 0 1 c.val = v)
    (hpubC : ∀ out pos, Op.pub out pos ∈ ops →
      ∃ c ∈ others, c.slot = out ∧ c.role ≠ .skip ∧ ev (RingHom.id F) 0 1 c.val = pub pos) :
    ∃ w : ℕ → F, Sat w pub ops := by
  obtain ⟨cv, _, h⟩ := scheduled_accepted_sat_bus (RingHom.id F) (0 : F) 1 lanes kmax ExtKind.base Mr
    preps sched H Nat.one_pos rfl hl pub ops rl reads hsched hH hn hsel hshape hwf hw hchain hnoskip
    others hcre hpk hbal hconstC hpubC
  exact ⟨_, h⟩

end Final

end P3R.C04
