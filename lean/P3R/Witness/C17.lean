/-
C17 — the full-strength statement (★) of `P3R.Props.C17` is false of the current code.

Finding F10 (aggregation cache). Two verification circuits with the same four counters and
different wiring. The replayed real case (`corpus/c17/f10_*.json`) aggregates two proofs of the
AIR `x·x − z` and then, with the same cache variable, two proofs of the AIR `x·y − z`; the two
verification circuits differ exactly in one ALU operand. The Lean witness has the same shape,
reduced to the differing constraint: publics `x y z`, `z = x·x` versus `z = x·y`.
The preprocessed ALU row of the model of `generate_preprocessed_columns` (`P3R.genPrep`,
tied to the Rust by the C09 and C17 correspondence runs) carries the operand indices, so the
preparation data differ while the fingerprints are equal.

Finding F18 (next-layer cache). `prove_next_layer` uses a caller-supplied
`NextLayerPrepCache` without comparing anything.

Observation (not a finding): the key does not read `ProveNextLayerParams`; a hit after a change
of params proves with the stored params (`params_stale`). The proof carries its own packing, so
it still verifies.
-/
import P3R.Model.Cache
import P3R.Props.C17

namespace P3R.Witness.C17
open P3R P3R.Cache

/-- `z = x·x` on publics `x y z` (slots 0 1 2): what `connect(mul(x,x), z)` compiles to. -/
def cXX : Circuit Nat :=
  { witnessCount := 3, ops := #[.pub 0 0, .pub 1 1, .pub 2 2, .mul 0 0 2],
    pubRows := #[0, 1, 2], privRows := #[], e2w := #[], rewrite := [] }

/-- `z = x·y`. -/
def cXY : Circuit Nat :=
  { witnessCount := 3, ops := #[.pub 0 0, .pub 1 1, .pub 2 2, .mul 0 1 2],
    pubRows := #[0, 1, 2], privRows := #[], e2w := #[], rewrite := [] }

/-- The preparation data of a circuit, as far as the primitive tables go: Const indices,
Public indices, ALU rows (kind, operand indices, roles). -/
def prepData (c : Circuit Nat) : Option (List Nat × List Nat × List AluPrep) :=
  (genPrep c).map fun p => (p.consts, p.pubs, p.alu)

/-- **The four-counter fingerprint is not injective**: equal fingerprints, different
preprocessed columns. -/
theorem fingerprint_not_injective :
    fingerprint cXX = fingerprint cXY ∧ prepData cXX ≠ prepData cXY := by
  constructor
  · decide
  · decide +kernel

/-- The history of the replayed case: one cache variable, first call on `cXX`, second on `cXY`. -/
def history : List (Step (Circuit Nat)) := [.agg cXX (some 0), .agg cXY (some 0)]

/-- The second call hits and proves with the data prepared for `cXX`. -/
theorem second_call_uses_stale :
    ((run fingerprint [] history).2.map fun o => (o.hit, prepData o.used)) =
      [(false, prepData cXX), (true, prepData cXX)] := by
  decide +kernel

/-- **Negation of the full statement (★)** for the aggregation cache: from empty cache
variables (`SlotsWF` holds trivially) there is a history on which a call proves with data that
is not the preparation of its own circuit. -/
theorem cache_full_statement_false :
    ¬ ∀ (h : List (Step (Circuit Nat))),
        ((run fingerprint [] h).2.map fun o => prepData o.used) = (uncached h).map prepData := by
  intro hall
  have h := hall history
  rw [show ((run fingerprint [] history).2.map fun o => prepData o.used) =
      [prepData cXX, prepData cXX] by decide +kernel] at h
  have h2 : prepData cXX = prepData cXY := by
    simp only [uncached, history, List.map_cons, List.map_nil, Step.job] at h
    injection h with _ h
    injection h
  exact fingerprint_not_injective.2 h2

/-- The witness falsifies hypothesis `KeyDeterminesPrep` of `cache_refines_uncached_partial`
(and nothing else: no `next` step, empty initial cache). -/
theorem witness_falsifies_key_hypothesis :
    ¬ P3R.C17.KeyDeterminesPrep fingerprint prepData
        (P3R.C17.slotJobs ([] : Slots Fingerprint (Circuit Nat)) ++ uncached history) := by
  intro h
  apply fingerprint_not_injective.2
  apply h cXX cXY
  · simp [uncached, history, Step.job, P3R.C17.slotJobs]
  · simp [uncached, history, Step.job, P3R.C17.slotJobs]
  · exact fingerprint_not_injective.1

/-- **Negation of (★) for `prove_next_layer`**: whatever the key, a caller-supplied
preparation is used as is. There is nothing to compare, so no hypothesis on the key helps;
what is falsified is `CallerPrepsMatch`. -/
theorem next_layer_full_statement_false :
    ¬ ∀ (h : List (Step (Circuit Nat))),
        ((run fingerprint [] h).2.map fun o => prepData o.used) = (uncached h).map prepData := by
  intro hall
  have h := hall [.next cXY (some cXX)]
  have h2 : prepData cXX = prepData cXY := by
    simp only [run, step, uncached, List.map_cons, List.map_nil, Step.job] at h
    injection h
  exact fingerprint_not_injective.2 h2

/-- The same for an arbitrary key and arbitrary jobs: `prove_next_layer` never refuses. -/
theorem next_layer_never_refuses {F J : Type} [DecidableEq F] (key : J → F) (s : Slots F J)
    (job j' : J) : step key s (.next job (some j')) = (s, ⟨true, j'⟩) := rfl

/-- Params are not part of the key: same circuit, changed params, one cache variable — the
second call proves with the params of the first. -/
theorem params_stale :
    (run (fun j : Circuit Nat × Nat => fingerprint j.1) []
        [.agg (cXX, 1) (some 0), .agg (cXX, 2) (some 0)]).2.map (fun o => (o.hit, o.used.2)) =
      [(false, 1), (true, 1)] := by
  decide +kernel

end P3R.Witness.C17

#print axioms P3R.Witness.C17.fingerprint_not_injective
#print axioms P3R.Witness.C17.cache_full_statement_false
#print axioms P3R.Witness.C17.witness_falsifies_key_hypothesis
#print axioms P3R.Witness.C17.next_layer_full_statement_false
#print axioms P3R.Witness.C17.params_stale
